#!/usr/bin/env python3
"""debug helper: tools/mkarc.py <format> [filter] [options] -> /var/tmp/scratch/arc.<format>"""
import sys
sys.path.insert(0,'/verif/lib'); sys.path.insert(0,'/verif/props')
import vlib, readcore
from vlib import vfmt, vparse
fmt=sys.argv[1]; flt=sys.argv[2] if len(sys.argv)>2 else ""; opt=sys.argv[3] if len(sys.argv)>3 else ""
ents = readcore.FLAT_ENTRIES if fmt in ("arbsd","arsvr4","warc","raw") else readcore.STD_ENTRIES
if fmt=="raw": ents=ents[:1]
mk=vlib.compile_harness("mkArchive","plain")
p=vlib.write_cases([vfmt([fmt,flt,opt,512,ents])],"m.cases")
arc=vparse(vlib.run_exe(mk,p)[1][0])[-1]
out="/var/tmp/scratch/arc."+fmt
open(out,"wb").write(arc); print(out,len(arc))
