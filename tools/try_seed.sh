#!/bin/bash
# tools/try_seed.sh <seeded-subdir> <Cnn> [tier]: apply seeded/<subdir>/patch.diff to a scratch worktree of /repo's
# HEAD (outside /repo and /verif), run the check of Cnn against it, remove the worktree and its build output.
d=$1; p=$2; tier=${3:-quick}
wt=/var/tmp/wt/try
git -C /repo worktree remove --force $wt >/dev/null 2>&1; rm -rf $wt
git -C /repo worktree add --detach $wt HEAD >/dev/null 2>&1 || exit 2
if ! git -C $wt apply /verif/seeded/$d/patch.diff; then echo "PATCH DOES NOT APPLY"; git -C /repo worktree remove --force $wt; exit 3; fi
cd /verif && VERIF_REPO=$wt ./check $p --tier $tier 2>&1 | grep -v "WARNING conda" | grep "VIOLATION\|KNOWN" | cut -c1-420
echo "exit=${PIPESTATUS[0]}"
git -C /repo worktree remove --force $wt >/dev/null 2>&1; rm -rf $wt
