#!/bin/bash
# Re-check every compiled property file (and everything it depends on) with Coq's independent checker and
# record the axioms it reports.  Output: /verif/evidence/coqchk/<id>.txt and a summary line per property.
cd /verif/coq || exit 1
mkdir -p /verif/evidence/coqchk
ls Properties_C*.vo 2>/dev/null | sed 's/\.vo$//' | xargs -P 4 -I{} bash -c \
  'timeout 3600 coqchk -o -silent -Q . LA LA.{} > /verif/evidence/coqchk/{}.txt 2>&1; echo "{} rc=$? $(grep -A1 "^\* Axioms" /verif/evidence/coqchk/{}.txt | tr "\n" " ")"' \
  | sort | tee /verif/evidence/coqchk/SUMMARY.txt
