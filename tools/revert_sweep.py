#!/usr/bin/env python3
"""Self-validation: for every repaired defect recorded in known_findings.json, revert the fix commit in a
scratch worktree of /repo (outside /repo and /verif), run the quick check of the property it was recorded
under against that tree (VERIF_REPO), and record whether the check reports a violation and how.
Results: /verif/seeded/reverts.json.  Nothing is changed in /repo."""
import json, re, subprocess, os, sys, shutil, time
V = "/verif"
WT = "/var/tmp/wt/revert"
def sh(cmd, **kw):
    return subprocess.run(cmd, shell=True, stdout=subprocess.PIPE, stderr=subprocess.STDOUT, text=True, **kw)
k = json.load(open(V + "/known_findings.json"))
out_path = V + "/seeded/reverts.json"
done = json.load(open(out_path)) if os.path.exists(out_path) else {}
only = set(sys.argv[1:])
for line in k["fixed"]:
    m = re.match(r"fixed: property=(C\d+) (\w+) (.*)", line)
    pid, commit, what = m.group(1), m.group(2), m.group(3)
    if commit in done or (only and pid not in only and commit not in only):
        continue
    sh("git -C /repo worktree remove --force %s" % WT)
    shutil.rmtree(WT, ignore_errors=True)
    r = sh("git -C /repo worktree add --detach %s HEAD" % WT)
    r = sh("git -C %s revert --no-commit %s" % (WT, commit))
    res = dict(property=pid, commit=commit, what=what[:300])
    if r.returncode != 0:
        res["result"] = "revert-conflict"   # a later fix touches the same lines
        res["detail"] = r.stdout[-300:]
    else:
        t0 = time.time()
        env = dict(os.environ, VERIF_REPO=WT)
        c = subprocess.run(["./check", pid], cwd=V, env=env, stdout=subprocess.PIPE, stderr=subprocess.STDOUT, text=True, timeout=3600)
        viol = [l for l in c.stdout.split("\n") if l.startswith("VIOLATION")]
        res["secs"] = round(time.time() - t0)
        res["rc"] = c.returncode
        res["violations"] = len(viol)
        res["with_failing_input"] = sum(1 for l in viol if not l.rstrip().endswith("no-failing-input-found"))
        res["first"] = viol[0][:400] if viol else ""
        res["result"] = "caught" if viol else "MISSED"
    done[commit] = res
    json.dump(done, open(out_path, "w"), indent=1)
    print(pid, commit, res["result"], res.get("violations"), res.get("with_failing_input"), flush=True)
    sh("git -C /repo worktree remove --force %s" % WT)
    shutil.rmtree(WT, ignore_errors=True)
sh("rm -rf %s/.cache/build-*-????????*" % V)
