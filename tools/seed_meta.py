#!/usr/bin/env python3
"""tools/seed_meta.py <seeded-subdir> <property> <caught_by text> [first_run text]: complete seeded/<subdir>/meta.json"""
import json, sys
d, prop, caught = sys.argv[1:4]
p = "/verif/seeded/%s/meta.json" % d
m = json.load(open(p))
m.update(breaks_property=prop, caught_by=caught, ran="tools/try_seed.sh %s %s" % (d, prop), confirmed=True)
if len(sys.argv) > 4:
    m["first_run"] = sys.argv[4]
json.dump(m, open(p, "w"), indent=1)
