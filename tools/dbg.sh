#!/bin/bash
# usage: dbg.sh <coq-relative file> <line> [maxlines] [g]  : shows the goals just before <line>; 'g' = conclusion only
F="$1"; N="$2"
D=/var/tmp/scratch/dbg.$$; mkdir -p $D
head -n $((N-1)) "/verif/coq/$F" > $D/Dbg.v
echo "Show. Abort." >> $D/Dbg.v
cd /verif/coq && timeout 120 coqc -Q . LA -o $D/Dbg.vo $D/Dbg.v 2>&1 | grep -v "WARNING conda" > $D/out.txt
if [ "$4" = "g" ]; then sed -n '/=====/,$p' $D/out.txt | head -${3:-60}; else head -${3:-60} $D/out.txt; fi
rm -rf $D
