#!/bin/bash
# usage: dbg.sh <coq-relative file> <line>   : shows the goals just before <line>
F="$1"; N="$2"
D=/var/tmp/scratch/dbg; mkdir -p $D
head -n $((N-1)) "/verif/coq/$F" > $D/Dbg.v
echo "Show. Abort." >> $D/Dbg.v
cd /verif/coq && timeout 120 coqc -Q . LA -o $D/Dbg.vo $D/Dbg.v 2>&1 | grep -v "WARNING conda" | tail -${3:-60}
