#!/usr/bin/env python3
"""Regenerates coq/Gen/FsSecConsts.v : constants of the secure-extraction model (C04) from the
current /repo working tree (ARCHIVE_EXTRACT_* option bits, directory mode limits)."""
import sys, os
sys.path.insert(0, os.path.dirname(__file__))
import cdefs

WD = "libarchive/archive_write_disk_posix.c"
SPEC = [
    ("libarchive/archive.h", "ARCHIVE_EXTRACT_OWNER", "EXTRACT_OWNER"),
    ("libarchive/archive.h", "ARCHIVE_EXTRACT_PERM", "EXTRACT_PERM"),
    ("libarchive/archive.h", "ARCHIVE_EXTRACT_TIME", "EXTRACT_TIME"),
    ("libarchive/archive.h", "ARCHIVE_EXTRACT_NO_OVERWRITE", "EXTRACT_NO_OVERWRITE"),
    ("libarchive/archive.h", "ARCHIVE_EXTRACT_UNLINK", "EXTRACT_UNLINK"),
    ("libarchive/archive.h", "ARCHIVE_EXTRACT_SECURE_SYMLINKS", "EXTRACT_SECURE_SYMLINKS"),
    ("libarchive/archive.h", "ARCHIVE_EXTRACT_SECURE_NODOTDOT", "EXTRACT_SECURE_NODOTDOT"),
    ("libarchive/archive.h", "ARCHIVE_EXTRACT_NO_AUTODIR", "EXTRACT_NO_AUTODIR"),
    ("libarchive/archive.h", "ARCHIVE_EXTRACT_SECURE_NOABSOLUTEPATHS", "EXTRACT_SECURE_NOABSOLUTEPATHS"),
    ("libarchive/archive.h", "ARCHIVE_EXTRACT_SAFE_WRITES", "EXTRACT_SAFE_WRITES"),
    (WD, "DEFAULT_DIR_MODE", "DEFAULT_DIR_MODE"),
    (WD, "MINIMUM_DIR_MODE", "MINIMUM_DIR_MODE"),
    (WD, "MAXIMUM_DIR_MODE", "MAXIMUM_DIR_MODE"),
]

def generate():
    lines = [cdefs.coq_header("translators/gen_fsSec.py", sorted(set(s[0] for s in SPEC))),
             "From Coq Require Import NArith.\n"]
    for rel, cname, coqname in SPEC:
        v = cdefs.define_value(rel, cname, {}) & 0xFFFFFFFF
        lines.append("Definition %s : N := (%d)%%N." % (coqname, v))
    return "\n".join(lines) + "\n"

def main():
    out = os.path.join(os.path.dirname(os.path.dirname(os.path.abspath(__file__))), "coq", "Gen", "FsSecConsts.v")
    txt = generate()
    old = open(out).read() if os.path.exists(out) else None
    if old != txt:
        with open(out, "w") as f:
            f.write(txt)

if __name__ == "__main__":
    main()
