#!/usr/bin/env python3
"""Regenerates coq/Gen/FsSecConsts.v : constants of the secure-extraction model (C04) from the
current /repo working tree (ARCHIVE_EXTRACT_* option bits, directory mode limits)."""
import sys, os
sys.path.insert(0, os.path.dirname(__file__))
import cdefs

WD = "libarchive/archive_write_disk_posix.c"
SPEC = [
    ("libarchive/archive.h", "ARCHIVE_EXTRACT_OWNER", "EXTRACT_OWNER"),
    ("libarchive/archive.h", "ARCHIVE_EXTRACT_PERM", "EXTRACT_PERM"),
    ("libarchive/archive.h", "ARCHIVE_EXTRACT_TIME", "EXTRACT_TIME"),
    ("libarchive/archive.h", "ARCHIVE_EXTRACT_NO_OVERWRITE", "EXTRACT_NO_OVERWRITE"),
    ("libarchive/archive.h", "ARCHIVE_EXTRACT_UNLINK", "EXTRACT_UNLINK"),
    ("libarchive/archive.h", "ARCHIVE_EXTRACT_SECURE_SYMLINKS", "EXTRACT_SECURE_SYMLINKS"),
    ("libarchive/archive.h", "ARCHIVE_EXTRACT_SECURE_NODOTDOT", "EXTRACT_SECURE_NODOTDOT"),
    ("libarchive/archive.h", "ARCHIVE_EXTRACT_NO_AUTODIR", "EXTRACT_NO_AUTODIR"),
    ("libarchive/archive.h", "ARCHIVE_EXTRACT_SECURE_NOABSOLUTEPATHS", "EXTRACT_SECURE_NOABSOLUTEPATHS"),
    ("libarchive/archive.h", "ARCHIVE_EXTRACT_SAFE_WRITES", "EXTRACT_SAFE_WRITES"),
    (WD, "DEFAULT_DIR_MODE", "DEFAULT_DIR_MODE"),
    (WD, "MINIMUM_DIR_MODE", "MINIMUM_DIR_MODE"),
    (WD, "MAXIMUM_DIR_MODE", "MAXIMUM_DIR_MODE"),
]

def function_body(src, header_regex):
    """text of the function whose definition line matches header_regex (up to the closing brace in column 0)"""
    import re
    m = re.search(header_regex, src, flags=re.M)
    if not m:
        raise KeyError("function %s not found" % header_regex)
    end = src.find("\n}\n", m.end())
    return src[m.end():end]

def shape_flags():
    """two structural facts about the code that the model follows (so that the model stays faithful
    across the proposed fixes):
      CLOSE_CHECKS_FIXUP_PATH            _archive_write_disk_close walks the fix-up name with
                                         check_symlinks_fsobj before opening it
      HARDLINK_DATA_NONREG_CLEARS_TODO   create_filesystem_object clears a->todo when a hard-link entry
                                         with data was linked to something that is not a regular file"""
    import re
    src = cdefs.strip_comments(cdefs.read(WD))
    close_body = function_body(src, r"^_archive_write_disk_close\(struct archive \*_a\)\s*$")
    cfo_body = function_body(src, r"^create_filesystem_object\(struct archive_write_disk \*a\)\s*$")
    hl = cfo_body.split("archive_entry_symlink(a->entry)")[0]
    f1 = "check_symlinks_fsobj(" in close_body
    f2 = re.search(r"AE_IFREG\)\s*\{.*?\}\s*else\s*\{[^}]*a->todo\s*=\s*0", hl, flags=re.S) is not None
    return f1, f2

def generate():
    lines = [cdefs.coq_header("translators/gen_fsSec.py", sorted(set(s[0] for s in SPEC))),
             "From Coq Require Import NArith.\n"]
    for rel, cname, coqname in SPEC:
        v = cdefs.define_value(rel, cname, {}) & 0xFFFFFFFF
        lines.append("Definition %s : N := (%d)%%N." % (coqname, v))
    f1, f2 = shape_flags()
    lines.append("Definition CLOSE_CHECKS_FIXUP_PATH : bool := %s." % ("true" if f1 else "false"))
    lines.append("Definition HARDLINK_DATA_NONREG_CLEARS_TODO : bool := %s." % ("true" if f2 else "false"))
    return "\n".join(lines) + "\n"

def main():
    out = os.path.join(os.path.dirname(os.path.dirname(os.path.abspath(__file__))), "coq", "Gen", "FsSecConsts.v")
    txt = generate()
    old = open(out).read() if os.path.exists(out) else None
    if old != txt:
        with open(out, "w") as f:
            f.write(txt)

if __name__ == "__main__":
    main()
