#!/usr/bin/env python3
"""Regenerates coq/Gen/SafeWrite.v : which of the four C19 repairs (fixes/C19-*.diff) the tree under
test contains.  The model of coq/FS/SafeWriteDefs.v is parameterised by these booleans; the
correspondence check of props/C19.py runs the model with the same value, so a wrong detection
shows up as a model/implementation disagreement."""
import sys, os, re
sys.path.insert(0, os.path.dirname(__file__))
import cdefs

SRC = "libarchive/archive_write_disk_posix.c"

def function_body(src, name):
    """text of the definition of 'name' (name at the start of a line, or after 'static void '), up to
    the closing '}' in column 0"""
    for m in re.finditer(r"^(?:static void )?" + re.escape(name) + r"\(", src, flags=re.M):
        brace, semi = src.find("{", m.end()), src.find(";", m.end())
        if brace >= 0 and (semi < 0 or brace < semi):
            end = src.find("\n}", brace)
            return cdefs.strip_comments(src[brace:end])
    raise KeyError("no definition of %s in %s" % (name, SRC))

def detect():
    src = cdefs.read(SRC)
    la_mktemp = function_body(src, "la_mktemp")
    close_fd = function_body(src, "close_file_descriptor")
    lazy = function_body(src, "lazy_stat")
    wdb = function_body(src, "write_data_block")
    fin = function_body(src, "_archive_write_disk_finish_entry")
    fix_mktemp = "unlink(a->tmpname)" in la_mktemp
    fix_finish = "unlink(a->tmpname)" in close_fd
    m = re.search(r"if\s*\(\s*a->(\w+)\s*\)\s*\{[^{}]*unlink\(a->tmpname\);\s*\}\s*else\s+if\s*\(rename\(a->tmpname", fin)
    fix_write = bool(m) and ("a->%s = 1" % m.group(1)) in wdb
    fix_lstat = "a->tmpname" in lazy
    return fix_mktemp, fix_finish, fix_write, fix_lstat

def bits():
    f = detect()
    return sum(1 << k for k in range(4) if f[k])

def generate():
    f = detect()
    b = lambda x: "true" if x else "false"
    return "\n".join([
        cdefs.coq_header("translators/gen_safeWrite.py", [SRC]),
        "From LA Require Import FS.SafeWriteDefs.",
        "(* la_mktemp unlinks on fchmod failure; close_file_descriptor unlinks tmpname; a failed body write",
        "   prevents the rename; lazy_stat falls back to tmpname *)",
        "Definition tree_variant : variant := mkVariant %s %s %s %s." % tuple(b(x) for x in f),
        ""])

if __name__ == "__main__":
    out = sys.argv[1] if len(sys.argv) > 1 else os.path.join(os.path.dirname(__file__), "..", "coq", "Gen", "SafeWrite.v")
    txt = generate()
    old = open(out).read() if os.path.exists(out) else None
    if old != txt:
        os.makedirs(os.path.dirname(out), exist_ok=True)
        with open(out, "w") as fh:
            fh.write(txt)
