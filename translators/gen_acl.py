#!/usr/bin/env python3
"""Regenerates coq/Gen/AclConsts.v from the current /repo working tree:
 * the ARCHIVE_ENTRY_ACL_* constants (types, tags, permission bits, inheritance flags, style flags),
 * the two NFSv4 letter tables nfsv4_acl_perm_map / nfsv4_acl_flag_map of archive_acl.c,
 * four booleans that say whether the four repairs proposed in /verif/fixes/C15-*.diff are present
   in the source (textual detection; the correspondence check is what validates the answer)."""
import sys, os, re
sys.path.insert(0, os.path.dirname(__file__))
import cdefs

H = "libarchive/archive_entry.h"
C = "libarchive/archive_acl.c"

NAMES = [
    "EXECUTE", "WRITE", "READ", "READ_DATA", "LIST_DIRECTORY", "WRITE_DATA", "ADD_FILE", "APPEND_DATA",
    "ADD_SUBDIRECTORY", "READ_NAMED_ATTRS", "WRITE_NAMED_ATTRS", "DELETE_CHILD", "READ_ATTRIBUTES",
    "WRITE_ATTRIBUTES", "DELETE", "READ_ACL", "WRITE_ACL", "WRITE_OWNER", "SYNCHRONIZE",
    "PERMS_POSIX1E", "PERMS_NFS4",
    "ENTRY_INHERITED", "ENTRY_FILE_INHERIT", "ENTRY_DIRECTORY_INHERIT", "ENTRY_NO_PROPAGATE_INHERIT",
    "ENTRY_INHERIT_ONLY", "ENTRY_SUCCESSFUL_ACCESS", "ENTRY_FAILED_ACCESS", "INHERITANCE_NFS4",
    "TYPE_ACCESS", "TYPE_DEFAULT", "TYPE_ALLOW", "TYPE_DENY", "TYPE_AUDIT", "TYPE_ALARM",
    "TYPE_POSIX1E", "TYPE_NFS4",
    "USER", "USER_OBJ", "GROUP", "GROUP_OBJ", "MASK", "OTHER", "EVERYONE",
    "STYLE_EXTRA_ID", "STYLE_MARK_DEFAULT", "STYLE_SOLARIS", "STYLE_SEPARATOR_COMMA", "STYLE_COMPACT",
]

def raw_define(rel, name):
    """like cdefs.raw_define, but follows backslash-newline continuations"""
    src = cdefs.read(rel)
    m = re.search(r"^[ \t]*#[ \t]*define[ \t]+" + re.escape(name) + r"\b(?!\()((?:[^\n]*\\\n)*[^\n]*)$", src, flags=re.M)
    if not m:
        raise KeyError("no #define %s in %s" % (name, rel))
    return cdefs.strip_comments(m.group(1).replace("\\\n", " ")).strip()

def func_body(src, name):
    """text of the definition of function `name` (from its header line at column 0 to the closing brace at column 0)"""
    m = re.search(r"^" + re.escape(name) + r"\(.*?^\}", src, flags=re.M | re.S)
    if not m:
        raise KeyError("function %s not found in %s" % (name, C))
    return m.group(0)

def table(src, name, env):
    m = re.search(re.escape(name) + r"\[\]\s*=\s*\{(.*?)\};", src, flags=re.S)
    if not m:
        raise KeyError("table %s not found" % name)
    rows = []
    for r in re.finditer(r"\{([^{}]*?),\s*'(\\?.)'\s*,\s*L'(\\?.)'\s*\}", m.group(1), flags=re.S):
        bits = cdefs.eval_expr(" ".join(r.group(1).split()), env)
        c, wc = r.group(2), r.group(3)
        if len(c) != 1 or len(wc) != 1:
            raise ValueError("escaped letter in table %s" % name)
        rows.append((bits & 0xFFFFFFFF, ord(c), ord(wc)))
    if not rows:
        raise ValueError("table %s is empty" % name)
    return rows

def parse_switch(src, fname, env):
    """the switch of ismode / is_nfs4_perms / is_nfs4_flags (and _w): list of (letter, bits or'ed into *permset)"""
    body = func_body(src, fname)
    m = re.search(r"switch\s*\(\s*\*p\+\+\s*\)\s*\{(.*?)default\s*:", body, flags=re.S)
    if not m:
        raise KeyError("switch not found in %s" % fname)
    rows = []
    for g in re.finditer(r"((?:case\s+L?'\\?.'\s*:\s*)+)(.*?)break\s*;", m.group(1), flags=re.S):
        letters = re.findall(r"case\s+L?'(\\?.)'", g.group(1))
        stm = g.group(2).strip()
        bits = 0
        if stm:
            mm = re.fullmatch(r"\*permset\s*\|=\s*(.*?);", stm, flags=re.S)
            if not mm:
                raise ValueError("unexpected statement %r in %s" % (stm, fname))
            bits = cdefs.eval_expr(" ".join(mm.group(1).split()), env) & 0xFFFFFFFF
        for c in letters:
            if len(c) != 1:
                raise ValueError("escaped letter in %s" % fname)
            rows.append((ord(c), bits))
    if not rows:
        raise ValueError("no cases in %s" % fname)
    return rows

def generate():
    env = {}
    lines = [cdefs.coq_header("translators/gen_acl.py", [H, C]),
             "From Coq Require Import List ZArith NArith Bool.\nImport ListNotations.\n"]
    for n in NAMES:
        cname = "ARCHIVE_ENTRY_ACL_" + n
        v = cdefs.eval_expr(raw_define(H, cname), env) & 0xFFFFFFFF
        env[cname] = v
        lines.append("Definition ACL_%s : N := (%d)%%N." % (n, v))
    src = cdefs.strip_comments(cdefs.read(C))
    for tname, coq in (("nfsv4_acl_perm_map", "nfsv4_perm_map"), ("nfsv4_acl_flag_map", "nfsv4_flag_map")):
        rows = table(src, tname, env)
        # (bits, narrow letter, wide letter)
        lines.append("Definition %s : list (N * N * N) :=\n  [%s]%%N." %
                     (coq, ";\n   ".join("(%d, %d, %d)" % r for r in rows)))
    for fname in ("ismode", "ismode_w", "is_nfs4_perms", "is_nfs4_perms_w", "is_nfs4_flags", "is_nfs4_flags_w"):
        rows = parse_switch(src, fname, env)
        lines.append("Definition %s_cases : list (N * N) :=\n  [%s]%%N." %
                     (fname, "; ".join("(%d, %d)" % r for r in rows)))
    # --- presence of the proposed repairs (see /verif/fixes/C15-*.diff)
    tl = func_body(src, "archive_acl_text_len")
    fix_len = bool(re.search(r"if\s*\(\s*want_type\s*==\s*ARCHIVE_ENTRY_ACL_TYPE_NFS4\s*\)\s*length\s*\+=\s*sizeof\(uid_t\)\s*\*\s*3\s*\+\s*1\s*;", tl))
    fw = func_body(src, "archive_acl_from_text_w")
    fix_wide = bool(re.search(r"len\s*=\s*field\[n\]\.end\s*-\s*field\[n\]\.start;\s*if\s*\(\s*len\s*==\s*0\s*\)", fw))
    nf = func_body(src, "next_field")
    fix_sent = ("*sep = **p;" not in nf) and len(re.findall(r"\*sep\s*=\s*\(\s*\*l\s*>\s*0\s*\)\s*\?\s*\*\*p\s*:", nf)) == 2
    def resets(fname):
        return bool(re.search(r"default\s*:\s*\*permset\s*=\s*0\s*;\s*return\s*\(\s*0\s*\)\s*;", func_body(src, fname)))
    fix_mode = resets("ismode") and resets("ismode_w")
    for nm, v in (("acl_fix_text_len_nfs4_noname", fix_len), ("acl_fix_wide_empty_tag", fix_wide),
                  ("acl_fix_next_field_sentinel", fix_sent), ("acl_fix_ismode_reset", fix_mode)):
        lines.append("Definition %s : bool := %s." % (nm, "true" if v else "false"))
    return "\n".join(lines) + "\n"

if __name__ == "__main__":
    out = sys.argv[1] if len(sys.argv) > 1 else os.path.join(os.path.dirname(__file__), "..", "coq", "Gen", "AclConsts.v")
    txt = generate()
    old = open(out).read() if os.path.exists(out) else None
    if old != txt:
        os.makedirs(os.path.dirname(out), exist_ok=True)
        open(out, "w").write(txt)
