#!/usr/bin/env python3
"""Regenerates coq/Gen/FmtLayout.v : header layouts of the byte-level archive formats (writer side
and reader side), the tar template headers and a few limits, from the current /repo working tree."""
import sys, os, re
sys.path.insert(0, os.path.dirname(__file__))
import cdefs

W = "libarchive/archive_write_set_format_"
R = "libarchive/archive_read_support_format_"

def defines(rel, pattern):
    """all '#define NAME <int expr>' whose NAME matches pattern, in file order"""
    src = cdefs.read(rel)
    out = []
    for m in re.finditer(r"^[ \t]*#[ \t]*define[ \t]+(" + pattern + r")\b[ \t]+([^\n]*)$", src, flags=re.M):
        name = m.group(1)
        try:
            v = cdefs.eval_expr(cdefs.strip_comments(m.group(2)).strip(), dict(out))
        except Exception:
            continue
        if name not in dict(out):
            out.append((name, v))
    return out

def c_char(tok):
    tok = tok.strip()
    if tok.startswith("'"):
        body = tok[1:-1]
        if body.startswith("\\"):
            esc = {"0": 0, "n": 10, "t": 9, "\\": 92, "'": 39, "r": 13}
            if body[1:] in esc:
                return esc[body[1:]]
            return int(body[1:], 8)
        return ord(body)
    return cdefs.c_int(tok)

def template(rel):
    src = cdefs.strip_comments(cdefs.read(rel))
    m = re.search(r"static\s+const\s+char\s+template_header\s*\[\s*\]\s*=\s*\{(.*?)\}\s*;", src, flags=re.S)
    if not m:
        raise KeyError("no template_header in " + rel)
    toks = re.findall(r"'(?:\\.[0-7]*|[^'\\])'|[0-9][0-9a-fA-FxX]*", m.group(1))
    return [c_char(t) for t in toks]

def packed_struct(rel, name):
    """(field, offset, size) of a packed struct of uintN_t members"""
    src = cdefs.strip_comments(cdefs.read(rel))
    m = re.search(r"struct\s+" + name + r"\s*\{(.*?)\}", src, flags=re.S)
    if not m:
        raise KeyError("no struct %s in %s" % (name, rel))
    off, out = 0, []
    for t, f in re.findall(r"uint(8|16|32|64)_t\s+(\w+)\s*;", m.group(1)):
        sz = int(t) // 8
        out.append((f, off, sz))
        off += sz
    return out, off

def struct_char_arrays(rel, name):
    src = cdefs.strip_comments(cdefs.read(rel))
    m = re.search(r"struct\s+" + name + r"\s*\{(.*?)\}\s*;", src, flags=re.S)
    if not m:
        raise KeyError("no struct %s in %s" % (name, rel))
    off, out = 0, []
    for f, n in re.findall(r"char\s+(\w+)\s*\[\s*(\d+)\s*\]\s*;", m.group(1)):
        out.append((f, off, int(n)))
        off += int(n)
    return out, off

def has(rel, needle):
    return needle in cdefs.strip_comments(cdefs.read(rel))

def boolean(name, v):
    return "Definition %s : bool := %s." % (name, "true" if v else "false")

def nat(name, v):
    return "Definition %s : nat := %d." % (name, v)

def zlist(name, vals):
    rows = []
    for i in range(0, len(vals), 32):
        rows.append("  " + "; ".join(str(v) for v in vals[i:i + 32]))
    return "Definition %s : list Z := [\n%s]%%Z." % (name, ";\n".join(rows))

def generate():
    srcs = [W + "ustar.c", W + "v7tar.c", W + "gnutar.c", W + "cpio_odc.c", W + "cpio_newc.c", W + "cpio_binary.c",
            W + "ar.c", R + "tar.c", R + "cpio.c", R + "ar.c"]
    L = [cdefs.coq_header("translators/gen_fmt.py", srcs),
         "From Coq Require Import List ZArith.\nImport ListNotations.\n"]
    for name, v in defines(W + "ustar.c", r"USTAR_\w+"):
        L.append(nat(name, v))
    for name, v in defines(W + "v7tar.c", r"V7TAR_\w+"):
        L.append(nat(name, v))
    for name, v in defines(W + "gnutar.c", r"GNUTAR_\w+"):
        L.append(nat(name, v))
    for name, v in defines(W + "cpio_odc.c", r"c_\w+"):
        L.append(nat("ODC_" + name, v))
    for name, v in defines(W + "cpio_newc.c", r"c_\w+"):
        L.append(nat("NEWC_" + name, v))
    fields, total = packed_struct(W + "cpio_binary.c", "cpio_binary_header")
    for f, off, sz in fields:
        L.append(nat("BINW_%s_offset" % f, off))
        L.append(nat("BINW_%s_size" % f, sz))
    L.append(nat("BINW_struct_size", total))
    for name, v in defines(W + "cpio_binary.c", r"HSIZE"):
        L.append(nat("BINW_" + name, v))
    for name, v in defines(W + "ar.c", r"AR_\w+"):
        L.append(nat(name, v))
    # reader side
    for name, v in defines(R + "cpio.c", r"(?:odc|newc|bin)_\w+"):
        L.append(nat("R_" + name, v))
    for name, v in defines(R + "ar.c", r"AR_\w+"):
        L.append(nat("R_" + name, v))
    fields, total = struct_char_arrays(R + "tar.c", "archive_entry_header_ustar")
    for f, off, sz in fields:
        L.append(nat("R_tar_%s_offset" % f, off))
        L.append(nat("R_tar_%s_size" % f, sz))
    L.append(nat("R_tar_header_size", total))
    # shape switches: the model follows either form of the code
    # gnutar: is the main header formatted (and the entry possibly refused) before the 'K'/'L' records are written?
    L.append(boolean("GNUTAR_header_first", has(W + "gnutar.c", "archive_format_gnutar_header(a, mainbuff")))
    # tar reader, header_ustar: is a '/' always put between prefix and name, or only when the prefix does not end with one?
    L.append(boolean("USTAR_join_always_slash",
                     not re.search(r"if\s*\(as\.s\[archive_strlen\(&as\)\s*-\s*1\]\s*!=\s*'/'\)", cdefs.strip_comments(cdefs.read(R + "tar.c")))))
    for rel, nm in ((W + "ustar.c", "ustar_template"), (W + "v7tar.c", "v7tar_template"), (W + "gnutar.c", "gnutar_template")):
        L.append(zlist(nm, template(rel)))
    return "\n".join(L) + "\n"

if __name__ == "__main__":
    out = sys.argv[1] if len(sys.argv) > 1 else os.path.join(os.path.dirname(__file__), "..", "coq", "Gen", "FmtLayout.v")
    txt = generate()
    old = open(out).read() if os.path.exists(out) else None
    if old != txt:
        os.makedirs(os.path.dirname(out), exist_ok=True)
        open(out, "w").write(txt)
