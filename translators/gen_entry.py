#!/usr/bin/env python3
"""Regenerates coq/Gen/EntryConsts.v : constants of the archive_entry model (C14).
   - AE_SET_* bits of the 'ae_set' bitmap         (libarchive/archive_entry_private.h)
   - AE_IFMT, AE_SYMLINK_TYPE_UNDEFINED, ACL tags   (libarchive/archive_entry.h)
   - the divisor of the FIX_NS macro               (libarchive/archive_entry.c)
   The model (coq/Entry/EntryDefs.v) uses these names; its theorems need only that the AE_SET_*
   values are pairwise distinct powers of two (checked in Coq by vm_compute on this file)."""
import sys, os, re
sys.path.insert(0, os.path.dirname(__file__))
import cdefs

PRIV = "libarchive/archive_entry_private.h"
PUB = "libarchive/archive_entry.h"
SRC = "libarchive/archive_entry.c"

AE_SET = ["HARDLINK", "SYMLINK", "ATIME", "CTIME", "MTIME", "BIRTHTIME", "SIZE", "INO", "DEV",
          "PERM", "FILETYPE", "UID", "GID", "RDEV"]
PUBLIC = ["AE_IFMT", "AE_SYMLINK_TYPE_UNDEFINED", "ARCHIVE_ENTRY_ACL_TYPE_ACCESS",
          "ARCHIVE_ENTRY_ACL_USER_OBJ", "ARCHIVE_ENTRY_ACL_GROUP_OBJ", "ARCHIVE_ENTRY_ACL_OTHER"]

def fix_ns_divisor():
    """FIX_NS(t,ns): t += ns / D; ns %= D; if (ns < 0) { --t; ns += D; }  -> D (the three must agree)"""
    src = cdefs.read(SRC)
    m = re.search(r"#define\s+FIX_NS\(t,ns\)((?:.*\\\n)*.*)\n", src)
    if not m:
        raise KeyError("no FIX_NS macro in " + SRC)
    body = re.sub(r"[\\\s]+", " ", m.group(1))
    mm = re.search(r"t \+= ns / (\d+); ns %= (\d+); if \(ns < 0\) \{ --t; ns \+= (\d+); \}", body)
    if not mm:
        # the shape of the macro changed: emit 0, which makes every time theorem of the model fail
        return 0
    a, b, c = (int(x) for x in mm.groups())
    return a if a == b == c else 0

def generate():
    lines = [cdefs.coq_header("translators/gen_entry.py", [PRIV, PUB, SRC]),
             "From Coq Require Import ZArith List.\nImport ListNotations.\nLocal Open Scope Z_scope.\n"]
    for n in AE_SET:
        v = cdefs.define_value(PRIV, "AE_SET_" + n)
        lines.append("Definition AE_SET_%s : Z := %d." % (n, v))
    lines.append("Definition AE_SET_ALL : list Z := [%s]." % "; ".join("AE_SET_" + n for n in AE_SET))
    # any AE_SET_ bit this translator does not know about would be a field the model ignores
    names = set(re.findall(r"#define\s+AE_SET_([A-Z0-9_]+)", cdefs.read(PRIV)))
    lines.append("Definition AE_SET_UNKNOWN_COUNT : Z := %d." % len(names - set(AE_SET)))
    env = {}
    for n in PUBLIC:
        v = cdefs.define_value(PUB, n, env) & 0xFFFFFFFF
        env[n] = v
        lines.append("Definition %s : Z := %d." % (n, v))
    lines.append("Definition FIX_NS_DIV : Z := %d." % fix_ns_divisor())
    return "\n".join(lines) + "\n"

if __name__ == "__main__":
    out = sys.argv[1] if len(sys.argv) > 1 else os.path.join(os.path.dirname(__file__), "..", "coq", "Gen", "EntryConsts.v")
    txt = generate()
    old = open(out).read() if os.path.exists(out) else None
    if old != txt:
        os.makedirs(os.path.dirname(out), exist_ok=True)
        open(out, "w").write(txt)
