#!/usr/bin/env python3
"""Regenerates coq/Gen/MagicTable.v : every archive_check_magic / __archive_check_magic call site of
the current /repo working tree as (enclosing C function, expected magic, allowed-state mask), plus
the function-name string literal and file:line in a comment.

The mask expression is evaluated with the ARCHIVE_STATE_* values of archive_private.h as they are NOW.
A site that cannot be parsed or evaluated makes the translator fail (the check then reports a set-up
violation): silently dropping a site would hide exactly the edits the obligation is there to catch."""
import sys, os, re, glob
sys.path.insert(0, os.path.dirname(__file__))
import cdefs

PRIV = "libarchive/archive_private.h"
STATE_NAMES = ["ARCHIVE_STATE_NEW", "ARCHIVE_STATE_HEADER", "ARCHIVE_STATE_DATA", "ARCHIVE_STATE_EOF",
               "ARCHIVE_STATE_CLOSED", "ARCHIVE_STATE_FATAL", "ARCHIVE_STATE_ANY"]
MAGIC_NAMES = ["ARCHIVE_WRITE_MAGIC", "ARCHIVE_READ_MAGIC", "ARCHIVE_WRITE_DISK_MAGIC",
               "ARCHIVE_READ_DISK_MAGIC", "ARCHIVE_MATCH_MAGIC"]
# the definition of the checker itself (prototype / definition are not call sites)
SKIP_FILES = {"archive_check_magic.c"}

def blank_comments_and_strings(src):
    """comments -> spaces (newlines kept, so offsets and line numbers survive); string and char
    literals are kept verbatim but protected from the comment scanner"""
    out = []
    i, n = 0, len(src)
    while i < n:
        c = src[i]
        if c == '"' or c == "'":
            j = i + 1
            while j < n and src[j] != c:
                j += 2 if src[j] == "\\" else 1
            out.append(src[i:j + 1])
            i = j + 1
        elif src.startswith("/*", i):
            j = src.find("*/", i + 2)
            j = n if j < 0 else j + 2
            out.append("".join(ch if ch == "\n" else " " for ch in src[i:j]))
            i = j
        elif src.startswith("//", i):
            j = src.find("\n", i)
            j = n if j < 0 else j
            out.append(" " * (j - i))
            i = j
        else:
            out.append(c)
            i += 1
    return "".join(out)

def split_args(src, start):
    """src[start] is just after '(' ; returns (list of top-level argument texts, index after ')')"""
    depth, args, cur, i = 0, [], [], start
    while i < len(src):
        c = src[i]
        if c == '"' or c == "'":
            j = i + 1
            while src[j] != c:
                j += 2 if src[j] == "\\" else 1
            cur.append(src[i:j + 1])
            i = j + 1
            continue
        if c in "([{":
            depth += 1
        elif c in ")]}":
            if depth == 0:
                args.append("".join(cur).strip())
                return args, i + 1
            depth -= 1
        elif c == "," and depth == 0:
            args.append("".join(cur).strip())
            cur = []
            i += 1
            continue
        cur.append(c)
        i += 1
    raise ValueError("unbalanced parentheses")

# Function bodies in libarchive open with '{' in column 0.  The enclosing function of a site is the
# identifier in front of the parameter list that precedes the last such brace before the site.
def enclosing_function(src, pos):
    k = src.rfind("\n{", 0, pos)
    while k >= 0:
        j = k
        while j > 0 and src[j] in " \t\r\n":
            j -= 1
        if src[j] == ")":
            depth = 0
            while j >= 0:
                if src[j] == ")":
                    depth += 1
                elif src[j] == "(":
                    depth -= 1
                    if depth == 0:
                        break
                j -= 1
            e = j
            while e > 0 and src[e - 1] in " \t\r\n":
                e -= 1
            b = e
            while b > 0 and (src[b - 1].isalnum() or src[b - 1] == "_"):
                b -= 1
            name = src[b:e]
            if name and not name[0].isdigit():
                return name
        # '{' in column 0 that does not follow a parameter list (struct/array initialiser): look further up
        k = src.rfind("\n{", 0, k)
    return None

_all_src = {}

def all_sources():
    if not _all_src:
        for path in sorted(glob.glob(os.path.join(cdefs.REPO, "libarchive", "*.c"))):
            _all_src[path] = blank_comments_and_strings(open(path, "r", errors="replace").read())
    return _all_src

def caller_magics(func, param, env):
    """magic constants passed (anywhere in libarchive/*.c) in calls of `func`"""
    found = []
    for path, src in all_sources().items():
        for m in re.finditer(r"\b" + re.escape(func) + r"[ \t\r\n]*\(", src):
            try:
                args, _ = split_args(src, m.end())
            except (ValueError, IndexError):
                continue
            for a in args:
                if a in MAGIC_NAMES and env[a] not in found:
                    found.append(env[a])
    return sorted(found)

def sites():
    env = {}
    for n in STATE_NAMES + MAGIC_NAMES:
        env[n] = cdefs.define_value(PRIV, n, env) & 0xFFFFFFFF
    res = []
    files = sorted(glob.glob(os.path.join(cdefs.REPO, "libarchive", "*.c")))
    for path in files:
        base = os.path.basename(path)
        if base in SKIP_FILES:
            continue
        raw = open(path, "r", errors="replace").read()
        if "archive_check_magic" not in raw:
            continue
        src = blank_comments_and_strings(raw)
        for m in re.finditer(r"\b(__)?archive_check_magic[ \t\r\n]*\(", src):
            line = src.count("\n", 0, m.start()) + 1
            where = "%s:%d" % (base, line)
            args, _ = split_args(src, m.end())
            if len(args) != 4:
                raise SystemExit("gen_magic: %s: expected 4 arguments, got %r" % (where, args))
            func = enclosing_function(src, m.start())
            if func is None:
                raise SystemExit("gen_magic: %s: cannot find the enclosing function" % where)
            try:
                mask = cdefs.eval_expr(args[2], env) & 0xFFFFFFFF
            except (KeyError, ValueError) as ex:
                raise SystemExit("gen_magic: %s: cannot evaluate mask (%s)" % (where, ex))
            try:
                magics = [cdefs.eval_expr(args[1], env) & 0xFFFFFFFF]
            except (KeyError, ValueError) as ex:
                # the expected magic is a parameter of the enclosing function (archive_options.c):
                # one row per magic constant that some caller passes
                magics = caller_magics(func, args[1], env)
                if not magics:
                    raise SystemExit("gen_magic: %s: cannot evaluate magic (%s) and no caller passes a constant" % (where, ex))
            lit = "".join(re.findall(r'"((?:[^"\\]|\\.)*)"', args[3]))
            if not re.fullmatch(r"[A-Za-z0-9_]*", lit) or not re.search(r'"', args[3]):
                # name passed through a variable (archive_options.c): keep the C expression
                lit = "<" + re.sub(r"[^A-Za-z0-9_]", "", args[3]) + ">"
            for magic in magics:
                res.append(dict(func=func, magic=magic, mask=mask, literal=lit, where=where,
                                direct=bool(m.group(1)), mask_text=" ".join(args[2].split())))
    return res, env

def generate():
    ss, env = sites()
    if len(ss) < 50:
        raise SystemExit("gen_magic: only %d call sites found - the scanner no longer understands the sources" % len(ss))
    L = [cdefs.coq_header("translators/gen_magic.py", ["libarchive/*.c (archive_check_magic call sites)", PRIV]),
         "From Coq Require Import List NArith String.",
         "Import ListNotations.",
         "Local Open Scope string_scope.",
         "",
         "(* (enclosing C function, expected magic, allowed-state mask).  %d sites." % len(ss),
         "   nr  file:line  [function-name literal]  mask expression"]
    for k, s in enumerate(ss):
        L.append("   %3d  %s  [%s]%s  %s" % (k, s["where"], s["literal"], " direct-call" if s["direct"] else "", s["mask_text"]))
    L.append("*)")
    L.append("Definition magic_table : list (string * N * N) := [")
    rows = ['  ("%s", %d%%N, %d%%N)' % (s["func"], s["magic"], s["mask"]) for s in ss]
    L.append(";\n".join(rows))
    L.append("].")
    L.append("")
    L.append("(* the same sites with the name literal they report in error messages *)")
    L.append("Definition magic_literals : list (string * string) := [")
    L.append(";\n".join('  ("%s", "%s")' % (s["func"], s["literal"]) for s in ss))
    L.append("].")
    L.append("")
    L.append("Definition magic_site_count : N := %d%%N." % len(ss))
    return "\n".join(L) + "\n"

if __name__ == "__main__":
    out = sys.argv[1] if len(sys.argv) > 1 else os.path.join(os.path.dirname(__file__), "..", "coq", "Gen", "MagicTable.v")
    txt = generate()
    old = open(out).read() if os.path.exists(out) else None
    if old != txt:
        os.makedirs(os.path.dirname(out), exist_ok=True)
        open(out, "w").write(txt)
