#!/usr/bin/env python3
"""Regenerates coq/Gen/Codec.v : tables, constants and literal strings of the uuencode / b64encode
write filters and of the uu read filter, taken from the current /repo working tree."""
import sys, os, re
sys.path.insert(0, os.path.dirname(__file__))
import cdefs

WB64 = "libarchive/archive_write_add_filter_b64encode.c"
WUU = "libarchive/archive_write_add_filter_uuencode.c"
RUU = "libarchive/archive_read_support_filter_uu.c"

def c_char(tok):
    tok = tok.strip()
    m = re.fullmatch(r"'(\\?.)'", tok)
    if m:
        s = m.group(1)
        esc = {"\\n": 10, "\\r": 13, "\\t": 9, "\\0": 0, "\\\\": 92, "\\'": 39}
        return esc[s] if s in esc else ord(s)
    return cdefs.c_int(tok)

def table(rel, decl_re, want_len):
    src = cdefs.strip_comments(cdefs.read(rel))
    m = re.search(decl_re + r"\s*=\s*\{(.*?)\}\s*;", src, flags=re.S)
    if not m:
        raise KeyError("table %s not found in %s" % (decl_re, rel))
    items = [t for t in re.findall(r"'(?:\\.|[^'\\])'|0[xX][0-9a-fA-F]+|\d+", m.group(1))]
    vals = [c_char(t) for t in items]
    if len(vals) != want_len:
        raise ValueError("table %s in %s has %d entries, expected %d" % (decl_re, rel, len(vals), want_len))
    return vals

def c_string_bytes(lit):
    out = []
    i = 0
    while i < len(lit):
        c = lit[i]
        if c == "\\":
            n = lit[i + 1]
            out.append({"n": 10, "r": 13, "t": 9, "0": 0, "\\": 92, '"': 34}[n])
            i += 2
        else:
            out.append(ord(c))
            i += 1
    return out

def sprintf_literal(rel, which):
    """the which-th archive_string_sprintf(&state->encoded_buff, "<literal>" ...) of the file"""
    src = cdefs.strip_comments(cdefs.read(rel))
    ms = re.findall(r'archive_string_sprintf\s*\(\s*&state->encoded_buff\s*,\s*"((?:[^"\\]|\\.)*)"', src)
    if len(ms) != 2:
        raise ValueError("%s: expected exactly two archive_string_sprintf(&state->encoded_buff, ...) calls, found %d" % (rel, len(ms)))
    return ms[which]

def header_format(rel):
    """(prefix bytes, fixed3): the header is '<prefix>%o %s\\n' (mode printed with one %o) or
    '<prefix>%o%o%o %s\\n' with the arguments (mode >> 6) & 7, (mode >> 3) & 7, mode & 7"""
    lit = sprintf_literal(rel, 0)
    for tail, fixed3 in (("%o%o%o %s\\n", True), ("%o %s\\n", False)):
        if lit.endswith(tail):
            pre = lit[:-len(tail)]
            if "%" in pre:
                raise ValueError("%s: unexpected conversion in header prefix %r" % (rel, pre))
            if fixed3:
                src = re.sub(r"\s+", "", cdefs.strip_comments(cdefs.read(rel)))
                want = "(unsignedint)(state->mode>>6)&7,(unsignedint)(state->mode>>3)&7,(unsignedint)state->mode&7,state->name.s)"
                if want not in src:
                    raise ValueError("%s: three-digit header format with unexpected arguments" % rel)
            return c_string_bytes(pre), fixed3
    raise ValueError("%s: header format %r is not '<prefix>%%o %%s\\n' or '<prefix>%%o%%o%%o %%s\\n'" % (rel, lit))

def has_text(rel, pattern):
    src = re.sub(r"\s+", " ", cdefs.strip_comments(cdefs.read(rel)))
    return re.search(pattern, src) is not None

def trailer(rel):
    lit = sprintf_literal(rel, 1)
    if "%" in lit:
        raise ValueError("%s: unexpected conversion in trailer %r" % (rel, lit))
    return c_string_bytes(lit)

def int_assign(rel, pattern):
    src = cdefs.strip_comments(cdefs.read(rel))
    m = re.search(pattern, src)
    if not m:
        raise KeyError("pattern %r not found in %s" % (pattern, rel))
    return cdefs.c_int(m.group(1))

def str_assign(rel, pattern):
    src = cdefs.strip_comments(cdefs.read(rel))
    m = re.search(pattern, src)
    if not m:
        raise KeyError("pattern %r not found in %s" % (pattern, rel))
    return c_string_bytes(m.group(1))

def function_text(rel, name):
    """normalised text of the definition of a static function (comments and white space removed)"""
    src = cdefs.strip_comments(cdefs.read(rel))
    m = re.search(r"\n" + re.escape(name) + r"\s*\([^;{]*\)\s*\{", src)
    if not m:
        raise KeyError("definition of %s not found in %s" % (name, rel))
    end = src.find("\n}", m.end())
    if end < 0:
        raise KeyError("end of %s not found in %s" % (name, rel))
    return re.sub(r"\s+", "", src[m.start():end + 2])

def check_twin_functions():
    """CodecDefs.v models the two encoders by ONE Gallina function instantiated twice; that is sound only
    while the C functions are identical up to LBYTES, the line encoder and the literal strings"""
    def norm(t, which):
        t = t.replace("la_b64_encode", "ENC").replace("uu_encode", "ENC")
        t = t.replace("b64encode", "X").replace("uuencode", "X")
        t = t.replace('"begin-base64', '"begin')
        t = t.replace('"====\\n"', "TRAILER").replace('"`\\nend\\n"', "TRAILER")
        return t
    for fn in ("_options", "_open", "_write", "_close"):
        a = norm(function_text(WB64, "archive_filter_b64encode" + fn), 0)
        b = norm(function_text(WUU, "archive_filter_uuencode" + fn), 1)
        if a != b:
            k = next((i for i in range(min(len(a), len(b))) if a[i] != b[i]), min(len(a), len(b)))
            raise ValueError("archive_filter_b64encode%s and archive_filter_uuencode%s are no longer the same code "
                             "(first difference near '%s' / '%s'); the shared model enc_write/enc_close of "
                             "coq/Codec/CodecDefs.v has to be split" % (fn, fn, a[max(0, k - 30):k + 30], b[max(0, k - 30):k + 30]))
    a = norm(function_text(WB64, "atol8"), 0)
    b = norm(function_text(WUU, "atol8"), 1)
    if a != b:
        raise ValueError("the two atol8 copies differ")

def coq_list(vals, per=16):
    rows = []
    for i in range(0, len(vals), per):
        rows.append("; ".join(str(v) for v in vals[i:i + per]))
    return "[" + ";\n   ".join(rows) + "]%N"

def generate():
    check_twin_functions()
    L = [cdefs.coq_header("translators/gen_codec.py", [WB64, WUU, RUU]),
         "From Coq Require Import List ZArith NArith.\nImport ListNotations.\n"]
    def nat(name, v):
        L.append("Definition %s : nat := %d%%nat." % (name, v))
    def N(name, v):
        L.append("Definition %s : N := %d%%N." % (name, v))
    def lst(name, vals):
        L.append("Definition %s : list N :=\n  %s." % (name, coq_list(vals)))
    # writers
    nat("b64_LBYTES", cdefs.define_value(WB64, "LBYTES"))
    nat("uu_LBYTES", cdefs.define_value(WUU, "LBYTES"))
    lst("b64_alphabet", table(WB64, r"static\s+const\s+char\s+base64\s*\[\s*\]", 64))
    def B(name, v):
        L.append("Definition %s : bool := %s." % (name, "true" if v else "false"))
    p64, f64 = header_format(WB64)
    puu, fuu = header_format(WUU)
    lst("b64_header_prefix", p64)
    lst("uu_header_prefix", puu)
    # variants of the code the model follows (the proposed repairs, see fixes/C03-*.diff)
    B("b64_mode_fixed3", f64)
    B("uu_mode_fixed3", fuu)
    name_pat = r"if \( ?\*p < 0x20 \|\| \*p > 0x7e ?\) \{ archive_set_error\( ?f->archive, ARCHIVE_ERRNO_MISC, \"name option requires printable ASCII\" ?\); return \( ?ARCHIVE_FAILED ?\);"
    B("b64_name_printable_only", has_text(WB64, name_pat))
    B("uu_name_printable_only", has_text(WUU, name_pat))
    B("rd_uu_bid_empty_fix", has_text(RUU, r"if \( ?l0 == 0 && len - nl == 0 ?\) \{ b \+= nl; len = bid_get_line\( ?filter, &b, &avail, &ravail, &nl, &nbytes_read ?\); if \( ?len - nl == 3 && memcmp\( ?b, \"end\", 3 ?\) == 0 ?\) return \( ?firstline ?\+ ?30 ?\); return \( ?0 ?\); \}"))
    B("rd_b64_bid_empty_fix", has_text(RUU, r"if \( ?len - nl == 4 && memcmp\( ?b, \"====\", 4 ?\) == 0 ?\) return \( ?firstline ?\+ ?40 ?\);"))
    lst("b64_trailer", trailer(WB64))
    lst("uu_trailer", trailer(WUU))
    for pre, rel in (("b64", WB64), ("uu", WUU)):
        N(pre + "_default_mode", int_assign(rel, r"state->mode\s*=\s*(0[0-7]*|[1-9][0-9]*)\s*;"))
        lst(pre + "_default_name", str_assign(rel, r'archive_strcpy\s*\(\s*&state->name\s*,\s*"((?:[^"\\]|\\.)*)"\s*\)'))
        N(pre + "_default_bs", int_assign(rel, r"size_t\s+bs\s*=\s*(\d+)\s*,\s*bpb\s*;"))
        N(pre + "_mode_mask", int_assign(rel, r"atol8\s*\(\s*value\s*,\s*strlen\s*\(\s*value\s*\)\s*\)\s*&\s*(0[0-7]*)\s*;"))
    # reader
    env = {}
    N("UUENCODE_BID_MAX_READ", cdefs.define_value(RUU, "UUENCODE_BID_MAX_READ", env))
    N("UUENCODE_MAX_LINE_LENGTH", cdefs.define_value(RUU, "UUENCODE_MAX_LINE_LENGTH", env))
    N("UU_OUT_BUFF_SIZE", cdefs.eval_expr(cdefs.raw_define(RUU, "OUT_BUFF_SIZE"), env))
    lst("rd_ascii", table(RUU, r"static\s+const\s+unsigned\s+char\s+ascii\s*\[\s*256\s*\]", 256))
    lst("rd_uuchar", table(RUU, r"static\s+const\s+unsigned\s+char\s+uuchar\s*\[\s*256\s*\]", 256))
    lst("rd_base64", table(RUU, r"static\s+const\s+unsigned\s+char\s+base64\s*\[\s*256\s*\]", 256))
    lst("rd_base64num", table(RUU, r"static\s+const\s+int\s+base64num\s*\[\s*128\s*\]", 128))
    N("ARCHIVE_FILTER_NONE", cdefs.define_value("libarchive/archive.h", "ARCHIVE_FILTER_NONE"))
    N("ARCHIVE_FILTER_UU", cdefs.define_value("libarchive/archive.h", "ARCHIVE_FILTER_UU"))
    return "\n".join(L) + "\n"

if __name__ == "__main__":
    out = sys.argv[1] if len(sys.argv) > 1 else os.path.join(os.path.dirname(__file__), "..", "coq", "Gen", "Codec.v")
    txt = generate()
    old = open(out).read() if os.path.exists(out) else None
    if old != txt:
        os.makedirs(os.path.dirname(out), exist_ok=True)
        open(out, "w").write(txt)
