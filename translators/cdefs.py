"""Textual extraction of #define constants from the current /repo working tree.
Used by the per-family translators that regenerate coq/Gen/*.v on every run."""
import re, os

REPO = os.environ.get("VERIF_REPO", "/repo")

_cache = {}

def read(rel):
    p = os.path.join(REPO, rel)
    if p not in _cache:
        with open(p, "r", errors="replace") as f:
            _cache[p] = f.read()
    return _cache[p]

def strip_comments(s):
    s = re.sub(r"/\*.*?\*/", " ", s, flags=re.S)
    s = re.sub(r"//[^\n]*", " ", s)
    return s

def raw_define(rel, name):
    """text of the replacement list of '#define name ...' (first occurrence), comments stripped"""
    src = read(rel)
    m = re.search(r"^[ \t]*#[ \t]*define[ \t]+" + re.escape(name) + r"\b(?!\()(.*(?:\\\n.*)*)$", src, flags=re.M)
    if not m:
        raise KeyError("no #define %s in %s" % (name, rel))
    body = m.group(1).replace("\\\n", " ")
    return strip_comments(body).strip()

_CASTS = re.compile(r"\(\s*(?:unsigned\s+|signed\s+)?(?:__LA_MODE_T|mode_t|int|long|size_t|unsigned|int64_t|uint64_t|uint32_t|char)\s*\)")

def c_int(tok):
    t = tok.rstrip("uUlL")
    if re.fullmatch(r"0[xX][0-9a-fA-F]+", t):
        return int(t, 16)
    if re.fullmatch(r"0[0-7]*", t):
        return int(t, 8) if len(t) > 1 else 0
    if re.fullmatch(r"[1-9][0-9]*", t):
        return int(t, 10)
    raise ValueError(tok)

def eval_expr(expr, env=None, width=32):
    """evaluate a constant C integer expression made of literals, names in env, and + - * | & ~ << >> ( )"""
    env = env or {}
    e = _CASTS.sub("", expr)
    def lit(m):
        w = m.group(0)
        if w in env:
            return str(env[w])
        try:
            return str(c_int(w))
        except ValueError:
            raise KeyError("unknown identifier %r in %r" % (w, expr))
    e2 = re.sub(r"[A-Za-z_0-9]+", lit, e)
    if not re.fullmatch(r"[0-9\s+\-*|&~<>()]*", e2):
        raise ValueError("cannot evaluate %r" % expr)
    v = eval(e2, {"__builtins__": {}}, {})
    return v

def define_value(rel, name, env=None):
    v = eval_expr(raw_define(rel, name), env)
    return v

def coq_header(title, sources):
    return ("(* GENERATED on every run by %s from the current /repo working tree - do not edit.\n"
            "   Sources: %s *)\n" % (title, ", ".join(sources)))
