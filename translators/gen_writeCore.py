#!/usr/bin/env python3
"""Regenerates coq/Gen/WriteCore.v : facts about libarchive/archive_write.c the write-core model
(family writeCore, property C09) takes from the source text: the block-size defaults set by
archive_write_new whether archive_write_client_free releases a client that is still open, and whether
_archive_write_free closes the filters of a handle in state FATAL."""
import sys, os, re
sys.path.insert(0, os.path.dirname(__file__))
import cdefs

SRC = "libarchive/archive_write.c"

def func_body(src, name):
    m = re.search(r"^" + re.escape(name) + r"\s*\([^)]*\)\s*\n\{\n(.*?)\n\}\n", src, flags=re.M | re.S)
    if not m:
        raise KeyError("no function %s in %s" % (name, SRC))
    return cdefs.strip_comments(m.group(1))

def generate():
    src = cdefs.read(SRC)
    new = func_body(src, "archive_write_new")
    bpb = re.search(r"a->bytes_per_block\s*=\s*(-?\d+)\s*;", new)
    bibl = re.search(r"a->bytes_in_last_block\s*=\s*(-?\d+)\s*;", new)
    if not bpb or not bibl:
        raise KeyError("archive_write_new no longer sets the block-size defaults literally")
    cfree = func_body(src, "archive_write_client_free")
    closes = bool(re.search(r"client_closer\s*\)", cfree) and re.search(r"free\s*\(\s*state\s*\)", cfree))
    # _archive_write_free: "if (state != FATAL) r = archive_write_close(); else { r1 = __archive_write_filters_close(a); ... }"
    wfree = func_body(src, "_archive_write_free")
    m = re.search(r"if\s*\(\s*a->archive\.state\s*!=\s*ARCHIVE_STATE_FATAL\s*\)\s*r\s*=\s*archive_write_close\s*\([^;]*;\s*(else\b.*?)?/?\*?\s*(?:if\s*\(\s*a->format_free)", wfree, flags=re.S)
    if not m:
        raise KeyError("_archive_write_free no longer has the shape 'if (state != FATAL) r = archive_write_close(...)'")
    ffatal = bool(m.group(1) and re.search(r"r1\s*=\s*__archive_write_filters_close\s*\(\s*a\s*\)\s*;\s*if\s*\(\s*r1\s*<\s*r\s*\)\s*r\s*=\s*r1\s*;", m.group(1)))
    lines = [cdefs.coq_header("translators/gen_writeCore.py", [SRC]),
             "From Coq Require Import ZArith Bool.\n",
             "(* archive_write_new *)",
             "Definition default_bytes_per_block : Z := (%s)%%Z." % bpb.group(1),
             "Definition default_bytes_in_last_block : Z := (%s)%%Z." % bibl.group(1),
             "(* archive_write_client_free calls client_closer and frees the filter state when the client",
             "   filter is still open (textual test: the body mentions client_closer and free(state)) *)",
             "Definition client_free_closes_open_client : bool := %s." % ("true" if closes else "false"),
             "(* _archive_write_free, state FATAL: else-branch 'r1 = __archive_write_filters_close(a); if (r1 < r) r = r1;' *)",
             "Definition free_closes_filters_when_fatal : bool := %s." % ("true" if ffatal else "false")]
    return "\n".join(lines) + "\n"

if __name__ == "__main__":
    out = sys.argv[1] if len(sys.argv) > 1 else os.path.join(os.path.dirname(__file__), "..", "coq", "Gen", "WriteCore.v")
    txt = generate()
    old = open(out).read() if os.path.exists(out) else None
    if old != txt:
        os.makedirs(os.path.dirname(out), exist_ok=True)
        open(out, "w").write(txt)
