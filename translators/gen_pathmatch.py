#!/usr/bin/env python3
"""Regenerates coq/Gen/Pathmatch.v from the current tree:
  * the flag constants the matcher model hard-codes (checked against the model in Properties_C16.v);
  * class_guard / class_guard_w : whether `case '['` of pm() / pm_w() refuses the end of the subject
    before it tries the character class (fixes/C16-class-at-end.diff).  The model is parameterised by
    exactly this bit (Match/PathmatchDefs.v, [guard]); any other shape of that branch is an error, because
    then the model cannot claim to mirror the tree."""
import sys, os, re
sys.path.insert(0, os.path.dirname(__file__))
import cdefs

SRC = "libarchive/archive_pathmatch.c"

def func_body(src, name):
    m = re.search(r"^static int\s*\n%s\(const (?:char|wchar_t) \*p, const (?:char|wchar_t) \*s, int flags\)\s*\n\{" % re.escape(name),
                  src, flags=re.M)
    if not m:
        raise SystemExit("gen_pathmatch: function %s not found in %s" % (name, SRC))
    depth, k = 1, m.end()
    while depth and k < len(src):
        if src[k] == "{":
            depth += 1
        elif src[k] == "}":
            depth -= 1
        k += 1
    return src[m.end():k]

def class_branch(body, wide):
    L = "L" if wide else ""
    a = body.find("case %s'[':" % L)
    b = body.find("case %s'\\\\':" % L, a)
    if a < 0 or b < 0:
        raise SystemExit("gen_pathmatch: cannot locate the class branch")
    return re.sub(r"\s+", "", cdefs.strip_comments(body[a:b]))

def shapes(wide):
    L = "L" if wide else ""
    lst = "pm_list_w" if wide else "pm_list"
    head = ("case%s'[':end=p+1;while(*end!=%s'\\0'&&*end!=%s']'){if(*end==%s'\\\\'&&end[1]!=%s'\\0')++end;++end;}"
            "if(*end==%s']'){" % (L, L, L, L, L, L))
    tail = "if(!%s(p+1,end,*s,flags))return(0);p=end;break;}elseif(*p!=*s)return(0);break;" % lst
    guard = "if(*s==%s'\\0')return(0);" % L
    return {head + tail: False, head + guard + tail: True}

def detect(src, name, wide):
    br = class_branch(func_body(src, name), wide)
    sh = shapes(wide)
    if br not in sh:
        raise SystemExit("gen_pathmatch: the `case '['` branch of %s() has a shape the model does not know:\n%s" % (name, br))
    return sh[br]

def generate():
    src = cdefs.read(SRC)
    g = detect(src, "pm", False)
    gw = detect(src, "pm_w", True)
    lines = [cdefs.coq_header("translators/gen_pathmatch.py",
                              [SRC, "libarchive/archive_pathmatch.h", "libarchive/archive.h", "libarchive/archive_match.c"]),
             "From Coq Require Import ZArith NArith Bool.\n"]
    for rel, cname, scope in [
            ("libarchive/archive_pathmatch.h", "PATHMATCH_NO_ANCHOR_START", "N"),
            ("libarchive/archive_pathmatch.h", "PATHMATCH_NO_ANCHOR_END", "N"),
            ("libarchive/archive.h", "ARCHIVE_MATCH_MTIME", "N"),
            ("libarchive/archive.h", "ARCHIVE_MATCH_CTIME", "N"),
            ("libarchive/archive.h", "ARCHIVE_MATCH_NEWER", "N"),
            ("libarchive/archive.h", "ARCHIVE_MATCH_OLDER", "N"),
            ("libarchive/archive.h", "ARCHIVE_MATCH_EQUAL", "N"),
            ("libarchive/archive_match.c", "PATTERN_IS_SET", "N"),
            ("libarchive/archive_match.c", "TIME_IS_SET", "N"),
            ("libarchive/archive_match.c", "ID_IS_SET", "N"),
            ("libarchive/archive.h", "ARCHIVE_OK", "Z"),
            ("libarchive/archive.h", "ARCHIVE_EOF", "Z"),
            ("libarchive/archive.h", "ARCHIVE_FAILED", "Z")]:
        v = cdefs.define_value(rel, cname)
        lines.append("Definition G_%s : %s := (%d)%%%s." % (cname, scope, v, scope))
    lines.append("(* does `case '['` of pm() / pm_w() return 0 at the end of the subject before trying the class? *)")
    lines.append("Definition class_guard : bool := %s." % ("true" if g else "false"))
    lines.append("Definition class_guard_w : bool := %s." % ("true" if gw else "false"))
    return "\n".join(lines) + "\n"

if __name__ == "__main__":
    out = sys.argv[1] if len(sys.argv) > 1 else os.path.join(os.path.dirname(__file__), "..", "coq", "Gen", "Pathmatch.v")
    txt = generate()
    old = open(out).read() if os.path.exists(out) else None
    if old != txt:
        os.makedirs(os.path.dirname(out), exist_ok=True)
        open(out, "w").write(txt)
