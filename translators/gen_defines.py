#!/usr/bin/env python3
"""Regenerates coq/Gen/Defines.v : numeric constants shared by the models."""
import sys, os
sys.path.insert(0, os.path.dirname(__file__))
import cdefs

# (source file, C name, Coq name, scope)
SPEC = [
    ("libarchive/archive.h", "ARCHIVE_EOF", "ARCHIVE_EOF", "Z"),
    ("libarchive/archive.h", "ARCHIVE_OK", "ARCHIVE_OK", "Z"),
    ("libarchive/archive.h", "ARCHIVE_RETRY", "ARCHIVE_RETRY", "Z"),
    ("libarchive/archive.h", "ARCHIVE_WARN", "ARCHIVE_WARN", "Z"),
    ("libarchive/archive.h", "ARCHIVE_FAILED", "ARCHIVE_FAILED", "Z"),
    ("libarchive/archive.h", "ARCHIVE_FATAL", "ARCHIVE_FATAL", "Z"),
    ("libarchive/archive_entry.h", "AE_IFMT", "AE_IFMT", "N"),
    ("libarchive/archive_entry.h", "AE_IFREG", "AE_IFREG", "N"),
    ("libarchive/archive_entry.h", "AE_IFLNK", "AE_IFLNK", "N"),
    ("libarchive/archive_entry.h", "AE_IFSOCK", "AE_IFSOCK", "N"),
    ("libarchive/archive_entry.h", "AE_IFCHR", "AE_IFCHR", "N"),
    ("libarchive/archive_entry.h", "AE_IFBLK", "AE_IFBLK", "N"),
    ("libarchive/archive_entry.h", "AE_IFDIR", "AE_IFDIR", "N"),
    ("libarchive/archive_entry.h", "AE_IFIFO", "AE_IFIFO", "N"),
    ("libarchive/archive_entry_link_resolver.c", "ARCHIVE_ENTRY_LINKIFY_LIKE_TAR", "LINKIFY_LIKE_TAR", "N"),
    ("libarchive/archive_entry_link_resolver.c", "ARCHIVE_ENTRY_LINKIFY_LIKE_MTREE", "LINKIFY_LIKE_MTREE", "N"),
    ("libarchive/archive_entry_link_resolver.c", "ARCHIVE_ENTRY_LINKIFY_LIKE_OLD_CPIO", "LINKIFY_LIKE_OLD_CPIO", "N"),
    ("libarchive/archive_entry_link_resolver.c", "ARCHIVE_ENTRY_LINKIFY_LIKE_NEW_CPIO", "LINKIFY_LIKE_NEW_CPIO", "N"),
    ("libarchive/archive_entry_link_resolver.c", "links_cache_initial_size", "links_cache_initial_size", "N"),
    ("libarchive/archive_private.h", "ARCHIVE_WRITE_MAGIC", "ARCHIVE_WRITE_MAGIC", "N"),
    ("libarchive/archive_private.h", "ARCHIVE_READ_MAGIC", "ARCHIVE_READ_MAGIC", "N"),
    ("libarchive/archive_private.h", "ARCHIVE_WRITE_DISK_MAGIC", "ARCHIVE_WRITE_DISK_MAGIC", "N"),
    ("libarchive/archive_private.h", "ARCHIVE_READ_DISK_MAGIC", "ARCHIVE_READ_DISK_MAGIC", "N"),
    ("libarchive/archive_private.h", "ARCHIVE_MATCH_MAGIC", "ARCHIVE_MATCH_MAGIC", "N"),
    ("libarchive/archive_private.h", "ARCHIVE_STATE_NEW", "ARCHIVE_STATE_NEW", "N"),
    ("libarchive/archive_private.h", "ARCHIVE_STATE_HEADER", "ARCHIVE_STATE_HEADER", "N"),
    ("libarchive/archive_private.h", "ARCHIVE_STATE_DATA", "ARCHIVE_STATE_DATA", "N"),
    ("libarchive/archive_private.h", "ARCHIVE_STATE_EOF", "ARCHIVE_STATE_EOF", "N"),
    ("libarchive/archive_private.h", "ARCHIVE_STATE_CLOSED", "ARCHIVE_STATE_CLOSED", "N"),
    ("libarchive/archive_private.h", "ARCHIVE_STATE_FATAL", "ARCHIVE_STATE_FATAL", "N"),
    ("libarchive/archive_private.h", "ARCHIVE_STATE_ANY", "ARCHIVE_STATE_ANY", "N"),
    ("libarchive/archive_read.c", "MAX_NUMBER_FILTERS", "MAX_NUMBER_FILTERS", "N"),
]

def generate():
    env = {}
    lines = [cdefs.coq_header("translators/gen_defines.py", sorted(set(s[0] for s in SPEC))),
             "From Coq Require Import ZArith NArith.\n"]
    for rel, cname, coqname, scope in SPEC:
        v = cdefs.define_value(rel, cname, env)
        if scope == "N":
            v &= 0xFFFFFFFF  # unsigned int expressions (~ on 32-bit unsigned)
        env[cname] = v
        lines.append("Definition %s : %s := (%d)%%%s." % (coqname, scope, v, scope))
    return "\n".join(lines) + "\n"

if __name__ == "__main__":
    out = sys.argv[1] if len(sys.argv) > 1 else os.path.join(os.path.dirname(__file__), "..", "coq", "Gen", "Defines.v")
    txt = generate()
    old = open(out).read() if os.path.exists(out) else None
    if old != txt:
        os.makedirs(os.path.dirname(out), exist_ok=True)
        open(out, "w").write(txt)
