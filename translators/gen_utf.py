#!/usr/bin/env python3
"""Regenerates coq/Gen/UtfTable.v from libarchive/archive_string.c of the current working tree:
the utf8_count[256] table of _utf8_to_unicode (array initialiser), UNICODE_MAX, UNICODE_R_CHAR, the
bounds of the three surrogate-range macros and the SCONV_* flag bits read by
archive_string_append_unicode."""
import sys, os, re
sys.path.insert(0, os.path.dirname(__file__))
import cdefs

SRC = "libarchive/archive_string.c"

def table():
    src = cdefs.read(SRC)
    m = re.search(r"static\s+const\s+char\s+utf8_count\s*\[\s*256\s*\]\s*=\s*\{(.*?)\}\s*;", src, flags=re.S)
    if not m:
        raise KeyError("no utf8_count[256] initialiser in " + SRC)
    body = cdefs.strip_comments(m.group(1))
    toks = [t.strip() for t in body.split(",") if t.strip()]
    vals = [cdefs.c_int(t) for t in toks]
    if len(vals) != 256:
        raise ValueError("utf8_count has %d initialisers, expected 256" % len(vals))
    return vals

def range_macro(name):
    """#define NAME(uc) ((uc) >= LO && (uc) <= HI)  ->  (LO, HI)"""
    src = cdefs.read(SRC)
    m = re.search(r"^[ \t]*#[ \t]*define[ \t]+" + name +
                  r"\(uc\)[ \t]*\(\(uc\)[ \t]*>=[ \t]*(\w+)[ \t]*&&[ \t]*\(uc\)[ \t]*<=[ \t]*(\w+)\)[ \t]*$", src, flags=re.M)
    if not m:
        raise KeyError("macro %s is not of the form ((uc) >= LO && (uc) <= HI)" % name)
    return cdefs.c_int(m.group(1)), cdefs.c_int(m.group(2))

def flag_value(name):
    """#define NAME <expr> whose trailing comment may continue on the following lines"""
    src = cdefs.strip_comments(cdefs.read(SRC))
    m = re.search(r"^[ \t]*#[ \t]*define[ \t]+" + name + r"\b(?!\()([^\n]*)$", src, flags=re.M)
    if not m:
        raise KeyError("no #define %s in %s" % (name, SRC))
    return cdefs.eval_expr(m.group(1).strip())

FLAGS = ["SCONV_TO_UTF8", "SCONV_FROM_UTF8", "SCONV_TO_UTF16BE", "SCONV_FROM_UTF16BE",
         "SCONV_TO_UTF16LE", "SCONV_FROM_UTF16LE", "SCONV_NORMALIZATION_C", "SCONV_NORMALIZATION_D"]

def generate():
    t = table()
    out = [cdefs.coq_header("translators/gen_utf.py", [SRC]),
           "From Coq Require Import List ZArith NArith.", "Import ListNotations.", "Local Open Scope N_scope.", ""]
    out.append("(* static const char utf8_count[256] of _utf8_to_unicode *)")
    out.append("Definition utf8_count_table : list N :=\n  [" +
               ";\n   ".join("; ".join(str(v) for v in t[r:r + 16]) for r in range(0, 256, 16)) + "].")
    out.append("")
    for n in ("UNICODE_MAX", "UNICODE_R_CHAR"):
        out.append("Definition %s : N := %d." % (n, cdefs.define_value(SRC, n)))
    for macro, coq in (("IS_HIGH_SURROGATE_LA", "HIGH_SURROGATE"), ("IS_LOW_SURROGATE_LA", "LOW_SURROGATE"),
                       ("IS_SURROGATE_PAIR_LA", "SURROGATE")):
        lo, hi = range_macro(macro)
        out.append("Definition %s_LO : N := %d." % (coq, lo))
        out.append("Definition %s_HI : N := %d." % (coq, hi))
    for f in FLAGS:
        out.append("Definition %s : N := %d." % (f, flag_value(f) & 0xFFFFFFFF))
    return "\n".join(out) + "\n"

if __name__ == "__main__":
    out = sys.argv[1] if len(sys.argv) > 1 else os.path.join(os.path.dirname(__file__), "..", "coq", "Gen", "UtfTable.v")
    txt = generate()
    old = open(out).read() if os.path.exists(out) else None
    if old != txt:
        os.makedirs(os.path.dirname(out), exist_ok=True)
        open(out, "w").write(txt)
