#!/usr/bin/env python3
"""Regenerates coq/Gen/Statics.v : every object living in a WRITABLE section of the freshly built
static library (one entry per symbol: object file, symbol, size) joined later (in Coq) with the
committed classification props/C13_statics.json, which is emitted here as a second table.

Writable = section is allocated and not READONLY/CODE in `objdump -h`, i.e. .data*, .bss*, .tdata*,
.tbss* and any other writable section; excluded: .rodata*, .data.rel.ro* (constant after relocation)."""
import sys, os, re, glob, json, subprocess
HERE = os.path.dirname(os.path.abspath(__file__))
sys.path.insert(0, HERE)
sys.path.insert(0, os.path.join(HERE, "..", "lib"))
import cdefs, vlib

CLASSES = {"locked": 0, "init_once_idempotent": 1, "thread_unsafe_documented": 2, "unsynchronised": 3}
# VERIF_C13_CLASSIFICATION: alternative classification file, for trying a patch together with its re-classification
JSON = os.environ.get("VERIF_C13_CLASSIFICATION") or os.path.join(HERE, "..", "props", "C13_statics.json")

def objdump(args):
    p = subprocess.run(["objdump"] + args, stdout=subprocess.PIPE, stderr=subprocess.PIPE, env=dict(os.environ, LC_ALL="C"))
    if p.returncode != 0:
        raise RuntimeError("objdump %s failed: %s" % (args, p.stderr.decode()[:300]))
    return p.stdout.decode("utf-8", "replace")

def writable_sections(obj):
    """names of the sections of one object file that end up writable at run time"""
    out = objdump(["-h", obj]).split("\n")
    secs = set()
    for i, l in enumerate(out):
        m = re.match(r"\s*\d+\s+(\S+)\s+[0-9a-f]{8}\s", l)
        if not m or i + 1 >= len(out):
            continue
        name, flags = m.group(1), out[i + 1]
        if "ALLOC" not in flags or "READONLY" in flags or "CODE" in flags:
            continue
        if name.startswith(".data.rel.ro") or name.startswith(".rodata"):
            continue
        if name.startswith((".init_array", ".fini_array", ".ctors", ".dtors", ".got", ".note", ".eh_frame", ".tm_clone")):
            continue
        secs.add(name)
    return secs

def symbols(obj):
    """[(symbol, size, section)] of the objects placed in writable sections (or common symbols)"""
    w = writable_sections(obj)
    res = []
    for l in objdump(["-t", obj]).split("\n"):
        # 0000000000000000 l     O .bss.lst.1\t0000000000000008 lst.1
        if "\t" not in l:
            continue
        left, right = l.split("\t", 1)
        lf = left.split()
        if len(lf) < 2 or not re.fullmatch(r"[0-9a-f]+", lf[0]):
            continue
        sec = lf[-1]
        flags = left[len(lf[0]) + 1:len(lf[0]) + 8]
        rf = right.split(None, 1)
        if len(rf) != 2:
            continue
        size, name = int(rf[0], 16), rf[1].strip()
        name = re.sub(r"^\.hidden\s+", "", name)
        if "d" in flags and "O" not in flags:      # section symbol
            continue
        if "F" in flags or "f" in flags:
            continue
        if sec == "*COM*" or sec in w:
            if size == 0 and sec != "*COM*":
                continue
            res.append((name, size, sec))
    return res

# C library functions that keep state in a hidden object of the PROCESS (POSIX: "need not be thread-safe"), or
# change process-wide state.  A reference to one of them from a library object becomes a row "libc:<function>"
# of the statics table and needs a classification like any other shared object.
LIBC_HIDDEN_STATE = set("""
asctime basename catgets crypt ctime dirname dlerror drand48 erand48 jrand48 lcong48 lrand48 mrand48 nrand48 seed48 srand48
ecvt fcvt gcvt encrypt setkey endgrent getgrent setgrent endpwent getpwent setpwent getgrgid getgrnam getpwnam getpwuid
gethostbyaddr gethostbyname gethostent getnetbyaddr getnetbyname getnetent getprotobyname getprotobynumber getprotoent
getservbyname getservbyport getservent getlogin getopt getopt_long getdate getenv putenv setenv unsetenv clearenv
gmtime localtime hcreate hdestroy hsearch inet_ntoa l64a a64l lgamma lgammaf lgammal localeconv nl_langinfo setlocale
ptsname ttyname rand srand random srandom initstate setstate readdir strerror strsignal strtok system tmpnam tempnam mktemp
wcstombs mbstowcs wctomb mbtowc mblen tzset mktime umask chdir fchdir chroot setuid setgid seteuid setegid signal sigaction
getmntent fgetgrent fgetpwent getutent getutid getutline pututline getutxent getutxid getutxline pututxline
""".split())
# restartable conversions: hidden state only when the caller passes a null state pointer (last argument)
LIBC_STATE_ARG = {"mbrtowc": 3, "wcrtomb": 2, "mbrlen": 2, "mbsrtowcs": 3, "wcsrtombs": 3, "mbsnrtowcs": 4, "wcsnrtombs": 4,
                  "mbrtoc16": 3, "c16rtomb": 2, "mbrtoc32": 3, "c32rtomb": 2}

def undefined_refs(obj):
    res = set()
    for l in objdump(["-t", obj]).split("\n"):
        if "*UND*" in l:
            res.add(l.split()[-1].split("@")[0])
    return res

def call_args(text, pos):
    """arguments of the call whose '(' is at text[pos]; None when unbalanced"""
    depth, cur, args, i = 0, "", [], pos
    while i < len(text):
        ch = text[i]
        if ch == "(":
            depth += 1
            if depth > 1:
                cur += ch
        elif ch == ")":
            depth -= 1
            if depth == 0:
                args.append(cur.strip())
                return args
            cur += ch
        elif ch == "," and depth == 1:
            args.append(cur.strip()); cur = ""
        else:
            cur += ch
        i += 1
    return None

def null_state_calls(src):
    """names f of LIBC_STATE_ARG called in the C source file with a null state argument"""
    try:
        text = open(src, errors="replace").read()
    except OSError:
        return set()
    text = re.sub(r"/\*.*?\*/", " ", text, flags=re.S)
    text = re.sub(r"//[^\n]*", " ", text)
    res = set()
    for f, k in LIBC_STATE_ARG.items():
        for m in re.finditer(r"\b%s\s*\(" % f, text):
            a = call_args(text, m.end() - 1)
            if a is None or len(a) <= k:
                continue
            if re.fullmatch(r"(\(\s*(void|mbstate_t)\s*\*\s*\)\s*)?(NULL|0|nullptr)", a[k]):
                res.add(f)
    return res

def libc_rows(obj, oname):
    und = undefined_refs(obj)
    rows = [(oname, "libc:" + f, 0, "libc") for f in sorted(und & LIBC_HIDDEN_STATE)]
    src = os.path.join(vlib.REPO, "libarchive", oname)
    for f in sorted(null_state_calls(src) & und):
        rows.append((oname, "libc:%s(NULL)" % f, 0, "libc"))
    return rows

def collect(builddir):
    objs = sorted(glob.glob(os.path.join(builddir, "libarchive", "CMakeFiles", "archive_static.dir", "*.o")))
    if not objs:
        raise RuntimeError("no object files under %s" % builddir)
    table = []
    for o in objs:
        oname = os.path.basename(o)
        oname = oname[:-2] if oname.endswith(".o") else oname
        seen = {}
        syms = symbols(o)
        # function-local statics carry the compiler's ".N" suffix: strip it, keep names unique per object
        def key(s):
            m = re.fullmatch(r"(.*)\.(\d+)", s[0])
            return (m.group(1), int(m.group(2))) if m else (s[0], -1)
        for name, size, sec in sorted(syms, key=key):
            base = key((name,))[0]
            seen[base] = seen.get(base, 0) + 1
            uniq = base if seen[base] == 1 else "%s@%d" % (base, seen[base])
            table.append((oname, uniq, size, sec))
        table += libc_rows(o, oname)
    return sorted(table), len(objs)

def coq_str(s):
    return '"' + s.replace('"', '""') + '"'

def load_classification():
    d = json.load(open(JSON))
    rows = []
    for e in d["statics"]:
        c = e["class"]
        kind, _, mutex = c.partition(":")
        if kind not in CLASSES or (kind == "locked") != bool(mutex):
            raise RuntimeError("props/C13_statics.json: bad class %r for %s" % (c, e.get("symbol")))
        rows.append((e["object"], e["symbol"], CLASSES[kind], mutex))
    return sorted(set(rows))

def generate():
    b = vlib.build_repo("plain")
    table, nobj = collect(b)
    cl = load_classification()
    lines = [cdefs.coq_header("translators/gen_statics.py",
                              ["objdump -h/-t over the %d objects of the static library (plain build of the working tree)" % nobj,
                               "props/C13_statics.json"]),
             "From Coq Require Import List NArith String.", "Import ListNotations.", "Open Scope string_scope.", "",
             "(* (object file, symbol, size in bytes) of every object in a writable section *)",
             "Definition statics : list (string * string * N) := ["]
    lines.append(";\n".join("  (%s, %s, %d%%N)" % (coq_str(o), coq_str(s), n) for o, s, n, _ in table))
    lines += ["].", "",
              "(* section each of them lives in (same order) *)",
              "Definition statics_sections : list string := ["]
    lines.append(";\n".join("  %s" % coq_str(sec) for _, _, _, sec in table))
    lines += ["].", "",
              "(* committed classification: (object, symbol, (class code, mutex)); codes: 0 locked:<mutex>,",
              "   1 init_once_idempotent, 2 thread_unsafe_documented, 3 unsynchronised *)",
              "Definition classification : list (string * string * (N * string)) := ["]
    lines.append(";\n".join("  (%s, %s, (%d%%N, %s))" % (coq_str(o), coq_str(s), c, coq_str(m)) for o, s, c, m in cl))
    lines += ["]."]
    return "\n".join(lines) + "\n", table

if __name__ == "__main__":
    out = sys.argv[1] if len(sys.argv) > 1 else os.path.join(HERE, "..", "coq", "Gen", "Statics.v")
    txt, table = generate()
    old = open(out).read() if os.path.exists(out) else None
    if old != txt:
        os.makedirs(os.path.dirname(out), exist_ok=True)
        open(out, "w").write(txt)
