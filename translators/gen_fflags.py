#!/usr/bin/env python3
"""Regenerates coq/Gen/FflagsTable.v : the fileflags[] table of libarchive/archive_entry.c exactly as the build of
the current working tree compiles it (the rows depend on which UF_*/SF_*/FS_*_FL macros the platform headers
define).  harness/dumpFflags.c includes archive_entry.c and prints the rows; nothing is parsed from the source
text.  Each row: (name, set bits, clear bits); WNAMES_AGREE says that every wide name spells its narrow name."""
import sys, os
HERE = os.path.dirname(os.path.abspath(__file__))
sys.path.insert(0, HERE)
sys.path.insert(0, os.path.join(HERE, "..", "lib"))
import cdefs, vlib

def rows():
    exe = vlib.compile_harness("dumpFflags", "plain", private=True)
    rc, out = vlib.sh([exe], timeout=60)
    if rc != 0:
        raise RuntimeError("dumpFflags failed: " + out[-300:])
    res, bits, agree = [], 0, True
    for l in out.split("\n"):
        f = l.split()
        if len(f) == 2 and f[0] == "END":
            bits = int(f[1])
        elif len(f) == 4:
            res.append((f[0], int(f[1], 16), int(f[2], 16)))
            agree = agree and f[3] == "1"
    if not bits:
        raise RuntimeError("dumpFflags: no END line")
    return res, bits, agree

def generate():
    t, bits, agree = rows()
    lines = [cdefs.coq_header("translators/gen_fflags.py", ["libarchive/archive_entry.c (fileflags[], compiled with the build's config.h)"]),
             "From Coq Require Import List NArith.", "Import ListNotations.", "Local Open Scope N_scope.", "",
             "Definition ULONG_BITS : N := %d." % bits,
             "Definition WNAMES_AGREE : bool := %s." % ("true" if agree else "false"),
             "(* (name as bytes, set, clear) in table order *)",
             "Definition fileflags : list (list N * N * N) := ["]
    lines.append(";\n".join("  ([%s], %d, %d)  (* %s *)" % ("; ".join(str(b) for b in n.encode()), s, c, n) for n, s, c in t))
    lines.append("].")
    return "\n".join(lines) + "\n"

if __name__ == "__main__":
    out = sys.argv[1] if len(sys.argv) > 1 else os.path.join(HERE, "..", "coq", "Gen", "FflagsTable.v")
    txt = generate()
    old = open(out).read() if os.path.exists(out) else None
    if old != txt:
        os.makedirs(os.path.dirname(out), exist_ok=True)
        open(out, "w").write(txt)
