#!/bin/bash
# MANIFEST.setup_cmd : build the framework from files on disk only (offline).
set -e
cd "$(dirname "$0")"
mkdir -p .cache ml/gen evidence/replays
# 1. configure + build /repo's current tree in the variants the checks use
for v in plain asan; do lib/build_repo.sh $v >/dev/null; done
# 2. regenerate coq/Gen from /repo and build the whole Coq development (full .vo build)
for t in translators/gen_*.py; do python3 "$t"; done
cd coq
(echo "-Q . LA"; find . -name '*.v' | sed 's|^\./||' | sort) > _CoqProject
coq_makefile -f _CoqProject -o Makefile >/dev/null
timeout 3000 make -j16 -k 2>&1 | grep -v "WARNING conda" | tail -5 || true
cd ..
# 3. build the extracted model runners
python3 - <<'PY'
import sys, os, glob
sys.path.insert(0, "lib")
import vlib
for f in sorted(glob.glob("coq/Extract/Extract*.v")):
    fam = os.path.basename(f)[len("Extract"):-2]
    fam = fam[0].lower() + fam[1:]
    try:
        vlib.build_runner(fam)
        print("runner", fam, "ok")
    except Exception as ex:
        print("runner", fam, "FAILED", str(ex)[:300])
PY
echo "setup done"
