"""C05 - results do not depend on read block sizes or on the byte source.
Proof: Properties_C05.v (refinement of the read core to an abstract stream; any parser computes the
same result under every partition).  Tie: (1) model vs real core on scripts under many partitions,
(2) oracle on the real code alone: the same script / the same archive observed under different
partitions and sources of one capability class must give identical results."""
import vlib, readcore
from vlib import vfmt, vparse

LEVEL = "proof"

def short(kw):
    d = dict(kw)
    if "rplan" in d:
        rp = d["rplan"]
        d["rplan"] = "%d x %s" % (len(rp), rp[0]) if rp else "whole"
    return d

def gen_multinode_case(r, big=False):
    """(nodes bs ops): honest seekable nodes; seeks mostly inside the archive, some outside; node borders,
    empty nodes and the last byte of a node are favoured"""
    n = r.choice([1, 1, 2, 2, 3, 3, 4, 5, 6]) if not big else r.randrange(20, 60)
    nodes = [bytes(r.randrange(256) for _ in range(r.choice([0, 0, 1, 2, 3, 5, 8, 13, 40, 100]))) for _ in range(n)]
    total = sum(len(x) for x in nodes)
    borders = [0]
    for x in nodes:
        borders.append(borders[-1] + len(x))
    bs = r.choice([1, 2, 3, 4, 7, 16, 100, 4096])
    ops = []
    pos = None   # unknown after a read
    for _ in range(r.randrange(1, 16)):
        x = r.random()
        if x < 0.35:
            ops.append([0])
        elif x < 0.55:
            ops.append([1, r.choice([0, 1, 1, 2, 3, 5, 8, 13, 50, bs, bs + 1, max(0, total // 2), total, total + 1, -1])])
        else:
            wh = r.choice([0, 0, 0, 1, 2, 2, 3])
            if wh == 3:
                ops.append([2, 0, 77]); continue
            t = r.choice(borders + [max(0, b - 1) for b in borders] + [r.randrange(0, total + 1)] * 3)
            if r.random() < 0.12:
                t = r.choice([-1, -3, total + 1, total + 5, -total - 2])
            if wh == 0:
                ops.append([2, t, 0])
            elif wh == 2:
                ops.append([2, t - total, 2])
            else:
                ops.append([2, r.randrange(-total - 1, total + 2), 1])
    return vfmt([nodes, bs, ops])

def gen_multinode_big(r):
    """nodes larger than 64 KiB so that consume() takes the seeker-as-skipper branch, inside a node, up to its
    end, across one or two node borders and beyond the end of the archive"""
    n = r.choice([1, 2, 2, 3])
    sizes = [r.choice([100, 65536, 65537, 70000, 140000]) for _ in range(n)]
    nodes = [bytes(((i * 7 + 13 * (i >> 8)) + 31 * k) & 0xff for i in range(sz)) for k, sz in enumerate(sizes)]
    total = sum(sizes)
    bs = r.choice([4096, 10240, 65536, 100000])
    ops, pos = [], 0
    for _ in range(r.randrange(2, 7)):
        x = r.random()
        left = total - pos
        if x < 0.35:
            ops.append([0]); pos = None
        elif x < 0.9 or pos is None:
            k = r.choice([65537, 66000, 70001, 135000, total, total + 1, 1000] + ([left, left + 1, max(0, left - 1)] if pos is not None else []))
            ops.append([1, k])
            pos = None
        if pos is None:
            t = r.choice([0, sizes[0], max(0, sizes[0] - 1), r.randrange(0, total + 1)])
            ops.append([2, t, 0]); pos = t
    return vfmt([nodes, bs, ops])

def multinode_oracle(case_line, impl_line):
    """C05 on the implementation's output alone: what is delivered depends only on the concatenation of the
    nodes.  Judged up to the first refused seek (the stream position is unspecified afterwards)."""
    try:
        nodes, bs, ops = vparse(case_line)
        outs = vparse(impl_line)
    except Exception:
        return ("C05:multinode:unparsable", "unparsable harness output")
    flat = b"".join(nodes)
    a = 0
    if len(outs) != len(ops):
        return ("C05:multinode:script-not-run", "the reader did not run the script (%d of %d operations)" % (len(outs), len(ops)))
    for k, (op, o) in enumerate(zip(ops, outs)):
        if op[0] == 0:
            b, p = o[1], o[2]
            if b != flat[a:a + len(b)] or p != a + len(b) or (len(b) == 0 and a < len(flat)):
                return ("C05:multinode:read-depends-on-split",
                        "op %d: read at stream offset %d returned %r (position %d); the concatenated stream has %r there" %
                        (k, a, b[:16], p, flat[a:a + max(1, len(b))][:16]))
            a = p
        elif op[0] == 1:
            n = op[1]
            if 0 <= n <= len(flat) - a:
                if o[1] != n or o[2] != a + n:
                    return ("C05:multinode:consume-depends-on-split",
                            "op %d: consume(%d) at stream offset %d of a %d-byte stream split as %s returned %d, position %d" %
                            (k, n, a, len(flat), [len(x) for x in nodes], o[1], o[2]))
                a += n
            else:
                if o[1] >= 0:
                    return ("C05:multinode:short-stream-consumed", "op %d: consume(%d) with only %d bytes left returned %d" % (k, n, len(flat) - a, o[1]))
                if n < 0:
                    continue
                return None      # the stream is at its end in an error state
        else:
            off, wh = op[1], op[2]
            t = off if wh == 0 else a + off if wh == 1 else len(flat) + off if wh == 2 else None
            if t is None or t < 0 or t > len(flat):
                if o[1] >= 0:
                    return ("C05:multinode:bad-seek-accepted", "op %d: seek to %s (whence %d) outside the %d-byte stream returned %d" % (k, t, wh, len(flat), o[1]))
                return None
            if o[1] != t or o[2] != t:
                return ("C05:multinode:seek-depends-on-split",
                        "op %d: seek to offset %d (whence %d) of a %d-byte stream split as %s returned %d, position %d" %
                        (k, t, wh, len(flat), [len(x) for x in nodes], o[1], o[2]))
            a = t
    return None

def multinode(rep, r, quick):
    runner = vlib.build_runner("multiNode")
    exe = vlib.compile_harness("multiNode", "asan", private=True)
    n = 1500 if quick else 60000
    cases = [gen_multinode_case(r) for _ in range(n)] + [gen_multinode_case(r, big=True) for _ in range(20 if quick else 600)]
    cases += [gen_multinode_big(r) for _ in range(40 if quick else 1500)]
    # the same stream under different splits: the oracle must accept both, and seek+read-to-end must agree
    st = vlib.correspond(rep, "multiNode", runner, exe, vlib.load_corpus("C05-multinode") + cases, oracle=multinode_oracle)
    return st

def run(rep):
    pr = vlib.proof_part(rep, "C05", translators=["gen_defines"])
    runner = vlib.build_runner("readCore")
    core = vlib.compile_harness("readCore", "asan", private=True)
    r = vlib.rng(rep.seed, "C05")
    quick = rep.tier == "quick"

    # ---- Corr-1: scripts; groups of one (data, ops, caps) under several partitions
    ngroups = 60 if quick else 1500
    cases, group_of = [], []
    for g in range(ngroups):
        n = r.choice([0, 1, 3, 20, 64, 300, 1100, 4000])
        data = bytes(r.randrange(256) for _ in range(n))
        hs, hk = r.choice([(0, 0), (0, 0), (1, 0), (1, 1), (0, 1)])
        ops = readcore.gen_ops(r, n, bool(hk))
        plans = [[], [[0, 1]] * (n + 2), [[0, 2]] * (n // 2 + 2), [[0, 3]] * (n // 3 + 2), [[0, 7]] * (n // 7 + 2),
                 [[0, 511]] * (n // 511 + 2), [[0, 512]] * 10, [[0, 513]] * 10,
                 readcore.gen_partition(r, n), readcore.gen_partition(r, n)]
        # adversarial: cut right after every position a window of the script ends at
        for pl in plans:
            splan = [[0, r.choice([1, 5, 1000])] for _ in range(r.randrange(0, 3))] if hs else []
            cases.append(vfmt([data, pl, splan, [], hs, hk, ops]))
            group_of.append(g)
    nb = 150 if quick else 4000
    for _ in range(nb):
        cases.append(readcore.gen_boundary_case(r)); group_of.append(-1)
    for _ in range(30 if quick else 600):
        cases.append(readcore.gen_seekskip_case(r)); group_of.append(-1)
    st = vlib.correspond(rep, "readCore", runner, core, cases, oracle=readcore.core_oracle_c01)
    # oracle across partitions, on the implementation's own outputs
    path = vlib.write_cases(cases, "c05.cases")
    rc, ilines, err = vlib.run_exe(core, path)
    groups = {}
    for c, l, g in zip(cases, ilines, group_of):
        if g < 0:
            continue
        try:
            groups.setdefault(g, []).append((c, readcore.core_observation(c, l)))
        except Exception:
            pass
    ngdiff = 0
    for g, lst in groups.items():
        base_c, base = lst[0]
        for c, ob in lst[1:]:
            if ob != base:
                ngdiff += 1
                rep.violation("C05:core:partition-dependent",
                              "the same script over the same bytes gives different results under two read-callback partitions",
                              dict(case_a=base_c, case_b=c, obs_a=str(base)[:600], obs_b=str(ob)[:600],
                                   cmd="harness readCore on both case lines"), found_input=True)
                break

    # ---- Corr-1b: multi-volume layer (data nodes, dataset table, seek across nodes)
    mn_stats = multinode(rep, r, quick)

    # ---- Corr-2: whole archives under partitions and sources
    readall = vlib.compile_harness("readAll", "asan")
    mk = vlib.compile_harness("mkArchive", "asan")
    arcs = readcore.writer_archives(mk)
    arcs += readcore.reference_archives(30000 if quick else 400000, limit=70 if quick else None)
    arcs += readcore.replicated_archives(130 if quick else 400)
    images = readcore.decompressed_images()
    arcs += [im for im in images if "zisofs" in im[0]] if quick else images
    rcases, meta = [], []
    for name, arc in arcs:
        small = len(arc) <= (6000 if quick else 8000)
        sizes = [s for s in readcore.PART_SIZES if small or s >= 7]
        if quick:
            # always one small odd size and one just above a block multiple: text-line parsers (tar's sparse map,
            # mtree, warc, uuencode) take different paths when a block ends inside a line
            keep = [x for x in (3, 513) if x in sizes]
            sizes = keep + r.sample([x for x in sizes if x not in keep], min(2, max(0, len(sizes) - len(keep))))
        # class A: seek and skip offered
        variants = [("A", dict(source=(1,)))]
        # (seekable readers go back and read again: the plan is three passes long, so that the block size holds throughout)
        variants += [("A", dict(source=(0,), rplan=[sz] * (3 * (len(arc) // sz + 2)), has_skip=1, has_seek=1)) for sz in sizes]
        if not small and ((len(arc) <= 40000 and readcore.MUST_REFS.search(name)) or name.startswith("raw:")):
            # decoders that fetch single bytes behind the block they were given (PPMd range decoder, ...): blocks so
            # small that a symbol regularly needs more than the block has left
            variants += [("A", dict(source=(0,), rplan=[sz] * (3 * (len(arc) // sz + 2)), has_skip=1, has_seek=1)) for sz in (1, 3)]
        variants += [("A", dict(source=(2, r.choice([1, 7, 512, 10240])))), ("A", dict(source=(3, r.choice([3, 513, 65536])))),
                     ("A", dict(source=(5,)))]
        if len(arc) > 4:
            cuts = sorted(r.sample(range(1, len(arc)), min(2, len(arc) - 1)))
            variants.append(("A6", dict(source=tuple([6] + cuts))))
            # the same cuts behind callbacks (appended callback data), seek and skip offered
            variants.append(("A6", dict(source=tuple([7] + cuts), rplan=[r.choice([512, 4096, 10240, 65536])], has_skip=1, has_seek=1)))
            # seek callback only (lseek-like), one node and several: same capability class as A for the formats
            variants.append(("A-seekonly", dict(source=(7,), rplan=[10240], has_seek=1)))
            variants.append(("A-seekonly", dict(source=tuple([7] + cuts), rplan=[r.choice([512, 4096, 10240, 65536])], has_seek=1)))
            variants.append(("A-seekonly", dict(source=(0,), rplan=[10240] * (len(arc) // 10240 + 2), has_seek=1)))
        # class B: neither
        variants += [("B", dict(source=(0,), rplan=[]))]
        if not small and len(arc) <= 40000 and not name.startswith("test_read_format_rar"):
            # decoders fed through an inner callback (xar's XML parser, ...) have their own end-of-block paths:
            # always one run with 1- to 3-byte blocks, whatever the tier samples below
            tiny = r.choice([1, 2, 3])
            variants += [("B", dict(source=(0,), rplan=[tiny] * (len(arc) // tiny + 2)))]
        variants += [("B", dict(source=(0,), rplan=[sz] * (len(arc) // sz + 2))) for sz in sizes]
        variants += [("B", dict(source=(4, r.choice([1, 512, 10240]))))]
        # class C: skip only
        variants += [("C", dict(source=(0,), rplan=[], has_skip=1))]
        variants += [("C", dict(source=(0,), rplan=[sz] * (len(arc) // sz + 2), has_skip=1)) for sz in sizes[:2]]
        if name.endswith("#big"):
            # every way of not reading the bodies: explicit skip and no call at all
            variants = variants + [(cls, dict(kw, consume=(3, 0, 0))) for cls, kw in variants] + \
                       [(cls, dict(kw, consume=(4, 0, 0))) for cls, kw in variants]
        for cls, kw in variants:
            rcases.append(readcore.read_case(arc, **kw))
            meta.append((name, cls, kw))
    lines, failures = readcore.run_readall_sharded(readall, rcases, timeout=900 if quick else 2400)
    for k, rc, err in failures[:8]:
        rep.violation("crash:readAll:" + vlib.crash_key(err),
                      "reader harness stopped (rc=%s) on archive %s variant %s %s: %s" % (rc, meta[k][0], meta[k][1], short(meta[k][2]), vlib.crash_key(err)),
                      dict(case=rcases[k][:200000], stderr=err[-3000:], archive=meta[k][0]), found_input=True)
    base = {}
    ncmp = nclean = 0
    for (name, cls, kw), c, l in zip(meta, rcases, lines):
        d = readcore.digest_ok(l)
        if d is None:
            continue
        key = (name, cls[0], kw.get("consume"))
        # A6 (multi-volume) is compared with class A on everything
        if key not in base:
            base[key] = (kw, d, c)
            if d[-4] in (1,) and all(isinstance(e, list) and e[0] >= -20 for e in d[:-4]):
                nclean += 1
            continue
        ncmp += 1
        bkw, bd, bc = base[key]
        if d != bd:
            rep.violation("C05:archive:%s" % ("source-dependent" if kw.get("source", (0,))[0] != 0 or bkw.get("source", (0,))[0] != 0 else "partition-dependent"),
                          "archive %s read through %s differs from %s (same capability class %s)" % (name, short(kw), short(bkw), cls[0]),
                          dict(archive=name, variant_a=str(bkw), variant_b=str(kw), digest_a=str(bd)[:1500], digest_b=str(d)[:1500],
                               case_a=bc[:4000], case_b=c[:4000], cmd="harness readAll on both case lines"), found_input=True)
    rep.coverage.update(
        evaluations=len(cases) + len(rcases) + mn_stats["cases"],
        distinct_nontrivial=len(set(cases)) + len(set(rcases)),
        rule="Corr-1: %d (data, script, capability) groups x 10 read-callback partitions (1,2,3,7,511,512,513, random, whole) through the real "
             "__archive_read_ahead/consume/seek via a pseudo-format, compared with the extracted model and with each other; "
             "Corr-1b: %d multi-node scripts (1-6 and 20-60 nodes incl. empty ones, block sizes 1..4096, seeks at node borders, last bytes, outside the stream) "
             "through the real __archive_read_seek/ahead over appended callback data vs the extracted model, and the split-independence oracle on the real output; "
             "Corr-2: %d archives (real writers x formats/filters + suite reference archives) x sources {open_memory, callbacks with partitions, "
             "open_filename, open_fd file/pipe, open_FILE, open_filenames split} grouped by capability class; every case is distinct and non-trivial "
             "(non-empty script or archive)" % (ngroups, mn_stats["cases"], len(arcs)),
        samples=[cases[1][:300], str(meta[3])],
        traces_validated_against_impl=st["agree"] + mn_stats["agree"], correspondence=st, correspondence_multinode=mn_stats,
        archive_variants_compared=ncmp, archives=len(arcs), archives_reading_cleanly=nclean,
        partition_groups=len(groups), partition_groups_differing=ngdiff)
    rep.assumptions += ["the format readers' own parsing is not modelled; their partition independence is checked differentially (Corr-2), not proved",
                        "multi-node data sets: the dataset table, the node switches and the three seek cases are modelled (IO/MultiNodeDefs.v, honest seekable "
                        "nodes, one block per read); multi-node skipping (advance_file_pointer across nodes) and failing node callbacks are exercised only "
                        "through open_filenames in Corr-2"]
    vlib.proof_verdict(rep, "C05", pr)

def replay(rep, path):
    import json
    d = json.load(open(path))["replay"]
    core = vlib.compile_harness("readCore", "asan", private=True)
    readall = vlib.compile_harness("readAll", "asan")
    for k in ("case", "case_a", "case_b"):
        if k in d and d[k]:
            exe = readall if d.get("archive") else core
            p = vlib.write_cases([d[k]], "replay.cases")
            print(vlib.run_exe(exe, p, env={"VERIF_TMP": vlib.scratch()}))
    rep.coverage.update(evaluations=1, distinct_nontrivial=1, samples=[str(d)[:300]])
