"""C05 - results do not depend on read block sizes or on the byte source.
Proof: Properties_C05.v (refinement of the read core to an abstract stream; any parser computes the
same result under every partition).  Tie: (1) model vs real core on scripts under many partitions,
(2) oracle on the real code alone: the same script / the same archive observed under different
partitions and sources of one capability class must give identical results."""
import vlib, readcore
from vlib import vfmt, vparse

LEVEL = "proof"

def short(kw):
    d = dict(kw)
    if "rplan" in d:
        rp = d["rplan"]
        d["rplan"] = "%d x %s" % (len(rp), rp[0]) if rp else "whole"
    return d

def run(rep):
    pr = vlib.proof_part(rep, "C05", translators=["gen_defines"])
    runner = vlib.build_runner("readCore")
    core = vlib.compile_harness("readCore", "asan", private=True)
    r = vlib.rng(rep.seed, "C05")
    quick = rep.tier == "quick"

    # ---- Corr-1: scripts; groups of one (data, ops, caps) under several partitions
    ngroups = 60 if quick else 1500
    cases, group_of = [], []
    for g in range(ngroups):
        n = r.choice([0, 1, 3, 20, 64, 300, 1100, 4000])
        data = bytes(r.randrange(256) for _ in range(n))
        hs, hk = r.choice([(0, 0), (0, 0), (1, 0), (1, 1), (0, 1)])
        ops = readcore.gen_ops(r, n, bool(hk))
        plans = [[], [[0, 1]] * (n + 2), [[0, 2]] * (n // 2 + 2), [[0, 3]] * (n // 3 + 2), [[0, 7]] * (n // 7 + 2),
                 [[0, 511]] * (n // 511 + 2), [[0, 512]] * 10, [[0, 513]] * 10,
                 readcore.gen_partition(r, n), readcore.gen_partition(r, n)]
        # adversarial: cut right after every position a window of the script ends at
        for pl in plans:
            splan = [[0, r.choice([1, 5, 1000])] for _ in range(r.randrange(0, 3))] if hs else []
            cases.append(vfmt([data, pl, splan, [], hs, hk, ops]))
            group_of.append(g)
    nb = 150 if quick else 4000
    for _ in range(nb):
        cases.append(readcore.gen_boundary_case(r)); group_of.append(-1)
    st = vlib.correspond(rep, "readCore", runner, core, cases, oracle=readcore.core_oracle_c01)
    # oracle across partitions, on the implementation's own outputs
    path = vlib.write_cases(cases, "c05.cases")
    rc, ilines, err = vlib.run_exe(core, path)
    groups = {}
    for c, l, g in zip(cases, ilines, group_of):
        if g < 0:
            continue
        try:
            groups.setdefault(g, []).append((c, readcore.core_observation(c, l)))
        except Exception:
            pass
    ngdiff = 0
    for g, lst in groups.items():
        base_c, base = lst[0]
        for c, ob in lst[1:]:
            if ob != base:
                ngdiff += 1
                rep.violation("C05:core:partition-dependent",
                              "the same script over the same bytes gives different results under two read-callback partitions",
                              dict(case_a=base_c, case_b=c, obs_a=str(base)[:600], obs_b=str(ob)[:600],
                                   cmd="harness readCore on both case lines"), found_input=True)
                break

    # ---- Corr-2: whole archives under partitions and sources
    readall = vlib.compile_harness("readAll", "asan")
    mk = vlib.compile_harness("mkArchive", "asan")
    arcs = readcore.writer_archives(mk)
    arcs += readcore.reference_archives(20000 if quick else 400000, limit=24 if quick else None)
    rcases, meta = [], []
    for name, arc in arcs:
        small = len(arc) <= (6000 if quick else 30000)
        sizes = [s for s in readcore.PART_SIZES if small or s >= 7]
        if quick:
            sizes = r.sample(sizes, min(3, len(sizes)))
        # class A: seek and skip offered
        variants = [("A", dict(source=(1,)))]
        variants += [("A", dict(source=(0,), rplan=[sz] * (len(arc) // sz + 2), has_skip=1, has_seek=1)) for sz in sizes]
        variants += [("A", dict(source=(2, r.choice([1, 7, 512, 10240])))), ("A", dict(source=(3, r.choice([3, 513, 65536])))),
                     ("A", dict(source=(5,)))]
        if len(arc) > 4:
            cuts = sorted(r.sample(range(1, len(arc)), min(2, len(arc) - 1)))
            variants.append(("A6", dict(source=tuple([6] + cuts))))
        # class B: neither
        variants += [("B", dict(source=(0,), rplan=[]))]
        variants += [("B", dict(source=(0,), rplan=[sz] * (len(arc) // sz + 2))) for sz in sizes]
        variants += [("B", dict(source=(4, r.choice([1, 512, 10240]))))]
        # class C: skip only
        variants += [("C", dict(source=(0,), rplan=[], has_skip=1))]
        variants += [("C", dict(source=(0,), rplan=[sz] * (len(arc) // sz + 2), has_skip=1)) for sz in sizes[:2]]
        for cls, kw in variants:
            rcases.append(readcore.read_case(arc, **kw))
            meta.append((name, cls, kw))
    rc, lines, err = readcore.run_readall(readall, rcases, timeout=1500)
    if rc != 0 or len(lines) != len(rcases):
        k = min(len(lines), len(rcases) - 1)
        rep.violation("crash:readAll:" + vlib.crash_key(err),
                      "reader harness stopped (rc=%s) on archive %s variant %s %s: %s" % (rc, meta[k][0], meta[k][1], short(meta[k][2]), vlib.crash_key(err)),
                      dict(case=rcases[k][:2000], stderr=err[-3000:], archive=meta[k][0]), found_input=True)
    base = {}
    ncmp = nclean = 0
    for (name, cls, kw), c, l in zip(meta, rcases, lines):
        d = readcore.digest_ok(l)
        if d is None:
            continue
        key = (name, cls[0])
        # A6 (multi-volume) is compared with class A on everything
        if key not in base:
            base[key] = (kw, d, c)
            if d[-4] in (1,) and all(isinstance(e, list) and e[0] >= -20 for e in d[:-4]):
                nclean += 1
            continue
        ncmp += 1
        bkw, bd, bc = base[key]
        if d != bd:
            rep.violation("C05:archive:%s" % ("source-dependent" if kw.get("source", (0,))[0] != 0 or bkw.get("source", (0,))[0] != 0 else "partition-dependent"),
                          "archive %s read through %s differs from %s (same capability class %s)" % (name, short(kw), short(bkw), cls[0]),
                          dict(archive=name, variant_a=str(bkw), variant_b=str(kw), digest_a=str(bd)[:1500], digest_b=str(d)[:1500],
                               case_a=bc[:4000], case_b=c[:4000], cmd="harness readAll on both case lines"), found_input=True)
    rep.coverage.update(
        evaluations=len(cases) + len(rcases),
        distinct_nontrivial=len(set(cases)) + len(set(rcases)),
        rule="Corr-1: %d (data, script, capability) groups x 10 read-callback partitions (1,2,3,7,511,512,513, random, whole) through the real "
             "__archive_read_ahead/consume/seek via a pseudo-format, compared with the extracted model and with each other; "
             "Corr-2: %d archives (real writers x formats/filters + suite reference archives) x sources {open_memory, callbacks with partitions, "
             "open_filename, open_fd file/pipe, open_FILE, open_filenames split} grouped by capability class; every case is distinct and non-trivial "
             "(non-empty script or archive)" % (ngroups, len(arcs)),
        samples=[cases[1][:300], str(meta[3])],
        traces_validated_against_impl=st["agree"], correspondence=st,
        archive_variants_compared=ncmp, archives=len(arcs), archives_reading_cleanly=nclean,
        partition_groups=len(groups), partition_groups_differing=ngdiff)
    rep.assumptions += ["the format readers' own parsing is not modelled; their partition independence is checked differentially (Corr-2), not proved",
                        "multi-node data sets are exercised only through open_filenames (not modelled)"]
    vlib.proof_verdict(rep, "C05", pr)

def replay(rep, path):
    import json
    d = json.load(open(path))["replay"]
    core = vlib.compile_harness("readCore", "asan", private=True)
    readall = vlib.compile_harness("readAll", "asan")
    for k in ("case", "case_a", "case_b"):
        if k in d and d[k]:
            exe = readall if d.get("archive") else core
            p = vlib.write_cases([d[k]], "replay.cases")
            print(vlib.run_exe(exe, p, env={"VERIF_TMP": vlib.scratch()}))
    rep.coverage.update(evaluations=1, distinct_nontrivial=1, samples=[str(d)[:300]])
