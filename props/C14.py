"""C14 - entry objects are coherent: proof (Properties_C14.v) + correspondence of the Gallina model of
archive_entry (setters / unsetters / copy_stat / clear / clone, all getters after every step, on the
object and on its clone) with the real code, + the property itself evaluated on what the real code
returned: an independent Python evaluation of the "last relevant setter wins" specification and a
set of history-free coherence checks."""
import copy, os, sys
import vlib
from vlib import vfmt, vparse

LEVEL = "proof"
I64MAX, I64MIN = 2**63 - 1, -2**63
NS = 10**9
AE_IFMT = 0o170000
FT = [0o100000, 0o040000, 0o120000, 0o140000, 0o020000, 0o060000, 0o010000]
AE_SET = dict(HARDLINK=1, SYMLINK=2, ATIME=4, CTIME=8, MTIME=16, BIRTHTIME=32, SIZE=64, INO=128, DEV=256,
              PERM=512, FILETYPE=1024, UID=2048, GID=4096, RDEV=8192)
TIME_FLAG = [AE_SET["ATIME"], AE_SET["BIRTHTIME"], AE_SET["CTIME"], AE_SET["MTIME"]]
FAM_NAME = ["hardlink", "symlink", "link"]
VAR_NAME = ["set_%s", "set_%s_utf8", "copy_%s", "copy_%s_w", "update_%s_utf8", "copy_%s_l"]
FIELD_NAME = ["pathname", "uname", "gname", "sourcepath", "fflags_text"]

def s64(z): return (z + 2**63) % 2**64 - 2**63
def u32(z): return z % 2**32
def u64(z): return z % 2**64
def s32(z): return (z + 2**31) % 2**32 - 2**31

# glibc gnu_dev_major / gnu_dev_minor / gnu_dev_makedev
def major(d): return ((d >> 8) & 0xfff) | ((d >> 32) & 0xfffff000)
def minor(d): return (d & 0xff) | ((d >> 12) & 0xffffff00)
def makedev(a, b):
    a, b = u32(a), u32(b)
    return ((a & 0xfff) << 8) | ((a & 0xfffff000) << 32) | (b & 0xff) | ((b & 0xffffff00) << 12)

# ------------------------------------------------------------------ the specification, in Python
class Spec:
    """one variable per observable; each setter writes the variables it is relevant to"""
    def __init__(self):
        self.times = [(0, 0, False)] * 4
        self.uid = self.gid = self.ino = self.size = (0, False)
        self.nlink = 0
        self.filetype = (0, False)
        self.perm = (0, False)
        self.dev = (0, 0, False)
        self.rdev = (0, 0, False)
        self.symtype = 0
        self.encdata = self.encmeta = False
        self.hard = None      # None | (target,)   target may be None after set_link(NULL)
        self.sym = None
        self.strs = [None] * 5
        self.sparse = []      # head to tail
        self.xattr = []       # insertion order

    def set_time(self, k, t, ns):
        t, ns = s64(t), s64(ns)
        self.times[k] = (s64(t + ns // NS), ns % NS, True)          # floor division: 0 <= nsec < 10^9

    def set_id(self, k, v):
        if k == 5:
            self.nlink = u32(v)
            return
        val = (max(0, s64(v)), True)
        if k == 0: self.uid = val
        elif k == 1: self.gid = val
        elif k in (2, 3): self.ino = val
        else: self.size = val

    def set_mode(self, m):
        m = u32(m)
        self.filetype = (m & AE_IFMT, True)
        self.perm = (m & ~AE_IFMT & 0xffffffff, True)

    @staticmethod
    def set_dev(d, p, v):
        v = u64(v)
        if p == 0: return (major(v), minor(v), True)
        if p == 1: return (v, d[1], True)
        return (d[0], v, True)

    def sparse_add(self, off, ln):
        off, ln = s64(off), s64(ln)
        if off < 0 or ln < 0: return
        if off > I64MAX - ln or off + ln > self.size[0]: return
        if self.sparse:
            o, n = self.sparse[-1]
            if o + n > off: return
            if o + n == off:
                self.sparse[-1] = (o, n + ln)
                return
        self.sparse.append((off, ln))

    def step(self, op):
        """returns the value the call returns (0 for void functions)"""
        c = op[0]
        if c == 1: self.set_time(op[1], op[2], op[3])
        elif c == 2: self.times[op[1]] = (0, 0, False)
        elif c == 3: self.set_id(op[1], op[2])
        elif c == 4: self.size = (0, False)
        elif c == 5: self.set_mode(op[1])
        elif c == 6: self.perm = (u32(op[1]) & ~AE_IFMT & 0xffffffff, True)
        elif c == 7: self.filetype = (u32(op[1]) & AE_IFMT, True)
        elif c == 8:
            sh = [6, 3, 0][op[1]]
            self.perm = ((self.perm[0] & ~(7 << sh)) | ((op[2] & 7) << sh), self.perm[1])
        elif c == 9:
            if op[1] == 0: self.dev = Spec.set_dev(self.dev, op[2], op[3])
            else: self.rdev = Spec.set_dev(self.rdev, op[2], op[3])
        elif c == 10: self.symtype = s32(s64(op[1]))
        elif c == 11: self.encdata = (op[1] % 256) != 0
        elif c == 12: self.encmeta = (op[1] % 256) != 0
        elif c == 13:
            fam, var, a = op[1], op[2], (op[3][0] if op[3] else None)
            ret = 1 if var == 4 else 0
            if fam == 0:
                if a is not None: self.hard, self.sym = (a,), None
                elif var == 0: self.hard = None
                elif self.sym is not None: return 0
                else: self.hard = None
            elif fam == 1:
                if a is not None: self.hard, self.sym = None, (a,)
                elif self.hard is not None: return 0
                else: self.sym = None
            else:
                if self.sym is not None: self.sym = (a,)
                else: self.hard = (a,)
            return ret
        elif c == 14:
            if op[1] == 0:
                self.hard = self.sym if self.sym is not None else (self.hard if self.hard is not None else (None,))
                self.sym = None
            elif op[1] == 1:
                self.sym = self.hard if self.hard is not None else (self.sym if self.sym is not None else (None,))
                self.hard = None
        elif c == 15:
            f, var, a = op[1], op[2], (op[3][0] if op[3] else None)
            if f == 4 and a is None: return 0
            self.strs[f] = a
            return 1 if (var == 4 and f < 3) else 0
        elif c == 16: self.sparse_add(op[1], op[2])
        elif c == 17: self.sparse = []
        elif c == 18: self.xattr.append((op[1], op[2]))
        elif c == 19: self.xattr = []
        elif c == 20:
            self.set_time(0, op[1], op[2]); self.set_time(2, op[3], op[4]); self.set_time(3, op[5], op[6])
            self.times[1] = (0, 0, False)
            self.dev = Spec.set_dev(self.dev, 0, op[7])
            self.set_id(1, u32(op[8])); self.set_id(0, u32(op[9])); self.set_id(2, u64(op[10]))
            self.set_id(5, u64(op[11]))
            self.rdev = Spec.set_dev(self.rdev, 0, op[12])
            self.set_id(4, op[13]); self.set_mode(op[14])
        elif c == 21: self.__init__()
        return 0

    def observe(self):
        """the observables in the shape the harness prints (string views: agreeing)"""
        if len(self.sparse) == 1 and self.sparse[0][0] == 0 and self.sparse[0][1] >= self.size[0]:
            self.sparse = []      # reading the map removes a single block that covers the whole file
        fl = lambda b, f: f if b else 0
        sv = lambda o: [[o] if o is not None else [], []]
        mode = self.filetype[0] | self.perm[0]
        devn = lambda d: makedev(d[0], d[1])
        return [
            [[t[0], t[1], fl(t[2], TIME_FLAG[k])] for k, t in enumerate(self.times)],
            [self.uid[0], fl(self.uid[1], AE_SET["UID"]), self.gid[0], fl(self.gid[1], AE_SET["GID"]),
             self.ino[0], self.ino[0], fl(self.ino[1], AE_SET["INO"]), self.size[0], fl(self.size[1], AE_SET["SIZE"]),
             self.nlink],
            [mode, self.perm[0], fl(self.perm[1], AE_SET["PERM"]), self.filetype[0], fl(self.filetype[1], AE_SET["FILETYPE"])],
            [devn(self.dev), fl(self.dev[2], AE_SET["DEV"]), self.dev[0], self.dev[1],
             devn(self.rdev), fl(self.rdev[2], AE_SET["RDEV"]), self.rdev[0], self.rdev[1]],
            [self.symtype, int(self.encdata), int(self.encmeta), int(self.encdata) | 2 * int(self.encmeta)],
            sv(self.hard[0] if self.hard else None), int(self.hard is not None), sv(self.sym[0] if self.sym else None),
            [sv(s) for s in self.strs],
            [0, len(self.sparse), [list(b) for b in self.sparse]],
            [len(self.xattr), [list(x) for x in self.xattr]],
            [self.times[0][0], self.times[2][0], self.times[3][0], devn(self.dev), u32(self.gid[0]), u32(self.uid[0]),
             self.ino[0], self.nlink, devn(self.rdev), self.size[0], mode,
             self.times[0][1], self.times[2][1], self.times[3][1]],
        ]

GROUP = ["time", "id", "mode", "dev", "misc", "linkname", "linkname", "linkname", "string", "sparse", "xattr", "stat"]

def op_name(op):
    c = op[0]
    if c == 1: return "set_" + ["atime", "birthtime", "ctime", "mtime"][op[1]]
    if c == 2: return "unset_" + ["atime", "birthtime", "ctime", "mtime"][op[1]]
    if c == 3: return "set_" + ["uid", "gid", "ino", "ino64", "size", "nlink"][op[1]]
    if c == 9: return "set_" + ["", "r"][op[1]] + ["dev", "devmajor", "devminor"][op[2]]
    if c == 13: return VAR_NAME[op[2]] % FAM_NAME[op[1]]
    if c == 14: return "set_link_to_" + FAM_NAME[op[1]]
    if c == 15: return VAR_NAME[op[2]] % FIELD_NAME[op[1]]
    return {4: "unset_size", 5: "set_mode", 6: "set_perm", 7: "set_filetype", 8: "acl_add_entry", 10: "set_symlink_type",
            11: "set_is_data_encrypted", 12: "set_is_metadata_encrypted", 16: "sparse_add_entry", 17: "sparse_clear",
            18: "xattr_add_entry", 19: "xattr_clear", 20: "copy_stat", 21: "clear", 30: "clone", 31: "swap"}.get(c, "op%d" % c)

def canon(o, strict_views=True):
    """an observation with the xattr list as a multiset (its enumeration order is not part of the property)"""
    o = copy.deepcopy(o)
    o[10] = [o[10][0], sorted(o[10][1])]
    if not strict_views:
        for i in (5, 7): o[i] = [o[i][0], []]
        o[8] = [[s[0], []] for s in o[8]]
    return o

def coherence(o, where, strict_views=True):
    """history-free checks on one observation of the real object"""
    for k, t in enumerate(o[0]):
        if not (0 <= t[1] < NS):
            return ("C14:time:nsec-range", "%s: nanoseconds %d of time %d outside [0, 10^9)" % (where, t[1], k))
    mode, perm, _, ftype, _ = o[2]
    if (ftype | perm) != mode or (ftype & perm) != 0 or ftype != (mode & AE_IFMT):
        return ("C14:mode:partition", "%s: mode %o is not the disjoint union of filetype %o and perm %o" % (where, mode, ftype, perm))
    d = o[3]
    if d[0] != makedev(d[2], d[3]):
        return ("C14:dev:split-vs-combined", "%s: dev %#x != makedev(devmajor %#x, devminor %#x)" % (where, d[0], d[2], d[3]))
    if d[4] != makedev(d[6], d[7]):
        return ("C14:dev:split-vs-combined:rdev", "%s: rdev %#x != makedev(rdevmajor %#x, rdevminor %#x)" % (where, d[4], d[6], d[7]))
    if o[5][0] and o[7][0]:
        return ("C14:linkname:both-set", "%s: archive_entry_hardlink() = %r and archive_entry_symlink() = %r at the same time" %
                (where, o[5][0][0], o[7][0][0]))
    for nm, v in [("hardlink", o[5]), ("symlink", o[7])] + list(zip(FIELD_NAME, o[8])):
        if v[1] and strict_views:
            return ("C14:views:" + nm, "%s: the views of %s disagree: multibyte %r, others %r" % (where, nm, v[0], v[1]))
    sp = o[9]
    if sp[0]:
        return ("C14:sparse:reset-dangling-iterator",
                "%s: archive_entry_sparse_reset() returned %d and left the iterator on a block that was just freed "
                "(the next archive_entry_sparse_next() reads freed memory)" % (where, sp[1]))
    if sp[1] != len(sp[2]):
        return ("C14:sparse:count", "%s: sparse_reset() = %d but %d blocks enumerated" % (where, sp[1], len(sp[2])))
    for a, b in zip(sp[2], sp[2][1:]):
        if not (a[0] + a[1] < b[0]):
            return ("C14:sparse:order", "%s: sparse blocks %r, %r not ascending / disjoint / merged" % (where, a, b))
    if o[10][0] != len(o[10][1]):
        return ("C14:xattr:count", "%s: xattr_reset() = %d but %d enumerated" % (where, o[10][0], len(o[10][1])))
    st = o[11]
    want = [o[0][0][0], o[0][2][0], o[0][3][0], d[0], u32(o[1][2]), u32(o[1][0]), o[1][4], o[1][9], d[4], o[1][7], mode,
            o[0][0][1], o[0][2][1], o[0][3][1]]
    if st != want:
        bad = [i for i in range(14) if st[i] != want[i]]
        names = "atime ctime mtime dev gid uid ino nlink rdev size mode atime_nsec ctime_nsec mtime_nsec".split()
        key = "C14:stat:stale-after-acl-mode-change" if bad == [10] else "C14:stat:stale"
        return (key, "%s: archive_entry_stat() does not reflect the getters: st_%s = %#x but getter says %#x" %
                (where, names[bad[0]], st[bad[0]], want[bad[0]]))
    return None

def classify(field, op, pre, what):
    """violation key for a step whose observation differs from the specification in field group [field]"""
    g = GROUP[field]
    name = op_name(op)
    if g == "linkname" and op[0] == 13 and op[1] == 0 and op[2] != 0 and pre.sym is not None:
        return ("C14:linkname:copy_hardlink-after-symlink:" + name,
                "archive_entry_%s() on an entry whose symlink is set: %s" % (name, what))
    if g in ("dev", "stat") and op[0] == 9 and op[2] != 0:
        return ("C14:dev:set_devmajor-after-set_dev:" + name,
                "archive_entry_%s() after the combined number was set loses the other half: %s" % (name, what))
    return ("C14:%s:%s" % (g, name), "after archive_entry_%s(): %s" % (name, what))

def oracle(case_line, impl_line, strict_views=True):
    ops = vparse(case_line)
    try:
        outs = vparse(impl_line)
    except Exception:
        return ("C14:unparsable-output", "harness output not parsable")
    if len(outs) != len(ops):
        return ("C14:output-count", "number of results differs from number of operations")
    spec, cspec = Spec(), None
    prev_clone = None
    for k, (op, out) in enumerate(zip(ops, outs)):
        ret, oe, oc = out[0], out[1], (out[2][0] if out[2] else None)
        where = "step %d (%s)" % (k, op_name(op))
        pre = copy.deepcopy(spec)
        want_ret = 0
        if op[0] == 30: cspec = copy.deepcopy(spec)
        elif op[0] == 31:
            if cspec is not None: spec, cspec = cspec, spec
        else: want_ret = spec.step(op)
        # clone: equal to the original right after cloning ...
        if op[0] == 30:
            if oc is None:
                return ("C14:clone:missing", where + ": no clone")
            a, b = canon(oe, strict_views), canon(oc, strict_views)
            if a != b:
                f = [i for i in range(12) if a[i] != b[i]][0]
                if f == 9:
                    return ("C14:clone:sparse-after-size-change",
                            "%s: the clone's sparse map %r differs from the original's %r (archive_entry_clone re-validates the "
                            "blocks against the current size)" % (where, b[9], a[9]))
                return ("C14:clone:%s" % GROUP[f], "%s: getter group '%s' of the clone %r differs from the original %r" %
                        (where, GROUP[f], b[f], a[f]))
        # ... and untouched by later operations on the original (checked directly, without the specification)
        elif op[0] != 31 and prev_clone is not None and oc is not None:
            if canon(oc, strict_views) != canon(prev_clone, strict_views):
                return ("C14:clone:independence", "%s: an operation on one object changed the getters of the other" % where)
        prev_clone = oc
        for obj, o, sp in (("object", oe, spec), ("clone", oc, cspec)):
            if o is None:
                continue
            hit = coherence(o, where + " " + obj, strict_views)
            # the specification decides first (its keys name the call); coherence catches what it cannot see
            want = canon(sp.observe(), strict_views)
            got = canon(o, strict_views)
            if got != want:
                f = [i for i in range(12) if got[i] != want[i]][0]
                if hit and hit[0].startswith(("C14:sparse:reset", "C14:stat:stale-after-acl", "C14:views:")):
                    return hit
                what = "%s: getter group '%s' returns %r, last relevant setters say %r" % (where + " " + obj, GROUP[f], got[f], want[f])
                if obj == "clone" and op[0] not in (30, 31):
                    return ("C14:clone:independence", what)
                return classify(f, op, pre, what)
            if hit:
                return hit
        if ret != want_ret:
            return ("C14:return-value:" + op_name(op), "%s returned %d, expected %d" % (where, ret, want_ret))
    return None

# ------------------------------------------------------------------ generator
ASCII = [b"a", b"hard", b"sym", b"dir/file.txt", b"x" * 40]
NONASCII = ["é".encode(), "日本".encode(), "\U0001F600.txt".encode(), "ünï/ço".encode(), "Ω".encode()]
INVALID = [b"a\xffb", b"\xc3", b"\xe6\x97", b"abc\xcc\x8cmno\xfcxyz", b"\xed\xa0\x80", b"\xc0\x80", b"\xf4\x90\x80\x80"]
FFLAGS = [b"nodump", b"uappnd,nodump", b"", b"bogus", b"schg", b"nodump,bogus"]

def pick_str(r, allow_null=True, invalid=False):
    c = r.random()
    if allow_null and c < 0.2: return []
    if c < 0.3: return [b""]
    if invalid and c < 0.7: return [r.choice(INVALID)]
    if c < 0.65: return [r.choice(ASCII)]
    return [r.choice(NONASCII)]

def pick_i64(r):
    return r.choice([0, -1, 1, 2, 1000, 2**31 - 1, 2**31, 2**32 - 1, 2**32, 2**62, -2**31, I64MAX, I64MIN,
                     r.randrange(-2**63, 2**63), r.randrange(0, 2**20)])

def pick_time(r):
    """(t, ns) such that t + ns/10^9 (and the --t of FIX_NS) stays inside int64: outside, FIX_NS is signed overflow (UB)"""
    for _ in range(20):
        t = pick_i64(r)
        ns = r.choice([0, -1, 1, 999999999, NS, -NS, NS + 1, -999999999, 2 * NS - 1, -2 * NS - 1, 2**31, -2**31,
                       I64MAX, I64MIN, r.randrange(-2**40, 2**40), r.randrange(0, NS)])
        q = abs(ns) // NS * (1 if ns >= 0 else -1)
        if I64MIN <= t + q - 1 and t + q <= I64MAX:
            return t, ns
    return 0, 0

def pick_dev(r, part):
    if part == 0:
        return r.choice([0, makedev(3, 4), makedev(8, 1), 0x12345678, 2**32 - 1, 2**32, 2**64 - 1, 2**63,
                         makedev(0xfffff123, 0xabcdef12), r.randrange(2**64)])
    return r.choice([0, 1, 5, 7, 0xfe, 0xfff, 0x1000, 0xdcba98, 0xfffff, 2**32 - 1, 2**32, 2**40 + 7, 2**64 - 1,
                     r.randrange(2**32)])

def pick_mode(r):
    return r.choice([0, 0o644, 0o755, 0o100644, 0o040755, 0o120777, 0o7777, 0xffffffff, 0x10000 | 0o644, 0o170000,
                     r.choice(FT), r.choice(FT) | r.randrange(0o10000), r.randrange(2**32)])

def gen_op(r, theme, st, invalid=False):
    """st: generator-side hints (current size, end of the last sparse block)"""
    if theme == "time":
        if r.random() < 0.2: return [2, r.randrange(4)]
        t, ns = pick_time(r)
        return [1, r.randrange(4), t, ns]
    if theme == "id":
        c = r.random()
        if c < 0.1: return [4]
        k = r.randrange(6)
        v = pick_i64(r)
        if k == 4: st["size"] = max(0, v)
        return [3, k, v]
    if theme == "mode":
        c = r.random()
        if c < 0.3: return [5, pick_mode(r)]
        if c < 0.55: return [6, pick_mode(r)]
        if c < 0.8: return [7, pick_mode(r)]
        return [8, r.randrange(3), r.choice([0, 1, 2, 4, 5, 7, 7, 15, -1])]
    if theme in ("dev", "rdev"):
        part = r.choice([0, 0, 1, 2])
        return [9, 0 if theme == "dev" else 1, part, pick_dev(r, part)]
    if theme == "misc":
        c = r.randrange(3)
        if c == 0: return [10, r.choice([0, 1, 2, -1, 2**31 - 1, 2**31, 2**32 + 1])]
        return [11 + (c - 1), r.choice([0, 1, -1, 256, 255, 2, 128])]
    if theme == "link":
        if r.random() < 0.12: return [14, r.randrange(2)]
        var = r.randrange(6)
        a = pick_str(r, invalid=invalid and var in (0, 2, 5))
        return [13, r.randrange(3), var, a]
    if theme == "str":
        f = r.randrange(5)
        if f == 3:
            var = r.choice([2, 3])
            return [15, 3, var, pick_str(r, invalid=invalid and var == 2)]
        if f == 4:
            return [15, 4, r.choice([2, 3]), [r.choice(FFLAGS + NONASCII)] if r.random() < 0.93 else []]
        var = r.randrange(6)
        return [15, f, var, pick_str(r, invalid=invalid and var in (0, 2, 5))]
    if theme == "sparse":
        c = r.random()
        if c < 0.2 or st.get("size") is None:
            v = r.choice([0, 10, 100, 1000, 2**40, I64MAX, 20])
            st["size"] = v
            return [3, 4, v]
        if c < 0.25: return [17]
        end = st.get("end", 0)
        off = r.choice([end, end, end + 1, end + r.randrange(1, 50), 0, max(0, end - 1), -1, I64MAX, st["size"]])
        ln = r.choice([0, 1, 5, 10, 50, st["size"], max(0, st["size"] - off), -1, I64MAX, I64MAX - max(0, off)])
        if off >= 0 and ln >= 0 and off + ln <= st["size"] and off >= end:
            st["end"] = off + ln
        return [16, off, ln]
    if theme == "xattr":
        if r.random() < 0.1: return [19]
        return [18, r.choice([b"user.a", b"user.b", b"security.x", "é".encode(), b""]),
                r.choice([b"", b"\x00\x01", b"v", bytes(r.randrange(256) for _ in range(r.randrange(1, 9)))])]
    raise ValueError(theme)

THEMES = ["time", "id", "mode", "dev", "rdev", "misc", "link", "str", "sparse", "xattr"]

def gen_case(r, invalid=False):
    themes = r.sample(THEMES, r.choice([1, 1, 2, 2, 3, 4]))
    if invalid:
        themes = list(set(themes + [r.choice(["link", "str"])]))
    st = {}
    ops = []
    for _ in range(r.randrange(2, 28)):
        c = r.random()
        if c < 0.07: ops.append([30])
        elif c < 0.11: ops.append([31])
        elif c < 0.135:
            ops.append([21]); st.clear()
        elif c < 0.17:
            t1, n1 = pick_time(r); t2, n2 = pick_time(r); t3, n3 = pick_time(r)
            sz = pick_i64(r)
            st["size"] = max(0, sz); st["end"] = st.get("end", 0)
            ops.append([20, t1, n1, t2, n2, t3, n3, pick_dev(r, 0), r.choice([0, 1000, 2**32 - 1]), r.choice([0, 1000, 2**32 - 1]),
                        r.choice([0, 1, 12345, 2**63, 2**64 - 1]), r.choice([0, 1, 2, 2**32 - 1, 2**32 + 3]), pick_dev(r, 0),
                        sz, pick_mode(r)])
        else:
            ops.append(gen_op(r, r.choice(themes), st, invalid))
    return vfmt(ops)

COUPLED = {13: "link", 14: "link", 5: "mode", 6: "mode", 7: "mode", 8: "mode"}

def nontrivial(case_line):
    """at least two operations on one coupled group (link name / mode parts / dev / rdev / sparse map), or an
    operation on an object after it was cloned"""
    ops = vparse(case_line)
    cnt = {}
    cloned = False
    for o in ops:
        g = COUPLED.get(o[0])
        if o[0] == 9: g = "dev%d" % o[1]
        if o[0] in (16, 17) or (o[0] == 3 and o[1] == 4): g = "sparse"
        if g:
            cnt[g] = cnt.get(g, 0) + 1
        if o[0] == 30: cloned = True
        elif cloned and o[0] not in (30, 31):
            return True
    return any(v >= 2 for v in cnt.values())

# hand-written cases that always run: the reproduced findings and some corner cases
def fixed_cases():
    S = lambda b: [b]
    cs = [
        [[13, 1, 0, S(b"sym")], [13, 0, 2, S(b"hard")]],                         # F-C14-1
        [[13, 1, 2, S(b"sym")], [13, 0, 1, S(b"hard")], [13, 0, 3, S(b"h2")], [13, 0, 4, S(b"h3")], [13, 0, 5, S(b"h4")]],
        [[9, 0, 0, makedev(3, 4)], [9, 0, 1, 5]],                                 # F-C14-2
        [[9, 0, 1, 5], [9, 0, 0, makedev(3, 4)], [9, 0, 2, 7]],
        [[9, 1, 0, makedev(3, 4)], [9, 1, 2, 9], [9, 1, 0, 0x12345678], [9, 1, 1, 0xfe]],
        [[3, 4, 100], [16, 10, 50], [3, 4, 20], [30], [31], [16, 70, 5]],        # clone re-validates sparse blocks
        [[3, 4, 10], [16, 0, 10]],                                               # reset leaves a dangling iterator
        [[5, 0o100644], [8, 0, 7], [8, 2, 0]],                                    # stat cache after ACL mode change
        [[13, 2, 0, []], [13, 2, 0, S(b"x")], [14, 1], [13, 2, 2, S(b"y")], [13, 0, 0, []], [13, 1, 0, []]],
        [[1, 0, I64MAX, 999999999], [1, 1, I64MIN, 0], [1, 2, -1, -1], [1, 3, 0, I64MIN], [2, 3]],
        [[15, 0, 3, S("日本é".encode())], [15, 1, 4, S(b"")], [15, 2, 5, []], [15, 3, 3, S(b"src")], [15, 4, 2, S(b"nodump")],
         [18, b"user.a", b"\x00\x01"], [18, b"user.b", b""], [30], [19], [31], [18, b"user.c", b"z"]],
    ]
    return [vfmt(c) for c in cs]

def run_invalid(rep, exe, r, n):
    """strings that are not valid UTF-8 (multibyte setters only): no model prediction for the utf8 / wide views,
    so only the oracle runs, and a view that fails to convert (NULL) is not a disagreement"""
    cases = [gen_case(r, invalid=True) for _ in range(n)]
    path = vlib.write_cases(cases, "entry-invalid.cases")
    rc, lines, err = vlib.run_exe(exe, path)
    if rc != 0 or len(lines) != len(cases):
        k = min(len(lines), len(cases) - 1)
        rep.violation("crash:entry:" + vlib.crash_key(err), "harness entry stopped (rc=%s) on an invalid-string case #%d" % (rc, k),
                      dict(correspondence="entry", case=cases[k], stderr=err[-3000:], oracle_only=True), found_input=True)
    hits = 0
    for c, l in zip(cases, lines):
        hit = oracle(c, l, strict_views=False)
        if hit is None:
            # a differing view must be a failed conversion (NULL), never a different string
            for step in vparse(l):
                for o in [step[1]] + step[2]:
                    for v in [o[5], o[7]] + o[8]:
                        for d in v[1]:
                            if d[1]:
                                hit = ("C14:views:different-string", "views of one string differ: %r vs %r" % (v[0], d))
        if hit:
            hits += 1
            rep.violation(hit[0], hit[1], dict(correspondence="entry", case=c, impl=l, oracle_only=True), found_input=True)
    return len(cases), hits

def lossy_ok(v, s):
    """is the view [v] an acceptable rendering of the last value [s] in a locale that cannot represent it?  The value
    itself, or the value with every non-ASCII character replaced by question marks (one per character or per byte)"""
    if v == s:
        return True
    try:
        chars = s.decode("utf-8")
    except UnicodeDecodeError:
        return True
    import re
    pat = b"".join(re.escape(ch.encode()) if ord(ch) < 0x80 else b"\\?{1,4}" for ch in chars)
    return re.fullmatch(pat, v, flags=re.S) is not None

def run_clocale(rep, exe, r, n):
    """C locale: non-ASCII strings cannot be converted, the utf8 update setters fail half-way.  Oracle only: after every
    step each view of each string field is NULL/empty, the last value written, or a lossy rendering of it - never an
    OLDER value - and a clone shows exactly the views of its original."""
    fixed = [vfmt([[15, 0, 0, [b"old-name.txt"]], [15, 0, 3, [b"old-name.txt"]], [15, 0, 4, ["caf\u00e9.txt".encode()]], [30], [15, 0, 4, [b"plain.txt"]]]),
             vfmt([[15, 2, 3, [b"staff"]], [15, 2, 4, ["gr\u00fcppe".encode()]], [30]]),
             vfmt([[13, 1, 0, [b"target"]], [13, 1, 4, ["\u65e5\u672c/target".encode()]], [30]])]
    cases = fixed + [gen_case(r) for _ in range(n)]
    path = vlib.write_cases(cases, "entry-clocale.cases")
    rc, lines, err = vlib.run_exe(exe, path, env={"VERIF_LOCALE": "C"})
    if rc != 0 or len(lines) != len(cases):
        k = min(len(lines), len(cases) - 1)
        rep.violation("crash:entry:clocale:" + vlib.crash_key(err), "harness entry stopped (rc=%s) in the C locale on case #%d" % (rc, k),
                      dict(correspondence="entry", case=cases[k], stderr=err[-3000:], oracle_only=True, locale="C"), found_input=True)
    hits = 0
    for c, l in zip(cases, lines):
        hit = None
        ops, outs = vparse(c), vparse(l)
        spec, cspec = Spec(), None
        for k, (op, out) in enumerate(zip(ops, outs)):
            oe, oc = out[1], (out[2][0] if out[2] else None)
            if op[0] == 30: cspec = copy.deepcopy(spec)
            elif op[0] == 31:
                if cspec is not None: spec, cspec = cspec, spec
            else: spec.step(op)
            if op[0] == 30 and oc is not None:
                for i in (5, 7, 8):
                    if oe[i] != oc[i]:
                        hit = ("C14:clocale:clone-views", "step %d (clone) in the C locale: string views of the clone %r differ from the original's %r" % (k, oc[i], oe[i]))
            for obj, o, sp in (("object", oe, spec), ("clone", oc, cspec)):
                if o is None or sp is None or hit:
                    continue
                want = sp.observe()
                fields = [("hardlink", o[5], want[5]), ("symlink", o[7], want[7])] + [(nm, a, b) for nm, a, b in zip(FIELD_NAME, o[8], want[8])]
                for nm, got, exp in fields:
                    last = exp[0][0] if exp[0] else None
                    views = ([got[0][0]] if got[0] else []) + [d[1][0] for d in got[1] if d[1]]
                    for v in views:
                        if last is None:
                            if v != b"":
                                hit = ("C14:clocale:stale-view:" + nm, "step %d (%s) %s, C locale: a view of %s returns %r although the field is unset" % (k, op_name(op), obj, nm, v))
                        elif not lossy_ok(v, last):
                            hit = ("C14:clocale:stale-view:" + nm, "step %d (%s) %s, C locale: a view of %s returns %r; the last value written is %r" % (k, op_name(op), obj, nm, v, last))
            if hit:
                break
        if hit:
            hits += 1
            rep.violation(hit[0], hit[1], dict(correspondence="entry", case=c, impl=l[:4000], oracle_only=True, locale="C"), found_input=True)
    return len(cases), hits

# ---------------------------------------------------------------- file flags: bitmaps <-> text (Entry/FflagsDefs.v)
def fflags_table():
    sys.path.insert(0, os.path.join(vlib.ROOT, "translators"))
    import gen_fflags
    return gen_fflags.rows()

def fflags_parse(table, text):
    """the specification the generator uses to aim at 'the bitmaps this text parses to' (not the judge: the model is)"""
    st = cl = 0
    for tok in text.replace(b"\t", b",").replace(b" ", b",").split(b","):
        if not tok:
            continue
        for name, s, c in table:
            if tok == name.encode():
                cl |= s; st |= c
                break
            if tok == name.encode()[2:]:
                st |= s; cl |= c
                break
    return st, cl

def fflags_tostr(table, st, cl):
    out = []
    for name, s, c in table:
        if st & s or cl & c: out.append(name.encode()[2:])
        elif st & c or cl & s: out.append(name.encode())
        else: continue
        st &= ~(s | c); cl &= ~(s | c)
    return b",".join(out) if out else None

def fflags_oracle_factory(table, bits):
    """the property, stated without the model: bitmaps read back are the ones last set or parsed; the text read back is the
    text last stored, and after set_fflags it is what a FRESH entry with these bitmaps prints (never an older text)"""
    mask = (1 << bits) - 1
    def oracle(case, line):
        ops, outs = vparse(case)[0], vparse(line)
        st = cl = 0
        text = None            # None: derived from the bitmaps
        for k, (op, out) in enumerate(zip(ops, outs)):
            if op[0] == 0: st, cl, text = op[1] & mask, op[2] & mask, None
            elif op[0] == 1: (st, cl), text = fflags_parse(table, op[1]), op[1]
            elif op[0] == 5: st, cl, text = 0, 0, None
            elif op[0] == 3 and (out[1], out[2]) != (st, cl):
                return ("C14:fflags:bitmaps", "step %d: archive_entry_fflags returns (%#x, %#x), the bitmaps last set or parsed are (%#x, %#x)" % (k, out[1], out[2], st, cl))
            elif op[0] == 2:
                want = text if text is not None else fflags_tostr(table, st, cl)
                got = out[1][0] if out[1] else None
                if got != want:
                    return ("C14:fflags:text", "step %d: archive_entry_fflags_text returns %r; %s" % (k, got,
                            ("the text last stored is %r" % want) if text is not None else
                            ("a fresh entry with the bitmaps (%#x, %#x) last set prints %r" % (st, cl, want))))
        return None
    return oracle

def gen_fflags_case(r, table, bits):
    names = [n.encode() for n, _, _ in table]
    known = 0
    for _, s, c in table:
        known |= s | c
    def text():
        k = r.choice([0, 1, 1, 2, 3, 5, 12])
        toks = []
        for _ in range(k):
            x = r.random()
            n = r.choice(names)
            if x < 0.35: toks.append(n)
            elif x < 0.7: toks.append(n[2:])
            elif x < 0.8: toks.append(r.choice([b"no-such-flag", b"no", b"n", b"nono" + n[2:], n + b"x", n[:-1], n[2:].upper(), b"dump2", b"\xc3\xa9"]))
            elif x < 0.9: toks.append(b"no" + n)          # "nonoXXXX"
            else: toks.append(n[1:])
        seps = [b",", b",", b" ", b"\t", b",,", b", ", b" ,\t"]
        out = r.choice([b"", b"", b",", b" "])
        for i, t in enumerate(toks):
            out += t + (r.choice(seps) if i + 1 < len(toks) else r.choice([b"", b"", b",", b" ,"]))
        return out
    def bitmap():
        x = r.random()
        if x < 0.15: return 0
        if x < 0.6:
            v = 0
            for _, s, c in r.sample(table, r.choice([1, 2, 3, 6])):
                v |= s | c
            return v
        if x < 0.75: return known
        if x < 0.85: return r.getrandbits(bits)
        if x < 0.9: return (1 << bits) - 1
        return r.choice([1 << (bits - 1), 1 << 31, 1 << 32, known ^ ((1 << bits) - 1)])
    ops, last_text = [], None
    for _ in range(r.choice([2, 3, 5, 8, 14])):
        x = r.random()
        if x < 0.25:
            last_text = text()
            ops.append([1, last_text, r.choice([0, 1]) if all(b < 128 for b in last_text) else 0])
        elif x < 0.4:
            a, b = bitmap(), bitmap()
            if r.random() < 0.5:
                b &= ~a
            ops.append([0, a, b])
        elif x < 0.5 and last_text is not None:
            # "read the bitmaps, set the bitmaps": exactly the bitmaps the stored text parses to
            a, b = fflags_parse(table, last_text)
            ops.append([0, a, b])
        elif x < 0.7: ops.append([2])
        elif x < 0.85: ops.append([3])
        elif x < 0.93: ops.append([4])
        else: ops.append([5])
        if r.random() < 0.5:
            ops.append([2])
    ops += [[2], [3], [4], [2], [3]]
    return vfmt([ops])

def run_fflags(rep, n):
    table, bits, agree = fflags_table()
    runner = vlib.build_runner("fflags")
    exe = vlib.compile_harness("fflags", "asan")
    r = vlib.rng(rep.seed, "C14-fflags")
    fixed = [vfmt([[[1, b"nodump,no-such-flag", 0], [2], [3], [0, 0x40, 0], [2], [4], [2], [3]]]),
             vfmt([[[1, b"no-such-flag", 1], [0, 0, 0], [2], [4], [2]]]),
             vfmt([[[1, b" ,nosappend,  simmutable,", 1], [3], [0, 0x10, 0x20], [2], [3]]]),
             vfmt([[[1, b"", 0], [2], [0, 0, 0], [2], [4], [2]]]),
             vfmt([[[0, 0x40, 0x20], [2], [3], [2], [5], [2], [3]]]),
             vfmt([[[0, (1 << bits) - 1, 0], [2], [3], [0, 0, (1 << bits) - 1], [2], [3], [0, 0x30, 0x30], [2]]])]
    cases = fixed + [gen_fflags_case(r, table, bits) for _ in range(n)]
    st = vlib.correspond(rep, "fflags", runner, exe, vlib.load_corpus("C14-fflags") + cases, oracle=fflags_oracle_factory(table, bits))
    return len(cases), st

def run(rep):
    pr = vlib.proof_part(rep, "C14", translators=["gen_entry", "gen_fflags"])
    runner = vlib.build_runner("entry")
    exe = vlib.compile_harness("entry", "asan", private=True)
    r = vlib.rng(rep.seed, "C14")
    n = 600 if rep.tier == "quick" else 40000
    cases = fixed_cases() + [gen_case(r) for _ in range(n)]
    corpus = vlib.load_corpus("C14")
    st = vlib.correspond(rep, "entry", runner, exe, corpus + cases, oracle=oracle)
    ninv, _ = run_invalid(rep, exe, vlib.rng(rep.seed, "C14-invalid"), 100 if rep.tier == "quick" else 6000)
    nloc, _ = run_clocale(rep, exe, vlib.rng(rep.seed, "C14-clocale"), 400 if rep.tier == "quick" else 20000)
    ninv += nloc
    nff, stff = run_fflags(rep, 800 if rep.tier == "quick" else 60000)
    ninv += nff
    rep.coverage["fflags_correspondence"] = stff
    nsteps = sum(len(vparse(c)) for c in cases)
    rep.coverage.update(
        evaluations=len(cases) + len(corpus) + ninv,
        steps_compared=nsteps,
        distinct_nontrivial=len(set(c for c in cases if nontrivial(c))),
        rule="random programs (2-27 steps) over 60 setter/unsetter variants, copy_stat, clear, clone, swap; arguments from "
             "border values (0, -1, INT64 extremes, nsec outside [0,1e9), NULL/empty/non-ASCII strings); after EVERY step all "
             "getters of the object and of its clone are compared with the model and with the Python specification; "
             "non-trivial = at least two operations on one coupled group (link name, mode parts, dev, rdev, sparse map) or an "
             "operation after a clone; plus %d oracle-only programs with strings that are not valid UTF-8" % ninv,
        samples=[cases[0], cases[len(fixed_cases())][:600]],
        traces_validated_against_impl=st["agree"], correspondence=st)
    rep.assumptions += [
        "strings: valid, NFC-stable UTF-8 in the C.UTF-8 locale (the utf8 setters normalise to NFC on conversion, so a decomposed "
        "input makes the utf8 view differ from the others by design); the three stored forms of archive_mstring are not modelled",
        "time setters: arguments with t + ns/10^9 outside int64 are not generated (FIX_NS then overflows a signed integer: "
        "undefined behaviour, reported by UBSan)",
        "file flags (bitmaps, their text, the cached text of the getter, clone/clear) have their own model (Entry/FflagsDefs.v over the "
        "regenerated fileflags[] table) and their own programs; wide texts are ASCII",
        "not modelled: ACL entries other than the three that live in the mode, mac_metadata, digests, strmode, the *_l getters, "
        "archive_entry_copy_bhfi",
        "glibc x86-64 layout of dev_t, 64-bit time_t/long/ino_t/nlink_t, 32-bit mode_t/uid_t/gid_t",
    ]
    vlib.proof_verdict(rep, "C14", pr)

def replay(rep, path):
    import json
    d = json.load(open(path))
    case = d["replay"]["case"]
    if d["replay"].get("correspondence") == "fflags":
        vlib.run_translators(["gen_fflags"])
        table, bits, agree = fflags_table()
        vlib.correspond(rep, "fflags", vlib.build_runner("fflags"), vlib.compile_harness("fflags", "asan"), [case],
                        oracle=fflags_oracle_factory(table, bits))
        rep.coverage.update(evaluations=1, distinct_nontrivial=1, samples=[case])
        return
    vlib.run_translators(["gen_entry"])
    runner = vlib.build_runner("entry")
    exe = vlib.compile_harness("entry", "asan", private=True)
    if d["replay"].get("oracle_only"):
        p = vlib.write_cases([case], "entry-replay.cases")
        rc, lines, err = vlib.run_exe(exe, p)
        hit = oracle(case, lines[0], strict_views=False) if lines else ("crash:entry:" + vlib.crash_key(err), err[-300:])
        if hit:
            rep.violation(hit[0], hit[1], dict(correspondence="entry", case=case, impl=lines[0] if lines else None, oracle_only=True),
                          found_input=True)
    else:
        vlib.correspond(rep, "entry", runner, exe, [case], oracle=oracle)
    rep.coverage.update(evaluations=1, distinct_nontrivial=1, samples=[case])
