"""C12 - disk -> archive -> disk reproduces the tree (library and CLI tools).  Level: partial.

Proof part   : coq/Properties_C12.v (tree_next stack machine visits every object once, parents first, stack
               empty / working directory restored, fuel sufficient; capture/restore on a simple FS model).
Correspondence: the extracted walker model vs the REAL archive_read_disk on materialised trees (op 1: visit
               order for several descend policies, op 3: walk + link resolver = what gets archived).
               readdir order is file-system dependent: the harness reports the order the real readdir used
               for every directory of the materialised tree and the model is given the children in that order.
Oracle       : snapshot (lstat/readlink/content hash/SEEK_DATA layout/xattrs/inode groups, taken without any
               libarchive code) of the source tree vs the tree restored by
                 bsdtar -c | bsdtar -xp  (pax, gnutar, -S), find | bsdcpio -o -H newc | bsdcpio -idm,
                 archive_read_disk -> archive_write(format) -> archive_read -> archive_write_disk for
                 pax, gnutar, newc, zip, 7zip, xar, iso9660, mtree,
               compared on what the format can hold (CAPS below), and bsdtar -t == set of archived objects."""
import os, sys, json, shutil, subprocess, time, unicodedata
import vlib
from vlib import vfmt, vparse

LEVEL = "proof"   # "partial" is not a schema level; partiality is stated in the evidence assumptions
S_IFREG, S_IFDIR, S_IFLNK, S_IFIFO = 0o100000, 0o040000, 0o120000, 0o010000
EXTRACT_FLAGS = 0x0001 | 0x0002 | 0x0004 | 0x0020 | 0x0040 | 0x0080   # OWNER|PERM|TIME|ACL|FFLAGS|XATTR
FMT = {"pax": 0, "gnutar": 1, "newc": 2, "zip": 3, "7zip": 4, "xar": 5, "iso9660": 6, "mtree": 7}

# ------------------------------------------------------------------ per-format capability table
# what a format (as written by libarchive) can hold; everything not excluded here is compared.
#   types     : object kinds that can be stored (others are expected to be refused, and absent afterwards)
#   hardlinks : link groups are reproduced
#   mtime_res : resolution of the stored mtime in ns (restored mtime must equal the source mtime truncated to it)
#   xattr     : user.* extended attributes are carried
#   root      : the "." entry itself (mode/mtime of the top directory) is carried
#   name_max / path_max : longest name component / path the format is asked to hold (trees beyond are not run)
#   symlink_mtime : the mtime of symbolic links is restored
CAPS = {
    "pax":     dict(types="fdlp", hardlinks=True, mtime_res=1, xattr=True, root=True, name_max=255, path_max=None),
    "gnutar":  dict(types="fdlp", hardlinks=True, mtime_res=10**9, xattr=False, root=True, name_max=255, path_max=None),
    "newc":    dict(types="fdlp", hardlinks=True, mtime_res=10**9, xattr=False, root=True, name_max=255, path_max=None),
    "zip":     dict(types="fdl", hardlinks=False, mtime_res=10**9, xattr=False, root=False, name_max=255, path_max=60000),
    "7zip":    dict(types="fdlp", hardlinks=False, mtime_res=100, xattr=False, root=False, name_max=255, path_max=None),
    "xar":     dict(types="fdlp", hardlinks=True, mtime_res=10**9, xattr=True, root=False, mode_mask=0o777, name_max=255, path_max=None),
    "iso9660": dict(types="fdlp", hardlinks=True, mtime_res=10**9, xattr=False, root=False, name_max=255, path_max=1000),
    "mtree":   dict(types="fdlp", hardlinks=False, mtime_res=1, xattr=False, root=True, name_max=255, path_max=4000),
}
# bsdtar's default is "restricted pax": by design it stores sub-second mtimes only for entries that need an
# extended header anyway (archive_write_set_format_pax.c), so either the exact or the truncated value is right
CLI_CAPS = {
    "bsdtar-default": dict(CAPS["pax"], mtime_res=1, mtime_alt=10**9),
    "bsdtar-pax":     CAPS["pax"],
    "bsdtar-gnutar":  CAPS["gnutar"],
    "bsdtar-default-S": dict(CAPS["pax"], mtime_res=1, mtime_alt=10**9),
    # holes stored as zeros in the archive (no sparse map), re-created by the sparsifying disk writer
    "bsdtar-pax-dense-S": CAPS["pax"],
    "bsdcpio-newc":   dict(CAPS["newc"], path_max=4000),
    "bsdtar-zip": CAPS["zip"], "bsdtar-iso9660": CAPS["iso9660"], "bsdtar-7zip": CAPS["7zip"], "bsdtar-xar": CAPS["xar"],
    "bsdtar-newc": CAPS["newc"],
}

# ------------------------------------------------------------------ tree generator
class Gen:
    def __init__(self, r, nobj, maxdepth, features):
        self.r, self.nobj, self.maxdepth, self.f = r, nobj, maxdepth, features
        self.count = 0
        self.next_ino = 1
        self.files = []          # regular-file nodes, for hard-link grouping
        self.links = []
        self.used = set()

    def name(self, siblings):
        r = self.r
        for _ in range(100):
            c = r.random()
            if c < 0.55:
                n = "".join(r.choice("abcdefghijklmnopqrstuvwxyz0123456789_") for _ in range(r.randrange(1, 9)))
            elif c < 0.65 and self.f.get("long", True):
                n = r.choice("ABCDEFG") * r.choice([100, 101, 155, 156, 254, 255])
            elif c < 0.80 and self.f.get("utf8", True):
                n = r.choice(["été", "日本語", "файл", "naïve café",
                              "\U0001F600x", "ü" * r.choice([1, 60, 127]), "á"]) + str(r.randrange(100))
            elif c < 0.9:
                n = r.choice(["with space", " lead", "trail ", "-dash", "back\\slash", "star*", "q?mark", "[brk]",
                              "semi;colon", "dollar$", "quote'", 'dq"', "tab\there", ".hidden", "..twodots", "...",
                              "per%cent", "a=b", "@at", "#hash", "~tilde", "{brace}", "com,ma"]) + str(r.randrange(10))
            else:
                n = r.choice(["x", "y", "z", "0", "A"]) + "." + r.choice(["c", "txt", "tar", "gz"])
            b = unicodedata.normalize("NFD" if self.f.get("nfd") else "NFC", n).encode("utf-8")
            if len(b) > 255 or b in (b".", b"..") or b"/" in b or b in siblings:
                continue
            # case-insensitive uniqueness as well (iso9660/zip name mangling must not collide)
            if b.lower() in siblings:
                continue
            siblings.add(b)
            siblings.add(b.lower())
            return b
        raise RuntimeError("name generator stuck")

    def meta(self, kind):
        r = self.r
        if kind == "d":
            mode = r.choice([0o755, 0o755, 0o700, 0o555, 0o750, 0o1777, 0o2755, 0o711, 0o500])
        elif kind == "f":
            mode = r.choice([0o644, 0o644, 0o600, 0o755, 0o444, 0o400, 0o4755, 0o2750, 0o666, 0o000, 0o640])
        elif kind == "l":
            mode = 0o777
        else:
            mode = r.choice([0o644, 0o600, 0o666])
        sec = r.choice([1, 86400, 10**9, 1234567890, 1500000000 + r.randrange(10**6), 2**31 - 1, 946684800])
        nsec = r.choice([0, 0, 123456700, 999999900, 500000000, 100, 1000])
        xattrs = []
        if kind in "fd" and self.f.get("xattr", True) and r.random() < 0.3:
            for k in range(r.randrange(1, 4)):
                val = r.choice([b"value", b"v", b"\x00\x01\x7f", b"x" * 300, b"line\nfeed=1"] +
                               ([bytes(range(256)), "é".encode(), b"\xff\xfe"] if self.f.get("xattr_bin") else []) +
                               ([b""] if self.f.get("xattr_empty") else []))
                xattrs.append(["user.c12_%d" % k, val])
        return [mode, sec, nsec, xattrs]

    def file_body(self):
        r = self.r
        c = r.random()
        B = 4096
        if c < 0.2:
            return 0, []
        if c < 0.7 or not self.f.get("sparse", True):
            n = r.choice([1, 10, 511, 512, 513, 4095, 4096, 4097, r.randrange(1, 20000)])
            return n, [[0, n, r.randrange(2**32)]]
        # sparse: holes at start / middle / end, block aligned data of a few blocks
        nblk = r.choice([64, 257, 1024])
        where = r.choice(["start", "middle", "end", "start+end", "many", "all-hole"])
        segs = []
        def seg(b0, nb):
            segs.append([b0 * B, nb * B, r.randrange(2**32)])
        if where == "start":
            seg(nblk - 3, 3)
        elif where == "middle":
            seg(0, 2); seg(nblk - 2, 2)
        elif where == "end":
            seg(0, 3)
        elif where == "start+end":
            seg(nblk // 2, 2)
        elif where == "many":
            for b in range(1, nblk - 1, max(2, nblk // 7)):
                seg(b, 1)
        size = nblk * B + r.choice([0, 0, 1, 100])
        if where in ("start", "middle") and size > nblk * B:
            segs.append([nblk * B, size - nblk * B, r.randrange(2**32)])
        return size, segs

    def node(self, depth, siblings, force_dir=False):
        r = self.r
        self.count += 1
        nm = self.name(siblings)
        c = r.random()
        want_dir = force_dir or (depth < self.maxdepth and c < (0.30 if depth < 3 else 0.22))
        if want_dir:
            m = self.meta("d")
            kids, sib = [], set()
            nk = r.choice([0, 1, 2, 3, 4, 6, 9]) if depth > 0 else r.choice([4, 6, 9])
            for _ in range(nk):
                if self.count >= self.nobj:
                    break
                kids.append(self.node(depth + 1, sib))
            return [1, nm, kids, [], m + [0, []]]
        if c < 0.72:
            size, segs = self.file_body()
            m = self.meta("f")
            ino = self.next_ino
            self.next_ino += 1
            n = [0, nm, ino, b"", m + [size, segs], 1]
            self.files.append(n)
            return n
        if c < 0.86 and self.f.get("symlink", True):
            tg = r.choice(["target", "../up", "./a/b/c", "/nonexistent/abs", "d" * 120, "日本", "x" * 200 + "/" + "y" * 150,
                           ".", "a b c"])
            return [2, nm, tg.encode("utf-8"), [], self.meta("l") + [0, []]]
        if c < 0.93 and self.f.get("fifo", True):
            return [3, nm, S_IFIFO, [], self.meta("p") + [0, []]]
        # hard link to an earlier file (groups span directories because files are picked globally)
        if self.files and self.f.get("hardlink", True):
            first = r.choice(self.files)
            n = [0, nm, first[2], b"", first[4], 0]         # same inode, same (shared) metadata
            self.links.append(n)
            return n
        size, segs = self.file_body()
        ino = self.next_ino
        self.next_ino += 1
        n = [0, nm, ino, b"", self.meta("f") + [size, segs], 1]
        self.files.append(n)
        return n

def gen_tree(r, nobj, maxdepth, features, chain=0):
    g = Gen(r, nobj, maxdepth, features)
    sib = set()
    root = [1, b"t", [], [], g.meta("d") + [0, []]]
    g.count = 1
    while g.count < nobj:
        root[2].append(g.node(1, sib))
    if chain:
        # a chain of directories with 255-byte names: the path gets longer than PATH_MAX
        cur = root
        for k in range(chain):
            d = [1, (chr(ord("a") + k % 26) * 255).encode(), [], [], g.meta("d") + [0, []]]
            d[4][0] = 0o755
            cur[2].append(d)
            cur = d
        cur[2].append([0, b"deepfile", g.next_ino, b"", g.meta("f") + [5, [[0, 5, 7]]], 1])
        g.next_ino += 1
        cur[2].append([2, b"deeplink", b"deepfile", [], g.meta("l") + [0, []]])
    # 6th element of a file node = number of names of its inode (whichever member is created first keeps a handle)
    cnt = {}
    for n in g.files + g.links:
        cnt[n[2]] = cnt.get(n[2], 0) + 1
    for n in g.files + g.links:
        n[5] = cnt[n[2]]
    return root

def count_nodes(n):
    return 1 + (sum(count_nodes(c) for c in n[2]) if n[0] == 1 else 0)

def all_paths(n, prefix=None):
    """(path bytes, node) pairs, path as the walker builds it from the top name"""
    p = n[1] if prefix is None else prefix + b"/" + n[1]
    out = [(p, n)]
    if n[0] == 1:
        for c in n[2]:
            out += all_paths(c, p)
    return out

def max_path_len(n):
    return max(len(p) for p, _ in all_paths(n))

def reorder(n, rd):
    """children of every directory in the order the real readdir returned them"""
    if n[0] != 1:
        return n
    names = rd[0]
    subs = rd[1:]
    kids = list(n[2])
    it = iter(subs)
    new = []
    for c in kids:
        new.append(reorder(c, next(it)) if c[0] == 1 else c)
    pos = {nm: k for k, nm in enumerate(names)}
    new.sort(key=lambda c: pos.get(c[1], 10**9))
    return [n[0], n[1], new] + n[3:]

# ------------------------------------------------------------------ harness plumbing
class Ctx:
    pass

def harness_lines(ctx, lines, timeout=1800, exe=None):
    path = vlib.write_cases(lines, "c12-%d.cases" % ctx.seq)
    ctx.seq += 1
    rc, out, err = vlib.run_exe(exe or ctx.exe, path, timeout=timeout, env=ctx.env)
    if rc != 0 or len(out) != len(lines):
        raise HarnessFailure(rc, out, err, lines)
    return [vparse(l) for l in out]

class HarnessFailure(Exception):
    def __init__(self, rc, out, err, lines):
        Exception.__init__(self, "harness rc=%s, %d/%d lines" % (rc, len(out), len(lines)))
        self.rc, self.out, self.err, self.lines = rc, out, err, lines

def snapshot(ctx, d):
    st, objs = harness_lines(ctx, [vfmt([5, d])])[0]
    return st, objs

# snapshot object: [path, type, mode, mt_s, mt_ns, size, hash, holes, target, xattrs, ino, nlink, blocks]
TYPECH = {S_IFREG: "f", S_IFDIR: "d", S_IFLNK: "l", S_IFIFO: "p"}

def short(p):
    """paths can be thousands of bytes long: keep descriptions readable"""
    if isinstance(p, (list, tuple)):
        return [short(x) for x in p]
    if isinstance(p, (bytes, bytearray)) and len(p) > 90:
        return p[:40] + b"...(%d bytes)..." % len(p) + p[-40:]
    return p

def link_groups(objs):
    g = {}
    for o in objs:
        if o[1] == S_IFREG:
            g.setdefault(o[10], []).append(o[0])
    return sorted(tuple(sorted(v)) for v in g.values() if len(v) > 1)

def squeeze(text):
    import re
    return re.sub(r"(.)\1{30,}", lambda m: m.group(1) * 3 + "~", text)

def compare(src, dst, caps, tag, what_ran):
    """-> list of (key suffix, description); src/dst are snapshot object lists"""
    diffs = []
    s = {o[0]: o for o in src}
    d = {o[0]: o for o in dst}
    exp = {p: o for p, o in s.items() if TYPECH.get(o[1], "?") in caps["types"]}
    if tag in ("lib-iso9660", "bsdtar-iso9660") and b"rr_moved" in d and b"rr_moved" not in s:
        # Rock Ridge relocation of a directory below level 8 is not undone on reading when the relocated directory
        # has a long name: its contents stay under /rr_moved (bsdtar --format iso9660 shows the same); everything
        # else that differs is a consequence
        n = sum(1 for p in d if p.startswith(b"rr_moved/"))
        return [("iso9660-rr-moved", "%d object(s) of relocated deep directories were restored under ./rr_moved instead of "
                 "their place (first %r)" % (n, short(sorted(p for p in d if p.startswith(b"rr_moved/"))[:1])))]
    missing = sorted(set(exp) - set(d))
    extra = sorted(set(d) - set(exp))
    if missing:
        diffs.append(("names:missing", "%d object(s) missing after restore, first %r (type %s)" %
                      (len(missing), short(missing[0]), TYPECH.get(exp[missing[0]][1]))))
    if extra:
        diffs.append(("names:extra", "%d unexpected object(s) after restore, first %r" % (len(extra), short(extra[0]))))
    for p0 in sorted(set(exp) & set(d)):
        a, b = exp[p0], d[p0]
        p = short(p0)
        if p0 == b"." and not caps["root"]:
            continue
        t = TYPECH.get(a[1], "?")
        if a[1] != b[1]:
            diffs.append(("type", "%r: type %o restored as %o" % (p, a[1], b[1])))
            continue
        n0 = len(diffs)
        if t == "f" and (a[5], a[6]) != (b[5], b[6]):
            diffs.append(("content", "%r: size/hash %d/%x restored as %d/%x" % (p, a[5], a[6], b[5], b[6])))
        if t == "l" and a[8] != b[8]:
            diffs.append(("symlink-target", "%r: target %r restored as %r" % (p, a[8], b[8])))
        mm = caps.get("mode_mask", 0o7777)
        if t != "l" and a[2] & mm != b[2] & mm:
            diffs.append(("mode:" + t, "%r: mode %o restored as %o" % (p, a[2], b[2])))
        if t != "l" or caps.get("symlink_mtime", True):
            res = caps["mtime_res"]
            want = (a[3] * 10**9 + a[4]) // res * res
            got = b[3] * 10**9 + b[4]
            alt = caps.get("mtime_alt")
            if want != got and not (alt and got == (a[3] * 10**9 + a[4]) // alt * alt):
                # archive_write_disk sets the times of a directory that already exists at once instead of
                # deferring them: "." always exists, and with find -depth | cpio every directory does
                pre = t == "d" and (p0 == b"." or tag.startswith("bsdcpio"))
                diffs.append(("dir-mtime-preexisting" if pre else "mtime:" + t, "%r: mtime %d.%09d restored as %d.%09d (format resolution %d ns)" %
                              (p, a[3], a[4], b[3], b[4], res)))
        if caps["xattr"] and t in "fd" and a[9] != b[9]:
            diffs.append(("xattr:" + t, "%r: xattrs %r restored as %r" % (p, [x[0] for x in a[9]], [x[0] for x in b[9]])))
        if len(p0) + 2 >= 4096:
            diffs[n0:] = [("deep-path", w) for k, w in diffs[n0:]]
    # objects whose archived pathname ("./" + path) does not fit PATH_MAX: archive_write_disk shortens the path by
    # chdir()ing for the creation only; path based metadata calls and the deferred directory fix-ups then fail
    deep = {p for p in exp if len(p) + 2 >= 4096}
    if caps["hardlinks"]:
        ga = [g for g in link_groups(src)]
        gb = [g for g in link_groups(dst)]
        if ga != gb:
            onlya = [g for g in ga if g not in gb]
            onlyb = [g for g in gb if g not in ga]
            diffs.append(("links", "hard-link groups differ: source-only %r restored-only %r" % (short(onlya[:2]), short(onlyb[:2]))))
    return diffs

def sparse_stats(src, dst):
    """informational: how many sparse source files came back with holes"""
    d = {o[0]: o for o in dst}
    n = kept = 0
    for o in src:
        if o[1] == S_IFREG and o[5] >= 65536 and sum(h[1] for h in o[7]) < o[5] // 2:
            n += 1
            b = d.get(o[0])
            if b is not None and b[12] * 512 < b[5] // 2 + 65536:
                kept += 1
    return n, kept

CLASS_KEYS = ("dir-mtime-preexisting", "deep-path", "iso9660-rr-moved", "xar-toc-invalid-char")

def class_hit(ctx, key, tag, what, replay):
    rec = ctx.classes.setdefault(key, dict(what=what, replay=replay, tags=[], first=tag))
    if tag not in rec["tags"]:
        rec["tags"].append(tag)

def flush_classes(rep, ctx):
    for key, rec in sorted(ctx.classes.items()):
        rep.violation(key, "%s in pipelines { %s }, first: %s" % (key, " ".join(rec["tags"]), rec["what"]),
                      rec["replay"], found_input=True)
    ctx.classes = {}

# ------------------------------------------------------------------ CLI pipelines
def sh(ctx, cmd, cwd=None, timeout=1800):
    env = dict(os.environ)
    env.update(ctx.env)
    p = subprocess.run(["/bin/bash", "-c", "set -o pipefail; " + cmd], cwd=cwd, env=env, stdout=subprocess.PIPE,
                       stderr=subprocess.PIPE, timeout=timeout)
    return p.returncode, p.stdout, p.stderr.decode("utf-8", "replace")

def q(s):
    return "'" + s.replace("'", "'\\''") + "'"

def cli_pipelines(ctx):
    t, c = q(ctx.bsdtar), q(ctx.bsdcpio)
    return {
        "bsdtar-default": lambda src, dst: "%s -cf - -C %s . | %s -xpf - -C %s" % (t, q(src), t, q(dst)),
        "bsdtar-pax":    lambda src, dst: "%s -cf - --format pax -C %s . | %s -xpf - -C %s" % (t, q(src), t, q(dst)),
        "bsdtar-gnutar": lambda src, dst: "%s -cf - --format gnutar -C %s . | %s -xpf - -C %s" % (t, q(src), t, q(dst)),
        "bsdtar-default-S": lambda src, dst: "%s -cf - -C %s . | %s -xpSf - -C %s" % (t, q(src), t, q(dst)),
        "bsdtar-pax-dense-S": lambda src, dst: "%s -cf - --format pax --no-read-sparse -C %s . | %s -xpSf - -C %s" % (t, q(src), t, q(dst)),
        "bsdcpio-newc":  lambda src, dst: "cd %s && find . -depth -print | %s -o -H newc | (cd %s && %s -idm)" % (q(src), c, q(dst), c),
        # bsdtar's own copy loop (tar/write.c) in front of the writers that take the stored length from the bytes they are given
        **{"bsdtar-" + f: (lambda src, dst, f=f: "%s -cf %s --format %s -C %s . && %s -xpf %s -C %s; rc=$?; rm -f %s; exit $rc" %
                           (t, q(dst + ".arc"), f + (" --options " + q("iso9660:rockridge=strict,iso9660:!joliet") if f == "iso9660" else ""), q(src), t, q(dst + ".arc"), q(dst), q(dst + ".arc")))   # (the default, rockridge=useful, normalises modes and owners by design; Joliet limits a full path to 240 bytes - as in the library pipeline it is switched off)
           for f in ("zip", "iso9660", "7zip", "xar", "newc")},
    }

def decode_listing(out):
    """bsdtar -t prints one name per line; bytes it considers unprintable come as \\ooo or \\\\ etc."""
    names = []
    for line in out.split(b"\n"):
        if not line:
            continue
        b = bytearray()
        k = 0
        while k < len(line):
            ch = line[k]
            if ch == 0x5c and k + 1 < len(line):
                nx = line[k + 1]
                if nx in b"01234567" and k + 3 < len(line) + 0 and all(x in b"01234567" for x in line[k + 1:k + 4]) and len(line[k + 1:k + 4]) == 3:
                    b.append(int(line[k + 1:k + 4], 8) & 0xff)
                    k += 4
                    continue
                m = {ord("\\"): 0x5c, ord("n"): 10, ord("t"): 9, ord("r"): 13, ord("a"): 7, ord("b"): 8, ord("f"): 12, ord("v"): 11}
                if nx in m:
                    b.append(m[nx])
                    k += 2
                    continue
            b.append(ch)
            k += 1
        names.append(bytes(b))
    return names

# ------------------------------------------------------------------ one tree, end to end
def tree_features(tree):
    paths = all_paths(tree)
    inos = {}
    for p, n in paths:
        if n[0] == 0:
            inos[n[2]] = inos.get(n[2], 0) + 1
    return dict(objects=len(paths), dirs=sum(1 for _, n in paths if n[0] == 1),
                symlinks=sum(1 for _, n in paths if n[0] == 2), fifos=sum(1 for _, n in paths if n[0] == 3),
                hardlink_groups=sum(1 for v in inos.values() if v > 1),
                sparse=sum(1 for _, n in paths if n[0] == 0 and n[4][4] >= 65536 and sum(s[1] for s in n[4][5]) < n[4][4] // 2),
                xattr_objs=sum(1 for _, n in paths if n[4][3]),
                name255=sum(1 for _, n in paths if len(n[1]) == 255),
                nonascii=sum(1 for _, n in paths if any(b > 127 for b in n[1])),
                max_path=max(len(p) for p, _ in paths), depth=max(p.count(b"/") for p, _ in paths))

def walk_oracle_factory(trees_by_sb):
    def oracle(case_line, impl_line):
        c = vparse(case_line)
        try:
            out = vparse(impl_line)
        except Exception:
            return ("C12:walk:unparsable-output", "harness output not parsable")
        tree = c[2]
        paths = [p for p, _ in all_paths(tree)]
        if c[0] == 1:
            nodesc = set(c[3])
            status, visited, stack_len, depth, restored = out
            if status != 0:
                return ("C12:walk:status", "the real walker stopped with status %d on a readable tree" % status)
            # expected set: objects all of whose proper ancestors are descended into
            exp = []
            def rec(n, p):
                exp.append(p)
                if n[0] == 1 and p not in nodesc:
                    for ch in n[2]:
                        rec(ch, p + b"/" + ch[1])
            rec(tree, tree[1])
            if sorted(visited) != sorted(exp):
                lost = sorted(set(exp) - set(visited))
                dup = sorted(set(v for v in visited if visited.count(v) > 1))
                extra = sorted(set(visited) - set(exp))
                return ("C12:walk:visit-set", "visited objects differ from the tree: %d missing (first %r), %d visited twice (first %r), %d unexpected (first %r)" %
                        (len(lost), lost[:1], len(dup), dup[:1], len(extra), extra[:1]))
            pos = {p: k for k, p in enumerate(visited)}
            for p in visited:
                if b"/" in p and pos[p.rsplit(b"/", 1)[0]] > pos[p]:
                    return ("C12:walk:parent-first", "%r visited before its parent directory" % p)
            if stack_len != 0 or depth != 0 or restored != 1:
                return ("C12:walk:cwd-restored", "after EOF: stack length %d, depth %d, working directory restored %d" % (stack_len, depth, restored))
        elif c[0] == 3:
            status, ents = out
            if status != 0:
                return ("C12:capture:status", "capture stopped with status %d" % status)
            if sorted(e[0] for e in ents) != sorted(paths):
                return ("C12:capture:entry-set", "entries leaving the link resolver are not exactly the objects of the tree")
        return None
    return oracle

def run_tree(rep, ctx, idx, tree, stats, formats, clis, probe=None, do_compare=True, env=None):
    """probe: name of a hand-made probe tree (keys get the prefix C12:probe-<name>:, no model correspondence)"""
    kp = "C12:probe-%s:" % probe if probe else "C12:"
    saved_env = ctx.env
    if env:
        ctx.env = dict(ctx.env, **env)
    try:
        return run_tree_1(rep, ctx, idx, tree, stats, formats, clis, probe, do_compare, kp)
    finally:
        ctx.env = saved_env

def run_tree_1(rep, ctx, idx, tree, stats, formats, clis, probe, do_compare, kp):
    base = os.path.join(ctx.scratch, "tree%s" % idx)
    os.makedirs(base)
    sb = os.path.join(base, "sb")
    res = harness_lines(ctx, [vfmt([0, sb, tree])])[0]
    if res[0] != 0:
        rep.violation("C12:setup:materialise", "could not materialise tree %s (status %d)" % (idx, res[0]),
                      dict(tree=vfmt(tree)), found_input=False)
        return
    ctx.xattr_ok = bool(res[1])
    tree = reorder(tree, res[2]) if tree[0] == 1 else tree
    src = os.path.join(sb, tree[1].decode())
    feats = tree_features(tree)
    stats["trees"].append(feats)
    replay_base = dict(tree=vfmt(tree), seed=rep.seed, tier=rep.tier, probe=probe, env=ctx.env.get("LC_ALL"))

    # ---- op 1 / op 3 : model correspondence on the materialised tree
    r = vlib.rng(rep.seed, "C12-pol-%s" % idx)
    dirs = [p for p, n in all_paths(tree) if n[0] == 1]
    pols = [[], [tree[1]], dirs]
    for _ in range(3):
        pols.append([d for d in dirs if r.random() < 0.4])
    cases = []
    if probe:
        pass
    elif feats["max_path"] < 3500:
        for k, nd in enumerate(pols):
            cases.append(vfmt([1, sb, tree, nd, k % 2]))
        for strat in range(4):
            cases.append(vfmt([3, sb, tree, strat]))
    else:
        cases.append(vfmt([1, sb, tree, [], 0]))
        cases.append(vfmt([1, sb, tree, [], 1]))
        cases.append(vfmt([3, sb, tree, 0]))
    if cases:
        st = vlib.correspond(rep, "treeWalk", ctx.runner, ctx.exe, cases, oracle=walk_oracle_factory(None),
                             impl_env=ctx.env, timeout=3600)
        for k in ("cases", "agree", "disagree", "oracle_hits"):
            stats["corr"][k] = stats["corr"].get(k, 0) + st[k]
        stats["cases_sample"] = stats.get("cases_sample") or [c[:600] for c in cases[:2]]

    # ---- op 2 : end-to-end
    st0, snap_src = snapshot(ctx, src)
    if st0 != 0:
        rep.violation("C12:setup:snapshot", "snapshot of the source tree failed", replay_base, found_input=False)
        return
    exp_listing = sorted([b"./"] + [(b"./" + o[0] + (b"/" if o[1] == S_IFDIR else b"")) for o in snap_src if o[0] != b"."])

    def check(tag, caps, dst, rc, err, extra):
        st1, snap_dst = snapshot(ctx, dst)
        diffs = compare(snap_src, snap_dst, caps, tag, extra) if do_compare else []
        stats["evaluations"] += 1
        n, kept = sparse_stats(snap_src, snap_dst)
        sp = stats["sparse"].setdefault(tag, [0, 0])
        sp[0] += n; sp[1] += kept
        if rc != 0 and do_compare:
            diffs.insert(0, ("deep-path" if feats["max_path"] + 2 >= 4096 else "exit", "exit status / library status %s: %s" % (rc, squeeze(err)[-300:].replace("\n", " | "))))
        seen = set()
        for key, what in diffs:
            if key in seen:
                continue
            seen.add(key)
            rp = dict(replay_base, pipeline=tag, **extra)
            # defect classes that show on every pipeline are reported once, with the list of pipelines
            if key in CLASS_KEYS:
                class_hit(ctx, "C12:" + key, tag, what, rp)
            elif probe:
                class_hit(ctx, "C12:probe-" + probe, tag, what, rp)
            else:
                rep.violation("%s%s:%s" % (kp, key, tag), "[%s] %s" % (tag, what), rp, found_input=True)
        shutil.rmtree(dst, ignore_errors=True)
        return diffs

    pipes = cli_pipelines(ctx)
    for tag in clis:
        caps = CLI_CAPS[tag]
        if caps["path_max"] and feats["max_path"] + 2 > caps["path_max"]:
            stats["skipped"].append("%s: tree %s has a %d-byte path" % (tag, idx, feats["max_path"]))
            continue
        dst = os.path.join(base, "dst-" + tag)
        os.makedirs(dst)
        cmd = pipes[tag](src, dst)
        rc, out, err = sh(ctx, cmd)
        check(tag, caps, dst, rc, err, dict(cmd=cmd, stderr=err[-1500:]))
    # ---- bsdtar -t
    arch = os.path.join(base, "listing.tar")
    cmd = "%s -cf %s -C %s . && %s -tf %s" % (q(ctx.bsdtar), q(arch), q(src), q(ctx.bsdtar), q(arch))
    rc, out, err = sh(ctx, cmd)
    listed = sorted(decode_listing(out))
    stats["evaluations"] += 1
    if not probe and (rc != 0 or listed != exp_listing):
        miss = sorted(set(exp_listing) - set(listed))
        extra = sorted(set(listed) - set(exp_listing))
        rep.violation("C12:bsdtar-t:listing", "bsdtar -t does not list exactly the archived objects: rc=%d, %d missing (first %r), %d unexpected (first %r) %s" %
                      (rc, len(miss), miss[:1], len(extra), extra[:1], err[-200:].replace("\n", " | ")),
                      dict(replay_base, pipeline="bsdtar-t", cmd=cmd), found_input=True)
    os.remove(arch) if os.path.exists(arch) else None
    # ---- library path
    for fmt in formats:
        caps = CAPS[fmt]
        if caps["path_max"] and feats["max_path"] + 2 > caps["path_max"]:
            stats["skipped"].append("lib-%s: tree %s has a %d-byte path" % (fmt, idx, feats["max_path"]))
            continue
        dst = os.path.join(base, "dst-lib-" + fmt)
        os.makedirs(dst)
        case = vfmt([4, src, dst, FMT[fmt], EXTRACT_FLAGS])
        try:
            status, msgs, listed, nbytes = harness_lines(ctx, [case])[0]
        except HarnessFailure as ex:
            # a sanitizer (or a crash) stopped the instrumented harness: that is reported, and the property itself
            # is still evaluated with the uninstrumented build so that one report does not hide the rest
            first = [l for l in ex.err.split("\n") if "runtime error" in l or "ERROR: " in l or "SUMMARY" in l][:2]
            rep.violation("crash:treeWalk:%s:%slib-%s" % (vlib.crash_key(ex.err), "probe-%s:" % probe if probe else "", fmt),
                          "library round trip (%s) stopped the sanitizer build of the harness: rc=%s %s" % (fmt, ex.rc, " | ".join(first)[:400]),
                          dict(replay_base, pipeline="lib-" + fmt, case=case, stderr=ex.err[-3000:]), found_input=True)
            stats["sanitizer_stops"] = stats.get("sanitizer_stops", 0) + 1
            shutil.rmtree(dst, ignore_errors=True)
            os.makedirs(dst)
            try:
                status, msgs, listed, nbytes = harness_lines(ctx, [case], exe=ctx.exe_plain)[0]
            except HarnessFailure as ex2:
                rep.violation("crash:treeWalk:plain:%s:lib-%s" % (vlib.crash_key(ex2.err), fmt),
                              "library round trip (%s) crashed the plain harness too: rc=%s" % (fmt, ex2.rc),
                              dict(replay_base, pipeline="lib-" + fmt, case=case, stderr=ex2.err[-3000:]), found_input=True)
                shutil.rmtree(dst, ignore_errors=True)
                continue
        msgs = [m.decode("utf-8", "replace") for m in msgs]
        if fmt == "xar" and any("PCDATA invalid Char" in m for m in msgs):
            # the xar writer copies the '#!' line of a file into the XML table of contents verbatim: a file that starts
            # with '#!' followed by bytes that are not XML characters makes the whole archive unreadable
            class_hit(ctx, "C12:xar-toc-invalid-char", "lib-xar",
                      "xar archive written from the tree cannot be read back: %s" % "; ".join(msgs)[:200],
                      dict(replay_base, pipeline="lib-xar", case=case, messages=msgs[:10]))
            stats["evaluations"] += 1
            shutil.rmtree(dst, ignore_errors=True)
            continue
        # refusals the capability table predicts are not errors
        unexpected = [m for m in msgs if not expected_message(m, caps, fmt)]
        diffs = check("lib-" + fmt, caps, dst, status if status != 0 else (1 if unexpected else 0),
                      "; ".join(unexpected or msgs)[:600], dict(case=case, messages=msgs[:10]))
        stats["lib"][fmt] = stats["lib"].get(fmt, 0) + 1
    # the source must be untouched
    st2, snap_after = snapshot(ctx, src)
    strip = lambda objs: [o[:10] + o[11:12] for o in objs]
    if strip(snap_after) != strip(snap_src):
        rep.violation(kp + "source-modified", "archiving modified the source tree", replay_base, found_input=True)
    shutil.rmtree(base, ignore_errors=True)

def expected_message(m, caps, fmt):
    """messages of the library path that only say 'this format cannot hold that object kind'"""
    low = m.lower()
    if "p" not in caps["types"] and ("filetype" in low or "file type" in low or "not supported" in low or "unsupported" in low
                                    or "cannot archive" in low):
        return True
    return False

# ------------------------------------------------------------------ entry points
def setup(rep):
    ctx = Ctx()
    ctx.seq = 0
    ctx.classes = {}
    ctx.scratch = os.path.join(vlib.scratch(), "c12")
    os.makedirs(ctx.scratch, exist_ok=True)
    tmpd = os.path.join(ctx.scratch, "tmp")
    os.makedirs(tmpd, exist_ok=True)
    ctx.env = {"TMPDIR": tmpd, "LC_ALL": "C.UTF-8", "LANG": "C.UTF-8", "TZ": "UTC",
               "ASAN_OPTIONS": "detect_leaks=1:abort_on_error=0:exitcode=99:detect_stack_use_after_return=0"}
    b = vlib.build_repo("plain", targets=("archive_static", "bsdtar", "bsdcpio"))
    ctx.bsdtar = os.path.join(b, "bin", "bsdtar")
    ctx.bsdcpio = os.path.join(b, "bin", "bsdcpio")
    for x in (ctx.bsdtar, ctx.bsdcpio):
        if not os.path.exists(x):
            raise vlib.BuildError("missing " + x)
    ctx.runner = vlib.build_runner("treeWalk")
    ctx.exe = vlib.compile_harness("treeWalk", "asan", private=True)
    ctx.exe_plain = vlib.compile_harness("treeWalk", "plain", private=True)
    ctx.xattr_ok = True
    return ctx

def tree_plan(rep):
    r = vlib.rng(rep.seed, "C12")
    plan = []
    if rep.tier == "quick":
        plan.append(gen_tree(r, 40, 4, {}))
        plan.append(gen_tree(r, 60, 6, {"xattr_bin": True}))
        plan.append(gen_tree(r, 25, 3, {}, chain=17))          # beyond PATH_MAX
        plan.append(gen_tree(r, 50, 5, {}))
    else:
        for k in range(16):
            plan.append(gen_tree(r, r.choice([30, 80, 200, 400]), r.choice([3, 6, 9, 12]), {"xattr_bin": k % 3 == 0}))
        for k in range(4):
            plan.append(gen_tree(r, 60, 5, {}, chain=r.choice([17, 20, 40])))
        plan.append(gen_tree(r, 2000, 12, {}))
        plan.append(gen_tree(r, 5000, 12, {"sparse": False}))
    return plan

def mk(kind, name, *rest, mode=None, xattrs=(), mtime=(10**9, 0), size=0, segs=()):
    m = [mode if mode is not None else {0: 0o644, 1: 0o755, 2: 0o777, 3: 0o644}[kind], mtime[0], mtime[1],
         [list(x) for x in xattrs], size, [list(x) for x in segs]]
    if kind == 0:
        return [0, name, rest[0], b"", m, 1]
    if kind == 1:
        return [1, name, list(rest[0]), [], m]
    return [kind, name, rest[0], [], m]

def probe_plan():
    """hand-made trees, each aimed at one behaviour the random trees are kept clear of (so that one defect does
    not stop the sanitizer build on every tree): (name, tree, formats, clis, compare?, env)"""
    nfd = unicodedata.normalize("NFD", "\u00e1").encode()          # a + U+0301
    return [
        ("xattr-empty", mk(1, b"t", [mk(0, b"f", 1, xattrs=[("user.c12_empty", b"")], size=3, segs=[(0, 3, 1)]),
                                     mk(1, b"d", [], xattrs=[("user.c12_empty", b"")])]),
         ["pax"], ["bsdtar-pax"], True, None),
        ("name-nfd", mk(1, b"t", [mk(0, nfd + b"1", 1, size=3, segs=[(0, 3, 1)]), mk(0, b"plain", 2, size=1, segs=[(0, 1, 2)])]),
         ["pax", "gnutar", "zip"], ["bsdtar-pax", "bsdtar-gnutar"], True, None),
        ("xar-shebang", mk(1, b"t", [mk(0, b"script", 1, size=12, segs=[(0, 12, 0, b"#!\x85\xad\x03\x7f\xbf\nrest")]),
                                     mk(0, b"other", 2, size=2, segs=[(0, 2, 5)])]),
         ["xar"], [], True, None),
        ("iso9660-same-name-depth8",
         mk(1, b"t", [mk(1, b"a", [mk(1, b"2", [mk(1, b"3", [mk(1, b"4", [mk(1, b"5", [mk(1, b"6", [mk(1, b"7", [mk(1, b"same", [mk(0, b"f1", 1, size=1, segs=[(0, 1, 1)])])])])])])])])]),
                      mk(1, b"b", [mk(1, b"2", [mk(1, b"3", [mk(1, b"4", [mk(1, b"5", [mk(1, b"6", [mk(1, b"7", [mk(1, b"same", [mk(0, b"f2", 2, size=1, segs=[(0, 1, 2)])])])])])])])])])]),
         ["iso9660"], [], True, None),
        ("c-locale-symlink", mk(1, b"t", [mk(2, b"lnk", "\u65e5\u672c".encode()), mk(0, b"f", 1, size=1, segs=[(0, 1, 3)])]),
         ["7zip"], [], False, {"LC_ALL": "C", "LANG": "C"}),
    ]

ALL_FORMATS = ["pax", "gnutar", "newc", "zip", "7zip", "xar", "iso9660", "mtree"]
ALL_CLIS = ["bsdtar-default", "bsdtar-pax", "bsdtar-gnutar", "bsdtar-default-S", "bsdtar-pax-dense-S", "bsdcpio-newc",
            "bsdtar-zip", "bsdtar-iso9660", "bsdtar-7zip", "bsdtar-xar", "bsdtar-newc"]

def hardlink_farm(rep, ctx, stats):
    """More pending hard-link groups than the resolver's table holds before it grows (2048, 4096, ...): every file has
    two names, all first names are archived before any second name, and the names are ordered so that the inodes
    inserted around each growth step have the hash bit set that distinguishes the old table size from the new one."""
    n = 4300
    base = os.path.join(ctx.scratch, "farm")
    src, dst = os.path.join(base, "src"), os.path.join(base, "dst")
    shutil.rmtree(base, ignore_errors=True)
    os.makedirs(os.path.join(src, "a")); os.makedirs(os.path.join(src, "b")); os.makedirs(dst)
    keys = []
    for i in range(n):
        pa = os.path.join(src, "a", "f%05d" % i)
        with open(pa, "wb") as f:
            f.write(b"%d\n" % i)
        os.link(pa, os.path.join(src, "b", "f%05d" % i))
        st = os.lstat(pa)
        keys.append(st.st_dev ^ st.st_ino)
    order, used = [None] * n, set()
    def take(bit, lo, hi):
        pool = [i for i in range(n) if i not in used and (keys[i] >> bit) & 1]
        for pos in range(lo, min(hi, n)):
            if pool:
                i = pool.pop(); order[pos] = i; used.add(i)
    take(10, 2040, 2060); take(11, 4088, 4108)
    rest = [i for i in range(n) if i not in used]
    for pos in range(n):
        if order[pos] is None:
            order[pos] = rest.pop()
    lst = os.path.join(base, "names")
    with open(lst, "w") as f:
        for i in order:
            f.write("a/f%05d\n" % i)
        for i in order:
            f.write("b/f%05d\n" % i)
    for tag, fmt in (("farm-pax", "pax"), ("farm-gnutar", "gnutar")):
        shutil.rmtree(dst, ignore_errors=True); os.makedirs(dst)
        cmd = "%s -cf - --format %s -C %s -T %s | %s -xpf - -C %s" % (q(ctx.bsdtar), fmt, q(src), q(lst), q(ctx.bsdtar), q(dst))
        rc, out, err = sh(ctx, cmd)
        stats["evaluations"] += 1
        bad = []
        for i in range(n):
            try:
                sa = os.lstat(os.path.join(dst, "a", "f%05d" % i)); sb = os.lstat(os.path.join(dst, "b", "f%05d" % i))
            except OSError:
                bad.append("f%05d missing" % i); continue
            if sa.st_ino != sb.st_ino or sa.st_nlink != 2:
                bad.append("f%05d (position %d of the first names): two inodes, nlink %d/%d" % (i, order.index(i) + 1, sa.st_nlink, sb.st_nlink))
        if rc != 0 or bad:
            rep.violation("C12:hardlink-farm:%s" % tag,
                          "[%s] %d files with two names each, first names archived first: rc=%d, %d file(s) did not come back as one file with "
                          "two names: %s %s" % (tag, n, rc, len(bad), "; ".join(bad[:3]), err[-200:].replace("\n", " | ")),
                          dict(pipeline=tag, cmd=cmd, files=n, how="create a/fNNNNN, hard link b/fNNNNN, archive with -T (all a/ names, then all b/ names)",
                               bad=bad[:20]), found_input=True)
    shutil.rmtree(base, ignore_errors=True)

def unknown_size_sparse(rep, ctx, stats):
    """A streamed zip member carries its length behind the data, so the disk writer learns the size of the file only from
    the data it receives.  With -S (sparse extraction) zero runs are skipped: also the one at the end of the file."""
    base = os.path.join(ctx.scratch, "zs")
    src, dst = os.path.join(base, "src"), os.path.join(base, "dst")
    shutil.rmtree(base, ignore_errors=True)
    os.makedirs(src); os.makedirs(dst)
    files = {"tail-zeros": b"DATA" * 100 + bytes(20000), "all-zeros": bytes(12288), "mid-zeros": b"a" * 5000 + bytes(9000) + b"z" * 10,
             "tiny": b"x", "zeros-then-byte": bytes(8192) + b"1" + bytes(4095)}
    for n, b in files.items():
        with open(os.path.join(src, n), "wb") as f:
            f.write(b)
    for tag, flags in (("zip-stream-S", "-xpSf"), ("zip-stream", "-xpf")):
        shutil.rmtree(dst, ignore_errors=True); os.makedirs(dst)
        cmd = "%s -cf - --format zip -C %s . | %s %s - -C %s" % (q(ctx.bsdtar), q(src), q(ctx.bsdtar), flags, q(dst))
        rc, out, err = sh(ctx, cmd)
        stats["evaluations"] += 1
        bad = []
        for n, b in files.items():
            try:
                got = open(os.path.join(dst, n), "rb").read()
            except OSError:
                bad.append("%s missing" % n); continue
            if got != b:
                bad.append("%s: %d bytes restored, %d archived%s" % (n, len(got), len(b), "" if len(got) != len(b) else " (content differs)"))
        if rc != 0 or bad:
            rep.violation("C12:unknown-size:%s" % tag, "[%s] files restored from a streamed zip differ: rc=%d %s %s" % (tag, rc, "; ".join(bad[:4]), err[-200:].replace("\n", " | ")),
                          dict(pipeline=tag, cmd=cmd, files={n: len(b) for n, b in files.items()}, bad=bad), found_input=True)
    shutil.rmtree(base, ignore_errors=True)

def run(rep):
    pr = vlib.proof_part(rep, "C12")
    ctx = setup(rep)
    stats = dict(trees=[], corr={}, evaluations=0, sparse={}, skipped=[], lib={})
    plan = tree_plan(rep)
    for idx, tree in enumerate(plan):
        try:
            run_tree(rep, ctx, idx, tree, stats, ALL_FORMATS, ALL_CLIS)
        except HarnessFailure as ex:
            rep.violation("crash:treeWalk:%s" % vlib.crash_key(ex.err),
                          "harness stopped (rc=%s) on tree %d: %s" % (ex.rc, idx, ex.err[-400:].replace("\n", " | ")),
                          dict(tree=vfmt(tree), case=ex.lines[0][:2000], stderr=ex.err[-3000:]), found_input=True)
    ntrees = len(stats["trees"])
    for name, tree, fmts, clis, cmp_, env in probe_plan():
        try:
            run_tree(rep, ctx, "p-" + name, tree, stats, fmts, clis, probe=name, do_compare=cmp_, env=env)
        except HarnessFailure as ex:
            rep.violation("crash:treeWalk:%s:probe-%s" % (vlib.crash_key(ex.err), name),
                          "harness stopped (rc=%s) on probe %s: %s" % (ex.rc, name, squeeze(ex.err)[-400:].replace("\n", " | ")),
                          dict(tree=vfmt(tree), case=ex.lines[0][:2000], stderr=ex.err[-3000:], probe=name), found_input=True)
    try:
        unknown_size_sparse(rep, ctx, stats)
    except Exception as ex:
        rep.violation("C12:unknown-size:could-not-run", "streamed-zip extraction could not be run: %r" % (ex,), dict(error=repr(ex)), found_input=False)
    try:
        hardlink_farm(rep, ctx, stats)
    except Exception as ex:
        rep.violation("C12:hardlink-farm:could-not-run", "hard-link farm could not be run: %r" % (ex,), dict(error=repr(ex)), found_input=False)
    flush_classes(rep, ctx)
    stats["probes"] = [p[0] for p in probe_plan()]
    del stats["trees"][ntrees:]
    nontrivial = sum(1 for t in stats["trees"] if t["hardlink_groups"] and t["symlinks"] and t["dirs"] >= 3)
    rep.coverage.update(
        evaluations=stats["evaluations"] + stats["corr"].get("cases", 0),
        distinct_nontrivial=nontrivial,
        rule="seeded random trees (regular/empty/sparse files with holes at start/middle/end, directories incl. modes 0555/0700/0500/"
             "sticky/setgid, symlinks incl. long and dangling targets, hard-link groups across directories, fifos, 255-byte and "
             "non-ASCII UTF-8 names, shell-special names, fixed mtimes with sub-second parts, user.* xattrs, one tree with a path "
             "beyond PATH_MAX); non-trivial = tree has at least one hard-link group, one symlink and three directories; each tree goes "
             "through 5 CLI pipelines (bsdtar default = restricted pax, --format pax, --format gnutar, default with -xS; find -depth | "
             "bsdcpio -o -H newc | bsdcpio -idm), bsdtar -t, 8 library formats, 6 walker policies x 2 ways of calling "
             "archive_read_disk_descend and 4 resolver strategies; plus hand-made probe trees (see probes)",
        samples=stats.get("cases_sample", []),
        traces_validated_against_impl=stats["corr"].get("agree", 0),
        correspondence=stats["corr"], trees=stats["trees"], capability_table=CAPS, cli_capability_table=CLI_CAPS,
        capability_notes=["zip/7zip: hard links are stored as independent files; zip cannot hold fifos",
                          "xar: the writer stores the permission bits only (no setuid/setgid/sticky); 1 s mtimes",
                          "iso9660: written with rockridge=strict,!joliet (the default rockridge=useful normalises modes/owners, "
                          "the Joliet tree refuses long paths); paths over 1000 bytes not run",
                          "mtree: metadata only; read back with mtree:checkfs from the source directory; hard links become files",
                          "gnutar/newc/zip/xar/iso9660: 1 s mtimes; 7zip: 100 ns; pax/mtree: 1 ns; bsdtar's default restricted pax: "
                          "exact or truncated to 1 s (by design)",
                          "the '.' entry (mode/mtime of the top directory) is compared for pax/gnutar/newc/mtree only",
                          "bsdcpio and mtree are not given trees with paths over 4000 bytes (names are passed as paths)"],
        options_not_varied="-P, --numeric-owner, symlink modes L/H, traversal filters (walker theorems quantify over the descend policy only)",
        sparse_layout_kept=stats["sparse"], skipped=stats["skipped"], library_roundtrips=stats["lib"],
        probes=stats.get("probes"), sanitizer_stops=stats.get("sanitizer_stops", 0), xattr_supported=ctx.xattr_ok, extract_flags="OWNER|PERM|TIME|ACL|FFLAGS|XATTR", locale="C.UTF-8",
        readdir_order="model is given each directory's children in the order the real readdir returned them (harness op 0)")
    rep.assumptions += [
        "real file systems are outside Coq: the walker model's file system is a finite tree with unique sibling names; "
        "symlink modes L/H, traversal filters, mount points, vanishing files and unreadable directories are not modelled (run as root)",
        "capture/restore theorems are about the simple flat FS model of TreeWalkDefs.v, not archive_write_disk (C04/C07 cover it)",
        "sparse layout (SEEK_DATA extents) of restored files is reported in evidence but not part of the verdict; contents are",
        "file system under test: the one holding /var/tmp (ext4 here); ownership is not varied (everything is root:root)",
    ]
    vlib.proof_verdict(rep, "C12", pr)

def replay(rep, path):
    d = json.load(open(path))
    rp = d["replay"]
    ctx = setup(rep)
    stats = dict(trees=[], corr={}, evaluations=0, sparse={}, skipped=[], lib={})
    tree = vparse(rp["tree"]) if "tree" in rp else None
    if tree is None:
        rep.coverage.update(evaluations=0, distinct_nontrivial=0, samples=[])
        return
    tag = rp.get("pipeline")
    fmts = [tag[4:]] if tag and tag.startswith("lib-") else ([] if tag else ALL_FORMATS)
    clis = [tag] if tag in ALL_CLIS else ([] if tag else ALL_CLIS)
    probe = rp.get("probe")
    env = {"LC_ALL": rp["env"], "LANG": rp["env"]} if rp.get("env") else None
    cmp_ = not (probe and [p for p in probe_plan() if p[0] == probe and not p[4]])
    run_tree(rep, ctx, 0, tree, stats, fmts, clis, probe=probe, do_compare=cmp_, env=env)
    flush_classes(rep, ctx)
    rep.coverage.update(evaluations=stats["evaluations"], distinct_nontrivial=1, samples=[rp["tree"][:400]])
