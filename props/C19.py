"""C19 - safe-writes extraction replaces files atomically, and leaves no temporary file behind.

proof (coq/Properties_C19.v over coq/FS/SafeWrite*.v) + correspondence of the extracted model with
the REAL archive_write_disk, observed through an LD_PRELOAD interposer (harness/safeWrite_preload.c)
that records every file-system call, injects the n-th failure and snapshots the content of the
target name before every call (crash oracle).

Cases: first every base extraction runs fault-free (this teaches the call trace and what the
complete new file is), then once per call of that trace with this call failing (and, for the
thorough tier, with pairs of failing calls)."""
import os, sys, json
import vlib
from vlib import vfmt, vparse

LEVEL = "proof"
sys.path.insert(0, os.path.join(vlib.VERIF, "translators"))

KINDS = "? open lstat stat fstat mkstemp fchmod chmod fchown lchown chown lseek write pwrite ftruncate futimens utimensat close rename unlink link rmdir mkdir other".split()
K = {n: i for i, n in enumerate(KINDS)}
EPERM, ENOENT, EIO, EACCES, ENOTDIR, EISDIR, ENOSPC, EROFS, EDQUOT = 1, 2, 5, 13, 20, 21, 28, 30, 122
SHORT = -1
# errno classes injected per call kind (first = quick tier; open has three classes because
# restore_entry branches on them)
ERRNOS = {
    "open": [EACCES, ENOENT, EISDIR, ENOTDIR], "lstat": [EACCES, EIO], "mkstemp": [EACCES, ENOSPC], "fchmod": [EPERM, EIO],
    "chmod": [EPERM], "fchown": [EPERM, EIO], "lchown": [EPERM], "fstat": [EIO], "lseek": [EIO], "write": [ENOSPC, EIO, EDQUOT],
    "ftruncate": [EIO, EPERM], "futimens": [EPERM], "utimensat": [EPERM], "close": [EIO], "rename": [EACCES, EROFS],
    "unlink": [EACCES], "rmdir": [EACCES],
}
OPEN_QUICK = [EACCES, ENOENT, EISDIR]

def variant_bits():
    import gen_safeWrite
    return gen_safeWrite.bits()

def compile_preload():
    so = os.path.join(vlib.scratch(), "safeWrite_preload.so")
    rc, out = vlib.sh(["gcc", "-O1", "-g", "-shared", "-fPIC", "-I" + os.path.join(vlib.VERIF, "harness"),
                       os.path.join(vlib.VERIF, "harness", "safeWrite_preload.c"), "-o", so, "-ldl"], timeout=300)
    if rc != 0:
        raise vlib.BuildError("compiling the interposer failed:\n" + out[-2000:])
    return so

# ------------------------------------------------------------------ cases
def mk_case(variant, base, plan=(), expect=None):
    return vfmt([variant, base["old"], base["perm"], base["opts"],
                 [base["size"]] if base["size"] is not None else [],
                 [base["mtime"]] if base["mtime"] is not None else [],
                 base["umask"], base["blksize"], base["stop"],
                 [[k, off, data] for (k, off, data) in base["blocks"]],
                 [[i, c] for (i, c) in plan], [expect] if expect is not None else []])

def rnd_bytes(r, n, zero_runs):
    """n bytes, non-zero except for runs of zeros when zero_runs"""
    out = bytearray(r.randrange(1, 256) for _ in range(n))
    if zero_runs and n:
        for _ in range(r.randrange(1, 4)):
            a = r.randrange(0, n)
            ln = r.choice([1, 2, 7, 100, 4096, 5000])
            where = r.choice(["any", "start", "end", "block"])
            if where == "start":
                a = 0
            elif where == "end":
                a = max(0, n - ln)
            elif where == "block":
                a = (a // 4096) * 4096
            out[a:a + ln] = bytes(min(ln, n - a))
    return bytes(out)

def gen_base(r, blksize, big):
    sizes = [0, 1, 2, 5, 17, 100] + ([4096, 4097, 8192, 10000, 12288] if big else [])
    old = rnd_bytes(r, r.choice(sizes), False)
    if r.random() < 0.08 and old:
        old = bytes(len(old))                       # an all-zero previous file
    opts = r.choice([0, 0, 1, 2, 4, 8, 8, 3, 7, 15, 9, 10, 12])
    sparse = bool(opts & 8)
    blen = r.choice(sizes)
    body = rnd_bytes(r, blen, sparse or r.random() < 0.3)
    # cut the body into blocks
    ncut = r.choice([0, 0, 1, 2, 3])
    cuts = sorted(set([0, blen] + [r.randrange(0, blen + 1) for _ in range(ncut)]))
    segs = [(cuts[i], body[cuts[i]:cuts[i + 1]]) for i in range(len(cuts) - 1)] or [(0, b"")]
    api = r.choice([0, 0, 0, 1, 2])                  # 0: data_block, 1: write_data, 2: mixed
    blocks = []
    for off, data in segs:
        kind = api if api < 2 else r.randrange(2)
        if kind == 0 and data and not any(data) and r.random() < 0.5:
            continue                                 # a hole: the reader does not deliver it
        blocks.append((kind, off if kind == 0 else 0, data))
    if r.random() < 0.15:
        blocks.insert(r.randrange(len(blocks) + 1), (0, r.randrange(0, blen + 1), b""))    # empty block: only moves a->offset
    ordered = True
    if r.random() < 0.1 and len(blocks) > 1:
        r.shuffle(blocks)                            # out of order / overlapping
        ordered = False
    if r.random() < 0.06 and blocks:
        blocks.append(blocks[0])
        ordered = False
    # declared size: exact, body shorter than declared, body longer than declared, unset
    c = r.random()
    if c < 0.5:
        size = blen
    elif c < 0.7:
        size = blen + r.choice([1, 3, 100, 4096])
    elif c < 0.9:
        size = max(0, blen - r.choice([1, 2, 50, 4096]))
    else:
        size = None
    if size is not None:
        # the code is only defined for block offsets inside the declared size (see wf in SafeWriteDefs.v)
        blocks = [(k, off, d) for (k, off, d) in blocks if k == 1 or off <= size]
    return dict(old=old, perm=r.choice([0o644, 0o600, 0o755, 0o444, 0o777, 0o640]), opts=opts, size=size,
                mtime=(1000000 + r.randrange(1000)) if r.random() < 0.7 else None,
                umask=r.choice([0o22, 0o22, 0o77, 0]), blksize=blksize, stop=r.randrange(2), blocks=blocks,
                ordered=ordered)

def fault_codes(kind, tier, base):
    if kind not in ERRNOS:
        return []
    if kind == "open":
        codes = OPEN_QUICK if tier == "quick" else ERRNOS["open"]
    else:
        codes = ERRNOS[kind][:1] if tier == "quick" else ERRNOS[kind]
    codes = list(codes)
    if kind == "write" and (base["ordered"] or not (base["opts"] & 8)):
        codes.append(SHORT)        # a short write is not a failure; with sparse + overlapping blocks the result may legitimately differ
    return codes

def parse_impl(line):
    v = vparse(line)
    return dict(header=v[0], data=v[1], finish=v[2], close=v[3], free=v[4],
                events=[dict(kind=KINDS[e[0]] if 0 <= e[0] < len(KINDS) else "?", path=e[1].decode("latin1"),
                             path2=e[2].decode("latin1"), arg=e[3], result=e[4], tag=e[5]) for e in v[5]],
                final_tag=v[6], names=[n.decode("latin1") for n in v[7]], content=(v[8][0] if v[8] else None))

# ------------------------------------------------------------------ the property, on real behaviour alone
def fault_site(ev, plan):
    """names the (last) injected failing call by its place in the code"""
    idx = [i for (i, c) in plan if c > 0 and i < len(ev)]
    if not idx:
        return "no-fault"
    i = max(idx)
    kind = ev[i]["kind"]
    if kind == "fchmod" and i > 0 and ev[i - 1]["kind"] == "mkstemp":
        return "la_mktemp-fchmod"
    if kind == "ftruncate" or any(e["kind"] == "ftruncate" for e in ev[:i]):
        return "finish-" + kind
    return kind

def oracle(case_line, impl_line):
    case = vparse(case_line)
    plan = [(p[0], p[1]) for p in case[10]]
    try:
        o = parse_impl(impl_line)
    except Exception:
        return ("C19:unparsable-output", "harness output not parsable")
    ev = o["events"]
    injected = sorted(set(ev[i]["kind"] for (i, c) in plan if c > 0 and i < len(ev))) or ["none"]
    plan_txt = ", ".join("call #%d %s -> %s" % (i, ev[i]["kind"] if i < len(ev) else "?", "short write" if c < 0 else "errno %d" % c)
                         for (i, c) in plan) or "no fault"
    tags = [e["tag"] for e in ev] + [o["final_tag"]]
    for k, t in enumerate(tags):
        if t in (0, 1):
            continue
        after = ev[k - 1]["kind"] if k > 0 else "start"
        if t == 3:
            return ("C19:target-absent:after-%s" % after,
                    "after call #%d (%s) the target name does not exist (fault plan: %s)" % (k - 1, after, plan_txt))
        before = sorted(set(ev[i]["kind"] for (i, c) in plan if c > 0 and i < min(k, len(ev)))) or ["none"]
        return ("C19:partial:after-%s:fault-%s" % (after, "+".join(before)),
                "after call #%d (%s) the target name refers to a file that is neither the complete previous file "
                "nor the complete new file (fault plan: %s)" % (k - 1, after, plan_txt))
    if not plan and not any(e["kind"] == "rename" and e["result"] == 0 and e["path2"] == "target" for e in ev):
        return ("C19:not-replaced", "fault-free extraction did not rename a temporary file over the target")
    temps = [n for n in o["names"] if n not in ("target", "other.txt")]
    unlink_failed = any(e["kind"] == "unlink" and e["result"] < 0 for e in ev)
    if temps and not unlink_failed:
        return ("C19:temp-left:%s" % fault_site(ev, plan),
                "after close/free the directory still contains %s (fault plan: %s)" % (temps, plan_txt))
    return None

def nontrivial(impl_line):
    try:
        o = parse_impl(impl_line)
    except Exception:
        return False
    kinds = [e["kind"] for e in o["events"]]
    return "mkstemp" in kinds and "write" in kinds

# ------------------------------------------------------------------ driver
def impl_lines(exe, so, cases, name):
    path = vlib.write_cases(cases, name)
    rc, lines, err = vlib.run_exe(exe, path, env={"LD_PRELOAD": so}, timeout=1200)
    if rc != 0 or len(lines) != len(cases):
        raise vlib.BuildError("C19 harness failed while learning traces (rc=%s, %d/%d lines): %s" % (rc, len(lines), len(cases), err[-500:]))
    return lines

def build_cases(rep, exe, so, variant):
    r = vlib.rng(rep.seed, "C19")
    blksize = os.stat("/var/tmp").st_blksize
    quick = rep.tier == "quick"
    nbase = 160 if quick else 600
    bases = [gen_base(r, blksize, big=(k % 4 == 0)) for k in range(nbase)]
    free = [mk_case(variant, b) for b in bases]
    learned = [parse_impl(l) for l in impl_lines(exe, so, free, "safeWrite-learn.cases")]
    cases, single = list(free), []
    for b, o in zip(bases, learned):
        expect = o["content"] if o["content"] is not None else b""
        for i, e in enumerate(o["events"]):
            for code in fault_codes(e["kind"], rep.tier, b):
                single.append((b, [(i, code)], expect, e["kind"]))
    cases += [mk_case(variant, b, plan, expect) for (b, plan, expect, _) in single]
    npairs = 0
    # pairs: a second failing call after the first one, in the trace the first fault produces.
    # quick: only after a tolerated failure of ftruncate/fstat (the error returns of finish_entry
    # can only be reached that way); thorough: after every single fault
    sub = [s for s in single if s[1][0][1] > 0 and
           (not quick or s[3] in ("ftruncate", "fstat"))]
    lines = impl_lines(exe, so, [mk_case(variant, b, plan, expect) for (b, plan, expect, _) in sub], "safeWrite-learn2.cases")
    for (b, plan, expect, _), l in zip(sub, lines):
        o = parse_impl(l)
        i0 = plan[0][0]
        for j, e in enumerate(o["events"]):
            if j <= i0:
                continue
            for code in fault_codes(e["kind"], "quick", b)[:1]:
                cases.append(mk_case(variant, b, plan + [(j, code)], expect))
                npairs += 1
    # the same single faults with a client that does not call finish_entry but goes on to the next header
    implicit = [mk_case(variant, dict(b, stop=2), plan, expect) for (b, plan, expect, kind) in single
                if kind in ("write", "pwrite", "lseek", "fstat", "ftruncate", "rename", "fchmod", "fchown", "futimens", "close")]
    build_cases.implicit = implicit[: (400 if quick else 20000)]
    return cases, len(free), len(single), npairs

def run(rep):
    pr = vlib.proof_part(rep, "C19", translators=["gen_safeWrite"])
    runner = vlib.build_runner("safeWrite")
    exe = vlib.compile_harness("safeWrite", "plain")
    so = compile_preload()
    variant = variant_bits()
    cases, nfree, nsingle, npairs = build_cases(rep, exe, so, variant)
    corpus = vlib.load_corpus("C19")
    seen = []
    def orc(c, il):
        seen.append(il)
        return oracle(c, il)
    st = vlib.correspond(rep, "safeWrite", runner, exe, corpus + cases, oracle=orc, impl_env={"LD_PRELOAD": so}, timeout=3000)
    # oracle only: implicit finish through the next archive_write_header
    icases = getattr(build_cases, "implicit", [])
    nimpl = 0
    if icases:
        ipath = vlib.write_cases(icases, "safeWrite-implicit.cases")
        rc, ilines, ierr = vlib.run_exe(exe, ipath, env={"LD_PRELOAD": so}, timeout=3000)
        if rc != 0 or len(ilines) != len(icases):
            k = min(len(ilines), len(icases) - 1)
            rep.violation("crash:safeWrite:implicit-finish", "harness stopped (rc=%s) on an implicit-finish case" % rc,
                          dict(case=icases[k], stderr=ierr[-2000:]), found_input=True)
        for c, il in zip(icases, ilines):
            nimpl += 1
            hit = oracle(c, il)
            if hit and not hit[0].startswith("C19:not-replaced"):
                rep.violation(hit[0] + ":implicit-finish", hit[1] + " [the failed entry was finished implicitly by the next archive_write_header]",
                              dict(correspondence="safeWrite", case=c, impl=il[:3000], oracle_only=True,
                                   cmd="LD_PRELOAD=safeWrite_preload.so harness safeWrite on the case line"), found_input=True)
    rep.coverage["implicit_finish_runs"] = nimpl
    calls = sum(l.count("(") - 4 for l in seen)
    rep.coverage.update(
        evaluations=len(cases) + len(corpus),
        distinct_nontrivial=len(set(c for c, l in zip(corpus + cases, seen) if nontrivial(l))),
        rule="base extractions = previous file of 0 B..3 blocks, body of 0 B..3 blocks cut into 1-4 blocks delivered by "
             "archive_write_data_block / archive_write_data (holes omitted, empty blocks, sometimes out of order or repeated), declared size "
             "equal / larger / smaller than the body / unset, options SAFE_WRITES + subsets of PERM TIME OWNER SPARSE, 2 client policies; "
             "each base runs fault-free and once per call of its trace with that call failing (errno class per call kind, open: EACCES/ENOENT/EISDIR, "
             "write: ENOSPC and a short write)%s; non-trivial = the real trace creates the temporary file and writes to it"
             % ("; thorough: more errno classes and pairs of failing calls" if rep.tier != "quick" else ""),
        samples=[c[:300] for c in cases[:2]] + [c[:300] for c in cases[nfree:nfree + 2]],
        fault_free_runs=nfree, single_fault_runs=nsingle, fault_pair_runs=npairs,
        crash_points_observed=calls, tree_variant_bits=variant,
        traces_validated_against_impl=st["agree"], correspondence=st)
    rep.assumptions += [
        "instant = system-call boundary of the calls seen by the interposer (open/stat/mkstemp/chmod/chown/lseek/write/ftruncate/utimens/close/rename/unlink/link families); "
        "kernel durability and ordering after power loss are outside the model",
        "harness runs as root on the file system of /var/tmp; one entry, pathname without directory part, permission bits <= 0777",
        "block offsets beyond the declared size are excluded (write_data_block then passes a negative size_t to write(2): outside C19, reported separately)",
        "a failing unlink(2) of the temporary file is not counted as 'temporary file left'",
    ]
    vlib.proof_verdict(rep, "C19", pr)

def replay(rep, path):
    d = json.load(open(path))
    vlib.run_translators(["gen_safeWrite"])
    v = vparse(d["replay"]["case"])
    v[0] = variant_bits()            # the model variant follows the tree under test now
    case = vfmt(v)
    runner = vlib.build_runner("safeWrite")
    exe = vlib.compile_harness("safeWrite", "plain")
    so = compile_preload()
    vlib.correspond(rep, "safeWrite", runner, exe, [case], oracle=oracle, impl_env={"LD_PRELOAD": so})
    rep.coverage.update(evaluations=1, distinct_nontrivial=1, samples=[case[:300]])
