"""C09 - output blocking and write faults: proof (Properties_C09.v) + correspondence of the Gallina
model of archive_write_client_write/_close, the raw-format API layer and memory_write with the real
library driven through the public API (harness/writeCore.c), + the property itself evaluated on what
the implementation did (raw and ustar writers)."""
import vlib
from vlib import vfmt, vparse

LEVEL = "proof"
H, F, C, X = [0], [3], [4], [5]
def D(b): return [1, bytes(b)]
def S(z): return [2, z]
BIG = 1 << 40
KEY_FATAL_FREE = "C09:free-in-fatal-state:client-not-closed"

BPBS = [0, 1, 2, 3, 7, 512, 513, 10240]
BIBLS = [-1, 0, 1, 2, 511, 512, 513]

def eff_bpb(arg):
    return 10240 if arg < 0 else arg

def padlen(bpb, bibl, fill):
    """the property's last-block rule, written independently of the model: an empty last block is
    not written; bibl <= 0: pad to bpb; else round up to a multiple of bibl, capped at bpb"""
    if fill == 0 or bpb == 0:
        return 0
    t = bpb if bibl <= 0 else min(bpb, bibl * ((fill + bibl - 1) // bibl))
    return max(t, fill) - fill

# ---------------------------------------------------------------- generators
def rand_bytes(r, n):
    # never zero, so that data and padding can be told apart
    return bytes(r.randrange(1, 256) for _ in range(n)) if n < 64 else \
        bytes((1 + (r.randrange(255) + k) % 255) for k in range(n))

def pick_bpb(r, small=False):
    c = r.random()
    if small:
        return r.choice([0, 1, 2, 3, 7, 16])
    if c < 0.06:
        return -r.randrange(1, 100)          # ignored by set_bytes_per_block: 10240 stays
    if c < 0.75:
        return r.choice(BPBS)
    return r.randrange(1, 3000)

def pick_bibl(r):
    c = r.random()
    if c < 0.3:
        return []
    if c < 0.85:
        return [r.choice(BIBLS)]
    return [r.randrange(-3, 3000)]

def pick_size(r, bpb):
    if bpb == 0:
        return r.randrange(0, 40)
    c = r.random()
    if c < 0.6:
        return max(0, r.randrange(0, 4) * bpb + r.choice([-1, 0, 1]))
    return r.randrange(0, 3 * bpb + 2)

def chunking(r, data, bpb):
    n = len(data)
    k = r.choice([1, 1, 2, 3, 4, 6])
    cuts = set()
    for _ in range(k - 1):
        if bpb > 0 and r.random() < 0.5:
            cuts.add(min(n, max(0, r.randrange(0, 4) * bpb + r.choice([-1, 0, 1]))))
        else:
            cuts.add(r.randrange(0, n + 1))
    cuts = sorted(cuts)
    out, prev = [], 0
    for c in cuts + [n]:
        out.append(data[prev:c])
        prev = c
    if r.random() < 0.15:
        out.insert(r.randrange(0, len(out) + 1), b"")
    return out

def pick_plan(r, bpb, total):
    if r.random() < 0.35:
        return []
    ninv = (total // bpb + 2) if bpb > 0 else 8
    ninv = min(ninv, 12)
    plan = []
    for _ in range(r.randrange(1, ninv + 2)):
        c = r.random()
        if c < 0.45:
            plan.append(BIG)
        elif c < 0.9:
            plan.append(r.randrange(1, max(2, bpb if bpb > 0 else 6)))
        elif c < 0.95:
            plan.append(bpb if bpb > 0 else 3)
        else:
            plan.append(0)
    if r.random() < 0.5:
        plan[r.randrange(0, len(plan))] = -1
    return plan

def tail_ops(r):
    c = r.random()
    if c < 0.55:
        return [F, C, X]
    if c < 0.75:
        return [C, X]
    if c < 0.85:
        return [F, X]
    if c < 0.93:
        return [X]
    return [C, C, X]

def gen_plan_case(r, small=False):
    bpb = pick_bpb(r, small)
    e = eff_bpb(bpb)
    data = rand_bytes(r, pick_size(r, e if not small else max(e, 1) * 2))
    chunks = chunking(r, data, e)
    ops = [H] + [D(c) for c in chunks]
    if r.random() < 0.2:
        ops.insert(r.randrange(0, len(ops) + 1), S(r.choice(BIBLS + [r.randrange(1, 600)])))
    c = r.random()
    oret = 0
    if c < 0.06:
        oret = r.choice([-30, -25, -20, -1, 1])
        if oret < -20:
            ops = r.choice([[C, X], [X], [H, C, X]])
            return vfmt([0, bpb, pick_bibl(r), oret, [], ops])
    elif c < 0.14:
        # call-sequence misuse: drives the handle into state FATAL
        k = r.randrange(1, len(ops) + 1)
        ops.insert(k, r.choice([H, F]))
    ops += tail_ops(r)
    return vfmt([0, bpb, pick_bibl(r), oret, pick_plan(r, e, len(data)), ops])

def systematic_plan_cases():
    """every index n of 'the n-th invocation fails / accepts only k bytes' for small configurations"""
    out = []
    for bpb in (0, 1, 2, 3, 7):
        n = 3 * bpb + 1 if bpb else 5
        data = bytes(range(1, n + 1))
        for chunks in ([data], [data[:1], data[1:bpb + 2], data[bpb + 2:]]):
            ninv = (n // bpb + 2) if bpb else len(chunks) + 1
            for bibl in ([], [2]):
                for k in range(ninv + 1):
                    for item in [-1, 0] + list(range(1, min(max(bpb, 2), 4))):
                        for tail in ([F, C, X], [X]):
                            out.append(vfmt([0, bpb, bibl, 0, [BIG] * k + [item], [H] + [D(c) for c in chunks] + tail]))
    return out

def free_in_fatal_cases():
    """free (without close) on a handle in state FATAL with a pending partial block: free itself must
    flush it through the callback, report a failure met there, call the closer and leak nothing"""
    out = []
    for bpb in (0, 3, 7):
        data = bytes(range(1, (bpb or 4) + 2))
        for mis in ([H, D(data), H], [H, D(data), F, D(b"x")], [H, D(data[:1]), D(data[1:]), H, S(2)]):
            for plan in ([], [BIG, -1], [BIG, 1], [-1], [BIG, 0], [1, 1, -1]):
                for tail in ([X], [C, X]):
                    out.append(vfmt([0, bpb, [], 0, plan, mis + tail]))
    return out

def gen_mem_cases(r, tier):
    out = []
    # every buffer size 0 .. needed+1 for small configurations
    for bpb in (0, 1, 3, 7, 16):
        for bibl in ([], [0], [1], [4], [-1]):
            n = r.randrange(0, 3 * max(bpb, 2) + 2)
            data = rand_bytes(r, n)
            b = 1 if (bibl == [] or bibl == [-1]) else bibl[0]
            needed = n + padlen(bpb, b, n % bpb if bpb else 0)
            chunks = chunking(r, data, bpb)
            for size in range(0, needed + 2):
                out.append(vfmt([1, bpb, bibl, size, [H] + [D(c) for c in chunks] + r.choice([[F, C, X], [C, X], [X]])]))
    for _ in range(150 if tier == "quick" else 3000):
        bpb = pick_bpb(r)
        e = eff_bpb(bpb)
        bibl = pick_bibl(r)
        data = rand_bytes(r, pick_size(r, e))
        b = 1 if (bibl == [] or bibl == [-1]) else bibl[0]
        needed = len(data) + padlen(e, b, len(data) % e if e else 0)
        size = max(0, r.choice([needed, needed - 1, needed + 1, r.randrange(0, needed + 2), (needed // e) * e if e else 0]))
        ops = [H] + [D(c) for c in chunking(r, data, e)]
        if r.random() < 0.1:
            ops.insert(r.randrange(1, len(ops) + 1), S(r.choice(BIBLS)))
        out.append(vfmt([1, bpb, bibl, size, ops + tail_ops(r)]))
    return out

FILTERS = [1, 2, 3, 5, 6, 7, 9, 13, 14]      # gzip bzip2 compress lzma xz uuencode lzip lz4 zstd (built in, no external program)

def gen_ustar_case(r, filtered=False):
    bpb = r.choice([0, 1, 512, 513, 10240, 10240, r.randrange(1, 3000)])
    if filtered:
        bpb = r.choice([0, 7, 64, 512, 513, r.randrange(1, 3000)])
    e = eff_bpb(bpb)
    ops, total = [], 0
    for k in range(r.randrange(1, 4)):
        size = r.choice([0, 1, 511, 512, 513, r.randrange(0, 2000)])
        data = rand_bytes(r, size)
        ops.append([0, b"f%d" % k, size])
        ops += [D(c) for c in chunking(r, data, 512)]
        if r.random() < 0.5:
            ops.append(F)
        total += 512 + (size + 511) // 512 * 512
    total += 1024
    ops += r.choice([[C, X], [C, X], [X]])
    if filtered:
        # compressed output is short: keep the plan within the invocations that will really happen
        plan = pick_plan(r, e, min(total, 6 * max(e, 1)))
        return vfmt([2, bpb, pick_bibl(r), 0, plan, ops, r.choice(FILTERS)])
    plan = pick_plan(r, e, total)
    return vfmt([2, bpb, pick_bibl(r), 0, plan, ops])

FILTER_OPS = [[0, b"a", 100], D(bytes(range(1, 101))), C, X]

def probe_filter_lengths(exe):
    """length of the filtered archive stream of FILTER_OPS for each filter (one accepting run each)"""
    cases = [vfmt([2, 0, [], 0, [], FILTER_OPS, f]) for f in FILTERS]
    rc, lines, err = vlib.run_exe(exe, vlib.write_cases(cases, "probe.cases"))
    if rc != 0 or len(lines) != len(cases):
        raise vlib.BuildError("probing the write filters failed (rc=%s): %s" % (rc, err[-500:]))
    return {f: len(vparse(l)[4]) for f, l in zip(FILTERS, lines)}

def filter_fail_everywhere_cases(lens, quick):
    """every write filter x bytes_per_block 1 (one invocation per output byte) x the index n of 'the
    n-th callback invocation fails': every n for the cheap filters, first/last/strided n for the
    lzma family and uuencode.  Every call site that writes to the next filter is hit by some n."""
    out = []
    for f in FILTERS:
        n = lens[f]
        if quick and (f in (5, 6, 9) or n > 400):
            ks = set(range(0, 16)) | set(range(max(0, n - 24), n + 1)) | set(range(0, n, 13))
        else:
            ks = range(0, n + 1)
        for k in sorted(ks):
            out.append(vfmt([2, 1, [], 0, [BIG] * k + [-1], FILTER_OPS + [], f]))
    return out

def ustar_fail_in_header_cases():
    """a refused invocation during archive_write_header puts the handle in state FATAL"""
    out = []
    for tail in ([C, X], [X]):
        for k in range(0, 3):
            out.append(vfmt([2, 512, [], 0, [BIG] * k + [-1], [[0, b"a", 3], D(b"abc"), [0, b"b", 600], D(b"z" * 600)] + tail]))
    return out

# ---------------------------------------------------------------- the property, on what the implementation did
def legal_ops(ops, mode=0):
    """header, data.., optional set_bibl anywhere, optional finish, optional close(s), free"""
    if mode == 2:
        return True         # ustar sequences are generated well-formed
    kinds = [o[0] for o in ops if o[0] != 2]
    i = 0
    while i < len(kinds) and kinds[i] in (0, 1):
        # raw allows one header only; a header must come first; ustar entries are generated well-formed
        i += 1
    rest = kinds[i:]
    return rest in ([3, 4, 5], [4, 5], [3, 5], [5], [4, 4, 5], [3, 4, 4, 5])

def oracle(case_line, impl_line):
    c = vparse(case_line)
    try:
        out = vparse(impl_line)
    except Exception:
        return ("C09:unparsable-output", "harness output not parsable")
    mode = c[0]
    if mode == 1:
        return oracle_mem(c, out)
    bpb, bibl0, oret, plan, ops = eff_bpb(c[1]), (c[2][0] if c[2] else -1), c[3], c[4], c[5]
    ost, results, closer, leaked = out[0], out[1], out[2], out[3]
    if len(results) != len(ops):
        return ("C09:output-count", "number of results differs from number of operations")
    if ost != oret:
        return ("C09:open:status", "archive_write_open returned %d, the open callback returned %d" % (ost, oret))
    if closer >= 1000:
        return ("C09:callback-outside-call", "callbacks invoked during open or after the recorded calls (code %d)" % closer)
    has_close = any(o[0] == 4 for o in ops)
    if leaked or closer != (1 if oret == 0 else 0):
        key = KEY_FATAL_FREE if not has_close else "C09:leak:after-close"
        return (key, "after archive_write_free: heap %s the client filter state (leaked=%d) and the client close callback was "
                     "invoked %d time(s) although the open callback returned %d" %
                     ("still holds" if leaked else "no longer holds", leaked, closer % 1000, oret))
    # fail_reported: a refused invocation ends the API call in progress with an error
    refused_seen = False
    for k, (op, (st, tr)) in enumerate(zip(ops, results)):
        for j, (off, ret, acc) in enumerate(tr):
            if off < 1:
                return ("C09:callback:zero-offer", "callback invoked with %d bytes" % off)
            if ret <= 0:
                refused_seen = True
                if j != len(tr) - 1 and mode == 0:      # the client layer itself stops at once; a format's close may go on flushing
                    return ("C09:fault:continued", "call #%d went on invoking the callback after it returned %d" % (k, ret))
                if st >= 0:
                    return ("C09:fault:unreported", "callback returned %d during call #%d (kind %d) but the call returned %d" % (ret, k, op[0], st))
            elif ret != len(acc) or ret > off:
                return ("C09:harness", "inconsistent record")
        filtered = mode == 2 and len(c) > 6 and c[6] != 0
        if op[0] in (4, 5) and st != 0 and not any(i[1] <= 0 for i in tr) and not (filtered and refused_seen):
            # (a compressor that saw a write error may legitimately report it again at close)
            return ("C09:close-free:status", "%s returned %d although no callback failed during it" % ("close" if op[0] == 4 else "free", st))
        if op[0] == 1 and st >= 0 and st != len(op[1]):
            return ("C09:write_data:count", "archive_write_data returned %d for %d bytes" % (st, len(op[1])))
    if oret != 0 or not legal_ops(ops, mode):
        return None
    # expected stream
    if mode == 0:
        nheaders = sum(1 for o in ops if o[0] == 0)
        if nheaders != 1:
            return None
        expect = b"".join(o[1] for o in ops if o[0] == 1)
    else:
        expect = out[4]
    bibl = bibl0
    for o in ops:
        if o[0] == 2:
            bibl = o[1]
        if o[0] in (4, 5):
            break
    if mode == 2 and len(c) > 6 and c[6] == 7:
        bibl = 1      # by design the uuencode (and b64encode) filter sets bytes_in_last_block to 1 when it closes: text output is not padded
    invs = [i for (st, tr) in results for i in tr]
    upto = []
    for i in invs:
        upto.append(i)
        if i[1] <= 0:
            break
    got = b"".join(i[2] for i in upto)
    common = min(len(got), len(expect))
    if got[:common] != expect[:common]:
        pos = next(k for k in range(common) if got[k] != expect[k])
        return ("C09:stream:order", "bytes accepted by the callback differ from the archive stream at offset %d "
                                    "(lost, duplicated or reordered bytes)" % pos)
    extra = got[len(expect):]
    if any(extra):
        return ("C09:stream:padding-not-zero", "bytes after the end of the archive stream are not zero")
    if len(extra) and not (bpb > 0 and len(extra) < bpb):
        return ("C09:stream:padding-length", "%d padding bytes with bytes_per_block %d" % (len(extra), bpb))
    if not refused_seen:
        if len(got) < len(expect):
            return ("C09:stream:incomplete", "every call succeeded but only %d of %d bytes reached the callback" % (len(got), len(expect)))
        accepting = all(i[1] == i[0] for i in invs)
        if accepting:
            want = padlen(bpb, bibl, len(expect) % bpb if bpb else 0)
            if len(extra) != want:
                return ("C09:last-block:padding", "last block padded with %d zero bytes, the last-block setting (bpb %d, "
                                                  "bytes_in_last_block %d, %d bytes pending) prescribes %d" % (len(extra), bpb, bibl, len(expect) % bpb if bpb else 0, want))
            if bpb > 0:
                for k, i in enumerate(invs[:-1]):
                    if i[0] != bpb:
                        return ("C09:blocks:size", "invocation #%d of %d carries %d bytes, bytes_per_block is %d" % (k, len(invs), i[0], bpb))
                if invs and invs[-1][0] > bpb:
                    return ("C09:blocks:size", "last invocation carries %d bytes, bytes_per_block is %d" % (invs[-1][0], bpb))
    return None

def oracle_mem(c, out):
    bpb, bibl0, size, ops = eff_bpb(c[1]), (c[2][0] if c[2] else -1), c[3], c[4]
    ost, results, content, leaked = out[0], out[1], out[2], out[3]
    if len(results) != len(ops):
        return ("C09:output-count", "number of results differs from number of operations")
    if ost != 0:
        return ("C09:memory:open", "archive_write_open_memory returned %d" % ost)
    if leaked:
        key = KEY_FATAL_FREE if not any(o[0] == 4 for o in ops) else "C09:leak:after-close"
        return (key, "memory sink: heap not back to its level after archive_write_free")
    prev = 0
    for k, (st, used) in enumerate(results):
        if used > size:
            return ("C09:memory:overrun", "used = %d exceeds the buffer size %d after call #%d" % (used, size, k))
        if used < prev:
            return ("C09:memory:used-decreased", "used went from %d to %d" % (prev, used))
        prev = used
    if len(content) != prev:
        return ("C09:memory:used", "final used %d but %d bytes reported" % (prev, len(content)))
    if not legal_ops(ops) or sum(1 for o in ops if o[0] == 0) != 1:
        return None
    expect = b"".join(o[1] for o in ops if o[0] == 1)
    bibl = 1 if bibl0 == -1 else bibl0       # memory_write_open: no padding unless asked for
    for o in ops:
        if o[0] == 2:
            bibl = o[1]
        if o[0] in (4, 5):
            break
    full = expect + bytes(padlen(bpb, bibl, len(expect) % bpb if bpb else 0))
    failed = [k for k, ((st, used), op) in enumerate(zip(results, ops)) if st < 0]
    if failed:
        upto = results[failed[0]][1]
        if content[:upto] != full[:upto]:
            return ("C09:memory:content", "buffer content up to the first failing call is not a prefix of the archive stream")
        if size >= len(full):
            return ("C09:memory:spurious-failure", "call #%d failed although the buffer (%d) holds the whole archive (%d)" % (failed[0], size, len(full)))
    else:
        if content != full:
            return ("C09:memory:content", "every call succeeded but the buffer does not hold the archive stream followed by the prescribed padding")
    if size < len(expect) and not failed:
        return ("C09:memory:unreported", "buffer of %d bytes, %d bytes of data, yet no call returned an error" % (size, len(expect)))
    for k, ((st, used), op) in enumerate(zip(results, ops)):
        if op[0] == 1 and st >= 0 and st != len(op[1]):
            return ("C09:write_data:count", "archive_write_data returned %d for %d bytes" % (st, len(op[1])))
    return None

def nontrivial(case_line):
    c = vparse(case_line)
    bpb = eff_bpb(c[1])
    if c[0] == 1:
        total = sum(len(o[1]) for o in c[4] if o[0] == 1)
        return c[3] < total or (bpb > 0 and total >= bpb)
    total = sum(len(o[1]) for o in c[5] if o[0] == 1)
    return any(p < bpb or p <= 0 for p in c[4]) or (bpb > 0 and total > bpb)

# ---------------------------------------------------------------- oracle-only run (ustar: not modelled)
def run_oracle_only(rep, name, exe, cases):
    path = vlib.write_cases(cases, name + ".cases")
    rc, lines, err = vlib.run_exe(exe, path)
    hits = 0
    if rc != 0 or len(lines) != len(cases):
        k = min(len(lines), len(cases) - 1)
        summ = [l for l in err.split("\n") if "ERROR: " in l or "SUMMARY" in l or "runtime error" in l or "TIMEOUT" in l]
        rep.violation("crash:%s:%s" % (name, vlib.crash_key(err)),
                      "implementation harness %s stopped (rc=%s) on case #%d: %s" % (name, rc, k, "; ".join(summ)[:400]),
                      dict(correspondence=name, case=cases[k] if cases else None, stderr=err[-3000:]), found_input=True)
    for c, l in zip(cases, lines):
        hit = oracle(c, l)
        if hit:
            hits += 1
            rep.violation(hit[0], hit[1], dict(correspondence=name, case=c, impl=l, cmd="harness writeCore on the case line"),
                          found_input=True)
    return dict(name=name, cases=len(cases), oracle_hits=hits, impl_rc=rc, checked=len(lines))

def run(rep):
    pr = vlib.proof_part(rep, "C09", translators=["gen_defines", "gen_writeCore"])
    runner = vlib.build_runner("writeCore")
    exe = vlib.compile_harness("writeCore", "asan")
    r = vlib.rng(rep.seed, "C09")
    quick = rep.tier == "quick"
    plan_cases = systematic_plan_cases() + free_in_fatal_cases()
    plan_cases += [gen_plan_case(r, small=True) for _ in range(1500 if quick else 30000)]
    plan_cases += [gen_plan_case(r) for _ in range(700 if quick else 12000)]
    mem_cases = gen_mem_cases(r, rep.tier)
    ustar_cases = ustar_fail_in_header_cases() + [gen_ustar_case(r) for _ in range(400 if quick else 8000)]
    ustar_cases += filter_fail_everywhere_cases(probe_filter_lengths(exe), quick)
    ustar_cases += [gen_ustar_case(r, filtered=True) for _ in range(300 if quick else 6000)]
    corpus = vlib.load_corpus("C09")
    model_corpus = [c for c in corpus if not c.startswith("(2")]
    # ustar first: its witnesses (a failing callback alone) are the ones worth reporting first
    st3 = run_oracle_only(rep, "writeCore-ustar", exe, [c for c in corpus if c.startswith("(2")] + ustar_cases)
    st1 = vlib.correspond(rep, "writeCore-plan", runner, exe, model_corpus + plan_cases, oracle=oracle)
    st2 = vlib.correspond(rep, "writeCore-memory", runner, exe, mem_cases, oracle=oracle)
    allc = plan_cases + mem_cases + ustar_cases
    rep.coverage.update(
        evaluations=len(allc) + len(corpus),
        distinct_nontrivial=len(set(c for c in allc if nontrivial(c))),
        rule="raw writer x bytes_per_block {0,1,2,3,7,512,513,10240,negative(ignored),random<3000} x bytes_in_last_block "
             "{unset,-1,0,1,2,511,512,513,random, changed after open} x data sizes k*bpb+{-1,0,1} and random up to 3*bpb+1 x "
             "random chunkings incl. empty writes x callback plans (accept-all, short accepts, 0 returns, one failure at a "
             "random invocation) + EVERY failing / short-accepting invocation index for bpb {0,1,2,3,7}; open callback "
             "returning -30/-25/-20/-1/1; call sequences with/without finish_entry, close, double close, misuse into state "
             "FATAL, free with and without close on a FATAL handle with a pending block and a failing callback; archive_write_open_memory for EVERY buffer size 0..needed+1 (small) and boundary sizes (large) with the "
             "buffer malloc'ed exactly (ASan red zone); ustar writer (1-3 entries) with the same plans, alone and under each "
             "built-in write filter (gzip bzip2 compress lzma xz uuencode lzip lz4 zstd), oracle only. "
             "non-trivial = the plan contains an item that refuses or shortens a write, or the data exceed one block "
             "(memory: buffer smaller than the data or data >= one block)",
        samples=[plan_cases[0], plan_cases[len(plan_cases) // 2][:300], mem_cases[0], ustar_cases[0][:300]],
        traces_validated_against_impl=st1["agree"] + st2["agree"],
        correspondence=[st1, st2, st3])
    rep.assumptions += [
        "the write callback never returns more than it was offered (callback contract); the two unchecked loops of "
        "archive_write_client_write (pass-through and full-block) are not modelled beyond that contract",
        "sizes are unbounded naturals in the model; C uses size_t/ssize_t and archive_write_data caps a request at INT_MAX",
        "ustar (and every other format/filter above the client layer) is not modelled: its byte stream is taken from a "
        "reference run of the real code with bytes_per_block 0 and an accepting callback; the oracle checks blocking, "
        "padding, order, fault reporting and resource release on it",
        "malloc(0) returns a non-NULL pointer (glibc); allocation failures are not explored",
        "leak detection per case = heap bytes in use before archive_write_new vs after archive_write_free (ASan allocator statistics)"]
    vlib.proof_verdict(rep, "C09", pr)

def replay(rep, path):
    import json
    d = json.load(open(path))
    case = d["replay"]["case"]
    exe = vlib.compile_harness("writeCore", "asan")
    if case.startswith("(2"):
        run_oracle_only(rep, "writeCore-ustar", exe, [case])
    else:
        runner = vlib.build_runner("writeCore")
        vlib.correspond(rep, d["replay"].get("correspondence", "writeCore-plan"), runner, exe, [case], oracle=oracle)
    rep.coverage.update(evaluations=1, distinct_nontrivial=1, samples=[case[:400]])
