"""C11 - writer output is deterministic and contains no uninitialised bytes (level: partial).
Proof part: coq/Properties_C11.v - for the byte-level formats the emitted stream is a Gallina function of
the entries alone; header lengths, zero padding and zero trailers are proved.
Tie (where the property lives): the same write programs run on the REAL writers with the heap filled by
glibc's MALLOC_PERTURB_ in {0, 0x55, 0xAA, 0xFF} and the stack pre-filled with the same pattern before every
API call, with time(), getpid() and the random source (arc4random_buf behind archive_random) pinned by the
harness' own definitions; the streams handed to the write callback must be byte-identical across the four
variants and, for the byte-level formats, equal to the extracted model's bytes.  Thorough tier: the same
programs under valgrind memcheck with a definedness check on every buffer passed to the write callback."""
import os, sys, hashlib
import vlib
from vlib import vfmt
import C10, C02
from C10 import fparse

LEVEL = "proof"
PATTERNS = [0, 0x55, 0xAA, 0xFF]
EXTRA_FORMATS = {     # write-only formats C02 cannot round-trip
    "shar": dict(types=[C10.REG, C10.DIR, C10.LNK], names="any", fields=set(), order="seq"),
    "shardump": dict(types=[C10.REG, C10.DIR, C10.LNK], names="any", fields=set(), order="seq"),
}

def gen_cases(rep):
    r = vlib.rng(rep.seed, "C11")
    per = 20 if rep.tier == "quick" else 400
    specs = dict(C02.FORMATS)
    specs.update(EXTRA_FORMATS)
    out = []
    for fmt, spec in specs.items():
        for k in range(per):
            es = C02.gen_sequence(r, fmt, spec, big=0.004)
            if not es:
                continue
            opts = r.choice([o for o in spec.get("options", [b""]) if b"iso-level=4" not in o])   # iso-level=4 crashes: C02's finding
            if fmt == "iso9660" and not opts:
                opts = b"iso9660:rockridge=strict"
            flt, fcode = r.choice(C02.FILTERS)
            bpb, bilb = r.choice(C02.BLOCKS)
            plain = fmt in C10.BYTE_LEVEL and k % 2 == 0
            if plain:
                flt, bpb, bilb = b"", 0, -1
            ents = [C02.to_ent(d) for d in es]
            if r.random() < 0.3 and fmt != "xar":      # xar loops forever on a short body: C02's finding
                # a body shorter than the declared size: the writer itself has to produce the missing bytes
                for e in ents:
                    if len(e[17]) > 2:
                        e[17] = e[17][:len(e[17]) // 2]
            # birth times on either side of mtime (formats with a creation-time field decide per entry what to store)
            for e in ents:
                if e[9] and r.random() < 0.5:
                    sec = e[9][0][0]
                    e[12] = [[sec + r.choice([-100, 0, 1, 1000, 10**6]), r.choice([0, 5, 999999999])]]
            # Mac OS metadata on some members (the pax writers emit it as a member of its own, written by a recursive
            # header/data/finish in the middle of the entry's header)
            if fmt in ("pax", "paxr") and not plain:
                for e in ents:
                    if r.random() < 0.25:
                        e[19] |= 32
            out.append((fmt, opts, flt, bpb, bilb, ents, plain))
        if fmt in ("pax", "paxr"):
            macs = [C10.ent(path=b"m/plain.txt", size=700, body=b"A" * 700, mtime=(1000, 0)),
                    C10.ent(path=b"m/with-finder-info.txt", size=9000, body=bytes((k * 5) & 0xff for k in range(9000)), mtime=(1001, 0), flags=32),
                    C10.ent(path=b"m/short-body.bin", size=8192, body=b"B" * 100, mtime=(1002, 0), flags=32),
                    C10.ent(path=b"m/empty", size=0, mtime=(1003, 0), flags=32),
                    C10.ent(path=b"m/after.txt", size=5, body=b"after", mtime=(1004, 0))]
            out.append((fmt, b"", b"", 0, -1, [list(e) for e in macs], False))
            out.append((fmt, b"", b"gzip", 10240, 512, [list(e) for e in macs], False))
        # directed: names and link targets far longer than any fixed field (continuation records, extended headers,
        # long-name entries), all four time stamps set, creation time later than mtime
        long_name = b"dir/" + b"L" * 120 + b".txt"
        directed = [C10.ent(path=b"dir", mode=C10.DIR | 0o755, mtime=(5000, 0)),
                    C10.ent(path=long_name, size=10, body=b"0123456789", mode=C10.REG | 0o640, uid=1000, gid=100, uname=b"user", gname=b"grp",
                            mtime=(1000, 0), atime=(3000, 5), ctime=(1500, 0), btime=(2000, 0)),
                    C10.ent(path=b"dir/" + b"K" * 95, size=3, body=b"abc", mtime=(2000, 0), btime=(2000, 0)),
                    C10.ent(path=b"dir/" + b"s" * 100, mode=C10.LNK | 0o777, sym=b"t" * 150, mtime=(1000, 0), btime=(999, 0)),
                    C10.ent(path=b"dir/plain", size=1, body=b"x", mtime=(7, 0), btime=(1 << 33, 0))]
        for opts in spec.get("options", [b""])[:3]:
            if b"iso-level=4" in opts:
                continue
            if fmt == "iso9660" and not opts:
                opts = b"iso9660:rockridge=strict"
            out.append((fmt, opts, b"", 0, -1, [list(e) for e in directed], False))
        # several long names in ONE directory, odd and even lengths in every order: records that overflow into shared
        # continuation areas / blocks, whose padding depends on the parities of the lengths
        for n1, n2, n3 in ((151, 174, 0), (151, 175, 0), (151, 176, 0), (150, 177, 0), (179, 174, 0), (160, 161, 162), (174, 151, 176), (120, 121, 122)):
            many = [C10.ent(path=b"dd", mode=C10.DIR | 0o755, mtime=(5000, 0))]
            for k, n in enumerate((n1, n2, n3)):
                if n:
                    many.append(C10.ent(path=b"dd/" + bytes([65 + k]) * n, size=2, body=b"ab", mtime=(1000 + k, 0), uid=k, gid=k))
            o2 = b"iso9660:rockridge=strict" if fmt == "iso9660" else b""
            out.append((fmt, o2, b"", 0, -1, many, False))
            if fmt == "iso9660":
                out.append((fmt, b"iso9660:!joliet,iso9660:!pad", b"", 0, -1, [list(e) for e in many], False))
        if fmt == "iso9660":
            # all parities of two and three records sharing a continuation block
            for n1 in range(150, 154):
                for n2 in range(172, 178):
                    many = [C10.ent(path=b"A" * n1, size=2, body=b"ab", mtime=(1000, 0)),
                            C10.ent(path=b"B" * n2, size=2, body=b"ab", mtime=(1001, 0))]
                    if (n1 + n2) % 3 == 0:
                        many.append(C10.ent(path=b"C" * (n1 + 7), size=1, body=b"c", mtime=(1002, 0), atime=(5, 0), ctime=(6, 0)))
                    out.append((fmt, b"iso9660:!joliet,iso9660:!pad", b"", 0, -1, many, False))
    return out

def line_for(c, poison, op=2):
    fmt, opts, flt, bpb, bilb, ents, plain = c
    return vfmt([op, 1, fmt.encode(), opts, flt, bpb, bilb, ents, 1 << 24, poison, 0])

def run_variant(rep, exe, cases, pattern, stats):
    lines = [line_for(c, pattern) for c in cases]
    metas = [dict(fmt=c[0], field="program", desc="%s/%s" % (c[1].decode(), c[2].decode())) for c in cases]
    env = dict(C10.harness_env())
    env["MALLOC_PERTURB_"] = str(pattern)
    return C10.run_resuming(rep, "fmt-det-%02x" % pattern, exe, lines, metas, env=env, pid="C11")

def first_diff(a, b):
    n = min(len(a), len(b))
    for k in range(n):
        if a[k] != b[k]:
            return k
    return n

def run(rep):
    C10.big_stack()
    pr = vlib.proof_part(rep, "C11", translators=["gen_defines", "gen_fmt"])
    runner = vlib.build_runner("fmt")
    exe = vlib.compile_harness("fmt", "plain")
    cases = gen_cases(rep)
    stats = dict(programs=len(cases), identical=0, differ=0, model_agree=0, model_disagree=0, bytes=0, keys={})
    outs = {}
    for p in PATTERNS:
        outs[p] = run_variant(rep, exe, cases, p, stats)
    # model bytes for the plain byte-level programs
    midx = [k for k, c in enumerate(cases) if c[6]]
    mpath = vlib.write_cases([line_for(cases[k], -1) for k in midx], "fmt-det-model.cases")
    rc_m, ml, m_err = vlib.run_exe(runner, mpath, timeout=900)
    if rc_m != 0 or len(ml) != len(midx):
        rep.violation("corr:fmt:model-runner", "model runner failed (rc=%s, %d/%d lines): %s" % (rc_m, len(ml), len(midx), m_err[-300:]),
                      dict(correspondence="fmt", stage="model"), found_input=False)
        ml = []
    model_of = dict(zip(midx, ml))
    first_dis = None
    for k, c in enumerate(cases):
        ref = outs[PATTERNS[0]][k]
        if ref is None:
            continue
        same = True
        for p in PATTERNS[1:]:
            o = outs[p][k]
            if o is None:
                continue
            if o != ref:
                same = False
                a, b = fparse(ref), fparse(o)
                what = "statuses" if a[0] != b[0] else "byte %d of %d" % (first_diff(a[1], b[1]), len(a[1]))
                key = "C11:%s:depends-on-memory" % c[0]
                desc = ("%s%s%s: the stream handed to the write callback differs between MALLOC_PERTURB_/stack pattern 0x%02x and "
                        "0x%02x (%s): the output depends on what heap or stack contained before" %
                        (c[0], (" [" + c[1].decode() + "]") if c[1] else "", (" | " + c[2].decode()) if c[2] else "",
                         PATTERNS[0], p, what))
                stats["keys"].setdefault(key, desc)
                rep.violation(key, desc, dict(correspondence="fmt", case=line_for(c, p), pattern_a=PATTERNS[0], pattern_b=p,
                                              out_a=ref[:2000], out_b=o[:2000], cmd="./check C11 --replay <this file>"), found_input=True)
                break
        if same:
            stats["identical"] += 1
        else:
            stats["differ"] += 1
        iv = fparse(ref)
        stats["bytes"] += len(iv[1])
        if k in model_of:
            mv = fparse(model_of[k])
            if C10.project_impl(iv) == mv:
                stats["model_agree"] += 1
            else:
                stats["model_disagree"] += 1
                if first_dis is None and same:
                    first_dis = (k, line_for(c, -1), C10.project_impl(iv), mv, c[0])
    if first_dis is not None:
        k, line, pi, mv, fmt = first_dis
        at = first_diff(pi[3], mv[3]) if pi[:3] == mv[:3] else None
        rep.violation("corr:fmt-bytes", "model and implementation disagree on %d byte-level write programs (first: #%d %s, %s)" %
                      (stats["model_disagree"], k, fmt, "statuses/lengths differ" if at is None else "byte %d differs" % at),
                      dict(correspondence="fmt", broken="correspondence fmt (bytes of whole archives)", case=line, impl=str(pi[:3]), model=str(mv[:3])),
                      found_input=False)
    memcheck = None
    if rep.tier != "quick":
        memcheck = run_memcheck(rep, cases, stats)
    rep.coverage.update(
        evaluations=len(cases) * len(PATTERNS),
        distinct_nontrivial=vlib.distinct_count([line_for(c, -1) for c in cases if len(c[5]) >= 2 or c[2] or c[3]]),
        rule="write programs (entry sequences as in C02, some with bodies shorter than the declared size so that the writer pads) for "
             "%d writable formats x option sets x filters x block sizes, each run under MALLOC_PERTURB_ and stack pattern "
             "0x00/0x55/0xAA/0xFF with time/getpid/arc4random_buf pinned; non-trivial = at least two entries, a filter or output blocking" %
             (len(C02.FORMATS) + len(EXTRA_FORMATS)),
        samples=[line_for(cases[0], 0x55)[:300], line_for(cases[len(cases) // 2], 0xAA)[:300]],
        traces_validated_against_impl=stats["model_agree"],
        correspondence=dict(bytes_vs_model=dict(agree=stats["model_agree"], disagree=stats["model_disagree"])),
        programs=stats["programs"], identical_across_patterns=stats["identical"], differing=stats["differ"],
        output_bytes_compared=stats["bytes"], memcheck=memcheck, oracle_keys=sorted(stats["keys"].keys()))
    rep.assumptions += [
        "prior heap contents are modelled by glibc MALLOC_PERTURB_ (fresh and freed chunks filled with the pattern), prior stack contents by "
        "a 192 KiB frame filled with the pattern before every API call; other sources of stale data (mmap reuse, registers) are not varied",
        "time(), getpid() and arc4random_buf() are replaced by fixed functions inside the harness executable; a writer that read another "
        "clock (clock_gettime, gettimeofday) or /dev/urandom directly would show up as a difference between runs only by chance",
        "definedness (valgrind memcheck on every buffer passed to the write callback) runs in the thorough tier only",
        "filters lrzip/lzop/grzip (external programs) are not exercised"]
    vlib.proof_verdict(rep, "C11", pr)

def run_memcheck(rep, cases, stats):
    """thorough tier: every byte handed to the write callback must be defined (memcheck, client request + branch)"""
    exe = vlib.compile_harness("fmt", "plain", extra=["-DVERIF_VALGRIND"])
    sub = cases[::4]
    lines = [line_for(c, -1) for c in sub]
    path = vlib.write_cases(lines, "fmt-memcheck.cases")
    log = os.path.join(vlib.scratch(), "memcheck.log")
    env = dict(os.environ)
    env.update(C10.harness_env())
    rc, out = vlib.sh(["valgrind", "--tool=memcheck", "--error-exitcode=97", "--track-origins=yes", "--leak-check=no", "-q",
                       "--log-file=" + log, exe, path], timeout=7200, env=env)
    txt = open(log).read() if os.path.exists(log) else ""
    errs = [l for l in txt.split("\n") if "uninitialised" in l or "Uninitialised" in l or "not defined" in l.lower()]
    if rc == 97 or errs:
        where = [l for l in txt.split("\n") if " by 0x" in l or " at 0x" in l][:6]
        rep.violation("C11:memcheck:undefined-output", "valgrind memcheck: bytes derived from uninitialised memory reach the write callback: %s" %
                      "; ".join(x.strip() for x in (errs[:2] + where))[:400],
                      dict(log=txt[-4000:], cmd="valgrind --tool=memcheck <harness fmt -DVERIF_VALGRIND> <cases>"), found_input=True)
    elif rc != 0:
        rep.violation("C11:memcheck:run", "the memcheck run ended with status %s" % rc, dict(log=txt[-2000:], out=out[-1000:]), found_input=False)
    return dict(programs=len(sub), exit=rc, errors=len(errs))

def replay(rep, path):
    import json
    C10.big_stack()
    d = json.load(open(path))
    rp = d["replay"]
    exe = vlib.compile_harness("fmt", "plain")
    cv = fparse(rp["case"])
    outs = []
    for p in PATTERNS:
        cv[9] = p
        line = vfmt(cv)
        env = dict(C10.harness_env())
        env["MALLOC_PERTURB_"] = str(p)
        o = C10.run_resuming(rep, "fmt-det-replay", exe, [line], [dict(fmt=cv[2].decode(), field="program", desc="replay")], env=env, pid="C11")
        outs.append(o[0])
    if any(o is not None and o != outs[0] for o in outs[1:]):
        rep.violation("C11:%s:depends-on-memory" % cv[2].decode(), "the stream differs between memory patterns", dict(case=rp["case"]), found_input=True)
    rep.coverage.update(evaluations=len(PATTERNS), distinct_nontrivial=1, samples=[rp["case"][:300]])
