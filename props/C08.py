"""C08 - truncated or failing input is reported and never invents data.
Proof: Properties_C08.v (I/O core: short input => exact NULL count / FATAL consume; callback error =>
FATAL and sticky; negative skip result returned as is).  Tie: fault plans executed against the real
core through the pseudo-format vs the model.  Oracle on the real readers alone: for archives from
every writer and the suite corpus, every truncation offset (sampled for big files) and every
callback-fault index: what is delivered is a prefix of the intact run, the final status is not OK,
a body cut short where the format records its length comes with an error, nothing leaks."""
import vlib, readcore
from vlib import vfmt, vparse

LEVEL = "proof"
OK, EOF, WARN, FAILED, FATAL = 0, 1, -20, -25, -30

def entries_of(d):
    return d[:-4]

def check_prefix(intact, cut, what):
    """cut-run digest must be a prefix of the intact one; returns None or (key, text)"""
    ie, ce = entries_of(intact), entries_of(cut)
    if len(ce) > len(ie):
        return ("more-entries", "%s: %d entries delivered, the intact archive has %d" % (what, len(ce), len(ie)))
    for k, (a, b) in enumerate(zip(ie, ce)):
        if not isinstance(b, list):
            continue
        # header fields 1..9 (pathname, type, size, perm, uid, gid, mtime, hardlink, symlink)
        if b[0] in (OK, WARN) and a[1:10] != b[1:10]:
            return ("altered-header", "%s: entry %d header differs from the intact run: %r vs %r" % (what, k, b[1:10], a[1:10]))
        if b[0] in (OK, WARN):
            da, db = a[12], b[12]
            if isinstance(da, bytes) and isinstance(db, bytes):
                if not da.startswith(db):
                    return ("invented-data", "%s: entry %d delivers bytes that are not a prefix of the intact body" % (what, k))
                size = a[3][0] if a[3] else None
                if len(db) < len(da) and b[10] >= 0 and size is not None and size == len(da):
                    return ("short-body-clean-end", "%s: entry %d body cut short (%d of %d bytes) but read_data reported a clean end (status %d)"
                            % (what, k, len(db), len(da), b[10]))
    return None

FIELD_STRINGS = sorted(set(x for ents in (readcore.STD_ENTRIES, readcore.LONG_ENTRIES, readcore.FLAT_ENTRIES) for e in ents
                           for x in ((e[0].encode() if isinstance(e[0], str) else e[0]), e[7]) if len(x) >= 3))

def run(rep):
    pr = vlib.proof_part(rep, "C08", translators=["gen_defines"])
    runner = vlib.build_runner("readCore")
    core = vlib.compile_harness("readCore", "asan", private=True)
    r = vlib.rng(rep.seed, "C08")
    quick = rep.tier == "quick"
    n = 600 if quick else 30000
    cases = [readcore.gen_core_case(r, faults=True) for _ in range(n)]
    st = vlib.correspond(rep, "readCore", runner, core, vlib.load_corpus("C08") + cases)

    readall = vlib.compile_harness("readAll", "asan")
    mk = vlib.compile_harness("mkArchive", "asan")
    arcs = readcore.writer_archives(mk)
    arcs += readcore.reference_archives(12000 if quick else 200000, limit=16 if quick else 120)
    rcases, meta = [], []
    dump = (0, 4096, 1)
    for name, arc in arcs:
        rcases.append(readcore.read_case(arc, source=(0,), rplan=[], consume=dump, noraw=1)); meta.append((name, "intact", None))
        L = len(arc)
        if quick:
            offs = sorted(set([0, 1, L - 1, L // 2] + [r.randrange(L) for _ in range(10)])) if L > 1 else [0]
        elif L <= 4096 and (name.startswith("w:") or L <= 1200):
            offs = list(range(L))          # every offset: all writer archives up to 4 KiB, suite files up to 1200 bytes
        else:
            offs = sorted(set([0, 1, L - 1] + [r.randrange(L) for _ in range(40)]))
        # cuts inside the header fields that a reader fetches with a separate look-ahead: every place where a
        # member name or a link target of the writer's entries is stored in the clear
        if name.startswith("w:"):
            fo = set()
            for fs in FIELD_STRINGS:
                pos, nocc = arc.find(fs), 0
                while pos >= 0 and nocc < (4 if quick else 12):
                    fo.update([pos + len(fs) // 2, pos + len(fs) - 1] if quick else [pos + 1, pos + len(fs) // 2, pos + len(fs) - 1, pos + len(fs)])
                    pos, nocc = arc.find(fs, pos + 1), nocc + 1
            offs = sorted(set(offs) | set(o for o in fo if 0 <= o < L))
        for cut in offs:
            bs = r.choice([512, 10240, 7])
            rcases.append(readcore.read_case(arc[:cut], source=(0,), rplan=[bs] * (cut // bs + 2), consume=dump, noraw=1))
            meta.append((name, "truncate@%d" % cut, None))
        # callback faults: n-th read returns error / 0; n-th skip fails / skips short; n-th seek fails
        bs = 512
        nblocks = L // bs + 1
        idxs = sorted(set([0, 1, 2, nblocks - 1] + [r.randrange(nblocks + 1) for _ in range(3 if quick else 12)]))
        for i in idxs:
            for v in (-1, 0):
                rcases.append(readcore.read_case(arc, source=(0,), rplan=[bs] * (nblocks + 1), faults=[(0, i, v)], consume=dump, noraw=1))
                meta.append((name, "read#%d->%d" % (i, v), None))
        for i in range(0, 2 if quick else 5):
            rcases.append(readcore.read_case(arc, source=(0,), rplan=[bs] * (nblocks + 1), has_skip=1, faults=[(1, i, -30)], consume=(3, 0, 0), noraw=1))
            meta.append((name, "skip#%d fails" % i, "skipmode"))
            rcases.append(readcore.read_case(arc, source=(0,), rplan=[bs] * (nblocks + 1), has_skip=1, faults=[(3, i, r.choice([0, 1, 100]))], consume=(3, 0, 0), noraw=1))
            meta.append((name, "skip#%d short" % i, "skipmode-honest"))
            rcases.append(readcore.read_case(arc, source=(0,), rplan=[bs] * (nblocks + 1), has_skip=1, has_seek=1, faults=[(2, i, -1)], consume=dump, noraw=1))
            meta.append((name, "seek#%d fails" % i, "seek"))
    # ---- the same cut input read twice, bodies read and bodies skipped, through a client that has a seek callback but
    # no skip callback (skips beyond 64 KiB are then made with the seek callback): skipping must not turn the
    # truncation error into a clean end
    pair_at = {}
    for name, arc in arcs:
        if not name.endswith("#big"):
            continue
        L = len(arc)
        for cut in sorted(set([L // 3, L // 2, (2 * L) // 3, L - 70000, L - 1000] + [r.randrange(2000, L) for _ in range(2 if quick else 12)])):
            if not 0 < cut < L:
                continue
            bs = r.choice([512, 10240, 65536])
            for mode, cons in (("read", dump), ("skip", (3, 0, 0))):
                pair_at[(name, cut, mode)] = len(rcases)
                rcases.append(readcore.read_case(arc[:cut], source=(0,), rplan=[bs] * (3 * (cut // bs + 2)), has_skip=0, has_seek=1, consume=cons, noraw=1))
                meta.append((name, "seek-only client, bodies %s, truncate@%d" % (mode, cut), "pair"))
    # ---- filters with an end-of-stream marker, read through the raw format (nothing behind them can mask a cut)
    EOS_FILTERS = ["gzip", "bzip2", "xz", "lzip", "zstd", "lz4", "uuencode", "b64encode"]
    body = bytes(((i * 131) ^ (i >> 7)) & 0xff if (i // 5000) % 2 else 65 + (i % 7) for i in range(350000 if not quick else 120000))
    rawspec = [vfmt(["raw", f, "bzip2:compression-level=1" if f == "bzip2" else "", 512,
                     [["data", readcore.AE_IFREG, 0o644, 0, 0, 0, body, b"", b"", 0, []]]]) for f in EOS_FILTERS]
    rc0, mlines0, merr0 = vlib.run_exe(mk, vlib.write_cases(rawspec, "rawmk.cases"), timeout=600)
    raw_arcs = []
    for f, l in zip(EOS_FILTERS, mlines0):
        v = vparse(l)
        if v[0] >= -20 and v[-2] >= -20:
            raw_arcs.append(("raw+" + f, v[-1]))
    for name, arc in raw_arcs:
        L = len(arc)
        rcases.append(readcore.read_case(arc, source=(0,), rplan=[], consume=dump)); meta.append((name, "intact", None))
        offs = sorted(set([1, L - 1, L - 2, L - 4, L - 8, L - 12, L // 2, L // 3] + [r.randrange(1, L) for _ in range(6 if quick else 60)]))
        for cut in offs:
            if cut < 64 or cut >= L:
                continue      # below 64 bytes the filter signature itself is cut: the raw format then (by design) delivers the bytes as they are
            bs = r.choice([1 << 20, 10240, 4096])
            rcases.append(readcore.read_case(arc[:cut], source=(0,), rplan=[bs] * (cut // bs + 2), consume=dump))
            meta.append((name, "truncate@%d" % cut, "eos"))
    import C01
    if quick:
        lines = C01.run_resilient(rep, readall, rcases, [(m[0], m[1]) for m in meta], per_batch_timeout=900)
    else:
        # several hundred megabytes of cases: parallel shards (a shard out of time re-runs its case alone before blaming it)
        lines, failures = readcore.run_readall_sharded(readall, rcases, shards=64, workers=14, timeout=2400, single_timeout=300)
        for bad, rc, err in failures[:8]:
            rep.violation("C08:crash:%s:%s" % (meta[bad][0].split(":")[0] if ":" in meta[bad][0] else "ref", vlib.crash_key(err)),
                          "reader stopped (rc=%s, %s) on %s, %s" % (rc, vlib.crash_key(err), meta[bad][0], meta[bad][1]),
                          dict(case=rcases[bad][:200000], archive=meta[bad][0], mutation=meta[bad][1], stderr=err[-3000:],
                               cmd="harness readAll (asan) on the case line"), found_input=True)
    intact, intact_skip = {}, {}
    nchk = 0
    for (name, what, kind), c, l in zip(meta, rcases, lines):
        if l is None:
            continue
        d = readcore.digest_ok(l)
        if d is None:
            continue
        final, flags = d[-4], d[-3]
        if what == "intact":
            intact[name] = d
            continue
        if flags & 16:
            rep.violation("C08:leak:%s" % name, "memory remains after archive_read_free following %s of %s" % (what, name),
                          dict(case=c[:200000], archive=name, fault=what), found_input=True)
        if final not in (EOF, FATAL, FAILED, WARN, -10) :
            rep.violation("C08:final-status:%s" % name, "%s of %s: reading ended with status %d" % (what, name, final),
                          dict(case=c[:200000], archive=name, fault=what), found_input=True)
        base = intact.get(name)
        if base is None or base[-4] != EOF:
            continue      # only archives that read cleanly when intact
        nchk += 1
        if kind == "pair":
            hit = check_prefix([e[:12] + [b""] if isinstance(e, list) else e for e in base],
                               [e[:12] + [b""] if isinstance(e, list) else e for e in d], what)
        elif kind in ("skipmode", "skipmode-honest"):
            # no data dumped in skip mode: compare headers only
            hit = check_prefix([e[:12] + [b""] if isinstance(e, list) else e for e in base],
                               [e[:12] + [b""] if isinstance(e, list) else e for e in d], what)
            if kind == "skipmode-honest" and not hit and (len(entries_of(d)) != len(entries_of(base)) or final != EOF):
                hit = ("short-skip-loses-entries", "%s: an honest short skip changed the entry sequence (%d of %d entries, final %d)"
                       % (what, len(entries_of(d)), len(entries_of(base)), final))
        elif kind == "eos":
            # the filter has an end-of-stream marker: fewer bytes than the intact run must come with an error somewhere
            hit = None
            be, ce = entries_of(base), entries_of(d)
            full = be[0][12] if be and isinstance(be[0], list) and len(be[0]) > 12 else b""
            got = ce[0][12] if ce and isinstance(ce[0], list) and len(ce[0]) > 12 and isinstance(ce[0][12], bytes) else b""
            if not full.startswith(got):
                hit = ("invented-data", "%s: delivered bytes are not a prefix of the intact stream" % what)
            elif len(got) < len(full):
                statuses = [final] + [e[0] for e in ce if isinstance(e, list)] + [e[10] for e in ce if isinstance(e, list) and len(e) > 10]
                if all(x >= 0 for x in statuses):
                    hit = ("filter-cut-clean-end", "%s: %d of %d bytes delivered and every status is OK/EOF although the filter has an end-of-stream marker"
                           % (what, len(got), len(full)))
        elif kind == "seek":
            hit = check_prefix(base, d, what) if base[-1] == d[-1] else None
        else:
            hit = check_prefix(base, d, what)
        if hit:
            rep.violation("C08:%s:%s" % (hit[0], name), "%s (%s)" % (hit[1], name),
                          dict(case=c[:200000], archive=name, fault=what, digest=str(d)[:1200], intact=str(base)[:1200],
                               cmd="harness readAll (asan) on the case line"), found_input=True)
    for (name, cut, mode), k in sorted(pair_at.items()):
        if mode != "read" or lines[k] is None or lines[pair_at[(name, cut, "skip")]] is None:
            continue
        dr, ds = readcore.digest_ok(lines[k]), readcore.digest_ok(lines[pair_at[(name, cut, "skip")]])
        if dr is None or ds is None:
            continue
        # reading the bodies met the cut (an error status somewhere); skipping them instead ends cleanly
        read_bad = dr[-4] < 0 or any(isinstance(e, list) and len(e) > 10 and (e[0] < 0 or e[10] < 0) for e in dr)
        skip_clean = ds[-4] == EOF and all(e[0] >= 0 and (len(e) <= 10 or e[10] >= 0) for e in ds if isinstance(e, list))   # (e[10]: what archive_read_data_skip returned)
        if read_bad and skip_clean:
            rep.violation("C08:skip-hides-truncation:%s" % name,
                          "%s cut at %d, client with a seek callback and no skip callback: reading the bodies reports the truncation (final status %d), "
                          "skipping them ends with a clean end of archive after %d entries" % (name, cut, dr[-4], len(entries_of(ds))),
                          dict(case=rcases[pair_at[(name, cut, "skip")]][:200000], archive=name, fault="truncate@%d, bodies skipped" % cut,
                               cmd="harness readAll (asan) on the case line"), found_input=True)
    rep.coverage.update(
        evaluations=len(cases) + len(rcases),
        distinct_nontrivial=len(set(cases)) + len(set(rcases)),
        rule="core: scripts with failing/zero-returning read callbacks, lying/short/failing skip callbacks and failing seek callbacks through the "
             "real core vs the model; readers: %d archives x truncation offsets (%s) x n-th read callback -> error/0, n-th skip fails/short, "
             "n-th seek fails; all distinct, non-trivial (a fault or cut is present in every case)" % (len(arcs), "sampled" if quick else "all offsets of writer archives up to 4 KiB and of suite files up to 1200 bytes, 40 sampled beyond"),
        samples=[cases[0][:300], str(meta[5])],
        traces_validated_against_impl=st["agree"], correspondence=st, prefix_checks=nchk, archives=len(arcs))
    rep.assumptions += ["format level truncation theorems (ustar/cpio models) are not part of this check yet: the prefix property of the format "
                        "readers is checked on the real code (oracle), not proved",
                        "only archives whose intact run ends with ARCHIVE_EOF take part in the prefix comparison"]
    vlib.proof_verdict(rep, "C08", pr)

def replay(rep, path):
    import json
    d = json.load(open(path))["replay"]
    exe = vlib.compile_harness("readAll", "asan") if d.get("archive") else vlib.compile_harness("readCore", "asan", private=True)
    p = vlib.write_cases([d["case"]], "replay.cases")
    print(vlib.run_exe(exe, p, env={"VERIF_TMP": vlib.scratch()}))
    rep.coverage.update(evaluations=1, distinct_nontrivial=1, samples=[d["case"][:300]])
