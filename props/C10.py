"""C10 - metadata a format cannot hold is reported, never silently altered.
Proof part: coq/Properties_C10.v (codec inverses, ok_means_exact per checked field, _refuted witnesses
for the fields whose overflow result the writer ignores).
Correspondence: extracted model of the byte-level writers vs the real writers (status, output lengths,
every output byte) and of the numeric codecs vs the real static formatters/parsers.
Oracle (real behaviour only): header status OK  =>  the entry reads back with the supplied value of
the probed field; whatever the status, the neighbouring entries still read back intact."""
import os, sys
import vlib
from vlib import vfmt, vparse

LEVEL = "proof"

import re
_TOK = re.compile(r"\(|\)|[^\s()]+")
def fparse(s):
    """vlib.vparse, tokenised by a regular expression (the result lines of this family reach megabytes)"""
    stack = [[]]
    for m in _TOK.finditer(s):
        t = m.group(0)
        if t == "(":
            stack.append([])
        elif t == ")":
            top = stack.pop()
            stack[-1].append(top)
        elif t[0] == "x":
            stack[-1].append(bytes.fromhex(t[1:]))
        elif t[0] == "-":
            stack[-1].append(-int(t[1:], 16))
        else:
            stack[-1].append(int(t, 16))
    if len(stack) != 1 or len(stack[0]) != 1:
        raise ValueError("unbalanced value")
    return stack[0][0]
REG, DIR, LNK, CHR, BLK, FIFO, SOCK = 0o100000, 0o040000, 0o120000, 0o020000, 0o060000, 0o010000, 0o140000
IFMT = 0o170000
OK, WARN, FAILED, FATAL = 0, -20, -25, -30

BYTE_LEVEL = ["ustar", "v7tar", "gnutar", "odc", "newc", "bin", "pwb", "arbsd", "argnu"]
ALL_FORMATS = BYTE_LEVEL + ["pax", "paxr", "zip", "7zip", "xar", "iso9660", "mtree", "mtree-classic", "warc",
                            "shar", "shardump", "raw"]

# ---- what each format carries (fields the oracle compares); file types it can hold --------------
TAR_FIELDS = {"pathname", "hardlink", "symlink", "uname", "gname", "perm", "uid", "gid", "size", "mtime", "rdev"}
CARRIES = {
    "ustar": TAR_FIELDS, "gnutar": TAR_FIELDS, "pax": TAR_FIELDS, "paxr": TAR_FIELDS,
    "v7tar": {"pathname", "hardlink", "symlink", "perm", "uid", "gid", "size", "mtime"},
    "odc": {"pathname", "symlink", "perm", "uid", "gid", "size", "mtime", "dev", "nlink", "rdev"},
    "newc": {"pathname", "symlink", "perm", "uid", "gid", "size", "mtime", "dev", "ino", "nlink", "rdev"},
    "bin": {"pathname", "symlink", "perm", "uid", "gid", "size", "mtime", "dev", "nlink", "rdev"},
    "pwb": {"pathname", "perm", "uid", "gid", "size", "mtime", "dev", "nlink", "rdev"},
    "arbsd": {"pathname", "perm", "uid", "gid", "size", "mtime"},
    "argnu": {"pathname", "perm", "uid", "gid", "size", "mtime"},
    "zip": {"pathname", "symlink", "perm", "uid", "gid", "size", "mtime"},
    "7zip": {"pathname", "symlink", "perm", "size", "mtime"},
    "xar": {"pathname", "symlink", "uname", "gname", "perm", "uid", "gid", "size", "mtime", "rdev"},
    "iso9660": {"pathname", "symlink", "perm", "uid", "gid", "size", "mtime", "rdev"},
    "mtree": {"pathname", "symlink", "uname", "gname", "perm", "uid", "gid", "size", "mtime", "nlink", "rdev"},
    "mtree-classic": {"pathname", "symlink", "uname", "gname", "perm", "uid", "gid", "size", "mtime", "nlink", "rdev"},
    "warc": {"pathname", "size", "mtime"},
    "shar": set(), "shardump": set(), "raw": set(),
}
NO_BODY = {"mtree", "mtree-classic"}          # formats that store no file contents
NO_READBACK = {"shar", "shardump", "raw"}     # no reader / single anonymous entry: status only

def opt(x):
    return [] if x is None else [x]

def ent(path=b"f", hard=None, sym=None, uname=None, gname=None, mode=REG | 0o644, uid=0, gid=0, size=0,
        mtime=(0, 0), atime=None, ctime=None, btime=None, dev=None, ino=None, nlink=1, rdev=0, body=b"",
        chunks=(), flags=0, xattrs=(), fflags=()):
    t = lambda x: opt(list(x) if x is not None else None)
    return [opt(path), opt(hard), opt(sym), opt(uname), opt(gname), mode, uid, gid, opt(size), t(mtime), t(atime),
            t(ctime), t(btime), opt(dev), opt(ino), nlink, rdev, body, list(chunks), flags,
            [list(x) for x in xattrs], list(fflags)]

# options under which the format keeps the metadata handed to it (iso9660's default rockridge=useful
# documents that it forces permission bits to 0444/0555 like mkisofs -r)
FORMAT_OPTIONS = {"iso9660": b"rockridge=strict"}

def case(fmt, entries, op=0, loc=0, opts=None, flt=b"", bpb=0, bilb=-1, emit=0, poison=-1, rmode=0):
    if opts is None:
        opts = FORMAT_OPTIONS.get(fmt, b"")
    return vfmt([op, loc, fmt.encode(), opts, flt, bpb, bilb, entries, emit, poison, rmode])

TREE_FORMATS = ("xar", "iso9660", "mtree", "mtree-classic", "7zip")

def norm_path(p, fmt):
    if p is None:
        return None
    while p.startswith(b"./"):
        p = p[2:]
    p = p.rstrip(b"/")
    if fmt in TREE_FORMATS:
        while b"//" in p:        # the members of a tree have no empty path components
            p = p.replace(b"//", b"/")
    if fmt in ("arbsd", "argnu"):
        p = p.rsplit(b"/", 1)[-1]
    return p

# ---- probes --------------------------------------------------------------------------------------
NUM_BORDERS = [1000, 0o777777, 0o1000000, 0o7777777, 0o10000000, 65535, 65536, 999999, 1000000, 2**31 - 1, 2**31,
               2**32 - 1, 2**32, 2**33 - 1, 2**33, 2**40, 2**62 - 1, 2**62, 2**63 - 1]
TIME_BORDERS = NUM_BORDERS + [0, -1, -2**31, -2**31 - 1, 10**12 - 1, 10**12, 253402300799, 253402300800, -2**62, -2**63]
SIZE_SMALL = [0, 1, 65535, 65536]
SIZE_HUGE = [2**24 - 1, 2**24, 2**31 - 1, 2**31, 2**32 - 1, 2**32, 2**33 - 1, 2**33, 10**10 - 1, 10**10, 2**60, 2**63 - 1]
HEADER_ONLY_OK = set(BYTE_LEVEL) | {"pax", "paxr", "warc"}   # first header is readable from a truncated archive

def mkdev(maj, mnr):
    return ((maj & 0xfffff000) << 32) | ((maj & 0xfff) << 8) | ((mnr & 0xffffff00) << 12) | (mnr & 0xff)

def flat(n, ch=b"n"):
    return ch * n

def deep(n):
    """n bytes, components of 40 bytes"""
    comp = b"d" * 40 + b"/"
    s = (comp * (n // len(comp) + 1))[:n]
    if s.endswith(b"/"):
        s = s[:-1] + b"e"
    return s

def probes(r, fmt, tier):
    """list of (field, value description, X entry, header_only)"""
    P = []
    rnd = lambda bits: r.randrange(2 ** r.randrange(1, bits))
    def X(**kw):
        d = dict(path=b"x.txt", size=3, body=b"abc", uid=11, gid=12, mtime=(3000, 0), ino=6, dev=3, nlink=1, mode=REG | 0o644)
        d.update(kw)
        return ent(**d)
    for v in NUM_BORDERS + [rnd(63), rnd(33)] + ([rnd(63) for _ in range(6)] if tier != "quick" else []) + [-1]:
        P.append(("uid", v, X(uid=v), False))
        P.append(("gid", v, X(gid=v), False))
    for v in TIME_BORDERS + [rnd(63), -rnd(40)]:
        P.append(("mtime", v, X(mtime=(v, 0)), False))
    for v in SIZE_SMALL:
        P.append(("size", v, X(size=v, body=bytes(((k * 7 + 1) & 0xff) for k in range(v))), False))
    if fmt in HEADER_ONLY_OK:
        for v in SIZE_HUGE + [rnd(63)]:
            P.append(("size", v, X(size=v, body=b"", flags=1), True))
    P.append(("size", -1, X(size=-1, body=b""), False))
    P.append(("size", None, X(size=None, body=b""), False))
    for v in [0, 0o7777, 0o4755, 0o1777]:
        P.append(("perm", v, X(mode=REG | v), False))
    for ft, nm in [(DIR, "dir"), (LNK, "symlink"), (CHR, "chr"), (BLK, "blk"), (FIFO, "fifo"), (SOCK, "sock"), (0, "none")]:
        kw = dict(mode=ft | 0o755, size=0, body=b"")
        if ft == LNK:
            kw["sym"] = b"target"
        if ft in (CHR, BLK):
            kw["rdev"] = mkdev(4, 5)
        P.append(("filetype", nm, X(**kw), False))
    P.append(("filetype", "sock-longname", X(path=deep(130), mode=SOCK | 0o755, size=0, body=b""), False))
    for maj, mnr in [(4, 5), (0o777777, 1), (0o1000000, 1), (0o7777777, 1), (0o10000000, 1), (1, 0o777777), (1, 0o1000000),
                     (1, 0o7777777), (1, 0o10000000), (255, 255), (256, 256), (4095, 1), (4096, 1), (2**32 - 1, 2**32 - 1),
                     (1, 65535), (1, 65536), (0, 0)]:
        P.append(("rdev", (maj, mnr), X(mode=CHR | 0o600, size=0, body=b"", rdev=mkdev(maj, mnr), flags=16), False))
    for v in [3, 65535, 65536, 0o777777, 0o1000000, 2**32 - 1, 2**32, 2**63 - 1, 2**64 - 1]:
        P.append(("dev", v, X(dev=v), False))
    for v in [6, 65535, 65536, 2**32 - 1, 2**32, 2**63 - 1]:
        P.append(("ino", v, X(ino=v), False))
    for v in [1, 2, 65535, 65536, 0o777777, 0o1000000, 2**32 - 1]:
        P.append(("nlink", v, X(nlink=v, ino=77), False))
    # strings at / over the borders
    for n in [15, 16, 17, 99, 100, 101, 255, 256, 1000] + ([65534, 65535, 65536] if fmt not in ("iso9660",) else []) + \
             ([262142, 262143] if fmt in ("odc", "newc", "pax") else []):
        P.append(("pathname", "flat%d" % n, X(path=flat(n)), False))
    for n in [101, 155, 197, 256, 257, 300, 1000]:
        P.append(("pathname", "deep%d" % n, X(path=deep(n)), False))
    # directories: the writers append a '/' to the stored name, which counts against the field too
    for n in [98, 99, 100, 101, 154, 155, 156, 255, 256] + ([65533, 65534, 65535, 65536] if fmt not in ("iso9660",) else []):
        P.append(("pathname", "dir%d" % n, X(path=flat(n, b"d")[:n], mode=DIR | 0o755, size=0, body=b""), False))
        P.append(("pathname", "dirslash%d" % n, X(path=flat(n - 1, b"d")[:n - 1] + b"/", mode=DIR | 0o755, size=0, body=b""), False))
    P.append(("pathname", "with-space", X(path=b"a b.txt"), False))
    # ustar splits this 103-byte name behind its second '/': prefix "a/", name 100 x 'b'
    P.append(("pathname", "dslash-split", X(path=b"a//" + b"b" * 100), False))
    P.append(("pathname", "empty", X(path=b""), False))
    P.append(("pathname", "unset", X(path=None), False))
    for n in [99, 100, 101, 1000, 65535, 65536]:
        P.append(("symlink", n, X(mode=LNK | 0o777, size=0, body=b"", sym=flat(n, b"s")), False))
        P.append(("hardlink", n, X(hard=flat(n, b"h"), size=0, body=b"", nlink=2), False))
    for n in [31, 32, 33, 256]:
        P.append(("uname", n, X(uname=flat(n, b"u")), False))
        P.append(("gname", n, X(gname=flat(n, b"g")), False))
    # two mechanisms in one header: the same value classes on an entry that also needs a long-name / long-link record
    # (or an extended header), whose status is computed in several steps
    for n in [32, 33]:
        P.append(("uname", "%d+longpath" % n, X(path=deep(130), uname=flat(n, b"u")), False))
        P.append(("gname", "%d+longpath" % n, X(path=deep(130), gname=flat(n, b"g")), False))
        P.append(("uname", "%d+longlink" % n, X(mode=LNK | 0o777, size=0, body=b"", sym=flat(150, b"s"), uname=flat(n, b"u")), False))
        P.append(("gname", "%d+longlink" % n, X(mode=LNK | 0o777, size=0, body=b"", sym=flat(150, b"s"), gname=flat(n, b"g")), False))
    for v in [0o7777777, 0o10000000, 2**32, 2**62]:
        P.append(("uid", "%d+longpath" % v, X(path=deep(130), uid=v), False))
        P.append(("gid", "%d+longlink" % v, X(mode=LNK | 0o777, size=0, body=b"", sym=flat(150, b"s"), gid=v), False))
    for v in [2**33 - 1, 2**33, -1]:
        P.append(("mtime", "%d+longpath" % v, X(path=deep(130), mtime=(v, 0)), False))
    P.append(("rdev", "(1, 0o10000000)+longpath", X(path=deep(130), mode=CHR | 0o600, size=0, body=b"", rdev=mkdev(1, 0o10000000), flags=16), False))
    # characters the header character set may not hold
    hi = b"caf\xe9\xff"
    P.append(("pathname", "bytes>=0x80", X(path=hi + b".txt"), False))
    P.append(("uname", "bytes>=0x80", X(uname=hi), False))
    P.append(("gname", "bytes>=0x80", X(gname=hi), False))
    P.append(("symlink", "bytes>=0x80", X(mode=LNK | 0o777, size=0, body=b"", sym=hi), False))
    P.append(("pathname", "wide>0x7f", X(path=b"w\xe9\xff.txt", flags=2), False))
    P.append(("uname", "wide>0x7f", X(uname=b"w\xe9", flags=8), False))
    return P

A_ENT = dict(path=b"a.txt", size=5, body=b"hello", mtime=(1000, 0), uid=10, gid=20, ino=5, dev=3)
B_ENT = dict(path=b"b.txt", size=4, body=b"worl", mtime=(2000, 0), uid=11, gid=21, ino=9, dev=3)

def gen_cases(rep):
    r = vlib.rng(rep.seed, "C10")
    out = []      # (case line, meta)
    for fmt in ALL_FORMATS:
        for field, desc, x, header_only in probes(r, fmt, rep.tier):
            wide = bool(x[19] & (2 | 8))
            if header_only:
                es = [x]
                line = case(fmt, es, emit=4096 if fmt in BYTE_LEVEL else 0, rmode=1)
            elif fmt == "raw":
                es = [x]
                line = case(fmt, es)
            else:
                es = [ent(**A_ENT), x, ent(**B_ENT)]
                line = case(fmt, es, emit=(1 << 20) if fmt in BYTE_LEVEL else 0)
            # names of 64 KiB and more go through the (slow, list based) model only where a length field is that narrow
            longname = field in ("pathname", "symlink", "hardlink") and max(len(un1(x[0]) or b""), len(un1(x[1]) or b""), len(un1(x[2]) or b"")) > 60000
            model = not longname or (fmt, field) in (("bin", "pathname"), ("pwb", "pathname"), ("odc", "pathname"), ("ustar", "symlink"))
            out.append((line, dict(fmt=fmt, field=field, desc=str(desc), header_only=header_only, wide=wide,
                                   xi=0 if len(es) == 1 else 1, model=model)))
    return out

# ---- reading the harness result -------------------------------------------------------------------
RB = dict(status=0, pathname=1, hardlink=2, symlink=3, uname=4, gname=5, mode=6, uid=7, gid=8, size=9, mtime=10,
          atime=11, ctime=12, birthtime=13, dev=14, ino=15, nlink=16, rdev=17, dstatus=18, body=19)

def un1(v):
    return v[0] if v else None

def clamp0(v):
    return 0 if (v is not None and v < 0) else v

def supplied(x):
    """the entry as the writer receives it (negative uid/gid/size/ino are stored as 0 by the setters)"""
    return dict(pathname=un1(x[0]), hardlink=un1(x[1]), symlink=un1(x[2]), uname=un1(x[3]), gname=un1(x[4]),
                mode=x[5] & 0xffffffff, uid=clamp0(x[6]), gid=clamp0(x[7]), size=clamp0(un1(x[8])),
                mtime=un1(x[9]), dev=un1(x[13]), ino=clamp0(un1(x[14])), nlink=x[15] & 0xffffffff, rdev=x[16], body=x[17])

def find(rentries, path, fmt):
    want = norm_path(path, fmt)
    for e in rentries:
        if norm_path(un1(e[RB["pathname"]]), fmt) == want:
            return e
    return None

def field_equal(field, sup, rb, fmt):
    """None if the read-back entry agrees with the supplied one on `field`, else a description"""
    ft = sup["mode"] & IFMT
    if field == "nlink":
        got, want = max(rb[RB["nlink"]], 1), max(sup["nlink"], 1)       # 0 (not recorded) and 1 both mean "no other links"
        return None if got == want else "nlink read back as %d, supplied %d" % (got, want)
    if field in ("uid", "gid", "rdev"):
        got = rb[RB[field]]
        return None if got == sup[field] else "%s read back as %d, supplied %d" % (field, got, sup[field])
    if field in ("dev", "ino"):
        got = un1(rb[RB[field]])
        return None if got == sup[field] else "%s read back as %s, supplied %s" % (field, got, sup[field])
    if field == "mtime":
        got = un1(rb[RB["mtime"]])
        want = list(sup["mtime"])
        return None if got == want else "mtime read back as %s, supplied %s" % (got, want)
    if field == "size":
        if ft != REG or sup["hardlink"] is not None:
            return None
        got = un1(rb[RB["size"]])
        want = sup["size"] if sup["size"] is not None else 0
        return None if got == want else "size read back as %s, supplied %s" % (got, sup["size"])
    if field == "perm":
        got = rb[RB["mode"]] & 0o7777
        return None if got == sup["mode"] & 0o7777 else "permission bits read back as %o, supplied %o" % (got, sup["mode"] & 0o7777)
    if field == "filetype":
        got = rb[RB["mode"]] & IFMT
        return None if got == ft else "file type read back as %o, supplied %o" % (got, ft)
    if field == "pathname":
        got = norm_path(un1(rb[RB["pathname"]]), fmt)
        want = norm_path(sup["pathname"], fmt)
        return None if got == want else "pathname read back as %r (%d bytes), supplied %d bytes" % (
            (got or b"")[:40], len(got or b""), len(want or b""))
    if field in ("symlink", "hardlink", "uname", "gname"):
        got = un1(rb[RB[field]])
        want = sup[field]
        if want == b"":
            want = None
        if got == b"":
            got = None
        return None if got == want else "%s read back as %r (%d bytes), supplied %d bytes" % (
            field, (got or b"")[:40], len(got or b""), len(want or b""))
    return None

def carried(fmt, field, sup):
    if field == "filetype":
        return True
    if field == "size" and fmt in NO_BODY:
        return "size" in CARRIES[fmt]
    return field in CARRIES[fmt]

def neighbours_intact(fmt, rd, names):
    """A and B must read back (pathname, uid, size, mtime, body) whatever happened to X"""
    if fmt in NO_READBACK:
        return None
    for d in names:
        e = find(rd[2], d["path"], fmt)
        if e is None:
            return "accepted entry %r is missing from the archive read back" % d["path"]
        if "uid" in CARRIES[fmt] and e[RB["uid"]] != d["uid"]:
            return "accepted entry %r reads back with uid %d" % (d["path"], e[RB["uid"]])
        if "size" in CARRIES[fmt] and un1(e[RB["size"]]) != d["size"]:
            return "accepted entry %r reads back with size %s" % (d["path"], un1(e[RB["size"]]))
        if fmt not in NO_BODY and (e[RB["dstatus"]] != 0 or e[RB["body"]][:len(d["body"])] != d["body"]):
            return "accepted entry %r reads back with a different body (status %d)" % (d["path"], e[RB["dstatus"]])
    if rd[3] != 1:
        return "reading the archive back ends with status %d (%s) instead of EOF" % (rd[3], rd[4].decode("latin1")[:80])
    return None

DEV_LIMIT = {"odc": 0o777777, "bin": 65535, "pwb": 65535}

def value_class(fmt, field, sup, meta):
    """the residual, recorded cases are identified by the class of the failing value; any other failing value of the
    same field keeps the plain key"""
    if field in ("uid", "gid") and sup[field] == 2**63 - 1:
        return "int64max"
    if field == "size" and (sup["size"] or 0) >= 2**60:
        return "ge-2^60"
    if field == "mtime" and sup["mtime"] and sup["mtime"][0] == -1:
        return "minus1"
    if field == "dev" and sup["dev"] is not None and fmt in DEV_LIMIT and sup["dev"] > DEV_LIMIT[fmt]:
        return "overflow"
    if field == "filetype" and meta["desc"] == "none":
        return "none"
    if field == "pathname" and meta["desc"] == "dslash-split":
        return "dslash-split"
    return None

def field_key(fmt, field, sup, meta):
    c = value_class(fmt, field, sup, meta)
    return "C10:%s:%s%s" % (fmt, field, (":" + c) if c else "")

def oracle_one(meta, cv, iv):
    """-> None | (key, description)"""
    fmt, field = meta["fmt"], meta["field"]
    w, _, rd = iv
    ents = cv[7]
    xi = meta["xi"]
    x = ents[xi]
    if w[0] < WARN:
        return ("C10:%s:open" % fmt, "archive_write_open failed with %d" % w[0])
    if len(w[1]) <= xi:
        return ("C10:%s:harness" % fmt, "entry under test was never written (earlier entry failed: %s)" % (w[1],))
    rec = w[1][xi]
    hs, err, dsum, fs = rec[0], rec[1].decode("latin1"), rec[4], rec[5]
    sup = supplied(x)
    reported = hs != OK or dsum < 0 or fs != OK
    if hs == FATAL or fmt in NO_READBACK:
        return None       # FATAL is a report; the archive is abandoned
    # 1. the accepted neighbours
    if not meta["header_only"] and len(ents) == 3:
        bad = neighbours_intact(fmt, rd, [A_ENT, B_ENT])
        if bad:
            if reported:
                return ("C10:%s:damaged-after-refusal" % fmt,
                        "%s: entry with %s=%s was answered with status %d (%s) and the archive no longer reads back as the "
                        "accepted entries: %s" % (fmt, field, meta["desc"], hs, err[:60], bad))
            if w[2] != OK:
                return ("C10:%s:late-%s" % (fmt, field),
                        "%s: entry with %s=%s accepted with ARCHIVE_OK, then archive_write_close fails with %d and the accepted entries "
                        "are lost: %s" % (fmt, field, meta["desc"], w[2], bad))
            return ("C10:%s:%s" % (fmt, field),
                    "%s: entry with %s=%s accepted with ARCHIVE_OK and the archive no longer reads back: %s" % (fmt, field, meta["desc"], bad))
    if reported:
        return None
    # 2. status OK: the value must read back
    if not carried(fmt, field, sup):
        return None
    if meta["header_only"]:
        rx = rd[2][0] if rd[2] else None
    else:
        rx = find(rd[2], sup["pathname"], fmt)
        if rx is None and field == "pathname":
            # the name came back altered: X is the entry that is neither A, B, the root, nor a parent directory
            # the container formats create for X
            want = norm_path(sup["pathname"], fmt) or b""
            others = [e for e in rd[2] if norm_path(un1(e[RB["pathname"]]), fmt) not in (b"a.txt", b"b.txt", b".")
                      and not want.startswith((norm_path(un1(e[RB["pathname"]]), fmt) or b"") + b"/")]
            rx = others[0] if others else None
    if rx is None:
        return (field_key(fmt, field, sup, meta),
                "%s: entry with %s=%s accepted with ARCHIVE_OK but it is missing from the archive read back" % (fmt, field, meta["desc"]))
    d = field_equal(field, sup, rx, fmt)
    if d is None and not meta["header_only"] and fmt not in NO_BODY and (sup["mode"] & IFMT) == REG \
            and sup["hardlink"] is None and sup["size"] is not None:
        want = sup["body"][:sup["size"]]
        got = rx[RB["body"]]
        if rx[RB["dstatus"]] != 0 or got[:len(want)] != want:
            d = "the body read back is %r... (status %d), written %r..." % (got[:12], rx[RB["dstatus"]], want[:12])
    if d:
        return (field_key(fmt, field, sup, meta),
                "%s: archive_write_header returned ARCHIVE_OK for %s=%s but %s" % (fmt, field, meta["desc"], d))
    return None

# ---- model vs implementation ---------------------------------------------------------------------
def project_impl(iv):
    w = iv[0]
    return [[[e[0], e[2], e[3], e[4], e[5]] for e in w[1]], w[2], w[3], iv[1]]

def run_resuming(rep, name, exe, lines, metas, env=None, timeout=300, pid="C10"):
    """run the harness over all case lines; when it dies on a case (sanitizer abort, crash, hang) record that
    case as a violation of its own and resume behind it.  Returns a list with one output line or None per case."""
    out = [None] * len(lines)
    start = 0
    crashes = 0
    while start < len(lines):
        path = vlib.write_cases(lines[start:], name + ".cases")
        rc, got, err = vlib.run_exe(exe, path, timeout=max(timeout, 300 + (len(lines) - start) // 2), env=env)
        for k, l in enumerate(got[:len(lines) - start]):
            out[start + k] = l
        if rc == 0 and len(got) >= len(lines) - start:
            break
        if len(got) >= len(lines) - start:
            # every case was answered and the process still failed: a leak reported at exit, not tied to one case
            summ = [l for l in err.split("\n") if "ERROR: " in l or "SUMMARY" in l]
            rep.violation("%s:exit:%s" % (pid, vlib.crash_key(err)),
                          "harness %s answered every case but exited with %s: %s" % (name, rc, "; ".join(summ)[:300]),
                          dict(correspondence=name, stderr=err[-3000:]), found_input=True)
            break
        k = start + min(len(got), len(lines) - start - 1)
        meta = metas[k]
        if rc == 124:
            # the batch ran out of time: the case it happened to be working on is a hang only if it also runs out
            # of time on its own
            rc1, got1, err1 = vlib.run_exe(exe, vlib.write_cases([lines[k]], name + "-one.cases"), timeout=timeout, env=env)
            if rc1 == 0 and got1:
                out[k] = got1[0]
                start = k + 1
                continue
            rc, err = rc1, err1
        summ = [l for l in err.split("\n") if "ERROR: " in l or "SUMMARY" in l or "runtime error" in l or "TIMEOUT" in l]
        ckey = ("%s:%s:crash-%s-%s" % (pid, meta["fmt"], meta["field"], meta["desc"])) if pid == "C10" else \
               ("%s:%s:crash:%s" % (pid, meta["fmt"], vlib.crash_key(err)))
        rep.violation(ckey,
                      "%s writer/reader harness died (rc=%s, %s) on the entry with %s=%s: %s" %
                      (meta["fmt"], rc, vlib.crash_key(err), meta["field"], meta["desc"], "; ".join(summ)[:300]),
                      dict(correspondence=name, case=lines[k], meta=meta, stderr=err[-3000:],
                           cmd="./check C10 --replay <this file>"), found_input=True)
        out[k] = None
        crashes += 1
        if crashes > 40:
            break
        start = k + 1
    return out

def status_pairs(rep, exe):
    """what a writer reports for an entry must not get better when something unrelated is added to the entry, or when
    the entry is the first one with data: the same entry with a name the format cannot take as it is (bytes that are
    not UTF-8, in a UTF-8 locale) alone, with an ACL, behind another member, and as the first member"""
    bad = b"bad\xff\xfename.txt"
    n = 0
    for fmt in ("pax", "paxr", "7zip", "zip", "xar", "iso9660", "gnutar", "ustar", "newc", "mtree"):
        variants = [("alone", [ent(path=bad, size=3, body=b"abc")]),
                    ("with an ACL", [ent(path=bad, size=3, body=b"abc", flags=64)]),
                    ("behind another member", [ent(path=b"ok.txt", size=3, body=b"abc"), ent(path=bad, size=3, body=b"abc")]),
                    ("behind an empty member", [ent(path=b"empty", size=0), ent(path=bad, size=3, body=b"abc")])]
        lines = [case(fmt, es, loc=1) for _, es in variants]
        rc, got, err = vlib.run_exe(exe, vlib.write_cases(lines, "c10-status.cases"), timeout=300, env=harness_env())
        if rc != 0 or len(got) != len(lines):
            continue
        st = []
        for (label, es), l in zip(variants, got):
            w = vparse(l)[0]
            st.append((label, w[1][-1][0]))        # header status of the last entry written
            n += 1
        worst = min(x for _, x in st)
        for label, x in st:
            if x > worst and x >= 0 and worst < 0:
                rep.violation("C10:%s:status-lost" % fmt,
                              "%s: the entry named %r gets header status %d %s, but %d %s: a warning about the same entry was lost" %
                              (fmt, bad, x, label, worst, [l for l, y in st if y == worst][0]),
                              dict(correspondence="fmt", case=lines[[l for l, _ in variants].index(label)], fmt=fmt, statuses=st), found_input=True)
                break
    return n

def harness_env():
    return {"TMPDIR": vlib.scratch(), "TZ": "UTC"}

def check_cases(rep, runner, exe, cases, stats):
    lines = [c[0] for c in cases]
    model_idx = [k for k, c in enumerate(cases) if c[1]["fmt"] in BYTE_LEVEL and not c[1]["wide"] and c[1].get("model", True)]
    # model on the byte-level subset only
    sub = [lines[k] for k in model_idx]
    mpath = vlib.write_cases(sub, "fmt-model.cases")
    rc_m, ml, m_err = vlib.run_exe(runner, mpath, timeout=900)
    if rc_m != 0 or len(ml) != len(sub):
        rep.violation("corr:fmt:model-runner", "model runner failed (rc=%s, %d/%d lines): %s" % (rc_m, len(ml), len(sub), m_err[-300:]),
                      dict(correspondence="fmt", stage="model"), found_input=False)
        ml = None
    il = run_resuming(rep, "fmt", exe, lines, [c[1] for c in cases], env=harness_env())
    model_of = dict(zip(model_idx, ml)) if ml is not None else {}
    first_dis = None
    for k, (line, meta) in enumerate(cases):
        if il[k] is None:
            continue
        try:
            iv = fparse(il[k])
        except Exception:
            rep.violation("C10:unparsable-output", "harness output not parsable", dict(case=line, impl=il[k][:300]), found_input=True)
            continue
        cv = fparse(line)
        hit = oracle_one(meta, cv, iv)
        stats["evaluations"] += 1
        st = iv[0][1][meta["xi"]][0] if len(iv[0][1]) > meta["xi"] else None
        stats["by_status"][st] = stats["by_status"].get(st, 0) + 1
        if hit:
            stats["oracle_hits"] += 1
            stats["keys"].setdefault(hit[0], hit[1])
            rep.violation(hit[0], hit[1], dict(correspondence="fmt", case=line, meta=meta, impl=il[k][:2000],
                                               cmd="./check C10 --replay <this file>"), found_input=True)
        if k in model_of:
            try:
                mv = fparse(model_of[k])
            except Exception:
                mv = [model_of[k][:40]]
            if project_impl(iv) == mv:
                stats["agree"] += 1
            else:
                stats["disagree"] += 1
                if first_dis is None and not hit:
                    first_dis = (k, line, project_impl(iv), mv, meta)
    if first_dis is not None:
        k, line, pi, mv, meta = first_dis
        what = "status/lengths" if pi[:3] != mv[:3] else "output bytes"
        rep.violation("corr:fmt", "model and implementation disagree on %d byte-level writer cases (first: #%d %s %s=%s, %s differ)" %
                      (stats["disagree"], k, meta["fmt"], meta["field"], meta["desc"], what),
                      dict(correspondence="fmt", broken="correspondence fmt (model family runner vs harness)", case=line,
                           impl=str(pi[:3]), model=str(mv[:3])), found_input=False)

# ---- numeric codec unit correspondence ---------------------------------------------------------------
def num_cases(r, n):
    sp = [0, 1, 7, 8, -1, -2, 2**63 - 1, -2**63, 2**62, 2**62 - 1, -2**62, -2**62 - 1, 2**31, 2**32, 2**33, 2**33 - 1, 8**6, 8**6 - 1,
          8**7, 8**7 - 1, 8**8, 8**8 - 1, 8**11, 8**11 - 1, 8**12 - 1, 8**12, 10**6, 10**6 - 1, 10**10, 10**10 - 1, 10**12 - 1, 10**12,
          16**8, 16**8 - 1, 65535, 65536, 2**56, 2**56 - 1, 2**55, -2**55, -2**56]
    def rv():
        c = r.random()
        if c < 0.3:
            return r.choice(sp)
        if c < 0.6:
            return r.randrange(-2**63, 2**63)
        return r.choice([1, -1]) * r.randrange(2 ** r.randrange(1, 63))
    cases = []
    for _ in range(n):
        k = r.choice([0, 0, 0, 1, 2, 3, 3, 4, 5, 6, 7, 8, 9, 10, 11])
        s, mx, strict = r.choice([1, 2, 6, 7, 8, 10, 11, 12, 13, 15]), 0, 0
        if k in (0, 11):
            s = r.choice([6, 11, 1, 3]); mx = s + r.choice([0, 1, 2]); strict = r.choice([0, 0, 1])
        if k == 3:
            s = r.choice([7, 11, 3]); mx = s + 1
        if k == 2:
            s = r.choice([1, 2, 8, 11, 12])
        if k == 9:
            s = 2
        if k == 10:
            s = 4
        cases.append(vfmt([10, k, rv(), s, mx, strict]))
    for _ in range(n):
        k = r.choice([0, 0, 1, 2, 2, 3, 4, 5, 6, 7, 8])
        m = 4 if k == 6 else r.choice([1, 2, 6, 7, 8, 11, 12, 13, 4])
        st = r.random()
        if st < 0.3:
            b = bytes(r.randrange(256) for _ in range(m))
        elif st < 0.6:
            b = bytes(r.choice(b"0123456789 -\tabcdefABCDEF\x00\x80\xff78") for _ in range(m))
        elif st < 0.8:
            b = (b" " * r.randrange(3) + b"-" * r.randrange(2) + bytes(r.choice(b"01234567") for _ in range(m)))[:m]
        else:
            b = bytes([r.choice([0x80, 0xff, 0xc0, 0xbf, 0x7f, 0x40, 0])]) + bytes(r.choice([0, 0xff, 0x80, 0x7f, 1, r.randrange(256)]) for _ in range(m - 1))
        if k in (7, 8) and not b.strip(b" \t"):
            b = b"1" + b[1:]        # the ar parsers are modelled on non-blank fields only
        cases.append(vfmt([11, k, b]))
    return cases

def big_stack():
    """the extracted model recurses over lists as long as the longest pathname (262143 bytes); a writer that loops
    while filling its temporary file must not fill the disk: 1 GiB per file for every child process"""
    import resource
    soft, hard = resource.getrlimit(resource.RLIMIT_STACK)
    try:
        resource.setrlimit(resource.RLIMIT_STACK, (hard, hard))
    except Exception:
        pass
    try:
        resource.setrlimit(resource.RLIMIT_FSIZE, (1 << 30, resource.getrlimit(resource.RLIMIT_FSIZE)[1]))
    except Exception:
        pass

def run(rep):
    big_stack()
    pr = vlib.proof_part(rep, "C10", translators=["gen_defines", "gen_fmt"])
    runner = vlib.build_runner("fmt")
    exe = vlib.compile_harness("fmt", "asan")
    exen = vlib.compile_harness("fmtnum", "asan", private=True)
    stats = dict(evaluations=0, oracle_hits=0, agree=0, disagree=0, by_status={}, keys={})
    cases = gen_cases(rep)
    corpus = []
    check_cases(rep, runner, exe, cases, stats)
    r = vlib.rng(rep.seed, "C10num")
    ncases = num_cases(r, 3000 if rep.tier == "quick" else 60000)
    stn = vlib.correspond(rep, "fmtnum", runner, exen, ncases)
    stats["status_pairs"] = status_pairs(rep, exe)
    nontrivial = set((c[1]["fmt"], c[1]["field"], c[1]["desc"]) for c in cases if c[1]["field"] != "perm")
    rep.coverage.update(
        evaluations=stats["evaluations"] + len(ncases),
        distinct_nontrivial=len(nontrivial),
        rule="one entry per (format, field, value) written between two ordinary entries with the real writer and read back with "
             "the real reader: %d writable formats x fields {uid gid mtime size perm filetype rdev dev ino nlink pathname symlink "
             "hardlink uname gname} x values at and beyond every field-width border (2^16, 2^18, 2^21, 2^31, 2^32, 2^33, 2^62, "
             "2^63-1, decimal 10^6/10^10/10^12, negatives, random), string lengths 15..262143, bytes >= 0x80 and wide characters; "
             "non-trivial = the probed field is not the plain permission probe" % len(ALL_FORMATS),
        samples=[cases[0][0][:300], cases[len(cases) // 2][0][:300]],
        traces_validated_against_impl=stats["agree"] + stn["agree"],
        correspondence=dict(writer=dict(agree=stats["agree"], disagree=stats["disagree"]), codecs=stn),
        header_status_histogram={str(k): v for k, v in sorted(stats["by_status"].items(), key=lambda kv: str(kv[0]))},
        oracle_keys=sorted(stats["keys"].keys()))
    rep.assumptions += [
        "fields a format has no place for (CARRIES table in props/C10.py) are treated as dropped by documented format scope, not as violations",
        "negative uid/gid/size/ino never reach a writer: the archive_entry setters store 0 (entry-level behaviour, C14)",
        "string conversion is the C-locale default (no hdrcharset option) in the model; conversion failures are exercised on the real code only",
        "shar/shardump/raw cannot be read back as entries: only status and sanitizer findings are checked for them"]
    vlib.proof_verdict(rep, "C10", pr)

def replay(rep, path):
    import json
    big_stack()
    d = json.load(open(path))
    rp = d["replay"]
    runner = vlib.build_runner("fmt")
    if rp.get("correspondence") == "fmtnum":
        exen = vlib.compile_harness("fmtnum", "asan", private=True)
        vlib.correspond(rep, "fmtnum", runner, exen, [rp["case"]])
    else:
        exe = vlib.compile_harness("fmt", "asan")
        meta = rp.get("meta")
        stats = dict(evaluations=0, oracle_hits=0, agree=0, disagree=0, by_status={}, keys={})
        if meta is None:
            cv = fparse(rp["case"])
            meta = dict(fmt=cv[2].decode(), field="replayed", desc="?", header_only=False, wide=True, xi=min(1, len(cv[7]) - 1))
        check_cases(rep, runner, exe, [(rp["case"], meta)], stats)
    rep.coverage.update(evaluations=1, distinct_nontrivial=1, samples=[rp["case"][:300]])
