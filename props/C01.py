"""C01 - reader is memory-safe and terminates on arbitrary input.   PARTIAL.
Proof: Properties_C01.v (I/O core: windows within the delivered bytes, loops terminate, buffer
arithmetic never leaves its block).  Tie: model vs real core on scripts (fault-free and faulty).
Runtime part (search, not proof): every format/filter enabled, ASan+UBSan+LSan build, structured
mutations of writer output and of the suite's reference archives, several block partitions, CPU
limit: sanitizer report / hang / status outside the documented set / read_data over-delivery /
entry after EOF or FATAL / leak after free = concrete failing input."""
import vlib, readcore, time
from vlib import vfmt, vparse

LEVEL = "proof"

def mutate(r, arc):
    """one structured mutation of an archive"""
    b = bytearray(arc)
    n = len(b)
    k = r.randrange(8)
    if n == 0:
        return bytes(b), "empty"
    if k == 0:
        cut = r.choice([0, 1, n // 2, n - 1, r.randrange(n)])
        return bytes(b[:cut]), "truncate@%d" % cut
    if k == 1:
        for _ in range(r.choice([1, 1, 2, 8])):
            i = r.randrange(n); b[i] ^= 1 << r.randrange(8)
        return bytes(b), "bitflip"
    if k == 2:
        i = r.randrange(n); L = r.choice([1, 2, 4, 8, 12])
        b[i:i + L] = bytes([r.choice([0x00, 0xff, 0x7f, 0x80, 0x37, 0x20])]) * min(L, n - i)
        return bytes(b), "fill@%d" % i
    if k == 3:
        i, j = sorted((r.randrange(n), r.randrange(n)))
        return bytes(b[:i] + b[j:]), "splice-out[%d:%d]" % (i, j)
    if k == 4:
        i = r.randrange(n); j = r.randrange(n); L = r.choice([4, 16, 64, 512])
        return bytes(b[:i] + b[j:j + L] + b[i:]), "dup[%d+%d]@%d" % (j, L, i)
    if k == 5:
        # numeric-looking ASCII field to its border values
        i = r.randrange(n)
        fld = r.choice([b"77777777777", b"99999999999", b"00000000000", b"-1", b"\x80" + b"\xff" * 7, b"ffffffff"])
        b[i:i + len(fld)] = fld[:max(0, n - i)]
        return bytes(b), "field@%d" % i
    if k == 6:
        return bytes(b) + bytes(b[: r.choice([1, 100, 512])]), "append-self"
    return bytes(b[r.randrange(min(n, 64)):]), "drop-head"

def crafted_inputs(r):
    """inputs aimed at fixed-size internal buffers of line-oriented decoders: one body line far longer than any
    encoder writes (uuencode / base64 filter: 64 KiB output buffer, 34 KiB line carry-over), first in the body or
    after enough ordinary lines to lie beyond the bidders' look-ahead"""
    import base64, binascii
    out = []
    payload = bytes((i * 37 + 11) & 0xff for i in range(200000))
    ordinary_b64 = b"".join(base64.b64encode(payload[i:i + 57]) + b"\n" for i in range(0, 57 * 64, 57))
    ordinary_uu = b"".join(binascii.b2a_uu(payload[i:i + 45]) for i in range(0, 45 * 64, 45))
    for n in (34000, 65536, 87380, 87384, 100000, 200000):
        long_b64 = base64.b64encode(payload[: n * 3 // 4])[:n]
        for lead in (b"", ordinary_b64):
            out.append(("crafted:b64-line-%d%s" % (n, "-late" if lead else ""), b"begin-base64 644 x\n" + lead + long_b64 + b"\n====\n"))
        long_uu = b"M" + bytes(33 + (payload[i] & 63) for i in range(n))
        for lead in (b"", ordinary_uu):
            out.append(("crafted:uu-line-%d%s" % (n, "-late" if lead else ""), b"begin 644 x\n" + lead + long_uu + b"\n`\nend\n"))
    # a very long first line for the text-sniffing format bidders (mtree, warc headers)
    out.append(("crafted:mtree-long-line", b"#mtree\n" + b"a" * 150000 + b" type=file\n"))
    out.append(("crafted:warc-long-header", b"WARC/1.0\r\nWARC-Type: resource\r\nWARC-Target-URI: file://" + b"x" * 150000 + b"\r\nContent-Length: 1\r\n\r\nA\r\n\r\n"))
    return out

def multiframe_inputs(mk_exe, arcs):
    """concatenated compressed members written with DIFFERENT options (decoders keep state - buffers, windows,
    dictionaries - from one member to the next): a tar stream cut in two, each half compressed on its own"""
    tar = dict(arcs).get("w:ustar#big") or dict(arcs).get("w:ustar")
    if not tar:
        return []
    halves = (tar[: len(tar) // 2], tar[len(tar) // 2:])
    variants = {
        "lz4": ["lz4:block-size=4", "lz4:block-size=4,lz4:block-dependence", "lz4:block-size=7", "lz4:block-size=5,lz4:block-dependence",
                "lz4:block-size=4,lz4:block-checksum,lz4:stream-checksum"],
        "zstd": ["zstd:compression-level=1", "zstd:compression-level=19", "zstd:long=27"],
        "gzip": ["gzip:compression-level=1", "gzip:compression-level=9"],
        "xz": ["xz:compression-level=0", "xz:compression-level=9"],
        "bzip2": ["bzip2:compression-level=1", "bzip2:compression-level=9"],
    }
    specs, labels = [], []
    for flt, opts in variants.items():
        for o in opts:
            for hi, h in enumerate(halves):
                specs.append(vfmt(["raw", flt, o, 512, [["data", AE_IFREG, 0o644, 0, 0, 0, h, b"", b"", 0, []]]]))
                labels.append((flt, o, hi))
    rc, lines, err = vlib.run_exe(mk_exe, vlib.write_cases(specs, "c01-frames.cases"), timeout=600)
    made = {}
    for lab, l in zip(labels, lines):
        v = vparse(l)
        if v[0] >= -20 and v[-2] >= -20:
            made[lab] = v[-1]
    out = []
    for flt, opts in variants.items():
        for o1 in opts:
            for o2 in opts:
                if o1 != o2 and (flt, o1, 0) in made and (flt, o2, 1) in made:
                    out.append(("frames:%s:%s+%s" % (flt, o1, o2), made[(flt, o1, 0)] + made[(flt, o2, 1)]))
    return out

AE_IFREG = 0o100000

def _tar_header(name, size, typeflag=b"0", mode=0o644):
    h = bytearray(512)
    h[0:len(name)] = name
    h[100:108] = b"%07o\0" % mode
    h[108:116] = b"%07o\0" % 0
    h[116:124] = b"%07o\0" % 0
    h[124:136] = b"%011o\0" % size
    h[136:148] = b"%011o\0" % 1000
    h[148:156] = b" " * 8
    h[156:157] = typeflag
    h[257:263] = b"ustar\0"
    h[263:265] = b"00"
    h[148:156] = b"%06o\0 " % sum(h)
    return bytes(h)

def pax_inputs():
    """pax extended headers whose records are longer than any read-ahead window: very long keywords and values, the
    input ending (or a read block ending) inside them; a 100 KiB member in front puts the header beyond the bytes
    the bidders buffered, so that it is parsed straight from the client's block"""
    out = []
    def pad(b):
        return b + bytes(-len(b) % 512)
    def rec(k, v):
        body = b" " + k + b"=" + v + b"\n"
        n = len(body) + 1
        while len(b"%d" % n) + len(body) != n:
            n = len(b"%d" % n) + len(body)
        return b"%d" % n + body
    member = _tar_header(b"first.bin", 100000) + pad(bytes((i * 5 + 1) & 0xff for i in range(100000)))
    plain = _tar_header(b"after.txt", 6) + pad(b"after\n")
    eoa = bytes(1024)
    for label, records in (("long-keyword", rec(b"K" * 1500, b"v") + rec(b"path", b"renamed.txt")),
                           ("long-value", rec(b"comment", b"c" * 3000) + rec(b"path", b"renamed.txt")),
                           ("many-records", b"".join(rec(b"LIBARCHIVE.xattr.user.k%03d" % i, b"dmFsdWU") for i in range(120))),
                           ("keyword-at-end", rec(b"path", b"renamed.txt") + rec(b"Q" * 700, b""))):
        xhdr = _tar_header(b"PaxHeader/after.txt", len(records), b"x") + pad(records)
        for front, fl in ((b"", "start"), (member, "late")):
            whole = front + xhdr + plain + eoa
            base = len(front) + 512
            out.append(("pax:%s:%s" % (label, fl), whole, []))
            for cut in (base + 5, base + 300, base + 600, base + 1024, base + len(records) - 1, base + len(records) // 2):
                if cut < len(whole):
                    out.append(("pax:%s:%s:cut@%d" % (label, fl, cut - base), whole[:cut], []))
                    out.append(("pax:%s:%s:block@%d" % (label, fl, cut - base), whole, [cut, len(whole)]))
    # records that stop right after the '=' (no value, no newline): the value length the parser derives is zero
    def rec0(k):
        body = b" " + k + b"="
        n = len(body) + 1
        while len(b"%d" % n) + len(body) != n:
            n = len(b"%d" % n) + len(body)
        return b"%d" % n + body
    for k in (b"path", b"comment", b"size", b"mtime", b"SCHILY.xattr.user.x", b"LIBARCHIVE.xattr.user.x", b"GNU.sparse.map",
              b"SCHILY.acl.access", b"linkpath", b"hdrcharset", b"SUN.holesdata", b"GNU.sparse.numblocks"):
        for tail in (b"", b"12 path=abc\n"):
            records = rec0(k) + tail
            whole = _tar_header(b"PaxHeader/after.txt", len(records), b"x") + pad(records) + plain + eoa
            out.append(("pax:no-value:%s:%d" % (k.decode(), len(tail)), whole, []))
            out.append(("pax:no-value:%s:%d:blocks" % (k.decode(), len(tail)), whole, [512] * (len(whole) // 512 + 2)))
    return out

def cpio_inputs():
    """cpio members whose name is as long as the end-of-archive marker ("TRAILER!!!", 10 bytes and a NUL) and whose
    link target is longer than the reader's copy buffer, delivered in blocks that end inside name and target: the
    reader looks at the name again after it has fetched the target"""
    def newc(name, mode, body, ino):
        n = name + b"\0"
        o = b"070701" + b"".join(b"%08x" % x for x in (ino, mode, 0, 0, 1, 0, len(body), 0, 0, 0, 0, len(n), 0)) + n
        o += bytes(-len(o) % 4) + body
        return o + bytes(-len(o) % 4)
    def odc(name, mode, body, ino):
        n = name + b"\0"
        return b"070707" + b"%06o%06o%06o%06o%06o%06o%06o%011o%06o%011o" % (1, ino, mode, 0, 0, 1, 0, 0, len(n), len(body)) + n + body
    out = []
    for fmt, mk in (("newc", newc), ("odc", odc)):
        for nm in (b"abcdefghij", b"TRAILER!!?", b"ab"):
            for tl in (11, 5000, 70000, 300000):
                arc = (mk(b"f", 0o100644, b"hello", 1) + mk(nm, 0o120777, (b"TRAILER!!!/" * (tl // 11 + 1))[:tl], 2)
                       + mk(b"g", 0o100644, b"world", 3) + mk(b"TRAILER!!!", 0, b"", 0))
                for bs in (0, 512, 120, 7):
                    if bs == 7 and tl > 70000:
                        continue
                    out.append(("cpio:%s:%s:target%d" % (fmt, nm.decode(), tl), arc, [bs] * (len(arc) // bs + 2) if bs else []))
    return out

def run_resilient(rep, exe, cases, meta, per_batch_timeout):
    """run cases; after a crash/hang report the culprit and continue with the rest"""
    lines = []
    start = 0
    ncrash = 0
    while start < len(cases) and ncrash < 8:
        rc, ls, err = readcore.run_readall(exe, cases[start:], timeout=per_batch_timeout)
        lines += ls
        if rc == 0 and len(ls) == len(cases) - start:
            break
        bad = start + len(ls)
        if bad >= len(cases):
            break
        ncrash += 1
        rep.violation("C01:crash:%s:%s" % (meta[bad][0].split(":")[0] if ":" in meta[bad][0] else "ref", vlib.crash_key(err)),
                      "reader stopped (rc=%s, %s) on %s mutation %s" % (rc, vlib.crash_key(err), meta[bad][0], meta[bad][1]),
                      dict(case=cases[bad][:200000], archive=meta[bad][0], mutation=meta[bad][1], stderr=err[-3000:],
                           cmd="harness readAll (asan) on the case line"), found_input=True)
        lines.append(None)
        start = bad + 1
    return lines

def run(rep):
    pr = vlib.proof_part(rep, "C01", translators=["gen_defines"])
    runner = vlib.build_runner("readCore")
    core = vlib.compile_harness("readCore", "asan", private=True)
    r = vlib.rng(rep.seed, "C01")
    quick = rep.tier == "quick"
    n = 500 if quick else 20000
    cases = [readcore.gen_core_case(r, faults=(i % 3 == 0)) for i in range(n)]
    cases += [readcore.gen_boundary_case(r) for _ in range(200 if quick else 5000)]
    cases += [readcore.gen_seekskip_case(r, faults=(i % 2 == 0)) for i in range(40 if quick else 800)]
    st = vlib.correspond(rep, "readCore", runner, core, vlib.load_corpus("C01") + cases, oracle=readcore.core_oracle_c01)

    # ---- choose_filters bound: k nested uuencode layers through the real reader vs the model
    import binascii
    def uu(b):
        out = b"begin 644 x\n"
        for i in range(0, len(b), 45):
            out += binascii.b2a_uu(b[i:i + 45])
        return out + b"`\nend\n"
    fcases, fmodel = [], []
    payload = b"payload-0123456789"
    for k in range(0, 29):
        fcases.append(readcore.read_case(payload, source=(1,)))
        fmodel.append(vfmt([-1, k, 99, 1]))
        payload = uu(payload)
    readall0 = vlib.compile_harness("readAll", "asan")
    rcf, flines, ferr = readcore.run_readall(readall0, fcases)
    rcm, mlines, merr = vlib.run_exe(runner, vlib.write_cases(fmodel, "filters.cases"))
    nfilt_ok = 0
    for k, (fl, ml) in enumerate(zip(flines, mlines)):
        d, m = vparse(fl), vparse(ml)
        opened = not (isinstance(d[0], list) and len(d[0]) == 1)      # ((open_status) ...) = open failed
        real = (0 if opened else -30, (len(d[-2]) - 1) if opened else None)
        if (m[0] == 0) != opened or (opened and m[1] != real[1]):
            rep.violation("corr:filters", "choose_filters model and implementation disagree for %d nested filters: model %r, real %r" % (k, m, real),
                          dict(correspondence="choose_filters", case=fcases[k][:2000], model=ml, impl=fl[:500]), found_input=False)
        if opened and real[1] >= 25:
            rep.violation("C01:filters:unbounded", "%d filters were stacked (MAX_NUMBER_FILTERS exceeded)" % real[1],
                          dict(case=fcases[k][:2000], archive="nested-uuencode-%d" % k), found_input=True)
        nfilt_ok += 1
    rep.coverage["filter_depth_cases"] = nfilt_ok

    # ---- the compress (.Z) read filter: extracted LZW decoder model vs the real filter on hostile code streams
    import lzwgen
    lz_runner = vlib.build_runner("lzw")
    lz_exe = vlib.compile_harness("lzw", "asan")
    rz = vlib.rng(rep.seed, "C01-lzw")
    zcases = [vfmt([z]) for z in lzwgen.directed()] + [vfmt([lzwgen.gen_stream(rz)]) for _ in range(1500 if quick else 40000)]
    # a decoded stream that itself starts like a .Z stream gets a second compress filter stacked on it: left out
    rcz, zl, zerr = vlib.run_exe(lz_runner, vlib.write_cases(zcases, "lzw-pre.cases"), timeout=1800)
    def nested(line):
        v = vparse(line)
        return len(v) > 1 and len(v[1]) >= 3 and v[1][0] == 0x1f and v[1][1] == 0x9d and (v[1][2] & 0x60) == 0
    zcases = [c for c, l in zip(zcases, zl) if not nested(l)] if len(zl) == len(zcases) else zcases
    stz = vlib.correspond(rep, "lzw", lz_runner, lz_exe, vlib.load_corpus("C01-lzw") + zcases, timeout=1800)
    rep.coverage["lzw_correspondence"] = stz

    # ---- the tar reader's number parsers on fields that end where the buffer ends (they are used on pax attribute
    # values and on the GNU sparse 0.1 map straight from the read buffer): harness fmtnum hands them exactly the field
    fmtnum = vlib.compile_harness("fmtnum", "asan", private=True)
    ncases = []
    for kind in (0, 1, 3):
        for field in (b"7", b"1234567", b"00000001750", b" 644", b"12345678901", b"777777777777", b"-5", b"9" * 19, b"9" * 40):
            ncases.append(vfmt([11, kind, field]))
    ncases.append(vfmt([11, 2, bytes([0x80, 0, 0, 0, 0, 0, 0, 0, 0, 0, 1, 2])]))
    ncases.append(vfmt([11, 2, bytes([0xff] * 12)]))
    rcn, nlines, nerr = vlib.run_exe(fmtnum, vlib.write_cases(ncases, "c01-fmtnum.cases"))
    if rcn != 0 or len(nlines) != len(ncases):
        k = min(len(nlines), len(ncases) - 1)
        rep.violation("C01:crash:tar-number:%s" % vlib.crash_key(nerr), "a tar number parser read outside a field that fills its buffer (rc=%s, %s) on %s" %
                      (rcn, vlib.crash_key(nerr), ncases[k]), dict(case=ncases[k], stderr=nerr[-3000:], cmd="harness fmtnum (asan) on the case line"), found_input=True)
    rep.coverage["number_parser_cases"] = len(nlines)

    # ---- runtime part: sanitizer-backed search over real formats
    readall = vlib.compile_harness("readAll", "asan")
    mk = vlib.compile_harness("mkArchive", "asan")
    arcs = readcore.writer_archives(mk)
    arcs += readcore.reference_archives(30000 if quick else 600000, limit=40 if quick else None)
    rcases, meta = [], []
    nmut = 4 if quick else 30
    for name, arc in arcs:
        variants = [(arc, "intact")] + [mutate(r, arc) for _ in range(nmut)]
        for data, what in variants:
            sz = r.choice([1, 3, 7, 512, 10240]) if len(data) < 5000 else r.choice([7, 512, 10240, 65536]) if len(data) < 150000 else r.choice([512, 10240, 65536])
            hs, hk = r.choice([(0, 0), (1, 1), (1, 0)])
            cons = r.choice([(0, 4096, 0), (0, 1, 0) if len(data) < 3000 else (0, 333, 0), (1, 0, 0), (2, 10, 0), (3, 0, 0), (4, 0, 0)])
            rcases.append(readcore.read_case(data, source=(0,), rplan=[sz] * (len(data) // sz + 2), has_skip=hs, has_seek=hk, consume=cons))
            meta.append((name, what, sz, cons))
    for name, data in crafted_inputs(r):
        for plan in ([], [4096] * (len(data) // 4096 + 2), [65536] * (len(data) // 65536 + 2)):
            rcases.append(readcore.read_case(data, source=(0,), rplan=plan, consume=(0, 4096, 0)))
            meta.append((name, "crafted", plan[0] if plan else 0, (0, 4096, 0)))
    for l in vlib.load_corpus("C01-readall"):
        rcases.append(l)
        meta.append(("corpus", "kept", 0, (0, 0, 0)))
    # every reference archive of the suite once, intact, through 512-byte callback blocks (one header block per
    # read: pointers into the previous block die at once) - the mutation sweep above only samples the corpus in the quick tier
    seen_ref = set(n for n, _ in arcs)
    for name, data in readcore.reference_archives(150000 if quick else 4000000):
        if name in seen_ref and not quick:
            continue
        rcases.append(readcore.read_case(data, source=(0,), rplan=[512] * (len(data) // 512 + 2), consume=(0, 4096, 0)))
        meta.append((name, "intact", 512, (0, 4096, 0)))
    # multi-volume input whose first volumes are shorter than the bidders' read-ahead, with a filter in front of the
    # format: files (archive_read_open_filenames) and appended callback data
    for name, arc in arcs:
        if name.startswith("w:") and "+" in name and "#" not in name and len(arc) > 40:
            for src in ((6, 3, 9), (6, 1, len(arc) // 2), (7, 3, 9), (7, 20)):
                rcases.append(readcore.read_case(arc, source=src, rplan=[4096], has_skip=1, has_seek=1, consume=(0, 4096, 0)))
                meta.append((name, "volumes%r" % (src,), 4096, (0, 4096, 0)))
    for name, arc in readcore.reference_archives(400000):
        if name.endswith(".rpm"):          # the rpm filter hands its input on without buffering any of it
            for src in ((6, len(arc) // 3, 2 * len(arc) // 3), (6, 3087, 6724), (7, len(arc) // 3, 2 * len(arc) // 3), (6, 50), (7, 50)):
                if src[-1] < len(arc):
                    rcases.append(readcore.read_case(arc, source=src, rplan=[4096], has_skip=1, has_seek=1, consume=(0, 4096, 0)))
                    meta.append((name, "volumes%r" % (src,), 4096, (0, 4096, 0)))
    for name, data in readcore.replicated_archives(130 if quick else 400):
        for bs in (7, 512, 513):
            rcases.append(readcore.read_case(data, source=(0,), rplan=[bs] * (len(data) // bs + 2), consume=(0, 4096, 0)))
            meta.append((name, "intact", bs, (0, 4096, 0)))
    for name, data, plan in pax_inputs():
        rcases.append(readcore.read_case(data, source=(0,), rplan=plan, consume=(0, 4096, 0)))
        meta.append((name, "crafted", plan[0] if plan else 0, (0, 4096, 0)))
    for name, data, plan in cpio_inputs():
        rcases.append(readcore.read_case(data, source=(0,), rplan=plan, consume=(0, 4096, 0)))
        meta.append((name, "crafted", plan[0] if plan else 0, (0, 4096, 0)))
    for name, data in multiframe_inputs(mk, arcs):
        for plan in ([], [10240] * (len(data) // 10240 + 2)):
            rcases.append(readcore.read_case(data, source=(0,), rplan=plan, consume=(0, 4096, 0)))
            meta.append((name, "two-members", plan[0] if plan else 0, (0, 4096, 0)))
    # line-oriented decoders: cut at every line boundary and one byte either side (the decoder's end-of-input paths)
    for name, arc in arcs:
        if not (name.startswith("w:") and ("uuencode" in name or "b64encode" in name)):
            continue
        cuts = set()
        for i, ch in enumerate(arc):
            if ch == 10:
                cuts.update((i, i + 1, i + 2))
        for cut in sorted(c for c in cuts if 0 < c < len(arc))[: (400 if quick else 100000)]:
            rcases.append(readcore.read_case(arc[:cut], source=(0,), rplan=[], consume=(0, 4096, 0)))
            meta.append((name, "cut@%d" % cut, 0, (0, 4096, 0)))
    t0 = time.time()
    if quick:
        lines = run_resilient(rep, readall, rcases, meta, per_batch_timeout=600)
    else:
        # the thorough tier is a few hundred megabytes of cases: shards in parallel; a shard that runs out of time
        # re-runs the case it was on alone before blaming it
        lines, failures = readcore.run_readall_sharded(readall, rcases, shards=64, workers=14, timeout=2400, single_timeout=300)
        for bad, rc, err in failures[:8]:
            rep.violation("C01:crash:%s:%s" % (meta[bad][0].split(":")[0] if ":" in meta[bad][0] else "ref", vlib.crash_key(err)),
                          "reader stopped (rc=%s, %s) on %s mutation %s" % (rc, vlib.crash_key(err), meta[bad][0], meta[bad][1]),
                          dict(case=rcases[bad][:200000], archive=meta[bad][0], mutation=meta[bad][1], stderr=err[-3000:],
                               cmd="harness readAll (asan) on the case line"), found_input=True)
    flagged = 0
    for (name, what, sz, cons), c, l in zip(meta, rcases, lines):
        if l is None:
            continue
        d = readcore.digest_ok(l)
        if d is None:
            continue
        flags = d[-3]
        for bit, key, txt in ((1, "read_data-overdelivery", "archive_read_data returned more bytes than asked for"),
                              (2, "entry-after-end", "an entry was returned after end-of-archive or a fatal header error"),
                              (4, "undocumented-status", "a call returned a status outside the documented set"),
                              (8, "block-offsets", "read_data_block offsets went backwards"),
                              (16, "leak-after-free", "memory obtained on behalf of the handle remains after archive_read_free"),
                              (32, "free-status", "archive_read_free did not return ARCHIVE_OK")):
            if flags & bit:
                flagged += 1
                rep.violation("C01:%s:%s" % (key, name.split(":")[0] if name.startswith("w:") else name),
                              "%s (%s, mutation %s, block size %d, consume mode %s)" % (txt, name, what, sz, cons),
                              dict(case=c[:200000], archive=name, mutation=what, digest=str(d)[:1500],
                                   cmd="harness readAll (asan) on the case line"), found_input=True)
    rep.coverage.update(
        evaluations=len(cases) + len(rcases),
        distinct_nontrivial=len(set(cases)) + len(set(rcases)),
        rule="core scripts (1/3 with failing/short callbacks) through the real read core vs the model; runtime search: %d archives "
             "(writers + suite reference files) x %d structured mutations (truncate, bit flips, fill, splice, duplicate, numeric-field borders, "
             "append, drop head) x block sizes {1,3,7,512,10240,65536} x capabilities x consumption modes, every format and filter enabled, "
             "ASan+UBSan+LSan; distinct = distinct case lines (all non-trivial: non-empty script or archive)" % (len(arcs), nmut),
        samples=[cases[0][:300], str(meta[1])],
        traces_validated_against_impl=st["agree"], correspondence=st,
        sanitizer_runs=len(rcases), sanitizer_flagged=flagged, sanitizer_secs=round(time.time() - t0, 1),
        mutation_kinds=sorted(set(m[1].split("@")[0].split("[")[0] for m in meta)))
    rep.assumptions += ["PARTIAL: memory safety of the 13 format readers, the filters, PPMd/LZSS/Huffman decoders is not modelled; "
                        "the sanitizer sweep is a search for failing inputs, not a proof",
                        "CPU-time bound = per-batch wall-clock limit of the harness run"]
    vlib.proof_verdict(rep, "C01", pr)

def replay(rep, path):
    import json
    d = json.load(open(path))["replay"]
    case = d.get("case")
    if d.get("correspondence") == "lzw":
        vlib.correspond(rep, "lzw", vlib.build_runner("lzw"), vlib.compile_harness("lzw", "asan"), [case])
    elif d.get("correspondence") in ("readCore", "filters", "choose_filters") or not (d.get("archive") or "fmtnum" in d.get("cmd", "")):
        runner = vlib.build_runner("readCore")
        core = vlib.compile_harness("readCore", "asan", private=True)
        vlib.correspond(rep, "readCore", runner, core, [case])
    else:
        exe = vlib.compile_harness("fmtnum", "asan", private=True) if "fmtnum" in d.get("cmd", "") else vlib.compile_harness("readAll", "asan")
        rc, lines, err = vlib.run_exe(exe, vlib.write_cases([case], "replay.cases"), env={"VERIF_TMP": vlib.scratch()}, timeout=1800)
        dg = readcore.digest_ok(lines[0]) if lines and d.get("archive") else None
        if rc != 0 or not lines:
            rep.violation("C01:crash:replay:%s" % vlib.crash_key(err), "the harness stopped (rc=%s, %s) on the replayed input" % (rc, vlib.crash_key(err)),
                          dict(d, stderr=err[-3000:]), found_input=True)
        elif dg is not None and (dg[-3] & 16):
            rep.violation("C01:leak:replay", "memory remains after archive_read_free on the replayed input", dict(d), found_input=True)
    rep.coverage.update(evaluations=1, distinct_nontrivial=1, samples=[(case or "")[:300]])
