"""C16 - pattern and criteria matching: proof (Properties_C16.v) + correspondence of the Gallina model
with the real __archive_pathmatch / __archive_pathmatch_w (exact-size heap blocks under ASan) and with
the public archive_match_* API on scenario programs."""
import itertools, os
import vlib
from vlib import vfmt, vparse

LEVEL = "proof"
ALPHA = b"*?[]!^-\\/.$ab"
META = set(b"*?[\\/")
MTIME, CTIME, NEWER, OLDER, EQUAL = 0x100, 0x200, 1, 2, 0x10
CRASH = "(x4352415348 "          # (xCRASH x<kind> x<function>)

# ------------------------------------------------------------------ pathmatch cases
def pm_case(p, s):
    return "(0 x%s x%s)" % (bytes(p).hex(), bytes(s).hex())

def words(alpha, lens):
    for n in lens:
        for t in itertools.product(alpha, repeat=n):
            yield bytes(t)

def exhaustive(alpha_p, plens, alpha_s, slens):
    """every pattern over alpha_p with a length in plens against every subject over alpha_s with a length in slens"""
    subs = ["x" + w.hex() for w in words(alpha_s, slens)]
    for p in words(alpha_p, plens):
        head = "(0 x%s " % p.hex()
        for s in subs:
            yield head + s + ")"

CLS = b"[]!-\\a"

# disjoint exhaustive families: (name, pattern alphabet, pattern lengths, subject alphabet, subject lengths)
FAMILIES_QUICK = [("A", ALPHA, range(0, 4), ALPHA, range(0, 3)),
                  ("B", ALPHA, [4], ALPHA, range(0, 2)),
                  ("C", CLS, [5], CLS, range(0, 2))]
FAMILIES_THOROUGH = FAMILIES_QUICK + [("D", ALPHA, [4], ALPHA, [2]),
                                      ("E", CLS, [6], CLS, range(0, 2)),
                                      ("F", ALPHA, range(0, 4), ALPHA, [3])]

def in_family(p, s, fams):
    for _, ap, pl, as_, sl in fams:
        if len(p) in pl and len(s) in sl and all(c in ap for c in p) and all(c in as_ for c in s):
            return True
    return False

def rand_class(r):
    """a [...] class and one byte it is meant to accept"""
    body = bytearray()
    neg = r.random() < 0.3
    if neg:
        body.append(r.choice(b"!^"))
    accept = None
    for _ in range(r.randrange(0, 4)):
        k = r.random()
        if k < 0.35:
            lo, hi = sorted(r.sample(list(b"abcdxyz09-.$"), 2))
            if r.random() < 0.2:
                lo, hi = hi, lo
            body += bytes([lo]) + b"-" + (b"\\" if r.random() < 0.25 else b"") + bytes([hi])
            accept = lo
        elif k < 0.5:
            c = r.choice(b"]\\-!^a")
            body += b"\\" + bytes([c])
            accept = c
        elif k < 0.6:
            body += b"-"
            accept = ord("-")
        else:
            c = r.choice(b"ab./$*?[x")
            body.append(c)
            accept = c
    if neg or accept is None:
        accept = r.choice(b"abq/.")
    return b"[" + bytes(body) + (b"]" if r.random() < 0.92 else b""), accept

def rand_pair(r, maxlen=24):
    """pattern built from pieces, subject = an instantiation of it, then perturbed/truncated"""
    pat, sub = bytearray(), bytearray()
    if r.random() < 0.12:
        pat += b"^"
    if r.random() < 0.12:
        pat += r.choice([b"./", b"/", b".//", b"././"])
        if r.random() < 0.7:
            sub += r.choice([b"./", b"/", b"", b"//"])
    stars = 0
    for _ in range(r.randrange(1, 8)):
        k = r.random()
        if k < 0.3:
            w = bytes(r.choice(b"ab.$-]!") for _ in range(r.randrange(1, 4)))
            pat += w; sub += w
        elif k < 0.45 and stars < 6:
            pat += b"*" * r.choice([1, 1, 1, 2, 3]); stars += 1
            sub += bytes(r.choice(b"ab/.") for _ in range(r.randrange(0, 4)))
        elif k < 0.55:
            pat += b"?"; sub.append(r.choice(b"ab/.*"))
        elif k < 0.75:
            c, a = rand_class(r)
            pat += c; sub.append(a)
        elif k < 0.85:
            pat += r.choice([b"/", b"//", b"/./", b"/."]); sub += r.choice([b"/", b"//", b"/./", b"/"])
        elif k < 0.93:
            c = r.choice(b"*?[]\\ab/")
            pat += b"\\" + bytes([c]); sub.append(c)
        else:
            pat += r.choice([b"\\", b"[", b"$", b"^", b"."]); sub += r.choice([b"\\", b"[", b"$", b"^", b"."])
    if r.random() < 0.15:
        pat += b"$"
    if r.random() < 0.2:
        sub += r.choice([b"/", b"/.", b"/x", b"/a/b", b"//"])
    if r.random() < 0.2:
        sub = bytearray(b"x/") + sub if r.random() < 0.5 else bytearray(b"a/b/") + sub
    m = r.random()
    if m < 0.3 and len(sub):            # the pattern outlives the subject
        sub = sub[:r.randrange(0, len(sub))]
    elif m < 0.4 and len(sub):
        k = r.randrange(len(sub)); sub[k] = r.choice(ALPHA)
    elif m < 0.45:
        sub = bytearray(r.choice(ALPHA) for _ in range(r.randrange(0, 10)))
    return bytes(pat[:maxlen]), bytes(sub[:maxlen])

def class_at_end_cases():
    """classes (plain, negated, ranges, escapes, unterminated) at the end of the pattern against subjects that
    stop before, at and after the class"""
    out = []
    classes = [b"[a]", b"[!a]", b"[^a]", b"[]", b"[!]", b"[^]", b"[a-b]", b"[!a-b]", b"[\\]]", b"[!\\]]", b"[a-\\]]",
               b"[--a]", b"[!--a]", b"[a-]", b"[-a]", b"[\\a-\\b]", b"[a\\-b]", b"[a", b"[!a", b"[\\", b"[a\\", b"[]]", b"[!]]",
               b"[!-]", b"[^^]", b"[!!]", b"[*]", b"[?]", b"[/]", b"[!/]", b"[.-/]", b"[b-a]"]
    for c in classes:
        for pre in [b"", b"a", b"*", b"a*", b"a/", b"?", b"\\a", b"./"]:
            for post in [b"", b"b", b"*", b"/", b"$", b"[!b]"]:
                for s in [b"", b"a", b"ab", b"b", b"a/", b"a/b", b"]", b"-", b"aa", b"/", b"./a", b"a]"]:
                    out.append(pm_case(pre + c + post, s))
    return out

def highbyte_cases(r, n):
    """bytes >= 0x80 (negative as char): ranges compare as signed chars"""
    out = []
    hb = [0x80, 0x81, 0xfe, 0xff, 0x7f, 0x01, ord("a")]
    for _ in range(n):
        lo, hi, c = r.choice(hb), r.choice(hb), r.choice(hb)
        neg = r.choice([b"", b"!"])
        out.append(pm_case(b"[" + neg + bytes([lo]) + b"-" + bytes([hi]) + b"]" + r.choice([b"", b"b"]),
                           r.choice([bytes([c]), b"", bytes([c]) + b"b"])))
    return out

def pm_nontrivial(case):
    """pattern contains one of * ? [ \\ / and the subject is not empty"""
    ph, sh = case[4:-1].split(" x")
    return len(sh) > 0 and any(b in META for b in bytes.fromhex(ph))

# ------------------------------------------------------------------ archive_match scenarios
PATS = [b"a", b"b", b"a/b", b"a/", b"*.c", b"a*", b"d/*", b"[ab]", b"[!a]", b"./a", b"b$", b"^a", b"^b/c", b"*", b"a/b/c",
        b"d", b"d/e", b"/a", b"?", b"a?c", b"*b", b"[a-c]x", b"f.c", b"\\a", b"a//b", b"/", b"[!a]b"]
PATHS = [b"a", b"b", b"a/b", b"a/b/c", b"d/e/f.c", b"f.c", b"ab", b"abc", b"d", b"d/e", b"./a", b"a/", b"x/a", b"x/a/b", b"/a",
         b"", b"c", b"bx", b"x/b", b"a//b", b"d/a.c"]
NAMES = [b"root", b"bin", b"u1", b"", b"staff"]

def opt(x):
    return [] if x is None else [x]

def gen_path_scenario(r, literal=False):
    pats = [p for p in PATS if not (set(p) & set(b"*?[\\^$."))] if literal else PATS
    ops = []
    if r.random() < 0.3:
        ops.append([5, r.randrange(2)])
    for _ in range(r.randrange(0, 4)):
        ops.append([0, r.choice(pats), 0 if literal else int(r.random() < 0.2)])
    for _ in range(r.randrange(0, 3)):
        ops.append([1, r.choice(pats), 0 if literal else int(r.random() < 0.2)])
    if r.random() < 0.1:
        ops.append([r.randrange(2), b"", 0])
    r.shuffle(ops)
    for _ in range(r.randrange(1, 10)):
        k = r.random()
        if k < 0.6:
            ops.append([2, r.choice(PATHS)])
        elif k < 0.7:
            ops.append([3])
        elif k < 0.9:
            ops.append([4])
        elif k < 0.95:
            ops.append([0, r.choice(pats), 0])
        else:
            ops.append([5, r.randrange(2)])
    ops += [[3]] + [[4]] * r.randrange(1, 5)
    return vfmt([1, ops])

def gen_owner_scenario(r):
    ops = []
    ids = [0, 1, 5, 7, 1000, 65534, 2**31, 2**40, -1, -5, 2**63 - 1, -2**63]
    for _ in range(r.randrange(0, 14)):
        ops.append([r.choice([6, 6, 7]), r.choice(ids) if r.random() < 0.7 else r.randrange(0, 30)])
    for _ in range(r.randrange(0, 3)):
        ops.append([r.choice([8, 9]), r.choice(NAMES)])
    r.shuffle(ops)
    for _ in range(r.randrange(1, 8)):
        uid = r.choice(ids) if r.random() < 0.6 else r.randrange(0, 30)
        gid = r.choice(ids) if r.random() < 0.6 else r.randrange(0, 30)
        un = None if r.random() < 0.3 else r.choice(NAMES)
        gn = None if r.random() < 0.3 else r.choice(NAMES)
        ops.append([10, max(uid, 0), max(gid, 0), opt(un), opt(gn)])
        if r.random() < 0.2:
            ops.append([6, r.randrange(0, 30)])
    return vfmt([1, ops])

def rand_time(r, ref):
    sec = ref[0] + r.choice([-2, -1, 0, 0, 0, 1, 2]) if r.random() < 0.9 else r.choice([0, -1, 2**40, -2**40])
    nsec = r.choice([0, 1, ref[1], max(ref[1] - 1, 0), min(ref[1] + 1, 999999999), 999999999])
    return sec, nsec

def gen_time_scenario(r, simple=False):
    ref = (r.choice([0, 1, 1000, 1700000000, -5]), r.choice([0, 1, 500, 999999999]))
    ops = []
    cmpf = [NEWER, OLDER, EQUAL, NEWER | EQUAL, OLDER | EQUAL, NEWER | OLDER, NEWER | OLDER | EQUAL]
    for _ in range(1 if simple else r.randrange(0, 4)):
        flag = r.choice([MTIME, CTIME, MTIME | CTIME]) | r.choice(cmpf)
        if not simple and r.random() < 0.1:
            flag = r.choice([0, MTIME, NEWER, 0x400 | MTIME | NEWER, MTIME | NEWER | 4, 0x1000 | NEWER])
        fs, fn = (ref if r.random() < 0.7 else rand_time(r, ref))
        ops.append([11, flag, fs, fn if r.random() < 0.9 else r.choice([-1, 10**9, 2 * 10**9])])
    if not simple:
        for _ in range(r.randrange(0, 3)):
            flag = r.choice([MTIME, CTIME, MTIME | CTIME]) | r.choice(cmpf)
            ms, mn = rand_time(r, ref); cs, cn = rand_time(r, ref)
            ops.append([12, flag, r.choice(PATHS[:6]), ms, mn, cs, cn])
    for _ in range(r.randrange(1, 8)):
        ms, mn = rand_time(r, ref); cs, cn = rand_time(r, ref)
        cset = int(r.random() < 0.7)
        ops.append([13, r.choice(PATHS[:6]), ms, mn, cset, cs if cset else 0, cn if cset else 0])
    return vfmt([1, ops])

def gen_combined_scenario(r):
    ops = []
    for _ in range(r.randrange(0, 3)):
        ops.append([r.choice([0, 1]), r.choice(PATS), 0])
    if r.random() < 0.5:
        ops.append([11, r.choice([MTIME, CTIME]) | r.choice([NEWER, OLDER, EQUAL]), 1000, 5])
    for _ in range(r.randrange(0, 3)):
        ops.append([r.choice([6, 7]), r.randrange(4)])
    if r.random() < 0.3:
        ops.append([r.choice([8, 9]), r.choice(NAMES)])
    for _ in range(r.randrange(1, 6)):
        cset = r.randrange(2)
        ops.append([14, r.choice(PATHS), 1000 + r.choice([-1, 0, 1]), r.choice([4, 5, 6]), cset, 1000 if cset else 0,
                    r.choice([4, 5, 6]) if cset else 0, r.randrange(4), r.randrange(4), opt(r.choice(NAMES + [None])),
                    opt(r.choice(NAMES + [None]))])
        if r.random() < 0.3:
            ops.append([r.choice([3, 4])])
    return vfmt([1, ops])

# ------------------------------------------------------------------ the property, evaluated on the implementation's answers
def lit_match(pat, path, no_start, no_end):
    """documented semantics for a pattern of plain letters and single inner slashes (no leading/trailing slash):
    anchored at the start unless no_start (then at the start of any path element), at the end unless no_end
    (then a pattern naming a directory also matches what is below it); "dir" == "dir/" """
    comps = path.split(b"/")
    for k in (range(len(comps)) if no_start else [0]):
        rest = b"/".join(comps[k:])
        if rest == pat or rest == pat + b"/":
            return True
        if no_end and rest.startswith(pat + b"/"):
            return True
    return False

def scenario_oracle(ops, outs):
    if len(outs) != len(ops):
        return ("C16:match:output-count", "number of results differs from number of archive_match calls")
    literal = all(not (set(o[1]) & set(b"*?[\\^$.")) and not o[1].startswith(b"/") and not o[1].endswith(b"/")
                  and b"//" not in o[1] for o in ops if o[0] in (0, 1)) and all(
                  o[1] and b"//" not in o[1] and not o[1].startswith(b"/") and b"." not in o[1] for o in ops if o[0] == 2)
    if any(o[0] == 14 for o in ops):
        literal = False                   # archive_match_excluded also marks inclusions; not tracked by this oracle
    incl, excl, rec = [], [], True       # incl: [pattern (as stored: one trailing '/' dropped), matched]
    uids, gids, unames, gnames = set(), set(), [], []
    tf = {}                               # (which, 'newer'|'older') -> (flag, sec, nsec)
    files, simple_time = False, True
    for op, out in zip(ops, outs):
        k = op[0]
        if k in (0, 1):
            if (out == 0) != (len(op[1]) > 0):
                return ("C16:match:empty-pattern", "include/exclude_pattern(%r) returned %d" % (op[1], out))
            if out == 0:
                (incl if k == 0 else excl).append([op[1][:-1] if op[1].endswith(b"/") else op[1], False])
        elif k == 5:
            rec = bool(op[1])
        elif k == 2 and literal:
            if not incl and not excl:
                want = 0
            else:
                hit = False
                for m in incl:
                    if lit_match(m[0], op[1], False, rec):
                        hit = True
                        m[1] = True
                if any(lit_match(m[0], op[1], True, True) for m in excl):
                    want = 1              # exclusions win over inclusions
                elif hit or not incl:
                    want = 0
                else:
                    want = 1
            if out != want:
                return ("C16:match:path-verdict", "path_excluded(%r) = %d, documented semantics give %d (inclusions %r, "
                        "exclusions %r, recursion %s)" % (op[1], out, want, [m[0] for m in incl], [m[0] for m in excl], rec))
        elif k == 3:
            if out < 0 or out > len(incl):
                return ("C16:match:unmatched-count", "unmatched inclusion count %d with %d inclusions" % (out, len(incl)))
            if literal and out != sum(1 for m in incl if not m[1]):
                return ("C16:match:unmatched-count", "unmatched inclusion count %d, expected %d" %
                        (out, sum(1 for m in incl if not m[1])))
        elif k == 4:
            r, p = out[0], out[1]
            if r == 0 and (not p or p[0] not in [m[0] for m in incl]):
                return ("C16:match:unmatched-next", "iterator returned %r which is not an inclusion pattern" % (p,))
            if literal and r == 0 and p[0] in [m[0] for m in incl if m[1]] and p[0] not in [m[0] for m in incl if not m[1]]:
                return ("C16:match:unmatched-next", "iterator returned the matched inclusion %r" % (p[0],))
        elif k == 6:
            uids.add(op[1])
        elif k == 7:
            gids.add(op[1])
        elif k == 8:
            unames.append(op[1])
        elif k == 9:
            gnames.append(op[1])
        elif k == 10:
            if not (uids or gids or unames or gnames):
                want = 0
            else:
                un = op[3][0] if op[3] else None
                gn = op[4][0] if op[4] else None
                want = int((bool(uids) and op[1] not in uids) or (bool(gids) and op[2] not in gids) or
                           (bool(unames) and not (un and un in unames)) or (bool(gnames) and not (gn and gn in gnames)))
            if out != want:
                return ("C16:match:owner-verdict", "owner_excluded(uid %d, gid %d, %r, %r) = %d, expected %d with uids %s gids %s "
                        "unames %r gnames %r" % (op[1], op[2], op[3], op[4], out, want, sorted(uids), sorted(gids), unames, gnames))
        elif k == 11:
            flag = op[1]
            valid = (flag & 0xfc00) == 0 and (flag & 0x300) != 0 and (flag & 0xec) == 0 and (flag & 0x13) != 0
            if (out == 0) != valid:
                return ("C16:match:time-flag", "include_time(flag %#x) returned %d" % (flag, out))
            if valid:
                cmpb = flag & 0x13
                for which, bit in (("m", MTIME), ("c", CTIME)):
                    if flag & bit:
                        if (cmpb & NEWER) or cmpb == EQUAL:
                            tf[(which, "newer")] = (flag, op[2], op[3])
                        if (cmpb & OLDER) or cmpb == EQUAL:
                            tf[(which, "older")] = (flag, op[2], op[3])
        elif k == 12:
            files = True
        elif k == 13 and not files:
            mt = (op[2], op[3])
            ct = (op[5], op[6]) if op[4] else mt
            want = 0
            for (which, side), (flag, fs, fn) in tf.items():
                t = mt if which == "m" else ct
                ref = (fs, fn)
                if side == "newer":
                    bad = t < ref or (t == ref and not flag & EQUAL)
                else:
                    bad = t > ref or (t == ref and not flag & EQUAL)
                if bad:
                    want = 1
            if out != want:
                return ("C16:match:time-verdict", "time_excluded(mtime %r, ctime %r) = %d, newer/older/equal table gives %d "
                        "(filters %r)" % (mt, (op[5], op[6]) if op[4] else None, out, want, tf))
    return None

def doc_class_match(body, ch):
    """membership of byte ch in a class body, written from the documentation comment above pm_list()
    (not from its code): leading ! or ^ negates; <char>-<char> is a range; \\<char> is literal; a '-' that is
    initial, trailing or follows a completed range is a single character; comparisons are on signed chars"""
    sc = lambda b: b - 256 if b >= 128 else b
    i, n, neg = 0, len(body), False
    if n and body[0] in b"!^":
        neg, i = True, 1
    hit = False
    while i < n:
        c = body[i]
        can_start = True
        if c == 0x5c and i + 1 < n:
            lit = body[i + 1]; i += 2
        else:
            lit = c; i += 1
            if c == 0x2d:
                can_start = False        # an unescaped '-' that is not part of a range is just a character
        if can_start and i < n - 1 and body[i] == 0x2d:
            j = i + 1
            end = body[j]
            if end == 0x5c and j + 1 < n:
                j += 1; end = body[j]
            if sc(lit) <= sc(ch) <= sc(end) or lit == ch:
                hit = True
            i = j + 1
            # what follows a completed range starts afresh: a '-' here is literal
            if i < n and body[i] == 0x2d:
                if ch == 0x2d:
                    hit = True
                i += 1
        elif lit == ch:
            hit = True
    return hit != neg

def class_semantics_cases(r, n):
    """single-class patterns against single characters, incl. range-dash-char shapes like [a-c-e]"""
    out = []
    alpha = b"abcdefxyz09-_"
    for _ in range(n):
        k = r.randrange(6)
        a, b, c = sorted(r.sample(list(b"abcdefghij0123456789"), 3))
        if k == 0:
            body = bytes([a, 0x2d, b, 0x2d, c])
        elif k == 1:
            body = bytes([r.choice(b"!^"), a, 0x2d, b, 0x2d, c])
        elif k == 2:
            body = bytes([a, 0x2d, b]) + bytes([r.choice(alpha)]) + bytes([0x2d, c])
        elif k == 3:
            body = bytes([0x2d, a, 0x2d, b, 0x2d])
        elif k == 4:
            body = bytes([a, 0x2d, b, c, 0x2d, c + 1, 0x2d, 0x5f])
        else:
            body = bytes(r.choice(alpha) for _ in range(r.randrange(1, 7)))
        for ch in set([a, b, c, 0x2d, a + 1 if a + 1 < 128 else a, c + 1, 0x5f, r.choice(alpha)]):
            out.append(pm_case(b"[" + body + b"]", bytes([ch])))
    return out

def oracle(case_line, impl_line):
    if impl_line.startswith(CRASH):
        try:
            v = vparse(impl_line)
            kind, func = v[1].decode(), v[2].decode()
        except Exception:
            kind, func = "crash", "unknown"
        what = {"heap-buffer-overflow": "oob-read", "stack-buffer-overflow": "oob-read", "global-buffer-overflow": "oob-read",
                "heap-use-after-free": "use-after-free"}.get(kind, kind)
        c = vparse(case_line)
        if c[0] == 0:
            desc = "__archive_pathmatch(%r, %r, flags 0..3) with both strings in exact-size heap blocks: ASan %s in %s()" % (
                c[1], c[2], kind, func)
        else:
            desc = "archive_match_* scenario: sanitizer report %s in %s()" % (kind, func)
        return ("C16:%s:%s" % (what, func), desc)
    if impl_line.startswith("(x534b4950504544"):
        return None                       # (xSKIPPED): the harness stopped running cases after too many crashes
    if case_line.startswith("(0 "):
        # ((n0 n1 n2 n3) (w0 w1 w2 w3))
        a, _, b = impl_line[2:-2].partition(") (")
        if a != b:
            c = vparse(case_line)
            return ("C16:narrow-wide", "__archive_pathmatch(%r, %r) = %s but __archive_pathmatch_w = %s (flags 0..3)" %
                    (c[1], c[2], a, b))
        c = vparse(case_line)
        pat, sub = c[1], c[2]
        if (len(sub) == 1 and len(pat) >= 3 and pat[:1] == b"[" and pat[-1:] == b"]" and b"]" not in pat[1:-1]
                and b"[" not in pat[1:-1] and not pat.endswith(b"\\]") and sub not in (b"/",) and 0 not in pat):
            want = 1 if doc_class_match(pat[1:-1], sub[0]) else 0
            got = int(a.split()[0], 16)
            if got != want:
                return ("C16:class-semantics", "__archive_pathmatch(%r, %r, 0) = %d but the documented class semantics give %d" %
                        (pat, sub, got, want))
        return None
    try:
        ops = vparse(case_line)[1]
        outs = vparse(impl_line)
    except Exception:
        return ("C16:unparsable-output", "harness output not parsable")
    return scenario_oracle(ops, outs)

# ------------------------------------------------------------------ libarchive's own test table
def suite_assertions():
    """(expected, pattern, subject, flags) of every assertEqualInt(.., archive_pathmatch(..)) line of
    libarchive/test/test_archive_pathmatch.c of the tree under test (NULL subjects are skipped)"""
    import re
    path = os.path.join(vlib.REPO, "libarchive", "test", "test_archive_pathmatch.c")
    src = open(path, errors="replace").read()
    out = []
    def unq(s):
        return bytes(s, "latin-1").decode("unicode_escape").encode("latin-1").split(b"\0")[0]
    for m in re.finditer(r'assertEqualInt\(\s*([01])\s*,\s*archive_pathmatch(_w)?\(\s*L?"((?:[^"\\]|\\.)*)"\s*,\s*'
                         r'L?"((?:[^"\\]|\\.)*)"\s*,\s*([A-Z_| 0]+)\)\)', src):
        fl = 0
        for tok in m.group(5).split("|"):
            fl |= {"0": 0, "PATHMATCH_NO_ANCHOR_START": 1, "PATHMATCH_NO_ANCHOR_END": 2}[tok.strip()]
        out.append((int(m.group(1)), unq(m.group(3)), unq(m.group(4)), fl))
    return out

def check_suite_table(rep, runner, exe):
    """the assertions of the tree's own unit test must hold of the implementation and of the model"""
    tab = suite_assertions()
    cases = [pm_case(p, s) for _, p, s, _ in tab]
    path = vlib.write_cases(cases, "suite.cases")
    bad = []
    for who, prog in (("implementation", exe), ("model", runner)):
        rc, lines, err = vlib.run_exe(prog, path)
        if len(lines) != len(cases):
            bad.append("%s did not answer every suite case" % who)
            continue
        for (exp, p, s, fl), line in zip(tab, lines):
            if line.startswith(CRASH):
                continue        # reported by the correspondence run
            got = vparse(line)[0][fl]
            if got != exp:
                bad.append("%s: archive_pathmatch(%r, %r, %d) = %d, test_archive_pathmatch.c asserts %d" % (who, p, s, fl, got, exp))
    if bad:
        rep.violation("C16:suite-table", "; ".join(bad[:3]), dict(disagreements=bad[:20], suite_table=True,
                      cmd="every archive_pathmatch assertion of libarchive/test/test_archive_pathmatch.c through harness and model"),
                      found_input=True)
    if len(tab) < 100:
        rep.notes.append("only %d assertions could be read from test_archive_pathmatch.c" % len(tab))
    return len(tab), cases

# ------------------------------------------------------------------ run
def build():
    runner = vlib.build_runner("pathmatch")
    exe = vlib.compile_harness("pathmatch", "asan", private=True)
    return runner, exe

def chunks(it, n):
    buf = []
    for x in it:
        buf.append(x)
        if len(buf) >= n:
            yield buf
            buf = []
    if buf:
        yield buf

def run(rep):
    pr = vlib.proof_part(rep, "C16", translators=["gen_pathmatch"])
    runner, exe = build()
    r = vlib.rng(rep.seed, "C16")
    quick = rep.tier == "quick"
    fams = FAMILIES_QUICK if quick else FAMILIES_THOROUGH
    corpus = vlib.load_corpus("C16")
    witness = [pm_case(b"[!a]b", b""), pm_case(b"[!]", b""), pm_case(b"a[^b]", b"a"), pm_case(b"*[!a]", b"b")]
    ntab, suite = check_suite_table(rep, runner, exe)
    # hand-made tables and random pairs (deduplicated; the ones that fall into an exhaustive family are dropped)
    loose, seen = [], set()
    for c in (corpus + witness + suite + class_at_end_cases() + class_semantics_cases(r, 300 if quick else 5000) + highbyte_cases(r, 300 if quick else 5000) +
              [pm_case(*rand_pair(r)) for _ in range(60000 if quick else 1200000)]):
        if c in seen:
            continue
        seen.add(c)
        ph, sh = c[4:-1].split(" x")
        if c.startswith("(0 ") and in_family(bytes.fromhex(ph), bytes.fromhex(sh), fams) and c not in witness:
            continue
        loose.append(c)
    stats = dict(name="pathmatch", cases=0, agree=0, disagree=0, oracle_hits=0)
    nontriv = 0
    def feed(cases):
        nonlocal nontriv
        st = vlib.correspond(rep, "pathmatch", runner, exe, cases, oracle=oracle, timeout=3000)
        for k in ("cases", "agree", "disagree", "oracle_hits"):
            stats[k] += st[k]
        nontriv += sum(1 for c in cases if pm_nontrivial(c))
    feed(loose)
    fam_sizes = {}
    for name, ap, pl, as_, sl in fams:
        n0 = stats["cases"]
        for ch in chunks(exhaustive(ap, pl, as_, sl), 600000):
            feed(ch)
        fam_sizes[name] = stats["cases"] - n0
    n = 1500 if quick else 30000
    sc = ([gen_path_scenario(r) for _ in range(n)] + [gen_path_scenario(r, literal=True) for _ in range(n)] +
          [gen_owner_scenario(r) for _ in range(n // 2)] + [gen_time_scenario(r) for _ in range(n // 2)] +
          [gen_time_scenario(r, simple=True) for _ in range(n // 2)] + [gen_combined_scenario(r) for _ in range(n // 2)])
    sc = list(dict.fromkeys(sc))
    st2 = vlib.correspond(rep, "match", runner, exe, sc, oracle=oracle, timeout=3000)
    rep.coverage.update(
        evaluations=stats["cases"] + len(sc),
        distinct_nontrivial=nontriv + len(sc),
        rule="distinct (pattern, subject) pairs, each run with flags 0,1,2,3 through __archive_pathmatch and __archive_pathmatch_w "
             "with both strings in exact-size heap blocks under ASan.  Disjoint exhaustive families over the alphabet "
             "'*?[]!^-\\/.$ab' (A: |p|<=3 x |s|<=2, B: |p|=4 x |s|<=1%s) and over the class alphabet '[]!-\\a' (C: |p|=5 x |s|<=1%s); "
             "plus, outside those families and deduplicated: a class-at-end-of-pattern table, ranges with bytes >= 0x80, random "
             "structured pairs up to 24 bytes (subject = perturbed/truncated instantiation of the pattern; patterns longer than the "
             "subject), and the %d assertions of the tree's test_archive_pathmatch.c.  Plus distinct archive_match_* scenarios "
             "(patterns, owners, times, combined).  Non-trivial pathmatch pair = the pattern contains one of * ? [ \\ / and the "
             "subject is not empty; every scenario counts as non-trivial (it makes at least one verdict call).  Exhaustive to "
             "|p|=4 x |s|=4 as planned in DESIGN.md is 8e8 pairs and was not attempted." %
             ("" if quick else ", D: |p|=4 x |s|=2, F: |p|<=3 x |s|=3", "" if quick else ", E: |p|=6 x |s|<=1", ntab),
        family_sizes=fam_sizes, loose_cases=len(loose),
        samples=[witness[0], loose[len(loose) // 2], loose[-1], sc[0][:300], sc[-1][:300]],
        traces_validated_against_impl=stats["agree"] + st2["agree"],
        correspondence=[stats, st2], suite_assertions_checked=ntab)
    rep.assumptions += [
        "char is signed (x86-64): only the range test of pm_list depends on it; the wide strings are the narrow ones converted "
        "by the C conversion char -> wchar_t",
        "strings contain no NUL byte and are never NULL (the NULL-pointer tests of __archive_pathmatch are not modelled)",
        "`--p; --s;` followed by `++p; ++s;` in `case '/'` of pm() is modelled as no movement",
        "owner-id arrays hold fewer than 2^31 ids (unsigned index arithmetic of match_owner_id); allocation failures are not modelled",
        "entry times handed to archive_entry_set_mtime/ctime have 0 <= nsec < 10^9 (the setter normalises others); entry uid/gid >= 0 "
        "(the setters clamp negatives)",
        "date-string and file-based time filters (archive_match_include_date, _file_time), patterns read from files and the _w "
        "variants of the owner-name calls are not covered",
        "the harness frees archive.error_string itself before archive_match_free (which leaks it after a rejected call); that leak "
        "is outside this property",
        "the model mirrors the tree's `case '['` shape through translators/gen_pathmatch.py (class_guard); the in-bounds theorem "
        "is for class_guard = true and Properties_C16.v checks that the tree has it",
    ]
    vlib.proof_verdict(rep, "C16", pr)

def replay(rep, path):
    import json
    d = json.load(open(path))
    case = d["replay"].get("case")
    vlib.run_translators(["gen_pathmatch"])
    runner, exe = build()
    n = 0
    if d["replay"].get("suite_table"):
        n, _ = check_suite_table(rep, runner, exe)
    if case:
        vlib.correspond(rep, "match" if case.startswith("(1 ") else "pathmatch", runner, exe, [case], oracle=oracle)
        n += 1
    rep.coverage.update(evaluations=n, distinct_nontrivial=n, samples=[case] if case else [])
