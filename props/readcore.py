"""Shared pieces of the reader checks C01 / C05 / C08: script generators for the read-core model
(correspondence with harness/readCore.c), archive corpus (suite reference archives + output of the
real writers via harness/mkArchive.c), and helpers around harness/readAll.c."""
import re
import os, glob, binascii, hashlib
import vlib
from vlib import vfmt, vparse

FATAL = -30
AE_IFREG, AE_IFDIR, AE_IFLNK = 0o100000, 0o040000, 0o120000

# ------------------------------------------------------------------ read-core scripts
PART_SIZES = [1, 2, 3, 7, 511, 512, 513, 10240, 65536]

def gen_partition(r, n):
    """read-callback plan for n bytes: list of (0 size) items; [] = whole"""
    k = r.randrange(6)
    if k == 0:
        return []
    if k == 1:
        sz = r.choice(PART_SIZES)
        return [[0, sz]] * (n // sz + 2)
    if k == 2:
        sz = r.choice([1, 2, 3])
        return [[0, sz]] * (n // sz + 2)
    out, left = [], n
    while left > 0 and len(out) < 400:
        sz = r.choice([1, 1, 2, 3, 5, 8, 13, 64, 200, 1000])
        out.append([0, sz]); left -= sz
    return out

def gen_ops(r, n, allow_seek, nops=None):
    """script over an n-byte stream; mostly valid, tracks the abstract position"""
    ops, pos = [], 0
    nops = nops if nops is not None else r.randrange(1, 30)
    for _ in range(nops):
        left = n - pos
        c = r.random()
        if c < 0.5:
            m = r.choice([0, 1, 1, 2, 3, 4, 7, 8, 16, 30, 64, 100, 512, 513, 5000, left, left + 1, max(left - 1, 0)])
            ops.append([0, m])
        elif c < 0.92 or not allow_seek:
            if r.random() < 0.85:
                k = r.choice([0, 1, 1, 2, 3, 5, 10, 17, 100, left, left // 2])
                k = min(k, left)
            else:
                k = r.choice([left + 1, left + 100, -1, 70000])
            ops.append([1, k])
            if 0 <= k <= left:
                pos += k
            elif k > left:
                pos = n
        else:
            wh = r.choice([0, 0, 1, 2])
            if wh == 0:
                off = r.choice([0, 1, n // 2, n, n + 5, -1, r.randrange(0, n + 1)])
            elif wh == 1:
                off = r.choice([0, 1, -1, -pos, n - pos, 5, -3])
            else:
                off = r.choice([0, -1, -n, -n - 3, 2, -(n // 2)])
            ops.append([2, off, wh])
            # position after a successful seek (clamped by the client); errors leave it alone
            t = (0 if wh == 0 else pos if wh == 1 else n) + off
            if wh == 2 and n + off < 0:
                t = 2 * n + off
            if wh in (0, 1) and (t < 0 or t > n):
                pass
            else:
                pos = min(max(t, 0), n)
    return ops

def gen_boundary_case(r):
    """aimed at the case split of read-ahead: copy buffer non-empty and its bytes still inside the current
    client block (roll-back), copy buffer compaction, buffer growth, request satisfied exactly at a block end"""
    p = r.choice([4, 5, 7, 10, 16, 50, 100])
    nblk = r.randrange(3, 12)
    n = p * nblk + r.randrange(0, p)
    data = bytes(r.randrange(256) for _ in range(n))
    ops, pos = [], 0
    for _ in range(r.randrange(2, 8)):
        k = r.randrange(1, p)              # spill into the next block
        j = r.randrange(1, k + 1)          # bytes left in the copy buffer afterwards (<= bytes taken from the block)
        t = r.randrange(0, max(1, p - k))  # next request still fits in the current block
        a1 = p - (pos % p) + k             # reaches k bytes into the next block
        ops.append([0, a1])
        ops.append([1, a1 - j])
        pos += a1 - j
        ops.append([0, j + t])
        if r.random() < 0.5:
            ops.append([0, r.choice([1, j, j + t + 1, p, 2 * p + 1, 3 * p])])
        c = r.randrange(0, j + 1)
        ops.append([1, c]); pos += c
        if pos > n - 3 * p:
            break
    rplan = [[0, p]] * (nblk + 2)
    return vfmt([data, rplan, [], [], 0, 0, ops])

def gen_core_case(r, faults=False):
    n = r.choice([0, 1, 2, 5, 20, 20, 64, 100, 300, 700, 1500, 70000 if r.random() < 0.05 else 40])
    data = bytes((i * 7 + 13 * (i >> 8)) & 0xff for i in range(n)) if n > 2000 else bytes(r.randrange(256) for _ in range(n))
    has_skip = r.random() < 0.4
    has_seek = r.random() < 0.4
    rplan = gen_partition(r, n)
    splan, kplan = [], []
    if faults:
        rplan = list(rplan)
        c = r.random()
        if c < 0.45 and len(rplan) >= 0:
            idx = r.randrange(0, min(len(rplan), 12) + 1)
            rplan = rplan[:idx] + [r.choice([[1], [2]])] + rplan[idx:]
        if has_skip and r.random() < 0.7:
            for _ in range(r.randrange(1, 4)):
                splan.append(r.choice([[0, 0], [0, 1], [0, 7], [0, 100], [1, -30], [1, -1], [1, 0], [1, 10**6]]))
        if has_seek and r.random() < 0.5:
            kplan = [[0]] * r.randrange(0, 4) + [[1, r.choice([-1, -25, -30])]]
    elif has_skip and r.random() < 0.5:
        splan = [[0, r.choice([0, 1, 3, 64, 1000])] for _ in range(r.randrange(1, 4))]
    ops = gen_ops(r, n, has_seek)
    return vfmt([data, rplan, splan, kplan, int(has_skip), int(has_seek), ops])

def gen_seekskip_case(r, faults=False):
    """client with a seek callback and no skip callback, stream larger than 64 KiB: consume() of more than
    64 KiB goes through the seeker-as-skipper branch of client_skip_proxy; requests inside, ending exactly at and
    reaching beyond the end of the stream"""
    n = r.choice([65537, 66000, 70000, 131073, 200000])
    data = bytes((i * 7 + 13 * (i >> 8)) & 0xff for i in range(n))
    rplan = [[0, r.choice([1000, 4096, 10240, 65536, 70000])]] * 4 + [[0, r.choice([512, 4096, 65536])]] * 40
    ops, pos = [], 0
    for _ in range(r.randrange(2, 7)):
        left = n - pos
        c = r.random()
        if c < 0.35:
            ops.append([0, r.choice([1, 2, 100, 512])])
        else:
            k = r.choice([65537, 65536, 66000, left, left - 1, left + 1, left + 70000, 70000, 1000])
            if k < 0:
                k = 0
            ops.append([1, k])
            pos = min(n, pos + k) if k <= left else n
    kplan = []
    if faults and r.random() < 0.6:
        kplan = [[0]] * r.randrange(0, 5) + [[1, r.choice([-1, -25, -30])]]
    return vfmt([data, rplan, [], kplan, 0, 1, ops])

def core_oracle_c01(case_line, impl_line):
    """memory/abstraction safety of the core evaluated on the real outputs alone: every window is
    exactly the stream at the reported position, at least min long; results lie in the documented
    sets.  Only for fault-free scripts (faulty clients legitimately move the source)."""
    data, rplan, splan, kplan, hs, hk, ops = vparse(case_line)
    if any(x[0] != 0 for x in rplan) or any(x[0] != 0 for x in splan) or kplan:
        return None
    try:
        outs, flag = vparse(impl_line)
    except Exception:
        return ("C01:core:unparsable", "unparsable harness output")
    pos = 0
    for op, out in zip(ops, outs):
        if op[0] == 0:
            res, p = out[1], out[2]
            if res[0] == 1:
                w = res[1]
                if len(w) < op[1]:
                    return ("C01:core:short-window", "read-ahead returned %d bytes for min=%d" % (len(w), op[1]))
                if w != data[p:p + len(w)]:
                    return ("C01:core:window-content", "window is not the stream at position %d (bytes outside what the client supplied)" % p)
            else:
                if res[1] not in (FATAL,) and not (0 <= res[1] < max(op[1], 1)):
                    return ("C01:core:null-avail", "NULL with avail=%d for min=%d" % (res[1], op[1]))
        elif op[0] == 1:
            if out[1] not in (op[1], FATAL):
                return ("C01:core:consume-result", "consume(%d) returned %d" % (op[1], out[1]))
    return None

def core_observation(case_line, impl_line):
    """what a parser can observe: first min bytes of each window / NULL count, consume and seek
    results, positions"""
    data, rplan, splan, kplan, hs, hk, ops = vparse(case_line)
    outs, flag = vparse(impl_line)
    obs = []
    for op, out in zip(ops, outs):
        if op[0] == 0:
            res = out[1]
            if op[1] == 0:
                # min = 0: NULL/0 or a window of whatever is buffered - depends on the buffering state by
                # design of the call (no libarchive parser asks for 0 bytes); only the position is compared
                obs.append((0, None, out[2]))
            else:
                obs.append((0, res[1][:op[1]] if res[0] == 1 else res[1], out[2]))
        else:
            obs.append((op[0], out[1], out[2]))
            if op[0] == 2 and out[1] < 0:
                # a refused/failed seek leaves the byte source wherever the size probe put it: what follows is the
                # error path of a reader, not the reading of a well-formed archive; stop comparing here
                break
    return obs

# ------------------------------------------------------------------ archive corpus
def uudecode(path):
    out = bytearray()
    started = False
    with open(path, "rb") as f:
        for line in f:
            if not started:
                if line.startswith(b"begin "):
                    started = True
                continue
            if line.strip() == b"end":
                break
            if line.strip() in (b"`", b""):
                continue
            try:
                out += binascii.a2b_uu(line)
            except binascii.Error:
                # some encoders pad lines; decode leniently
                nbytes = (((line[0] - 32) & 63) * 4 + 5) // 3
                try:
                    out += binascii.a2b_uu(line[:nbytes + 1] + b"\n")
                except binascii.Error:
                    return None
    return bytes(out) if started else None

# always part of a sampled corpus: decoders with state carried from one decode call to the next (branch converters,
# solid blocks, old-format sparse maps with extension blocks) - what they deliver must not depend on the call pattern
MUST_REFS = re.compile(r"test_read_format_7zip_(bcj|bcj2|deflate|lzma\d?|zstd|bzip2|ppmd)_?\w*\.7z$|test_read_format_gtar_sparse_1_1[37]|"
                       r"test_read_format_rar_(ppmd_lzss|multi_lzss|compress_best)|test_read_format_cab_[123]|test_read_format_lha_lh[067]|"
                       r"test_read_format_zip_(lzma|xz|ppmd8|bzip2|zstd)\w*\.zipx$|test_read_format_zip_7z_lzma|test_read_format_zip_lzma_multi")

def reference_archives(max_size, limit=None):
    """(name, bytes) of the suite's reference archives up to max_size, deterministic order"""
    res = []
    for p in sorted(glob.glob(os.path.join(vlib.REPO, "libarchive", "test", "*.uu"))):
        if os.path.getsize(p) > max_size * 1.5:
            continue
        b = uudecode(p)
        if b is None or len(b) == 0 or len(b) > max_size:
            continue
        res.append((os.path.basename(p)[:-3], b))
    if limit:
        # spread over the alphabet (= over formats), plus the archives that must always be there
        step = max(1, len(res) // limit)
        keep = res[::step][:limit]
        names = set(n for n, _ in keep)
        keep += [(n, b) for n, b in res if MUST_REFS.search(n) and n not in names and len(b) <= 120000]
        res = keep
    return res

def decompressed_images(max_size=600000):
    """the suite keeps its ISO images compressed (.iso.Z, .iso.bz2 ...): behind the decompression filter the format reader
    only ever sees 64 KiB blocks.  Here they are decompressed first (with the bsdcat of this build), so that the
    partitions of the byte source reach the format reader itself."""
    import bz2, gzip
    res = []
    for n, b in reference_archives(60000):
        m = re.search(r"\.iso\.(Z|bz2|gz)$", n)
        if not m:
            continue
        try:
            raw = unlzw(b) if m.group(1) == "Z" else bz2.decompress(b) if m.group(1) == "bz2" else gzip.decompress(b)
        except Exception:
            continue
        if 0 < len(raw) <= max_size:
            res.append(("raw:" + n, raw))
    return res

def unlzw(data):
    """compress(1) .Z decoder (independent of libarchive), used only to prepare inputs"""
    if len(data) < 3 or data[0] != 0x1f or data[1] != 0x9d:
        raise ValueError("not .Z")
    maxbits, block = data[2] & 0x1f, bool(data[2] & 0x80)
    table = {i: bytes([i]) for i in range(256)}
    nxt = 257 if block else 256
    bits, out, prev = 9, bytearray(), None
    pos, n = 24, len(data) * 8            # bit position
    base = 24
    while pos + bits <= n:
        code = 0
        for k in range(bits):
            code |= ((data[(pos + k) >> 3] >> ((pos + k) & 7)) & 1) << k
        pos += bits
        if block and code == 256:
            # codes come in groups of 8: skip to the next group boundary, start over with 9 bits
            grp = bits * 8
            pos = base + ((pos - base + grp - 1) // grp) * grp
            base = pos
            table = {i: bytes([i]) for i in range(256)}
            nxt, bits, prev = 257, 9, None
            continue
        if code in table:
            cur = table[code]
        elif prev is not None and code == nxt:
            cur = prev + prev[:1]
        else:
            raise ValueError("bad code")
        out += cur
        if prev is not None and nxt < (1 << maxbits):
            table[nxt] = prev + cur[:1]
            nxt += 1
            if nxt > (1 << bits) - 1 + (1 if bits == maxbits else 0) and bits < maxbits:
                grp = bits * 8
                pos = base + ((pos - base + grp - 1) // grp) * grp
                base = pos
                bits += 1
        prev = cur
    return bytes(out)

def replicated_archives(times=160):
    """small LHA references repeated until they are larger than what the format bidders pull into the copy buffer
    (about 48 KiB): members far behind the start are then parsed straight from the client's blocks, with block
    borders at every offset of a member as the copies go by.  (LHA members simply follow one another; the zero
    byte that ends the archive is moved behind the last copy.)"""
    res = []
    for n, b in reference_archives(8000):
        if n.endswith(".lzh") and ("lha_lh" in n or "lha_header" in n) and not "withjunk" in n:
            body = b.rstrip(b"\0")
            if 100 < len(body) < 2000:
                res.append(("rep:%s*%d" % (n, times), body * times + b"\0"))
    return res

STD_ENTRIES = [
    ["d", AE_IFDIR, 0o755, 1000, 1000, 86400 * 365, b"", b"", b"", 0, []],
    ["d/alpha.txt", AE_IFREG, 0o644, 1000, 1000, 86400 * 365 + 7, bytes((i * 31 + 7) & 0xff for i in range(1537)), b"", b"", 600, []],
    ["empty", AE_IFREG, 0o600, 0, 0, 1, b"", b"", b"", 0, []],
    ["d/beta", AE_IFREG, 0o755, 65534, 100, 2**31 - 1, b"hello, world\n" * 40, b"", b"", 0, []],
    ["sym", AE_IFLNK, 0o777, 1000, 1000, 5, b"", b"d/alpha.txt", b"", 0, []],
]
FLAT_ENTRIES = [
    ["alpha.o", AE_IFREG, 0o644, 10, 20, 1000000, bytes((i * 31 + 7) & 0xff for i in range(1537)), b"", b"", 600, []],
    ["b.txt", AE_IFREG, 0o600, 0, 0, 12345, b"hello, world\n" * 40, b"", b"", 0, []],
]
# bodies larger than 64 KiB: skipping them goes through client_skip_proxy's large-request paths
BIG_ENTRIES = [
    ["big/one", AE_IFREG, 0o644, 1, 2, 1000, bytes((i * 7 + 13 * (i >> 8)) & 0xff for i in range(70001)), b"", b"", 0, []],
    ["big/two", AE_IFREG, 0o644, 1, 2, 1001, bytes((i * 11 + 3 * (i >> 8)) & 0xff for i in range(150000)), b"", b"", 0, []],
    ["big/three", AE_IFREG, 0o600, 1, 2, 1002, b"tail\n" * 30, b"", b"", 0, []],
]
# a sparse file (GNU sparse 1.0 map in the pax writer's output: decimal text lines in front of the data) and a
# plain entry after it
SPARSE_ENTRIES = [
    ["sp/holes.bin", AE_IFREG, 0o644, 1, 2, 2000, bytes((i * 13 + 5) & 0xff for i in range(40000)), b"", b"", 0,
     [[512, 1000], [9000, 1024], [20000, 512], [30000, 7], [39000, 1000]]],
    ["sp/after.txt", AE_IFREG, 0o600, 1, 2, 2001, b"after the sparse file\n", b"", b"", 0, []],
]
# incompressible body: fills the dictionaries/tables of the decoders (LZW code table reset, several lz4/zstd/xz
# blocks, deflate stored blocks), followed by a small entry that must still be found
import random as _random
_rnd = _random.Random(20261001)
BIGR_ENTRIES = [
    ["rnd/noise.bin", AE_IFREG, 0o644, 1, 2, 3000, bytes(_rnd.getrandbits(8) for _ in range(180000)), b"", b"", 7001, []],
    ["rnd/after.txt", AE_IFREG, 0o600, 1, 2, 3001, b"after the noise\n" * 3, b"", b"", 0, []],
]
# names and link targets longer than the fixed header fields: GNU 'L'/'K' records, pax extended headers, ustar
# prefix splitting, cpio/zip variable-length names
LONG_ENTRIES = [
    ["long/" + "n" * 95 + "/" + "m" * 200 + "/" + "k" * 120 + ".txt", AE_IFREG, 0o644, 1, 2, 4000, b"long name body\n" * 5, b"", b"", 0, []],
    ["long/link", AE_IFLNK, 0o777, 1, 2, 4001, b"", b"t" * 90 + b"/" + b"u" * 210, b"", 0, []],
    ["long/short.txt", AE_IFREG, 0o600, 1, 2, 4002, b"short\n", b"", b"", 0, []],
]
# members with extended attributes of a few hundred incompressible bytes each (xar and pax store them apart from the body)
XATTR_ENTRIES = [
    ["xa/f%02d" % k, AE_IFREG, 0o644, 1, 2, 5000 + k, bytes((k * 7 + i * 13) & 0xff for i in range(300 + 37 * k)), b"", b"", 0, [],
     [["user.a", bytes((i * i + 11 * k + (i >> 3)) & 0xff for i in range(200 + 61 * k))], ["user.b%d" % k, bytes((i * 29 + k) & 0xff for i in range(97))]]]
    for k in range(9)
]
WRITER_SPECS = [
    ("ustar", "", "", STD_ENTRIES), ("pax", "", "", STD_ENTRIES), ("paxr", "", "", STD_ENTRIES),
    ("gnutar", "", "", STD_ENTRIES), ("v7tar", "", "", STD_ENTRIES),
    ("cpio", "", "", STD_ENTRIES), ("newc", "", "", STD_ENTRIES), ("bin", "", "", STD_ENTRIES),
    ("zip", "", "", STD_ENTRIES), ("zip", "", "zip:compression=store", STD_ENTRIES),
    ("7zip", "", "", STD_ENTRIES), ("xar", "", "", STD_ENTRIES), ("iso9660", "", "", STD_ENTRIES),
    ("arbsd", "", "", FLAT_ENTRIES), ("arsvr4", "", "", FLAT_ENTRIES),
    ("mtree", "", "", STD_ENTRIES), ("warc", "", "", FLAT_ENTRIES), ("raw", "", "", FLAT_ENTRIES[:1]),
    ("ustar", "gzip", "", STD_ENTRIES), ("pax", "bzip2", "", STD_ENTRIES), ("newc", "xz", "", STD_ENTRIES),
    ("ustar", "zstd", "", STD_ENTRIES), ("ustar", "lz4", "", STD_ENTRIES), ("cpio", "compress", "", STD_ENTRIES),
    ("ustar", "uuencode", "", STD_ENTRIES), ("ustar", "b64encode", "", STD_ENTRIES), ("gnutar", "lzip", "", STD_ENTRIES),
    ("ustar", "lzma", "", STD_ENTRIES),
    ("ustar", "", "", BIG_ENTRIES), ("newc", "", "", BIG_ENTRIES), ("zip", "", "zip:compression=store", BIG_ENTRIES),
    ("pax", "gzip", "", BIG_ENTRIES),
    ("pax", "", "", SPARSE_ENTRIES), ("paxr", "bzip2", "", SPARSE_ENTRIES),
    ("gnutar", "", "", LONG_ENTRIES), ("pax", "", "", LONG_ENTRIES), ("newc", "", "", LONG_ENTRIES), ("zip", "", "", LONG_ENTRIES),
    ("gnutar", "gzip", "", LONG_ENTRIES),
] + [("ustar", flt, "", BIGR_ENTRIES) for flt in ("compress", "gzip", "bzip2", "xz", "zstd", "lz4", "lzip", "lzma")] + [
    ("zip", "", "", BIGR_ENTRIES), ("7zip", "", "", BIGR_ENTRIES),
    ("xar", "", "", XATTR_ENTRIES), ("pax", "", "", XATTR_ENTRIES), ("xar", "", "xar:compression=none", XATTR_ENTRIES),
]

def writer_archives(mk_exe):
    """archives produced by the real writers; returns list of (name, bytes)"""
    cases = [vfmt([f, flt, opt, 512, ents]) for f, flt, opt, ents in WRITER_SPECS]
    path = vlib.write_cases(cases, "mk.cases")
    rc, lines, err = vlib.run_exe(mk_exe, path, timeout=300)
    res = []
    for (f, flt, opt, ents), l in zip(WRITER_SPECS, lines):
        v = vparse(l)
        if v[0] < -20 or v[-2] < -20:
            continue
        res.append(("w:%s%s%s%s" % (f, "+" + flt if flt else "", "/" + opt if opt else "", "#big" if ents is BIG_ENTRIES else "#sparse" if ents is SPARSE_ENTRIES else "#noise" if ents is BIGR_ENTRIES else "#long" if ents is LONG_ENTRIES else "#xattr" if ents is XATTR_ENTRIES else ""), v[-1]))
    return res

def read_case(arc, source=(1,), rplan=(), has_skip=0, has_seek=0, faults=(), consume=(0, 4096, 0), noraw=0, options=b""):
    c = [arc, list(source), list(rplan), has_skip, has_seek, [list(f) for f in faults], list(consume), noraw]
    if options:
        c.append(options)
    return vfmt(c)

def run_readall(exe, cases, timeout=900):
    path = vlib.write_cases(cases, "readall.cases")
    env = {"VERIF_TMP": vlib.scratch()}
    return vlib.run_exe(exe, path, timeout=timeout, env=env)

def run_readall_sharded(exe, cases, shards=48, workers=14, timeout=900, single_timeout=240):
    """Run the reader harness over the cases in parallel shards.  Returns (lines, failures):
    lines[k] is the output line of case k or None; failures is a list of (k, rc, stderr) naming the
    case a shard stopped at.  A shard that merely ran out of time is NOT a failure of the case it was
    working on: that case is re-run alone with [single_timeout]; only a case that crashes, or that alone
    exceeds the single-case budget, is reported."""
    import concurrent.futures
    n = len(cases)
    lines = [None] * n
    failures = []
    if n == 0:
        return lines, failures
    per = max(1, (n + shards - 1) // shards)
    chunks = [(a, min(n, a + per)) for a in range(0, n, per)]
    env = {"VERIF_TMP": vlib.scratch()}
    def one(ci):
        a, b = chunks[ci]
        fails = []
        start = a
        guard = 0
        while start < b and guard < 6:
            path = vlib.write_cases(cases[start:b], "readall-%d-%d.cases" % (ci, start))
            rc, ls, err = vlib.run_exe(exe, path, timeout=timeout, env=env)
            for j, l in enumerate(ls[:b - start]):
                lines[start + j] = l
            if rc == 0 and len(ls) >= b - start:
                break
            bad = start + len(ls)
            if bad >= b:
                break
            guard += 1
            if rc == 124:
                # out of time: is it this case, or just the size of the shard?
                p1 = vlib.write_cases([cases[bad]], "readall-%d-%d-single.cases" % (ci, bad))
                rc1, l1, err1 = vlib.run_exe(exe, p1, timeout=single_timeout, env=env)
                if rc1 == 0 and l1:
                    lines[bad] = l1[0]
                else:
                    fails.append((bad, rc1, err1))
            else:
                fails.append((bad, rc, err))
            start = bad + 1
        return fails
    with concurrent.futures.ThreadPoolExecutor(max_workers=workers) as ex:
        for f in ex.map(one, range(len(chunks))):
            failures += f
    return lines, sorted(failures)

def digest_ok(line):
    """parsed digest, or None"""
    try:
        return vparse(line)
    except Exception:
        return None
