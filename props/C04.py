"""C04 - secure extraction never touches anything outside the target directory.

proof part    : coq/Properties_C04.v (sanitiser theorems, walk/step confinement on the FS model,
                refutation witnesses for the two defects found)
correspondence: (1) cleanup_pathname_fsobj, exhaustive over {'/','.','a','b'}^<=8 x flag sets + random
                long strings; (2) generated extraction histories replayed by the real
                archive_write_disk in a chroot()ed canary sandbox vs the extracted model (per-entry
                status, final tree under target, canary dump)
oracle        : the canary (everything in the sandbox that is not under target/) is byte-for-byte,
                mode-for-mode, mtime-for-mtime, link-count-for-link-count what it was; cwd and umask
                are unchanged after every call; names that are empty / absolute / contain '..' are
                answered with a non-OK status.  Evaluated on the implementation's output only.
                (3) the same histories packed as tar / cpio / zip and extracted by the freshly built
                bsdtar -x, bsdcpio -i, bsdunzip: canary oracle only."""
import os, itertools
import vlib
from vlib import vfmt, vparse

LEVEL = "proof"

OWNER, PERM, TIME, NO_OVERWRITE, UNLINK = 1, 2, 4, 8, 0x10
SECURE_SYMLINKS, NODOTDOT, NOABS, SAFE_WRITES = 0x100, 0x200, 0x10000, 0x40000
SEC = SECURE_SYMLINKS | NODOTDOT | NOABS
T_FILE, T_DIR, T_SYMLINK, T_HARDLINK, T_FIFO = 0, 1, 2, 3, 4
CANARY_MTIME = 1000000000

# ----------------------------------------------------------------------------- expected canary
def _o(path, typ, link=b"", content=b"", mode=0, mtime=0, nlink=0):
    return [path, typ, link, content, mode, mtime, nlink]

EXPECTED_OUTSIDE = [
    _o(b"", 1, mode=0o755, mtime=CANARY_MTIME),
    _o(b"outside", 1, mode=0o755, mtime=CANARY_MTIME),
    _o(b"outside/a", 1, mode=0o755, mtime=CANARY_MTIME),
    _o(b"outside/b", 0, content=b"bee", mode=0o644, mtime=CANARY_MTIME, nlink=1),
    _o(b"outside/cdir", 1, mode=0o755, mtime=CANARY_MTIME),
    _o(b"outside/cdir/inner", 0, content=b"inner", mode=0o600, mtime=CANARY_MTIME, nlink=1),
    _o(b"outside/cfile", 0, content=b"canary", mode=0o644, mtime=CANARY_MTIME, nlink=1),
    _o(b"outside/sub", 1, mode=0o755, mtime=CANARY_MTIME),
]

# ----------------------------------------------------------------------------- sanitiser
def py_components(p):
    return p.split(b"/")

def cleanup_oracle(case_line, impl_line):
    """the statement about names, evaluated on what cleanup_pathname_fsobj returned"""
    _, flags, p = vparse(case_line)
    try:
        status, q, msg = vparse(impl_line)
    except Exception:
        return ("C04:sanitiser:unparsable-output", "harness output not parsable")
    comps = py_components(p)
    must_refuse = (p == b"") or (p.startswith(b"/") and flags & NOABS) or (b".." in comps and flags & NODOTDOT)
    if must_refuse and status == 0:
        return ("C04:sanitiser:accepted-offending-name",
                "cleanup_pathname_fsobj accepted %r with flags %#x -> %r" % (p, flags, q))
    if not must_refuse and status != 0:
        return ("C04:sanitiser:refused-harmless-name",
                "cleanup_pathname_fsobj refused %r with flags %#x (%r)" % (p, flags, msg))
    if status == 0:
        qc = q.split(b"/")
        body = qc[1:] if q.startswith(b"/") and q != b"/" else qc
        ok = q != b"" and (q in (b".", b"/") or all(c not in (b"", b".") for c in body))
        if flags & NODOTDOT and b".." in qc:
            ok = False
        if flags & NOABS and q.startswith(b"/"):
            ok = False
        real = [c for c in comps if c not in (b"", b".")]
        if [c for c in qc if c not in (b"", b".")] != real:
            ok = False
        if not ok:
            return ("C04:sanitiser:unclean-output", "cleanup_pathname_fsobj(%r, %#x) produced %r" % (p, flags, q))
    return None

def sanitiser_cases(rep, r):
    alpha = [b"/", b".", b"a", b"b"]
    cases = []
    maxlen = 8
    flagsets_full = [0, NODOTDOT, NOABS, NODOTDOT | NOABS]
    for n in range(0, maxlen + 1):
        for t in itertools.product(alpha, repeat=n):
            s = b"".join(t)
            for fl in (flagsets_full if (n <= 6 or rep.tier != "quick") else [0, NODOTDOT | NOABS]):
                cases.append(vfmt([1, fl, s]))
    nexh = len(cases)
    pieces = [b"/", b"/", b".", b"..", b"a", b"bb", b"./", b"../", b"//", b"...", b".a", b"a.", b"..a", b"L" * 200,
              b"M" * 300, b"\xc3\xa9", b" "]
    nrand = 1500 if rep.tier == "quick" else 20000
    for _ in range(nrand):
        # (the model appends to the output list: quadratic in the length, so long strings are kept few)
        k = r.choice([1, 2, 3, 5, 8, 13, 40]) if r.random() < (0.9 if rep.tier == "quick" else 0.99) else r.randrange(100, 600)
        s = b"".join(r.choice(pieces) for _ in range(k))
        cases.append(vfmt([1, r.choice(flagsets_full + [SEC, SEC | PERM | UNLINK]), s]))
    return cases, nexh

# ----------------------------------------------------------------------------- histories
POOL = [b"a", b"b", b"d", b"e", b"sub", b"x", b"a", b"b", b"d"]
RARE = [b"cfile", b"cdir", b"inner", b"outside", b"target", b"L" * 200, b"M" * 300, b"...", b".x"]
SYM_TARGETS = [b"../outside", b"../outside/cfile", b"/outside", b"/outside/cdir", b"/outside/cfile", b"/", b"..",
               b"../outside/sub", b"../outside/a", b"../outside/b", b"a", b"d", b"b", b".", b"d/sub", b"../target/a",
               b"nonexistent", b"/outside/nonexistent", b"../outside/cdir/inner", b"e", b"x"]
MODES = [0o644, 0o600, 0o755, 0o777, 0o700, 0o500, 0o444, 0o666, 0o750, 0]
MTIMES = [1, 12345, 500000000, 999999999]

def gen_path(r, secure, wild=0.25):
    n = r.choice([1, 1, 2, 2, 2, 3, 4])
    comps = [r.choice(POOL) if r.random() < 0.9 else r.choice(RARE) for _ in range(n)]
    if r.random() < wild:
        out = []
        for c in comps:
            x = r.random()
            if x < 0.15:
                out.append(b".")
            elif x < (0.10 if secure else 0.3) + 0.15:
                out.append(b"..")
            elif x < 0.45:
                out.append(b"")
            out.append(c)
        comps = out
        s = b"/".join(comps)
        x = r.random()
        if x < 0.15:
            s += b"/"
        elif x < 0.25:
            s += b"/."
        elif x < 0.30:
            s += b"//"
        elif x < 0.33:
            s += b"/.."
        if r.random() < (0.12 if secure else 0.3):
            s = b"/" + s
        if r.random() < 0.05:
            s = b"./" + s
        return s
    return b"/".join(comps)

def gen_pre(r):
    """pre-existing contents of target: consistent by construction"""
    kinds = {}      # path -> kind
    pre = []
    for _ in range(r.choice([0, 0, 1, 2, 3, 4, 6])):
        comps = [r.choice(POOL) for _ in range(r.choice([1, 1, 2, 3]))]
        path = b"/".join(comps)
        if path in kinds:
            continue
        if any(kinds.get(b"/".join(comps[:k]), 1) != 1 for k in range(1, len(comps))):
            continue
        kind = r.choice([0, 0, 1, 1, 2, 2, 2, 3, 4])
        arg, mode = b"", r.choice(MODES[:7])
        if kind == 0:
            arg = b"old-" + path
        elif kind == 2:
            arg = r.choice(SYM_TARGETS)
        elif kind == 3:
            files = [p for p, k in kinds.items() if k == 0]
            if not files:
                continue
            arg = r.choice(sorted(files))
        for k in range(1, len(comps)):
            kinds[b"/".join(comps[:k])] = 1
        kinds[path] = 0 if kind == 3 else kind
        pre.append([kind, path, arg, mode])
    return pre

def gen_history(r, secure=True, allow_long=True):
    opts = 0
    for bit, p in ((UNLINK, 0.3), (NO_OVERWRITE, 0.25), (SAFE_WRITES, 0.3), (PERM, 0.5), (TIME, 0.5)):
        if r.random() < p:
            opts |= bit
    flags = (SEC if secure else r.choice([0, 0, SECURE_SYMLINKS, NODOTDOT, NOABS, NODOTDOT | NOABS])) | opts
    pre = gen_pre(r)
    ents = []
    for k in range(r.choice([1, 2, 3, 4, 5, 6, 8])):
        t = r.choice([T_FILE] * 6 + [T_DIR] * 5 + [T_SYMLINK] * 4 + [T_HARDLINK] * 4 + [T_FIFO] * 2)
        path = gen_path(r, secure)
        link = b""
        data = b""
        if t == T_SYMLINK:
            link = r.choice(SYM_TARGETS)
        elif t == T_HARDLINK:
            link = gen_path(r, secure, wild=0.15) if r.random() < 0.8 else r.choice(SYM_TARGETS)
            if r.random() < 0.35:
                data = b"H%d" % k
        elif t == T_FILE and r.random() < 0.8:
            data = b"D%d-" % k + path[:20]
        ents.append([t, path, link, r.choice(MODES), r.choice(MTIMES), data])
    has_fifo = any(e[0] == T_FIFO for e in ents) or any(p[0] == 4 for p in pre)
    um = r.choice([0o22, 0o22, 0o22, 0o77, 0o27, 0o2] + ([] if has_fifo else [0]))
    return vfmt([2, flags, um, pre, ents])

LONGC = b"L" * 250

DIRECTED = [
    # a link target on an entry that says "regular file": the link is made, and then nothing may be done THROUGH it
    [2, SEC | PERM | TIME, 0o22, [], [[5, b"x", b"/outside/cfile", 0o777, 1, b""]]],
    [2, SEC | PERM | TIME | 0x0080, 0o22, [], [[5, b"d/x", b"../../outside/cdir", 0o700, 7, b""], [5, b"y", b"/outside/cfile", 0o600, 1, b""]]],
    # a symbolic link named with a trailing slash that carries an extended attribute (ARCHIVE_EXTRACT_XATTR = 0x80)
    [2, SEC | PERM | 0x0080, 0o22, [], [[6, b"l/", b"/outside/cdir", 0o777, 1, b""], [6, b"m", b"/outside/cfile", 0o777, 1, b""], [6, b"n/./", b"../outside/sub", 0o777, 1, b""]]],
    # the classic: planted symlink, then a file through it
    [2, SEC | PERM | TIME, 0o22, [], [[T_SYMLINK, b"x", b"../outside", 0o777, 1, b""], [T_FILE, b"x/evil", b"", 0o644, 1, b"evil"]]],
    [2, SEC | PERM | TIME, 0o22, [[2, b"x", b"/outside", 0]], [[T_FILE, b"x/evil", b"", 0o644, 1, b"evil"], [T_DIR, b"x/cdir", b"", 0o700, 5, b""]]],
    [2, SEC | UNLINK, 0o22, [[2, b"x", b"../outside", 0]], [[T_FILE, b"x/evil", b"", 0o644, 1, b"evil"]]],
    [2, SEC, 0o22, [], [[T_FILE, b"../outside/evil", b"", 0o644, 1, b"evil"], [T_FILE, b"/outside/evil2", b"", 0o644, 1, b"evil"],
                        [T_FILE, b"a/../../outside/evil3", b"", 0o644, 1, b"e"], [T_FILE, b"ok", b"", 0o644, 1, b"fine"]]],
    # hard link to the canary through a symlink / by absolute name / by '..'
    [2, SEC | PERM, 0o22, [[2, b"x", b"../outside", 0]], [[T_HARDLINK, b"h", b"x/cfile", 0o644, 1, b""], [T_HARDLINK, b"h2", b"/outside/cfile", 0o644, 1, b""],
                                                          [T_HARDLINK, b"h3", b"../outside/cfile", 0o644, 1, b"HH"]]],
    # F1: deferred directory fix-up through a directory that was later replaced by a symlink
    [2, SEC | PERM | TIME, 0o22, [], [[T_DIR, b"d/sub", b"", 0o777, 12345, b""], [T_DIR, b"e", b"", 0o755, 12345, b""],
                                      [T_HARDLINK, b"d/sub", b"e", 0o644, 1, b""], [T_SYMLINK, b"d", b"../outside", 0o777, 1, b""]]],
    [2, SEC | PERM, 0o22, [], [[T_DIR, b"d/.", b"", 0o700, 12345, b""], [T_SYMLINK, b"d", b"../outside/sub", 0o777, 1, b""]]],
    # replaced LAST component: the O_NOFOLLOW / type check case (safe)
    [2, SEC | PERM | TIME, 0o22, [], [[T_DIR, b"d", b"", 0o700, 12345, b""], [T_SYMLINK, b"d", b"../outside/sub", 0o777, 1, b""]]],
    [2, SEC | PERM | TIME, 0o22, [], [[T_DIR, b"d/", b"", 0o700, 12345, b""], [T_SYMLINK, b"d", b"/outside/sub", 0o777, 1, b""]]],
    # F2: hard link entry carrying data whose target is a symlink: chmod() follows
    [2, SEC | PERM | TIME, 0o22, [], [[T_SYMLINK, b"s", b"/outside/cfile", 0o777, 1, b""], [T_HARDLINK, b"h", b"s", 0o777, 1, b"hello"]]],
    [2, SEC, 0o22, [[2, b"s", b"../outside/cdir", 0]], [[T_HARDLINK, b"h", b"s", 0o700, 1, b"x"]]],
    # deep path THROUGH a planted symlink: the chdir()-based shortening of names of PATH_MAX bytes and more must not
    # happen before (or instead of) the symlink walk
    [2, SEC | PERM | TIME, 0o22, [], [[T_SYMLINK, b"d", b"../outside", 0o777, 1, b""],
                                      [T_FILE, b"d/" + b"/".join([LONGC] * 17 + [b"f"]), b"", 0o644, 7, b"deep"],
                                      [T_FILE, b"/".join([LONGC] * 17 + [b"g"]), b"", 0o644, 7, b"control"]]],
    [2, SEC, 0o22, [[2, b"d", b"/outside/cdir", 0]], [[T_DIR, b"d/" + b"/".join([LONGC] * 18), b"", 0o755, 7, b""]]],
    [2, SEC | UNLINK, 0o22, [], [[T_DIR, b"a", b"", 0o755, 7, b""], [T_SYMLINK, b"a/s", b"../../outside/sub", 0o777, 1, b""],
                                 [T_FILE, b"a/s/" + b"/".join([LONGC] * 17 + [b"f"]), b"", 0o644, 7, b"deep"]]],
    # deep path: longer than PATH_MAX
    [2, SEC | PERM | TIME, 0o22, [], [[T_FILE, b"/".join([LONGC] * 17 + [b"f"]), b"", 0o644, 7, b"deep"], [T_DIR, b"/".join([LONGC] * 18), b"", 0o755, 7, b""]]],
    [2, SEC, 0o22, [], [[T_FILE, b"M" * 300 + b"/f", b"", 0o644, 7, b"x"], [T_FILE, b"a/" + b"M" * 300, b"", 0o644, 7, b"x"]]],
    # bsdunzip: a symlink two levels up (the target of the link contains the directory "sub")
    [2, SEC, 0o22, [], [[T_SYMLINK, b"x", b"../outside", 0o777, 1, b""], [T_FILE, b"x/sub/evil", b"", 0o644, 1, b"evil"]]],
    # names that clean to "." and friends
    [2, SEC | PERM, 0o22, [], [[T_DIR, b"./", b"", 0o700, 7, b""], [T_FILE, b".", b"", 0o644, 7, b"x"], [T_DIR, b"a/./b//", b"", 0o711, 7, b""], [T_FILE, b"", b"", 0o644, 7, b""]]],
] + [
    # spellings of the directory name under which the fix-up is recorded (raw archive name): every one must be
    # normalised before the O_NOFOLLOW open at close (kept last: the front-end runs take the first directed histories)
    [2, SEC | PERM | TIME, 0o22, [], [[T_DIR, b"d" + suf, b"", md, 12345, b""], [T_SYMLINK, b"d", tgt, 0o777, 1, b""]]]
    for suf in (b"//", b"///", b"////", b"/./", b"//.", b"/.//", b"/././/")
    for md, tgt in ((0o555, b"../outside/sub"), (0o700, b"/outside/sub"))
]

def describe_history(c):
    _, flags, um, pre, ents = c
    tn = {0: "file", 1: "dir", 2: "symlink", 3: "hardlink", 4: "fifo", 5: "file-with-symlink-target", 6: "symlink+xattr"}
    def short(b):
        s = b.decode("latin-1")
        return s if len(s) <= 40 else s[:18] + "...(%d)" % len(s)
    ps = ["%s %s%s" % (tn[p[0]], short(p[1]), (" -> " + short(p[2])) if p[0] in (2, 3) else "") for p in pre]
    es = ["%s %s%s mode %o%s" % (tn[e[0]], short(e[1]), (" -> " + short(e[2])) if e[0] in (2, 3, 5, 6) else "", e[3],
                                 " +data" if e[5] and e[0] == 3 else "") for e in ents]
    return "flags %#x umask %o; pre-existing [%s]; entries [%s]" % (flags, um, "; ".join(ps), "; ".join(es))

def real_comps(b):
    return [c for c in b.split(b"/") if c not in (b"", b".")]

def classify_canary(expected, got, case):
    """stable key for a canary difference: what changed, and - for the two known mechanisms - which
    constellation of entries produced it (so that a different defect with a similar effect gets its own key)"""
    pre, ents = case[-2], case[-1]
    e = {x[0]: x for x in expected}
    g = {x[0]: x for x in got}
    created = sorted(set(g) - set(e))
    deleted = sorted(set(e) - set(g))
    if created:
        return "C04:canary:created", "object(s) created outside the target: %r" % created[:4]
    if deleted:
        return "C04:canary:deleted", "object(s) deleted outside the target: %r" % deleted[:4]
    diffs = []
    for p in sorted(e):
        if e[p] != g[p]:
            fields = [n for n, a, b in zip(("type", "link", "content", "mode", "mtime", "nlink"), e[p][1:], g[p][1:]) if a != b]
            diffs.append((p, fields, e[p], g[p]))
    what = "; ".join("%s: %s changed (%r -> %r)" % (p.decode() or "<root>", "/".join(f), ex[1:], go[1:]) for p, f, ex, go in diffs[:3])
    allf = set(f for _, fs, _, _ in diffs for f in fs)
    symlinks = [real_comps(p[1]) for p in pre if p[0] == 2] + [real_comps(x[1]) for x in ents if x[0] == T_SYMLINK]
    if allf <= {"mode", "mtime"}:
        only_dirs = all(ex[1] == 1 for _, _, ex, _ in diffs)
        # hard-link entry with data whose target names a symlink of the history
        hl_sym = any(x[0] == T_HARDLINK and x[5] and real_comps(x[2]) in symlinks for x in ents)
        # directory entry with a symlink planted on a proper prefix of its name (or on the name itself when the
        # raw name goes on with "/." - the kernel then follows it as an intermediate component)
        inter = last = False
        for x in ents:
            if x[0] != T_DIR:
                continue
            rc = real_comps(x[1])
            raw_tail = x[1].rstrip(b"/").endswith(b"/.") or x[1].rstrip(b"/") == b"."
            for sl in symlinks:
                if sl and len(sl) < len(rc) and rc[:len(sl)] == sl:
                    inter = True
                elif sl and sl == rc:
                    if raw_tail:
                        inter = True
                    else:
                        last = True
        if hl_sym and "mtime" not in allf:
            return "C04:hardlink-data:chmod-follows-symlink", "chmod() through a hard-linked symlink changed the canary: " + what
        if only_dirs and inter:
            return "C04:fixup:intermediate-symlink", "deferred directory fix-up applied outside the target: " + what
        if only_dirs and last:
            return "C04:fixup:last-component-symlink", "deferred directory fix-up followed a symlink in the last component: " + what
        return "C04:canary:remoded", what
    if "nlink" in allf and allf <= {"nlink"}:
        return "C04:canary:hard-linked", what
    if "content" in allf:
        return "C04:canary:content", what
    return "C04:canary:changed", what

def offending_name(b):
    return b == b"" or b.startswith(b"/") or b".." in b.split(b"/")

def make_history_oracle(stats):
    def oracle(case_line, impl_line):
        case = vparse(case_line)
        _, flags, um, pre, ents = case
        try:
            sts, proc, tgt, outside = vparse(impl_line)
        except Exception:
            return ("C04:history:no-result", "the extraction process crashed or hung: %s | %s" % (impl_line[:120], describe_history(case)))
        secure = (flags & SEC) == SEC
        if outside != EXPECTED_OUTSIDE:
            stats["canary_changed"] += 1
            if not secure:
                stats["live"] += 1          # expected without the secure flags: shows the oracle is live
                return None
            key, what = classify_canary(EXPECTED_OUTSIDE, outside, case)
            return (key, what + " | " + describe_history(case))
        if proc != [1, um, um]:
            return ("C04:process-state", "cwd/umask not restored (cwd_same, umask before, after) = %r | %s" % (proc, describe_history(case)))
        if secure:
            for e, s in zip(ents, sts):
                bad = offending_name(e[1]) or (e[0] == T_HARDLINK and offending_name(e[2]))
                if bad and s[0] == 0:
                    return ("C04:refusal:offending-entry-accepted",
                            "entry %r -> %r answered ARCHIVE_OK with the secure flags | %s" % (e[1][:60], e[2][:60], describe_history(case)))
        return None
    return oracle

def nontrivial_history(case_line):
    _, flags, um, pre, ents = vparse(case_line)
    sym = any(p[0] == 2 for p in pre) or any(e[0] == T_SYMLINK for e in ents)
    return (flags & SEC) == SEC and sym and len(ents) >= 2

# ----------------------------------------------------------------------------- front ends
def frontend_cases(r, hist_cases, n):
    out = []
    for c in hist_cases:
        if len(out) >= n:
            break
        _, flags, um, pre, ents = vparse(c)
        if (flags & SEC) != SEC:
            continue
        def tame(b):     # at most one '..' per string: everything stays inside the sandbox even if a tool misbehaves
            return b.split(b"/").count(b"..") <= 1 and len(b) < 3000
        if not all(tame(e[1]) and tame(e[2]) for e in ents) or not all(tame(p[2]) for p in pre):
            continue
        for fmt in (0, 1, 2):
            out.append(vfmt([3, fmt, 0, um, pre, ents]))
    return out

def frontend_oracle(case_line, impl_line):
    case = vparse(case_line)
    fmt = case[1]
    tool = ["bsdtar -x", "bsdcpio -i", "bsdunzip"][fmt]
    try:
        rc, nfiles, outside = vparse(impl_line)
    except Exception:
        return ("C04:frontend:no-result", "front-end run produced no result: %s" % impl_line[:120])
    if outside != EXPECTED_OUTSIDE:
        key, what = classify_canary(EXPECTED_OUTSIDE, outside, case)
        if fmt == 2:
            # bsdunzip does not go through archive_write_disk: its own make_parent()/make_dir() path
            key = "C04:bsdunzip:" + key.split(":", 1)[1].replace("canary:", "")
        return (key, "%s (default options): %s | %s" % (tool, what, describe_history([2, 0] + case[3:])))
    return None

# ----------------------------------------------------------------------------- the check
def run_frontends(rep, exe, cases, stats):
    bdir = vlib.build_repo("plain", targets=("archive_static", "bsdtar", "bsdcpio", "bsdunzip"))
    path = vlib.write_cases(cases, "fsSec-frontend.cases")
    rc, lines, err = vlib.run_exe(exe, path, timeout=900, env={"VERIF_BIN": os.path.join(bdir, "bin")})
    if rc != 0 or len(lines) != len(cases):
        k = min(len(lines), len(cases) - 1)
        rep.violation("crash:fsSec-frontend:%s" % vlib.crash_key(err), "front-end harness stopped (rc=%s) on case #%d" % (rc, k),
                      dict(correspondence="fsSec-frontend", case=cases[k] if cases else None, stderr=err[-2000:]), found_input=True)
    ran = 0
    for c, l in zip(cases, lines):
        try:
            if vparse(l)[0] >= 0:
                ran += 1
        except Exception:
            pass
        hit = frontend_oracle(c, l)
        if hit:
            stats["frontend_hits"] += 1
            rep.violation(hit[0], hit[1], dict(correspondence="fsSec-frontend", case=c, impl=l,
                                               cmd="harness fsSec (op 3) on the case line with VERIF_BIN=<build>/bin"), found_input=True)
    return ran

def run(rep):
    pr = vlib.proof_part(rep, "C04", translators=["gen_fsSec"])
    runner = vlib.build_runner("fsSec")
    exe = vlib.compile_harness("fsSec", "asan", private=True)
    r = vlib.rng(rep.seed, "C04")
    # (1) sanitiser
    scases, nexh = sanitiser_cases(rep, r)
    st1 = vlib.correspond(rep, "fsSec-sanitiser", runner, exe, scases, oracle=cleanup_oracle)
    # (2) histories
    stats = dict(canary_changed=0, live=0, frontend_hits=0)
    nsec = 500 if rep.tier == "quick" else 12000
    nins = 60 if rep.tier == "quick" else 1200
    hist = [vfmt(d) for d in DIRECTED] + vlib.load_corpus("C04")
    hist += [gen_history(r, secure=True) for _ in range(nsec)]
    insecure = [vfmt([2, PERM, 0o22, [[2, b"x", b"../outside", 0]], [[T_FILE, b"x/evil", b"", 0o644, 1, b"evil"]]]),
                vfmt([2, 0, 0o22, [], [[T_FILE, b"../outside/evil", b"", 0o644, 1, b"evil"]]])]
    insecure += [gen_history(r, secure=False) for _ in range(nins)]
    st2 = vlib.correspond(rep, "fsSec-history", runner, exe, hist + insecure, oracle=make_history_oracle(stats))
    if stats["live"] == 0:
        rep.violation("C04:oracle-not-live", "no history without the secure flags changed the canary: the canary oracle sees nothing",
                      dict(broken="canary oracle"), found_input=False)
    # (3) front ends
    fcases = frontend_cases(r, [vfmt(d) for d in DIRECTED] + hist[len(DIRECTED):], 66 if rep.tier == "quick" else 600)
    ran = run_frontends(rep, exe, fcases, stats)
    rep.coverage.update(
        evaluations=len(scases) + len(hist) + len(insecure) + len(fcases),
        distinct_nontrivial=len(set(c for c in hist if nontrivial_history(c))),
        rule="sanitiser: all %d strings over {/ . a b} of length <= 8 (x4 flag sets up to length 6, x2 beyond in the quick tier) plus random "
             "long strings; histories: 1-8 entries over {file, dir, symlink, hardlink(+-data), fifo}, names from few pieces so that entries "
             "collide, decorated with '.', '..', '//', trailing '/', '/.', leading '/', components of 200/300 bytes, paths > PATH_MAX, "
             "pre-existing target contents incl. planted symlinks to ../outside and to absolute canary paths, option sets "
             "+-UNLINK +-NO_OVERWRITE +-SAFE_WRITES +-PERM +-TIME with the three SECURE flags, umask in {022,077,027,002,0}; "
             "non-trivial = secure flags, at least 2 entries and at least one symlink planted or extracted" % nexh,
        samples=[scases[100], hist[0][:300], hist[len(DIRECTED) + 1][:400]],
        traces_validated_against_impl=st1["agree"] + st2["agree"],
        correspondence=[st1, st2],
        histories_secure=len(hist), histories_without_secure_flags=len(insecure),
        oracle_live_hits=stats["live"], frontend_runs=len(fcases), frontend_runs_completed=ran,
        compared="per entry (archive_write_header, archive_write_finish_entry) return codes; every object under target: path, type, "
                 "symlink target, content, permission bits, hard-link group, mtime of regular files when TIME is set; the canary dump; "
                 "NOT compared: mtimes of directories/fifos/symlinks under target, ownership")
    try:
        gen = open(os.path.join(vlib.COQ, "Gen", "FsSecConsts.v")).read()
        shape = {k: ("%s : bool := true" % k) in gen for k in ("CLOSE_CHECKS_FIXUP_PATH", "HARDLINK_DATA_NONREG_CLEARS_TODO")}
    except OSError:
        shape = {}
    rep.coverage.update(code_shape_flags=shape, theorem_status=dict(
        proved=["C04_cleanup_is_spec", "C04_cleanup_sound", "C04_cleanup_refusals", "C04_walk_inside",
                "C04_step_confined_partial (all entries except hard links carrying data; cleaned names < PATH_MAX)",
                "C04_entries_confined_partial", "C04_run_confined_fixed_close",
                "C04_run_confined (conditional: the source's close loop walks the fix-up name)",
                "C04_refused_by_sanitiser_noop", "C04_refused_by_symlink_check_noop"],
        refuted=["C04_run_confined_refuted (while CLOSE_CHECKS_FIXUP_PATH = false): key C04:fixup:intermediate-symlink",
                 "C04_step_confined_refuted (while HARDLINK_DATA_NONREG_CLEARS_TODO = false): key C04:hardlink-data:chmod-follows-symlink"]))
    rep.assumptions += [
        "the model follows two structural facts of the source, regenerated on every run (translators/gen_fsSec.py): whether "
        "_archive_write_disk_close walks the fix-up name with check_symlinks_fsobj, and whether create_filesystem_object clears "
        "a->todo for a hard-link entry with data whose target is not a regular file",
        "sequential model: no concurrent attacker between check and use (TOCTOU is outside the model)",
        "permissions are stored, not enforced; the harness runs as root inside chroot(sandbox), which bypasses permission checks too",
        "check_symlinks_fsobj / create_dir / edit_deep_directories are modelled on path components, exact for cleaned names",
        "ownership, ACL, xattr, fflags, mac-metadata fix-ups are not modelled",
        "front-end path editing (bsdtar/bsdcpio/bsdunzip) is not modelled: canary oracle only"]
    vlib.proof_verdict(rep, "C04", pr)

def replay(rep, path):
    import json
    d = json.load(open(path))
    rp = d["replay"]
    case = rp.get("case")
    if case is None:
        return run(rep)
    exe = vlib.compile_harness("fsSec", "asan", private=True)
    op = vparse(case)[0]
    stats = dict(canary_changed=0, live=0, frontend_hits=0)
    if op == 3:
        run_frontends(rep, exe, [case], stats)
    else:
        runner = vlib.build_runner("fsSec")
        vlib.correspond(rep, rp.get("correspondence", "fsSec"), runner, exe, [case],
                        oracle=cleanup_oracle if op == 1 else make_history_oracle(stats))
    rep.coverage.update(evaluations=1, distinct_nontrivial=1, samples=[case[:400]])
