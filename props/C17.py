"""C17 - hard-link resolver: proof (Properties_C17.v) + correspondence of the Gallina model with the
real archive_entry_linkify / archive_entry_partial_links on generated operation sequences."""
import vlib
from vlib import vfmt, vparse

LEVEL = "proof"
AE_IFREG, AE_IFDIR, AE_IFBLK, AE_IFCHR, AE_IFLNK, AE_IFIFO = 0o100000, 0o040000, 0o060000, 0o020000, 0o120000, 0o010000

def gen_case(r, big=False):
    strat = r.choice([0, 0, 1, 2, 3, 3, 3])
    ops = []
    nid = [0]
    def push(dev, ino, nlink, ftype, size, path):
        nid[0] += 1
        ops.append([0, nid[0], dev, ino, nlink, ftype, ([size] if size is not None else []), path])
    if big:
        # more than 2*1024 live groups: forces grow_hash (twice when n > 4100); every group gets its second link,
        # in random order, so that an entry misplaced by the growth is looked up again; random dev/ino bases so
        # that the entry whose insertion triggers the growth has either value of the new index bit
        n = r.choice([2100, 2300, 4200]) + r.randrange(200)
        base = r.choice([1, 1000, 1025, 2049, 5000, 2**20 + 7, r.randrange(1, 2**32)])
        dev0 = r.randrange(0, 9)
        nl = [2 + (r.randrange(3) == 0) for _ in range(n)]
        devs = [dev0 + (k % 3 if r.random() < 0.3 else 0) for k in range(n)]
        for k in range(n):
            push(devs[k], base + k, nl[k], AE_IFREG, k, b"g%d" % k)
        order = list(range(n))
        r.shuffle(order)
        for k in order[: n - r.randrange(0, 50)]:
            push(devs[k], base + k, nl[k], AE_IFREG, k, b"h%d" % k)
    else:
        nkeys = r.choice([1, 2, 3, 5, 8])
        keys = []
        for k in range(nkeys):
            style = r.randrange(6)
            if style == 0 and keys:      # same hash (dev xor ino), different key
                d, i = keys[-1]
                keys.append((i, d))
            elif style == 1 and keys:    # same bucket, different hash
                d, i = keys[-1]
                keys.append((d, (i + 1024 * r.randrange(1, 4)) % 2**63))
            elif style == 2:
                keys.append((r.choice([0, 1, 2**32, 2**64 - 1]), r.choice([0, 1, 2**63 - 1, 2**62])))
            else:
                keys.append((r.randrange(4), r.randrange(8)))
        keys = [(d % 2**64, i % 2**63) for d, i in keys]   # ino is int64 >= 0 (the entry setter clamps negatives)
        for _ in range(r.randrange(1, 28)):
            c = r.random()
            if c < 0.08:
                ops.append([1])
            elif c < 0.13:
                ops.append([2])
            else:
                d, i = r.choice(keys)
                nlink = r.choice([1, 2, 2, 3, 3, 4, 4, 0, 2**32 - 1]) if r.random() < 0.2 else r.choice([2, 3, 4])
                ft = r.choice([AE_IFREG] * 8 + [AE_IFDIR, AE_IFBLK, AE_IFCHR, AE_IFLNK, AE_IFIFO])
                size = None if r.random() < 0.1 else r.choice([0, 1, 512, 2**40])
                push(d, i, nlink, ft, size, bytes([97 + r.randrange(26)]) * r.randrange(1, 4) + b"%d" % nid[0])
    npush = sum(1 for o in ops if o[0] == 0)
    ops += [[1]] * (npush + 1 if not big else 1)     # drain everything (new-cpio defers at most npush)
    if big:
        ops += [[1]] * (npush // 2 + 300)
    ops += [[2], [2]]
    return vfmt([strat, ops])

def oracle(case_line, impl_line):
    """conservation + pass-through, evaluated on what the implementation returned"""
    strat, ops = vparse(case_line)
    try:
        outs = vparse(impl_line)
    except Exception:
        return ("C17:unparsable-output", "harness output not parsable")
    if len(outs) != len(ops):
        return ("C17:output-count", "number of results differs from number of operations")
    pushed, got = [], []
    for op, out in zip(ops, outs):
        if op[0] == 0:
            core = (op[1], op[2], op[3] if op[3] < 2**63 else op[3], op[4], op[5], op[7])
            pushed.append(core)
            if out[0] != 0:
                return ("C17:shape", "push answered with a non-push result")
            ents = [x[0] for x in out[1:3] if x]
            passthrough = strat == 2 or op[4] == 1 or op[5] in (AE_IFDIR, AE_IFBLK, AE_IFCHR)
            if passthrough:
                want = [op[1], op[2], op[3], op[4], op[5], op[6], [], op[7]]
                if len(ents) != 1 or ents[0] != want or out[2]:
                    return ("C17:passthrough", "entry that must pass straight through was altered or deferred: %r" % (op,))
        elif op[0] == 1:
            ents = [x[0] for x in out[1:2] if x]
        else:
            ents = []
        for e in ents:
            got.append((e[0], e[1], e[2], e[3], e[4], e[7]))
    hit = marking_oracle(strat, ops, outs)
    if hit:
        return hit
    if sorted(pushed) != sorted(got):
        lost = set(pushed) - set(got)
        dup = [g for g in got if got.count(g) > 1]
        return ("C17:conservation", "entries lost or duplicated by the resolver: lost ids %s, duplicated ids %s" %
                (sorted(x[0] for x in lost)[:8], sorted(set(x[0] for x in dup))[:8]))
    return None

def marking_oracle(strat, ops, outs):
    """the statement's second sentence: within one group instance (dev, ino, link count of the first
    member) exactly one output carries the body, the others are hard links to the first pathname"""
    if strat == 2:
        return None
    inst = {}       # key -> [first_path, remaining, instance id]
    member = {}     # entry id -> (instance id, first_path, is_first)
    ninst = 0
    last_push = max([k for k, op in enumerate(ops) if op[0] == 0], default=-1)
    for k, op in enumerate(ops):
        if k > last_push:
            break
        if op[0] != 0:
            return None          # a drain/partial call before the last push removes live groups: the simple group rule no longer applies
        if op[0] != 0 or op[4] == 1 or op[5] in (AE_IFDIR, AE_IFBLK, AE_IFCHR):
            continue
        key = (op[2], op[3])
        if key in inst:
            rec = inst[key]
            member[op[1]] = (rec[2], rec[0], False)
            rec[1] = (rec[1] - 1) % 2**32
            if rec[1] == 0:
                del inst[key]
        else:
            ninst += 1
            inst[key] = [op[7], (op[4] - 1) % 2**32, ninst]
            member[op[1]] = (ninst, op[7], True)
    seen = {}
    for out in outs:
        ents = [x[0] for x in (out[1:3] if out[0] == 0 else out[1:2] if out[0] == 1 else []) if x]
        for e in ents:
            if e[0] in member:
                seen.setdefault(member[e[0]][0], []).append(e)
    for iid, ents in seen.items():
        first_path = [m[1] for m in member.values() if m[0] == iid][0]
        bodies = [e for e in ents if not e[6]]
        links = [e for e in ents if e[6]]
        if len(bodies) != 1:
            return ("C17:marking", "group instance with first pathname %r: %d outputs carry the body (want exactly 1)" %
                    (first_path, len(bodies)))
        for e in links:
            if e[6] != [first_path]:
                return ("C17:marking", "hard link of entry id %d points to %r, not to the group's first pathname %r" %
                        (e[0], e[6], first_path))
            if strat in (0, 3) and e[5]:
                return ("C17:marking", "hard-link entry id %d still has a size (body) under the tar/new-cpio strategy" % e[0])
        if strat in (0, 1):
            firsts = [e for e in ents if member[e[0]][2]]
            if firsts and firsts[0][6]:
                return ("C17:marking", "first member of a group came out as a hard link")
    return None

def nontrivial(case_line):
    strat, ops = vparse(case_line)
    keys = {}
    for o in ops:
        if o[0] == 0 and o[4] != 1:
            keys[(o[2], o[3])] = keys.get((o[2], o[3]), 0) + 1
    return strat != 2 and any(v >= 2 for v in keys.values())

def run(rep):
    pr = vlib.proof_part(rep, "C17", translators=["gen_defines"])
    runner = vlib.build_runner("links")
    exe = vlib.compile_harness("links", "asan")
    r = vlib.rng(rep.seed, "C17")
    n = 400 if rep.tier == "quick" else 20000
    cases = [gen_case(r) for _ in range(n)]
    cases += [gen_case(r, big=True) for _ in range(4 if rep.tier == "quick" else 24)]
    corpus = vlib.load_corpus("C17")
    st = vlib.correspond(rep, "links", runner, exe, corpus + cases, oracle=oracle)
    rep.coverage.update(
        evaluations=len(cases) + len(corpus),
        distinct_nontrivial=len(set(c for c in cases if nontrivial(c))),
        rule="random operation sequences over few (dev,ino) keys incl. equal-hash and equal-bucket keys, nlink in {0,1,2,3,4,2^32-1}, "
             "all file types, 4 strategies, drain/partial calls interleaved, plus growth cases with >2048 live groups; "
             "non-trivial = strategy is not old-cpio and some (dev,ino) key is pushed at least twice with nlink != 1",
        samples=[cases[0], cases[1][:400]],
        traces_validated_against_impl=st["agree"], correspondence=st)
    rep.assumptions += ["entry identity travels in the mtime field of the real archive_entry (never read by the resolver)",
                        "the 'spare' slot (deferred free) is not modelled; ASan/LSan on the harness covers it"]
    vlib.proof_verdict(rep, "C17", pr)

def replay(rep, path):
    import json
    d = json.load(open(path))
    case = d["replay"]["case"]
    runner = vlib.build_runner("links")
    exe = vlib.compile_harness("links", "asan")
    vlib.correspond(rep, "links", runner, exe, [case], oracle=oracle)
    rep.coverage.update(evaluations=1, distinct_nontrivial=1, samples=[case])
