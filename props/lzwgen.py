"""Generator of compress (.Z) streams for the LZW decoder correspondence (C01): code sequences chosen with the
decoder's control state in view (current width, next free entry, previous code), packed the way the decoder
unpacks them (LSB first, junk bytes behind a reset code).  Only the distribution depends on this file."""

class ZWriter:
    def __init__(self, flags):
        self.out = bytearray([flags])
        self.acc = 0; self.nacc = 0                 # bits not yet flushed
        mb = flags & 31
        self.maxbits, self.maxcode, self.use_reset = mb, 1 << mb, bool(flags & 0x80)
        self.bits, self.secend = 9, 511
        self.free_ent = 257 if self.use_reset else 256
        self.oldcode = None
        self.insec, self.bavail = 3, 0               # decoder: bytes fetched in this section, unread bits
        self.dead = False                            # the decoder has reported a fatal error

    def _put(self, v, n):
        self.acc |= (v & ((1 << n) - 1)) << self.nacc
        self.nacc += n
        while self.nacc >= 8:
            self.out.append(self.acc & 0xff); self.acc >>= 8; self.nacc -= 8

    def _dec_getbits(self, n):
        while self.bavail < n:
            self.bavail += 8; self.insec += 1
        self.bavail -= n

    def code(self, c, junk=lambda: 0):
        """append one code of the current width and advance the decoder's control state"""
        n = self.bits
        self._put(c, n)
        self._dec_getbits(n)
        if c == 256 and self.use_reset:
            skip = (self.bits - (self.insec % self.bits)) % self.bits
            # the decoder drops the rest of the bytes it has fetched
            if self.nacc:
                self._put(0, 8 - self.nacc)
            self.bavail = 0
            for _ in range(skip):
                self._put(junk(), 8); self._dec_getbits(8)
            self.insec, self.bits, self.secend, self.free_ent, self.oldcode = 0, 9, 511, 257, None
            return
        if c > self.free_ent or (c == self.free_ent and self.oldcode is None):
            self.dead = True
            return
        if self.free_ent < self.maxcode and self.oldcode is not None:
            self.free_ent += 1
        if self.free_ent > self.secend:
            self.bits += 1
            self.insec = 0
            self.secend = self.maxcode if self.bits == self.maxbits else (1 << self.bits) - 1
        self.oldcode = c

    def bytes(self):
        b = bytearray(self.out)
        if self.nacc:
            b.append(self.acc & 0xff)
        return bytes(b)

def gen_stream(r):
    flags = r.choice([0x90, 0x90, 0x8c, 0x89, 0x8a, 0x10, 0x0c, 0x09, 0x88, 0x83, 0x80, 0x8d, 0x90, 0x9f if r.random() < 0.3 else 0x90, 0x91 if r.random() < 0.3 else 0x8b])
    w = ZWriter(flags)
    if (flags & 31) > 16:
        for _ in range(r.choice([0, 3])):
            w.out.append(r.randrange(256))
        return w.bytes()
    n = r.choice([1, 2, 3, 5, 12, 40, 120, 300, 700, 1500])
    style = r.random()
    first = True
    for k in range(n):
        if w.dead and r.random() < 0.8:
            break
        x = r.random()
        lo = 257 if w.use_reset else 256
        if first and style < 0.12:
            c = w.free_ent                          # the next free entry with no previous code
        elif style > 0.85 and x < 0.9:
            c = r.randrange(256) if x < 0.3 else (r.randrange(lo, w.free_ent) if w.free_ent > lo else w.free_ent)   # grow the table fast
        elif x < 0.40: c = r.choice([0x41, 0x42, 0x1f, 0x9d, 0, 255, r.randrange(256)])
        elif x < 0.70 and w.free_ent > lo: c = r.randrange(lo, w.free_ent)
        elif x < 0.82: c = w.free_ent               # KwKwK (or invalid without a previous code)
        elif x < 0.88: c = 256
        elif x < 0.90: c = w.free_ent + r.choice([1, 2, 100])
        elif x < 0.93: c = max(0, w.free_ent - 1)
        elif x < 0.95: c = (1 << w.bits) - 1
        else: c = r.randrange(1 << w.bits)
        w.code(c, junk=lambda: r.randrange(256))
        first = False
    b = w.bytes()
    y = r.random()
    if y < 0.1 and len(b) > 2:
        b = b[:r.randrange(1, len(b))]              # cut anywhere
    elif y < 0.15:
        b += bytes(r.randrange(256) for _ in range(r.choice([1, 2, 9])))
    return b

def directed():
    """the decoder's corners, by construction"""
    out = []
    def seq(flags, codes):
        w = ZWriter(flags)
        for c in codes:
            w.code(c)
        return w.bytes()
    out.append(seq(0x90, [257, 0x41, 257]))                      # next free entry first, a literal, the same again
    out.append(seq(0x90, [0x41, 256, 257, 0x42, 257]))           # the same behind a reset
    out.append(seq(0x90, [0x41, 257, 258, 259]))                 # KwKwK chain (aaaa...)
    out.append(seq(0x10, [0x41, 256, 257, 256, 258]))            # no reset code: 256 is an ordinary entry
    out.append(seq(0x89, [0x41] + [257 + k for k in range(300)]))   # 9-bit table filled, width 10 with maxbits 9
    out.append(seq(0x8a, [0x41] + [257 + k for k in range(800)]))   # up to maxbits 10 and on with a full table
    out.append(seq(0x83, [0x41, 0x42, 257, 257, 257]))           # maxbits below 9: no entries are ever made
    out.append(seq(0x90, [256] * 40 + [0x41]))                   # reset codes in a row
    out.append(seq(0x90, [0x41, 0x42, 600]))                     # far beyond the table
    out.append(bytes([0x90]))                                    # parameters only
    out.append(bytes([0x91, 1, 2, 3]))                           # 17 bits asked for
    out.append(seq(0x90, [0x1f, 0x9d]))                          # output that looks like another .Z stream
    return out
