"""C06 - headers and data do not depend on how entry bodies are consumed.

proof      : coq/Properties_C06.v (archive_read_data loop, drain, tar body state machine)
corr-1     : pseudo-format scripts through the REAL archive_read_data / archive_read_data_block /
             archive_read_data_skip / next_header drain   vs  IO/ReadDataDefs.v   (harness op 0)
corr-tar   : the REAL static tar read_data / skip callbacks on hand-built states vs the model (op 2)
oracle     : on the implementation's behaviour alone: dense rendering, return <= request, and
             end-to-end on real archives (writers' output + reference corpus): for every per-entry
             choice vector the header sequence and the contents of the fully read entries equal the
             read-everything run; blocks monotone and within size; read_data == rendering of blocks."""
import os, sys, json, binascii, hashlib, itertools, lzma, subprocess
import vlib
from vlib import vfmt, vparse

LEVEL = "proof"
OK, EOF, RETRY, WARN, FAILED, FATAL = 0, 1, -10, -20, -25, -30
AE_IFREG, AE_IFDIR, AE_IFLNK = 0o100000, 0o040000, 0o120000
P61 = (1 << 61) - 1
DB1, DB2 = 1000003, 0x1f3d5b79a1

# =============================================================================================
# op 0 : pseudo-format scripts
# =============================================================================================
def render(blocks, eof):
    out = bytearray()
    for off, d in blocks:
        if off > len(out):
            out += bytes(off - len(out))
        out += d
    if eof is not None and eof > len(out):
        out += bytes(eof - len(out))
    return bytes(out)

def gen_blocks(r, wellformed=True):
    blocks, pos = [], 0
    n = r.choice([0, 1, 1, 2, 2, 3, 4, 6])
    for k in range(n):
        gap = r.choice([0, 0, 1, r.randrange(1, 50), r.randrange(100, 3000), 512, 1000] + ([100000] if r.random() < 0.05 else []))
        ln = r.choice([0, 1, 2, r.randrange(1, 300), 100, 511, 512, 513, 1000])
        data = bytes((1 + (31 * i + k) % 255) for i in range(ln)) if r.random() < 0.8 else bytes(r.randrange(256) for _ in range(ln))
        blocks.append((pos + gap, data))
        pos += gap + ln
    return blocks, pos

def gen_requests(r, blocks, total):
    lens = [len(d) for _, d in blocks if d] or [100]
    edges = sorted(set([o for o, _ in blocks] + [o + len(d) for o, d in blocks] + [total]))
    style = r.randrange(7)
    reqs = []
    if style == 0 and total <= 400:
        reqs = [1] * (total + 3)
    elif style == 1:
        c = max(1, r.choice(lens) + r.choice([-1, 0, 1]))
        reqs = [c] * min(400, total // c + 3)
    elif style == 2:
        c = r.choice([7, 100, 511, 512, 513, 777, 4096])
        reqs = [c] * min(400, total // c + 3)
    elif style == 3:
        # land exactly on block / hole edges: a call starts exactly where the data ends
        prev = 0
        for e in edges:
            if e > prev:
                reqs.append(e - prev)
                prev = e
        reqs += [r.choice([1, 100, 550, 1100])] * 3
    elif style == 4:
        reqs = [r.choice([1 << 16, 1 << 20, total + 1, max(1, total), max(1, total - 1)])] * 3
    else:
        got = 0
        while got < total + 2000 and len(reqs) < 60:
            s = r.choice([1, 2, r.randrange(1, 64), r.choice(lens), r.choice(lens) + 1, max(1, r.choice(lens) - 1),
                          r.randrange(1, 5000), 1 << 16])
            reqs.append(s)
            got += s
    return [s for s in reqs if s > 0][:400]

def gen_script_case(r, fx):
    """one op-0 case; returns the case line"""
    nent = r.choice([1, 1, 1, 2, 3])
    use_skip = r.choice([0, 0, 1])
    ents = []
    kind = r.random()
    for e in range(nent):
        blocks, end = gen_blocks(r)
        malformed = kind < 0.22
        trailing = r.choice([0, 0, 1, r.randrange(1, 3000), 8900])
        eofc = r.random()
        eof = None if eofc < 0.25 else end + trailing
        script = [[0, o, d] for o, d in blocks]
        if malformed:
            m = r.randrange(5)
            if m == 0 and len(script) >= 2:          # out of order
                i = r.randrange(len(script) - 1)
                script[i], script[i + 1] = script[i + 1], script[i]
            elif m == 1 and script:                   # overlapping
                i = r.randrange(len(script))
                script[i][1] = max(0, script[i][1] - r.randrange(1, 200))
            elif m == 2:                              # error status from the format
                script.insert(r.randrange(len(script) + 1), [1, r.choice([RETRY, WARN, FAILED, FATAL])])
            elif m == 3:                              # end-of-entry offset below the data
                eof = r.choice([0, max(0, end - 1), end // 2])
            else:                                     # negative offset
                if script:
                    script[0][1] = -r.randrange(1, 100)
        total = max(end, eof or 0)
        c = r.random()
        if c < 0.62:
            acts = [[0, s] for s in gen_requests(r, blocks, total)]
        elif c < 0.72:
            acts = [[1]] * (len(script) + r.choice([1, 2, 3]))
        elif c < 0.82:                                # prefix, then nothing: next_header drains
            acts = [[0, s] for s in gen_requests(r, blocks, total)[:r.randrange(0, 3)]]
        elif c < 0.92:                                # prefix, then explicit skip
            acts = [[0, s] for s in gen_requests(r, blocks, total)[:r.randrange(0, 3)]] + [[2]]
        else:                                         # blocks and read_data intermingled (the manual says don't)
            acts = [r.choice([[1], [0, r.choice([1, 100, 1000])]]) for _ in range(r.randrange(1, 8))]
        ents.append([script, [] if eof is None else [eof], total, acts])
    return vfmt([0, use_skip, ents, fx])

WITNESS_BLOCKS = [[0, 1000, bytes(range(1, 101))]]
def witness_case(reqs, fx):
    """F-C06-1: entry of size 10000 with data only at [1000,1100)"""
    return vfmt([0, 0, [[WITNESS_BLOCKS, [10000], 10000, [[0, s] for s in reqs]]], fx])

def script_wellformed(ents):
    """blocks only, offsets increasing and non-overlapping, end-of-entry offset absent or >= the end"""
    for script, eof, size, acts in ents:
        pos = 0
        for ev in script:
            if ev[0] != 0 or ev[1] < pos:
                return False
            pos = ev[1] + len(ev[2])
        if eof and eof[0] < pos:
            return False
    return True

def oracle_script(case_line, impl_line):
    c = vparse(case_line)
    if c[0] != 0:
        return None
    try:
        res, fin, counts = vparse(impl_line)
    except Exception:
        return ("C06:unparsable-output", "harness output not parsable")
    use_skip, ents = c[1], c[2]
    # every return value is <= the request, whatever the script
    for e, (script, eof, size, acts) in enumerate(ents[:len(res)]):
        for act, out in zip(acts, res[e][1:]):
            if act[0] == 0 and (out[0] > act[1] or (out[0] >= 0 and out[0] != len(out[1]))):
                return ("C06:read_data:return-exceeds-request", "archive_read_data(%d) returned %d" % (act[1], out[0]))
    if not script_wellformed(ents):
        return None
    if len(res) != len(ents) or fin != EOF or any(x[0] != OK for x in res):
        return ("C06:pseudo:headers-depend-on-consumption",
                "well-formed scripted entries: header statuses %s, final %d (want all 0, then 1)" % ([x[0] for x in res], fin))
    for e, (script, eof, size, acts) in enumerate(ents):
        blocks = [(ev[1], ev[2]) for ev in script]
        R = render(blocks, eof[0] if eof else None)
        end = max([o + len(d) for o, d in blocks] or [0])
        outs = res[e][1:]
        if all(a[0] == 0 for a in acts):
            # a read(2)-style client: reads until the first return value <= 0; short counts are legal
            got = 0
            for act, out in zip(acts, outs):
                want = R[got:got + act[1]]
                if out[0] > 0 and want.startswith(out[1]):
                    got += len(out[1])
                    continue
                if out[0] == 0 and got >= len(R):
                    break                                   # end of data, everything was delivered
                if out[0] == 0 and got >= end and len(R) > end:
                    return ("C06:read_data:trailing-hole-at-call-start",
                            "blocks %s, end-of-entry offset %d: after %d bytes archive_read_data(%d) returned 0 although "
                            "%d zero bytes of the trailing hole were still due (requests %s)" %
                            ([(o, len(d)) for o, d in blocks], eof[0], got, act[1], len(R) - got, [a[1] for a in acts][:16]))
                return ("C06:read_data:not-dense",
                        "blocks %s eof %s: after %d bytes archive_read_data(%d) returned %d; the bytes are not the next bytes of the zero-filled rendering" %
                        ([(o, len(d)) for o, d in blocks], eof, got, act[1], out[0]))
        if all(a[0] == 1 for a in acts):
            seen = [(o[1], o[2]) for o in outs if o[0] == OK]
            if seen != blocks[:len(seen)]:
                return ("C06:read_data_block:blocks-altered", "archive_read_data_block did not return the format's blocks unchanged")
        # drained to the end (no skip callback): the callback has been asked until it said EOF
        if not use_skip and counts[e][1] != len(script):
            return ("C06:pseudo:entry-not-drained", "entry %d: %d of %d blocks consumed at the next header" % (e, counts[e][1], len(script)))
    return None

def nontrivial_script(case_line):
    c = vparse(case_line)
    if c[0] != 0:
        return False
    for script, eof, size, acts in c[2]:
        pos, hole = 0, False
        for ev in script:
            if ev[0] == 0:
                hole = hole or ev[1] > pos
                pos = ev[1] + len(ev[2])
        if (hole or (eof and eof[0] > pos)) and sum(1 for a in acts if a[0] == 0) >= 2:
            return True
    return False

# =============================================================================================
# op 2 : tar body state machine
# =============================================================================================
def gen_tar_case(r, fxs):
    """returns a list of case lines that belong together: read k blocks, then (a) skip, (b) read to the end"""
    n = r.choice([1, 1, 2, 3, 4])
    solaris = r.random() < 0.25
    sl, pos, stored = [], 0, 0
    hole = solaris and r.random() < 0.5
    for k in range(n * (2 if solaris else 1)):
        ln = r.choice([0, 1, 10, 100, 511, 512, 513, 1500, r.randrange(1, 3000)])
        if solaris:
            sl.append([pos, ln, 1 if hole else 0])
            hole = not hole
            pos += ln
            stored += ln
        else:
            gap = r.choice([0, 0, 1, 512, r.randrange(1, 5000)])
            sl.append([pos + gap, ln, 0])
            pos += gap + ln
            stored += ln
    disk = pos + r.choice([0, 0, 1, 777, 10000])
    ebr = stored
    c = r.random()
    if c < 0.12:
        ebr = max(0, stored - r.randrange(1, 200))       # map promises more than the body holds
    elif c < 0.2:
        ebr = stored + r.randrange(1, 600)                # body longer than the map
    pad = (-ebr) % 512 if r.random() < 0.9 else r.randrange(0, 512)
    chunk = r.choice([1, 7, 100, 512, 513, 1024, 10240])
    total = ebr + pad + r.choice([0, 0, 512, 1024, 3000])
    if r.random() < 0.06:
        total = max(0, ebr + pad - r.randrange(1, 700))   # truncated input
    nreads = r.choice([0, 0, 1, 1, 2, 3, 5])
    if r.random() < 0.08 and ebr > 0 and not solaris:
        # a state as left by an earlier call: the first entry partly handed out and not yet consumed
        unc = min(r.randrange(1, 200), sl[0][1], ebr, chunk) if sl and sl[0][1] > 0 else 0
        if unc:
            sl[0][0] += unc
            sl[0][1] -= unc
            ebr -= unc
    else:
        unc = 0
    base = [2, total, chunk, sl, ebr, unc, pad, disk]
    return [vfmt(base + [nreads, 1, fxs]), vfmt(base + [-1, 0, fxs])]

def make_tar_oracle():
    memo = {}
    def oracle(case_line, impl_line):
        c = vparse(case_line)
        if c[0] != 2:
            return None
        try:
            blocks, sk, pos = vparse(impl_line)
        except Exception:
            return ("C06:unparsable-output", "harness output not parsable")
        total, chunk, sl, ebr, unc, pad, disk, nreads, do_skip = c[1:10]
        key = vfmt(c[1:8])
        for b in blocks:
            if b[0] == OK and not b[4]:
                return ("C06:tar_read_data:wrong-bytes", "block (%d,%d) does not point at stream position %d" % (b[1], b[2], b[3]))
        if not do_skip and nreads < 0:
            # blocks_within_size on the real reader: monotone, non-overlapping, inside the entry's size,
            # when the sparse map itself is well-formed
            end, okmap = 0, True
            for o, l, h in sl:
                okmap = okmap and o >= end
                end = o + l
            okmap = okmap and end <= disk
            if okmap:
                p = 0
                for b in blocks:
                    if b[0] == OK:
                        if b[1] < p or b[1] + b[2] > disk:
                            return ("C06:tar_read_data:blocks-outside-size",
                                    "sparse list %s, size %d: block (%d,%d) after offset %d" % (sl, disk, b[1], b[2], p))
                        p = b[1] + b[2]
        fatal = any(b[0] == FATAL for b in blocks) or (sk and sk[0] != OK)
        memo.setdefault(key, {})[(nreads, do_skip)] = (pos, fatal, blocks)
        d = memo[key]
        full = d.get((-1, 0))
        if full is not None and not full[1]:
            for (nr, ds), (p, f, bl) in d.items():
                if ds and not f and p != full[0]:
                    holes = any(h for _, _, h in sl)
                    return ("C06:tar_skip:holes-not-consumed" if holes else "C06:tar_skip:position-differs",
                            "sparse list (offset,remaining,hole) %s, entry_bytes_remaining %d, unconsumed %d, padding %d: "
                            "stream position after %d block(s) + skip is %d, after reading every block %d" %
                            (sl, ebr, unc, pad, nr, p, full[0]))
        return None
    return oracle

# =============================================================================================
# op 1 : end-to-end corpus
# =============================================================================================
def uudecode(path):
    out, started = bytearray(), False
    for line in open(path, "rb"):
        if not started:
            started = line.startswith(b"begin ")
            continue
        s = line.rstrip(b"\r\n")
        if s == b"end":
            break
        if not s:
            continue
        n = (s[0] - 32) & 63
        if n == 0:
            continue
        body = s[1:1 + ((n + 2) // 3) * 4].ljust(((n + 2) // 3) * 4, b"`")
        chunk = bytearray()
        for i in range(0, len(body), 4):
            a, b, c, d = [(x - 32) & 63 for x in body[i:i + 4]]
            chunk += bytes([(a << 2 | b >> 4) & 255, (b << 4 | c >> 2) & 255, (c << 6 | d) & 255])
        out += chunk[:n]
    return bytes(out)

MUST_HAVE = ["test_read_format_gtar_sparse_1_13.tar", "test_read_format_gtar_sparse_1_17.tar",
             "test_read_format_gtar_sparse_1_17_posix00.tar", "test_read_format_gtar_sparse_1_17_posix01.tar",
             "test_read_format_gtar_sparse_1_17_posix10.tar", "test_read_format_gtar_sparse_1_17_posix10_modified.tar",
             "test_compat_solaris_pax_sparse_1.pax.Z", "test_compat_solaris_pax_sparse_2.pax.Z",
             "test_read_format_rar_compress_normal.rar", "test_read_format_rar_multi_lzss_blocks.rar",
             "test_read_format_rar5_solid.rar", "test_read_format_rar5_multiple_files_solid.rar",
             "test_read_format_7zip_solid_zstd.7z", "test_read_format_7zip_bzip2.7z", "test_read_format_7zip_symbolic_name.7z",
             "test_read_format_zip_length_at_end.zip", "test_read_format_zip_symlink.zip",
             "test_read_format_warc.warc", "test_read_format_xar_duplicate_filename_node.xar",
             "test_read_format_cab_1.cab", "test_read_format_lha_lh5.lzh", "test_read_format_iso_rockridge.iso.Z",
             "test_read_format_cpio_svr4_gzip_rpm.rpm", "test_read_format_mtree.mtree", "test_read_format_ar.ar",
             "test_compat_xz_1.txz", "test_read_format_gtar_sparse_skip_entry.tar.Z"]

def pattern_spec(names_sizes):
    return [[n, AE_IFREG, s, 1, 7 * i + 3, [], ""] for i, (n, s) in enumerate(names_sizes)]

def half_random_spec(names_sizes):
    import random
    rr = random.Random(20261002)
    out = []
    for i, (n, sz) in enumerate(names_sizes):
        body = bytes(rr.choice(b"0123456789abcdef") for _ in range(sz))
        out.append([n, AE_IFREG, sz, 1, 0, [], "", body])
    return out

def writer_specs():
    """(name, format, filters, options, entries) for harness op 3"""
    plain = [["dir", AE_IFDIR, 0, 1, 0, [], ""], ["dir/a", AE_IFREG, 3000, 1, 1, [], ""], ["dir/empty", AE_IFREG, 0, 1, 2, [], ""],
             ["dir/b", AE_IFREG, 70001, 1, 3, [], ""], ["dir/lnk", AE_IFLNK, 0, 1, 0, [], "a"], ["dir/c", AE_IFREG, 513, 1, 4, [], ""]]
    few = pattern_spec([("f1", 1100), ("f2", 0), ("f3", 40000), ("f4", 5)])
    sparse = [["lead", AE_IFREG, 10000, 1, 5, [[1000, 100]], ""],                      # leading + trailing hole (F-C06-1 witness)
              ["mid", AE_IFREG, 30000, 1, 6, [[0, 512], [9000, 1024], [29000, 1000]], ""],   # interior holes, data up to the end
              ["tail", AE_IFREG, 8192, 1, 7, [[0, 100]], ""],                          # trailing hole only
              ["allhole", AE_IFREG, 4096, 1, 8, [[4096, 0]], ""],                      # fully sparse
              ["dense", AE_IFREG, 2000, 1, 9, [], ""],
              ["adj", AE_IFREG, 3000, 1, 10, [[0, 1000], [1000, 1000], [2500, 500]], ""]]
    unsized = [[n, t, s, 0 if t == AE_IFREG else 1, sd, sp, l] for n, t, s, z, sd, sp, l in few]
    # entries larger than one decode buffer (64 KiB) of the solid/stream decoders: a partial read followed by a
    # skip must leave the shared decoder exactly where a full read would
    big = pattern_spec([("g1", 150000), ("g2", 3000), ("g3", 200000), ("g4", 5000)])
    specs = [("ustar", "ustar", [], "", plain), ("pax", "pax", [], "", plain), ("gnutar", "gnutar", [], "", plain),
             ("pax-sparse", "pax", [], "", sparse), ("paxr-sparse-gz", "paxr", ["gzip"], "", sparse),
             ("zip-store", "zip", [], "zip:compression=store", plain), ("zip-deflate", "zip", [], "zip:compression=deflate", plain),
             ("zip-lae-deflate", "zip", [], "zip:compression=deflate", unsized), ("zip-lae-store", "zip", [], "zip:compression=store", unsized),
             ("7zip-solid", "7zip", [], "", few), ("7zip-plain", "7zip", [], "7zip:compression=store", plain),
             ("7zip-lzma2", "7zip", [], "7zip:compression=lzma2", plain),
             ("7zip-solid-big", "7zip", [], "", big), ("7zip-deflate-big", "7zip", [], "7zip:compression=deflate", big),
             ("7zip-bzip2-big", "7zip", [], "7zip:compression=bzip2", big), ("pax-gz-big", "pax", ["gzip"], "", big),
             ("zip-deflate-big", "zip", [], "zip:compression=deflate", big),
             # zisofs-compressed bodies (several compressed blocks per file): the block decoder's state must not leak
             # from one file into the next, whatever was done with the earlier file
             ("iso-zisofs", "iso9660", [], "iso9660:zisofs=direct", pattern_spec([("z1", 50000), ("z2", 33000), ("z3", 50001), ("z4", 40)])),
             # ... and with bodies that compress only about 2:1, so that one compressed block is far larger than a
             # read-ahead window and a partial read stops inside it
             ("iso-zisofs-dense", "iso9660", [], "iso9660:zisofs=direct", half_random_spec([("y1", 103177), ("y2", 70000), ("y3", 103177)])),
             ("cpio-odc", "cpio", [], "", plain), ("cpio-newc-bz2", "newc", ["bzip2"], "", plain),
             ("xar", "xar", [], "", plain), ("warc", "warc", [], "", few), ("ar", "arbsd", [], "", pattern_spec([("a.o", 101), ("bb.o", 0), ("c.o", 3000)])),
             ("iso", "iso9660", [], "", plain), ("mtree", "mtree", [], "", plain), ("tar-zstd", "ustar", ["zstd"], "", few),
             ("tar-lz4", "gnutar", ["lz4"], "", few), ("pax-xz", "pax", ["xz"], "", few)]
    return specs

class Corpus:
    """archives under a scratch directory: decoded reference files and writer output"""
    def __init__(self, exe):
        self.exe = exe
        self.dir = os.path.join(vlib.scratch(), "c06-corpus")
        os.makedirs(self.dir, exist_ok=True)
        self.items = []          # (name, path, spec for replay)

    def add_reference(self, uu):
        name = os.path.basename(uu)[:-3]
        p = os.path.join(self.dir, name)
        if not os.path.exists(p):
            open(p, "wb").write(uudecode(uu))
        self.items.append((name, p, dict(uu=os.path.basename(uu))))
        return p

    def add_written(self, specs):
        lines = [vfmt([3, os.path.join(self.dir, "w-" + n), f, fl, o, e]) for n, f, fl, o, e in specs]
        rc, outs, err = vlib.run_exe(self.exe, vlib.write_cases(lines, "c06-write.cases"))
        made = []
        for (n, f, fl, o, e), line, out in zip(specs, lines, outs):
            st = vparse(out)
            if st[0] >= WARN:
                self.items.append(("w-" + n, os.path.join(self.dir, "w-" + n), dict(write=line)))
                made.append(n)
        return made, rc, err

    def add_nested(self):
        """second round: stored members whose CONTENTS are an archive of the same format (local-header
        signatures inside member data: a reader that does not skip exactly finds a false header)"""
        d = {n: p for n, p, s in self.items}
        specs = []
        for inner, fmt, opts in (("w-zip-store", "zip", "zip:compression=store"), ("w-ustar", "ustar", ""), ("w-cpio-odc", "cpio", "")):
            if inner in d:
                body = open(d[inner], "rb").read()
                ents = [["first", AE_IFREG, 700, 1, 11, [], ""], ["inner", AE_IFREG, len(body), 1, 0, [], "", body],
                        ["last", AE_IFREG, 900, 1, 12, [], ""]]
                specs.append(("nested-" + inner[2:], fmt, [], opts, ents))
                if fmt == "zip":
                    unsized = [e[:3] + [0] + e[4:] for e in ents]
                    specs.append(("nested-lae-" + inner[2:], fmt, [], opts, unsized))
        return self.add_written(specs)[0] if specs else []

    def add_derived(self):
        """archives made from the above by byte surgery (no writer produces them)"""
        d = {n: p for n, p, s in self.items}
        # Solaris pax sparse member followed by one more member: the holes are stored in the archive
        p = d.get("test_compat_solaris_pax_sparse_1.pax.Z")
        q = d.get("w-ustar")
        if p and q:
            try:
                raw = subprocess.run(["uncompress", "-c", p], stdout=subprocess.PIPE, timeout=60).stdout
                body_end = 1536 + ((819207 + 511) // 512) * 512
                if len(raw) >= body_end:
                    out = os.path.join(self.dir, "d-solaris-sparse-then-ustar.tar")
                    open(out, "wb").write(raw[:body_end] + open(q, "rb").read())
                    self.items.append(("d-solaris-sparse-then-ustar.tar", out, dict(derived="solaris+ustar")))
            except Exception:
                pass
        # multi-stream xz: the pax archive cut in three pieces, each piece its own .xz stream
        q = d.get("w-pax")
        if q:
            raw = open(q, "rb").read()
            cut = [0, 700, len(raw) // 2, len(raw)]
            out = os.path.join(self.dir, "d-pax-multistream.tar.xz")
            open(out, "wb").write(b"".join(lzma.compress(raw[a:b], format=lzma.FORMAT_XZ) for a, b in zip(cut, cut[1:])))
            self.items.append(("d-pax-multistream.tar.xz", out, dict(derived="pax-multistream-xz")))

        # Info-ZIP style zip (sizes in the local headers, no data descriptor - libarchive's own writer uses
        # length-at-end): deflate members far larger than one decode step, so that a partial read stops inside
        # the deflate stream and the following skip has to account for what was already consumed
        try:
            import zipfile, io
            b = io.BytesIO()
            with zipfile.ZipFile(b, "w", zipfile.ZIP_DEFLATED) as z:
                for nm, n, k in (("a.bin", 600000, 7), ("b.txt", 46, 3), ("d.bin", 600000, 11), ("c.txt", 44, 5)):
                    z.writestr(nm, bytes(((i * k) ^ (i >> 9) * 31) & 0xff for i in range(n)))
            out = os.path.join(self.dir, "d-infozip-deflate-big.zip")
            open(out, "wb").write(b.getvalue())
            self.items.append(("d-infozip-deflate-big.zip", out, dict(derived="python-zipfile deflate, sizes in local headers")))
            b = io.BytesIO()
            with zipfile.ZipFile(b, "w", zipfile.ZIP_STORED) as z:
                for nm, n, k in (("a.bin", 300000, 7), ("b.txt", 46, 3), ("c.txt", 44, 5)):
                    z.writestr(nm, bytes(((i * k) ^ (i >> 9) * 31) & 0xff for i in range(n)))
            out = os.path.join(self.dir, "d-infozip-store-big.zip")
            open(out, "wb").write(b.getvalue())
            self.items.append(("d-infozip-store-big.zip", out, dict(derived="python-zipfile stored, sizes in local headers")))
        except Exception:
            pass

def ext_zeros(dg, n):
    """digest (len,h1,h2) of the string followed by n zero bytes"""
    ln, h1, h2 = dg
    if n <= 0:
        return (ln, h1, h2)
    return (ln + n, h1 * pow(DB1, n, P61) % P61, h2 * pow(DB2, n, P61) % P61)

HDR = slice(0, 10)

def e2e_baseline(out):
    """parse the read-everything-by-blocks run; returns None when the archive is not well-formed
    (some header or data call failed), else per-entry dicts"""
    ents, fin = out[0], out[1]
    if fin != EOF:
        return None
    res = []
    for e in ents:
        if e[0] not in (OK, WARN):
            return None
        ch = e[10]
        if ch[0] != 1 or ch[2] != EOF:
            return None
        blocks, st, eofoff, mono, nblk, ln, h1, h2 = ch[1:9]
        res.append(dict(hdr=e[HDR], blocks=blocks, eofoff=eofoff, mono=mono, nblk=nblk, dense=(ln, h1, h2),
                        size=e[3] if e[2] else None, path=e[1]))
    return res

class E2E:
    def __init__(self, rep, exe, corpus, r, quick):
        self.rep, self.exe, self.corpus, self.r, self.quick = rep, exe, corpus, r, quick
        self.stats = dict(archives=0, wellformed=0, vectors=0, entries_fully_read_compared=0, formats={}, skipped_not_wellformed=[],
                          sanitizer_reports_outside_property=[])
        self.samples = []

    def run_lines(self, lines, tag, baseline=False):
        """one harness process for all lines; when the harness stops on a line (sanitizer report), that line
        gets the result None and the run resumes after it"""
        res, start = [], 0
        # leaks are looked for at exit (what an abandoned entry leaves behind - a digest context, a decoder - and
        # archive_read_free does not release); the culprit is then searched for by running the lines one by one
        env = dict(ASAN_OPTIONS="detect_leaks=1:abort_on_error=0:exitcode=99")
        while start < len(lines):
            rc, outs, err = vlib.run_exe(self.exe, vlib.write_cases(lines[start:], "c06-%s.cases" % tag), timeout=1500, env=env)
            res += [vparse(o) for o in outs[:len(lines) - start]]
            if rc == 0 and len(res) == len(lines):
                break
            k = len(res)
            if k >= len(lines):
                if rc != 0 and "LeakSanitizer" in err and not baseline:
                    self.leak_search(lines[start:], err)
                break
            key = "crash:readData:" + vlib.crash_key(err)
            summ = "; ".join(l.strip() for l in err.split("\n") if "runtime error" in l or "ERROR: " in l or "TIMEOUT" in l)[:300]
            if baseline:
                # reading every entry of a reference file in the plain way trips a sanitizer: not this property
                # (C01); recorded in the evidence, the archive is left out
                self.stats["sanitizer_reports_outside_property"].append(dict(archive=os.path.basename(vparse(lines[k])[1].decode()), report=summ, key=key))
            else:
                self.rep.violation(key, "harness readData stopped (rc=%s) on an end-to-end choice vector whose read-everything run is clean: %s" % (rc, summ),
                                   dict(case=lines[k], stderr=err[-3000:], archive=self.spec_of(lines[k])), found_input=True)
            res.append(None)
            start = len(res)
        return res

    def leak_search(self, lines, err):
        env = dict(ASAN_OPTIONS="detect_leaks=1:abort_on_error=0:exitcode=99")
        first = None
        for l in lines:
            rc, outs, e1 = vlib.run_exe(self.exe, vlib.write_cases([l], "c06-leak.cases"), timeout=600, env=env)
            if rc != 0 and "LeakSanitizer" in e1:
                first = (l, e1)
                break
        l, e1 = first if first else (lines[0], err)
        where = vlib.crash_key(e1)
        self.rep.violation("C06:leak:" + where, "memory obtained while reading is still allocated after archive_read_free when entry bodies are consumed "
                           "like this (the read-everything run of the same archive leaves nothing behind): %s" %
                           "; ".join(x.strip() for x in e1.split("\n") if "SUMMARY" in x)[:200],
                           dict(case=l, stderr=e1[-3000:], archive=self.spec_of(l)), found_input=first is not None)

    def spec_of(self, line):
        p = vparse(line)[1].decode()
        for n, path, spec in self.corpus.items:
            if path == p:
                return spec
        return None

    def vectors(self, n, sizes, ends=()):
        r = self.r
        V = []
        small = sum(s or 0 for s in sizes) <= 6000
        bufsets = [[65536], [r.randrange(1, 700)], [1, 3, 1000, 17], [4096]]
        if small:
            bufsets.append([1])
        # lengths that make a call start exactly where an entry's data ends
        for s in sizes:
            if s and 1 < s <= (1 << 21) and len(bufsets) < 8:
                bufsets.append([max(1, s // 2)])
        for e in ends:
            if e and 0 < e <= (1 << 21) and len(bufsets) < 11 and [e] not in bufsets:
                bufsets.append([e])
        for b in bufsets:
            V.append([[0] + b])
        if n <= 6:
            for mask in range(2 ** n):
                V.append([([0, 4096] if (k % 2) else [1]) if (mask >> k) & 1 else [4] for k in range(n)])
        # one entry read partially (or skipped explicitly), every other entry read completely: what a partial read
        # leaves behind in a decoder must not reach the entries that follow
        if n <= 8:
            for i in range(n):
                for act in ([2, 10], [2, 5000], [3]):
                    V.append([act if k == i else [0, 4096] for k in range(n)])
        extra = 8 if n <= 6 else 16
        V.append([[3]]); V.append([[4]]); V.append([[2, 1]]); V.append([[2, 10]])
        for _ in range(extra if not self.quick else max(3, extra // 2)):
            V.append([r.choice([[0, r.choice([1 << 16, 100, 4096])], [1], [2, r.choice([1, 10, 511, 5000])], [3], [4]]) for _ in range(min(n, 40))])
        return V

    def check_all(self, jobs):
        """jobs: list of (name, path, spec, blocksize).  Two harness runs: every baseline, then every vector."""
        base_lines = [vfmt([1, path, [[1]], bs]) for name, path, spec, bs in jobs]
        outs = self.run_lines(base_lines, "base", baseline=True)
        todo = []
        for (name, path, spec, bs), bl, out in zip(jobs, base_lines, outs):
            self.stats["archives"] += 1
            base = e2e_baseline(out) if out is not None else None
            if base is None:
                self.stats["skipped_not_wellformed"].append(name + ("" if not bs else "@stream"))
                continue
            fmt = out[3].decode("utf-8", "replace") or ("format-%x" % out[4])
            self.stats["wellformed"] += 1
            self.stats["formats"][fmt] = self.stats["formats"].get(fmt, 0) + 1
            V = self.vectors(len(base), [b["size"] for b in base],
                             [b["dense"][0] for b in base if b["eofoff"] > b["dense"][0]])
            todo.append((name, path, spec, bs, bl, base, fmt, V, [vfmt([1, path, v, bs]) for v in V]))
        outs = self.run_lines([l for t in todo for l in t[8]], "vec")
        k = 0
        for t in todo:
            n = len(t[8])
            self.judge(*t, outs[k:k + n])
            k += n

    def judge(self, name, path, spec, bs, base_line, base, fmt, V, lines, outs):
        rep = self.rep
        def viol(key, what, line, impl=None):
            rep.violation(key, "%s [%s, %s]: %s" % (name, fmt, "seekable" if not bs else "stream reads of %d" % bs, what),
                          dict(case=line, archive=spec, baseline=base_line, impl=impl, cmd="harness readData op 1 on the rebuilt archive"),
                          found_input=True)
        # ---- the blocks of the read-everything run
        for k, b in enumerate(base):
            if not b["mono"]:
                viol("C06:blocks:not-increasing:" + fmt, "entry %d %r: block offsets overlap or go backwards: %s" % (k, b["path"], b["blocks"][:12]), base_line)
            elif b["size"] is not None and b["dense"][0] > b["size"]:
                viol("C06:blocks:beyond-size:" + fmt, "entry %d %r: blocks end at %d, entry size %d" % (k, b["path"], b["dense"][0], b["size"]), base_line)
        self.stats["vectors"] += len(outs)
        if len(self.samples) < 4 and lines:
            self.samples.append("(1 <%s> %s %d)" % (name, vfmt(V[min(len(V) - 1, 9)]), bs))
        kinds = {0: "read_data", 1: "read_data_block", 2: "prefix", 3: "skip", 4: "nothing", "-": "open"}
        for v, line, o in zip(V, lines, outs):
            if o is None:
                continue
            ents, fin = o[0], o[1]
            hdrs = [e[HDR] for e in ents]
            want = [b["hdr"] for b in base]
            if hdrs != want or fin != EOF:
                k = 0
                while k < len(hdrs) and k < len(want) and hdrs[k] == want[k]:
                    k += 1
                prev = (v[min(k - 1, len(v) - 1)] if k > 0 else ["-"])
                sparse_prev = k > 0 and k - 1 < len(base) and base[k - 1]["hdr"][9] > 0
                viol("C06:headers-depend-on-consumption:%s:%s%s" % (fmt, "stream" if bs else "seekable", ":after-sparse-entry" if sparse_prev else ""),
                     "header #%d differs from the read-everything run after the previous entry was consumed by '%s' (choices %s): got %s (final status %s %r), want %s" %
                     (k, kinds.get(prev[0], "?"), [kinds.get(x[0]) for x in v[:k + 1]], hdrs[k] if k < len(hdrs) else "end of archive", fin, o[2][:80],
                      want[k] if k < len(want) else "end of archive"),
                     line, impl=str(o)[:600])
            for k, e in enumerate(ents[:len(base)]):
                if e[HDR] != base[k]["hdr"]:
                    break
                ch, b = e[10], base[k]
                if ch[0] == 1:
                    # block boundaries may depend on the state of the read-ahead buffer; what they render to may not
                    if not ch[4]:
                        viol("C06:blocks:not-increasing:" + fmt, "entry %d %r: block offsets overlap or go backwards (choices %s): %s" %
                             (k, b["path"], [kinds.get(x[0]) for x in v[:k + 1]], ch[1][:12]), line)
                    elif tuple(ch[6:9]) == b["dense"] and ch[2] == EOF and ch[3] != b["eofoff"]:
                        viol("C06:eof-offset-depends-on-consumption:" + fmt,
                             "entry %d %r: the offset archive_read_data_block returns with ARCHIVE_EOF is %d, in the read-everything run %d (choices %s)" %
                             (k, b["path"], ch[3], b["eofoff"], [kinds.get(x[0]) for x in v[:k + 1]]), line)
                    elif tuple(ch[6:9]) != b["dense"] or ch[2] != EOF:
                        viol("C06:content-depends-on-consumption:%s:read_data_block" % fmt,
                             "entry %d %r: the blocks render to different bytes than in the read-everything run (choices %s): %d blocks / %d bytes / end offset %d, want %d blocks / %d bytes / end offset %d" %
                             (k, b["path"], [kinds.get(x[0]) for x in v[:k + 1]], ch[5], ch[6], ch[3], b["nblk"], b["dense"][0], b["eofoff"]), line)
                    else:
                        self.stats["entries_fully_read_compared"] += 1
                elif ch[0] == 0:
                    got, last = tuple(ch[1:4]), ch[4]
                    if got[0] > (1 << 22):      # harness READ_CAP: the entry was not read to its end
                        continue
                    # a trailing hole is what the reader announces with the end-of-entry offset, for a regular file, within its size
                    hole_end = b["dense"][0]
                    if e[4] == AE_IFREG and b["eofoff"] > hole_end:
                        hole_end = b["eofoff"] if b["size"] is None else max(hole_end, min(b["eofoff"], b["size"]))
                    want_d = ext_zeros(b["dense"], hole_end - b["dense"][0])
                    bufs = v[min(k, len(v) - 1)][1:]
                    if got != want_d or last != 0:
                        if last == 0 and got == b["dense"] and want_d[0] > got[0]:
                            viol("C06:read_data:trailing-hole-at-call-start:e2e:" + fmt,
                                 "entry %d %r (size %d, data ends at %d): archive_read_data with buffer sizes %s delivered %d bytes and then 0; the trailing hole is lost" %
                                 (k, b["path"], b["size"], b["dense"][0], bufs, got[0]), line)
                        elif last == 0 and got[0] > want_d[0] and ext_zeros(want_d, got[0] - want_d[0]) == got:
                            viol("C06:read_data:zeros-beyond-entry-size:" + fmt,
                                 "entry %d %r (size %s): archive_read_data with buffer sizes %s delivered %d bytes, %d zero bytes more than the entry holds "
                                 "(end-of-entry offset reported by the reader: %d)" % (k, b["path"], b["size"], bufs, got[0], got[0] - want_d[0], b["eofoff"]), line)
                        else:
                            viol("C06:content-depends-on-consumption:%s:read_data" % fmt,
                                 "entry %d %r: archive_read_data with buffer sizes %s (choices %s) delivered %d bytes (last return %d), digest differs from the rendering of the blocks (%d bytes)" %
                                 (k, b["path"], bufs, [kinds.get(x[0]) for x in v[:k + 1]], got[0], last, want_d[0]), line)
                    else:
                        self.stats["entries_fully_read_compared"] += 1

# =============================================================================================
def probe_variants(exe):
    """which of the two modelled variants of each loop does this tree contain? (behavioural probe;
    the whole correspondence run then validates the choice)"""
    lines = [witness_case([100] * 12, 0), vfmt([2, 4096, 512, [[0, 100, 0], [100, 900, 1], [1000, 200, 0]], 1200, 0, 336, 1200, 0, 1, 0])]
    rc, outs, err = vlib.run_exe(exe, vlib.write_cases(lines, "c06-probe.cases"))
    fx = fxs = 0
    try:
        res = vparse(outs[0])[0][0][1:]
        fx = 0 if any(o[0] == 0 for o in res[:12]) else 1
        fxs = 1 if vparse(outs[1])[2] == 1536 else 0
    except Exception:
        pass
    return fx, fxs

def build(rep):
    runner = vlib.build_runner("readData")
    exe = vlib.compile_harness("readData", "asan", private=True)
    return runner, exe

def run(rep):
    pr = vlib.proof_part(rep, "C06", translators=["gen_defines"])
    runner, exe = build(rep)
    quick = rep.tier == "quick"
    fx, fxs = probe_variants(exe)
    # ---------------- corr-1: scripts
    r = vlib.rng(rep.seed, "C06-script")
    n = 900 if quick else 12000
    fixed_cases = [witness_case(q, fx) for q in ([1100, 1100, 1100], [100] * 14, [550] * 5, [777] * 15, [10000, 10000], [20000, 20000])]
    cases = fixed_cases + [gen_script_case(r, fx) for _ in range(n)]
    corpus_lines = vlib.load_corpus("C06")
    st1 = vlib.correspond(rep, "readData", runner, exe, corpus_lines + cases, oracle=oracle_script)
    # ---------------- corr-tar
    r = vlib.rng(rep.seed, "C06-tar")
    tcases = []
    for _ in range(500 if quick else 6000):
        tcases += gen_tar_case(r, fxs)
    st2 = vlib.correspond(rep, "readData-tar", runner, exe, tcases, oracle=make_tar_oracle())
    # ---------------- end-to-end oracle
    r = vlib.rng(rep.seed, "C06-e2e")
    corpus = Corpus(exe)
    made, wrc, werr = corpus.add_written(writer_specs())
    made += corpus.add_nested()
    tdir = os.path.join(vlib.REPO, "libarchive", "test")
    uus = sorted(f for f in os.listdir(tdir) if f.endswith(".uu"))
    must = [u for u in uus if u[:-3] in MUST_HAVE]
    rest = [u for u in uus if u[:-3] not in MUST_HAVE]
    if quick:
        rest = r.sample(rest, min(len(rest), 45))
    for u in must + rest:
        corpus.add_reference(os.path.join(tdir, u))
    corpus.add_derived()
    e2e = E2E(rep, exe, corpus, r, quick)
    jobs = []
    for name, path, spec in list(corpus.items):
        jobs.append((name, path, spec, 0))
        if name.startswith("w-") or name.startswith("d-") or (name.startswith("test_read_format_zip") and r.random() < 0.5) or r.random() < 0.15:
            jobs.append((name, path, spec, r.choice([7, 512, 10240])))
    e2e.check_all(jobs)
    alls = cases + tcases
    rep.coverage.update(
        evaluations=len(alls) + len(corpus_lines) + e2e.stats["vectors"] + e2e.stats["archives"],
        distinct_nontrivial=len(set(c for c in cases if nontrivial_script(c))) + e2e.stats["wellformed"],
        rule="scripts: block lists with leading/interior/trailing holes, adjacent and empty blocks, end-of-entry offset absent/exact/beyond, "
             "request sizes 1, block length +-1, landing exactly on block edges, huge; 22% malformed (out of order, overlapping, error status, "
             "negative offset, end offset below data); 1-3 entries with prefix/skip/nothing/blocks actions. non-trivial = some entry has a hole "
             "and is read with >= 2 archive_read_data calls. tar: sparse lists with/without Solaris hole entries, short/long bodies, unconsumed "
             "bytes, chunked input. end-to-end: every well-formed archive counts once",
        samples=[cases[6][:300], tcases[0], tcases[1]] + e2e.samples[:2],
        traces_validated_against_impl=st1["agree"] + st2["agree"],
        correspondence=[st1, st2], end_to_end=e2e.stats,
        modelled_variant=dict(read_data_eof_zero_fill=bool(fx), tar_skip_counts_holes=bool(fxs)),
        writers_used=made)
    rep.assumptions += [
        "the model variant (pinned / repaired loop) is selected by a behavioural probe of the tree under check and then validated by the whole correspondence run; "
        "C06_read_data_dense is a theorem about the repaired loop, C06_read_data_dense_refuted about the pinned one",
        "request sizes and offsets below 2^62 (no int64 wrap-around modelled)",
        "format decoders (zip, 7zip, rar, ...) are not modelled: for them the property is checked by the end-to-end oracle only",
        "end-to-end: an archive counts as well-formed when reading every entry by blocks succeeds (headers OK/WARN, data to EOF)"]
    vlib.proof_verdict(rep, "C06", pr)

def replay(rep, path):
    d = json.load(open(path))
    rp = d["replay"]
    runner, exe = build(rep)
    case = rp["case"]
    c = vparse(case)
    if c[0] in (0, 2):
        vlib.correspond(rep, "readData", runner, exe, [case], oracle=oracle_script if c[0] == 0 else None)
        if c[0] == 2:
            o = make_tar_oracle()
            base = c[:8]
            # the recorded line may be either half of the pair (k reads + skip / read everything)
            lines = [vfmt(base + [-1, 0, c[10]])] + [vfmt(base + [k, 1, c[10]]) for k in sorted(set([max(c[8], 0), 0, 1, 2, 3, 5]))]
            rc, outs, err = vlib.run_exe(exe, vlib.write_cases(lines, "c06-replay.cases"))
            for l, out in zip(lines, outs):
                hit = o(l, out)
                if hit:
                    rep.violation(hit[0], hit[1], dict(case=l, impl=out), found_input=True)
    else:
        corpus = Corpus(exe)
        spec = rp.get("archive") or {}
        tdir = os.path.join(vlib.REPO, "libarchive", "test")
        if "uu" in spec:
            corpus.add_reference(os.path.join(tdir, spec["uu"]))
        else:
            corpus.add_written(writer_specs())
            corpus.add_nested()
            for u in ("test_compat_solaris_pax_sparse_1.pax.Z.uu",):
                corpus.add_reference(os.path.join(tdir, u))
            corpus.add_derived()
        old = c[1].decode()
        hit = [(n, p, s) for n, p, s in corpus.items if os.path.basename(p) == os.path.basename(old)]
        if hit:
            e2e = E2E(rep, exe, corpus, vlib.rng(rep.seed, "C06-e2e"), True)
            e2e.vectors = lambda n, sizes, ends=(): [c[2]]
            e2e.check_all([(hit[0][0], hit[0][1], hit[0][2], c[3] if len(c) > 3 else 0)])
    rep.coverage.update(evaluations=1, distinct_nontrivial=1, samples=[case[:400]])
