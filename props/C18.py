"""C18 - character-set conversion of names is correct and bounded.
Proof (coq/Properties_C18.v over coq/Entry/Utf{Defs,Proofs}.v) + correspondence of the Gallina model
with the real coders of libarchive/archive_string.c (static functions reached by #include in
harness/utf.c) + an oracle that judges only what the implementation returned, against Python's own
strict UTF-8 / UTF-16 codecs and unicodedata (independent of the model).

What is compared with the model (exact equality of the result lines):
  op 0 one decoder call, op 1 one encoder call (exact-size heap buffers), op 2
  archive_string_append_unicode with a given sc->flag, op 5 strncat_from_utf8_to_utf8, op 3
  archive_strncpy_l through archive_string_conversion_to_charset / _from_charset objects in the
  C.UTF-8 locale, op 4 archive_entry pathname views (_utf8, _w), op 6 encode/decode sweeps over
  code point ranges (all of 0..0x10FFFF in the thorough tier).
Normalisation: the objects made by archive_string_conversion_from_charset for UTF-8 / UTF-16BE /
UTF-16LE carry SCONV_NORMALIZATION_C and run archive_string_normalize_C (composition tables - not
modelled).  to_charset objects do not normalise.  Model comparison of from_charset is therefore
restricted to NFC-inert input (no character with a canonical combining class, a decomposition or in
a Hangul jamo block); other input goes through the same harness but is judged by the oracle alone
(canonical equivalence of input and output by unicodedata).
Observed and accepted as documented behaviour (see Properties_C18.v): CESU-8 surrogate pairs in
UTF-8 input are canonicalised with status 0; utf16nbytes() hands only whole 16-bit units to the
converter, so a dangling odd byte given to archive_strncat_l is dropped, not reported."""
import os, re, json, struct, unicodedata
import vlib
from vlib import vfmt, vparse

LEVEL = "proof"

# ------------------------------------------------------------------ constants from the regenerated table
def gen_consts():
    txt = open(os.path.join(vlib.COQ, "Gen", "UtfTable.v")).read()
    return {m.group(1): int(m.group(2)) for m in re.finditer(r"Definition (\w+) : N := (\d+)\.", txt)}

# ------------------------------------------------------------------ reference codecs (Python's own)
def is_scalar(u):
    return 0 <= u <= 0x10FFFF and not (0xD800 <= u <= 0xDFFF)

def enc8(us):
    return b"".join(chr(u).encode("utf-8", "surrogatepass") for u in us)

def enc16(us, be):
    out = b""
    for u in us:
        if u > 0xFFFF:
            u -= 0x10000
            out += struct.pack(">HH" if be else "<HH", 0xD800 + (u >> 10), 0xDC00 + (u & 0x3FF))
        else:
            out += struct.pack(">H" if be else "<H", u)
    return out

def lead_len(b):
    if b < 0x80: return 1
    if 0xC2 <= b <= 0xDF: return 2
    if 0xE0 <= b <= 0xEF: return 3
    if 0xF0 <= b <= 0xF4: return 4
    return 0

def first8(bs, mode="strict"):
    """(length, code point) of the well-formed UTF-8 sequence bs starts with, else None"""
    if not bs:
        return None
    L = lead_len(bs[0])
    if L == 0 or len(bs) < L:
        return None
    try:
        s = bs[:L].decode("utf-8", mode)
    except UnicodeDecodeError:
        return None
    return (L, ord(s)) if len(s) == 1 else None

def dec8_strict(bs):
    try:
        return [ord(c) for c in bs.decode("utf-8")]
    except UnicodeDecodeError:
        return None

def dec8_cesu(bs):
    """scalars of a byte string that is well-formed UTF-8 in which supplementary characters may
    also be written as CESU-8 surrogate pairs; None otherwise"""
    out, i = [], 0
    while i < len(bs):
        f = first8(bs[i:])
        if f:
            out.append(f[1]); i += f[0]; continue
        h = first8(bs[i:], "surrogatepass")
        l = first8(bs[i + 3:], "surrogatepass") if h else None
        if h and l and 0xD800 <= h[1] <= 0xDBFF and 0xDC00 <= l[1] <= 0xDFFF:
            out.append(0x10000 + ((h[1] - 0xD800) << 10) + (l[1] - 0xDC00)); i += 6; continue
        return None
    return out

def dec16(bs, be):
    try:
        return [ord(c) for c in bs.decode("utf-16-be" if be else "utf-16-le")]
    except UnicodeDecodeError:
        return None

def enc_wide(ws):
    """UTF-8 generalised to 31 bits (what glibc's mbrtowc accepts): used to see whether a wide
    string still carries the bytes it was made from"""
    out = bytearray()
    for u in ws:
        if u < 0x80: out.append(u)
        elif u < 0x800: out += bytes([0xC0 | u >> 6, 0x80 | u & 63])
        elif u < 0x10000: out += bytes([0xE0 | u >> 12, 0x80 | (u >> 6) & 63, 0x80 | u & 63])
        elif u < 0x200000: out += bytes([0xF0 | u >> 18, 0x80 | (u >> 12) & 63, 0x80 | (u >> 6) & 63, 0x80 | u & 63])
        elif u < 0x4000000: out += bytes([0xF8 | u >> 24] + [0x80 | (u >> s) & 63 for s in (18, 12, 6, 0)])
        else: out += bytes([0xFC | u >> 30] + [0x80 | (u >> s) & 63 for s in (24, 18, 12, 6, 0)])
    return bytes(out)

_COMPOSING = None
def composing():
    """code points that take part in some canonical composition (as first or second element)"""
    global _COMPOSING
    if _COMPOSING is None:
        _COMPOSING = set()
        for u in range(0x110000):
            d = unicodedata.decomposition(chr(u))
            if d and not d.startswith("<"):
                _COMPOSING.update(int(x, 16) for x in d.split())
    return _COMPOSING

def inert(us):
    """no normalisation form can touch these scalars, alone or next to each other"""
    comp = composing()
    for u in us:
        c = chr(u)
        if unicodedata.combining(c) or unicodedata.decomposition(c) or u in comp:
            return False
        if 0x1100 <= u <= 0x11FF or 0xA960 <= u <= 0xA97F or 0xD7B0 <= u <= 0xD7FF or 0xAC00 <= u <= 0xD7A3:
            return False
        if unicodedata.normalize("NFC", c) != c or unicodedata.normalize("NFD", c) != c:
            return False
    return True

def nfc(us):
    return [ord(c) for c in unicodedata.normalize("NFC", "".join(map(chr, us)))]

def cut8(bs):
    k = bs.find(b"\0")
    return bs if k < 0 else bs[:k]

def cut16(bs):
    out = b""
    for k in range(0, len(bs) - 1, 2):
        if bs[k] == 0 and bs[k + 1] == 0:
            break
        out += bs[k:k + 2]
    return out

# ------------------------------------------------------------------ oracle
class Oracle:
    def __init__(self, K):
        self.K = K
        self.T8, self.F8 = K["SCONV_TO_UTF8"], K["SCONV_FROM_UTF8"]
        self.T16BE, self.F16BE = K["SCONV_TO_UTF16BE"], K["SCONV_FROM_UTF16BE"]
        self.T16LE, self.F16LE = K["SCONV_TO_UTF16LE"], K["SCONV_FROM_UTF16LE"]

    def encodings(self, flag):
        """(source, target) encoding of archive_string_append_unicode for sc->flag"""
        src = "16be" if flag & self.F16BE else "16le" if flag & self.F16LE else "8"
        if flag & self.T16BE: dst = "16be"
        elif flag & self.T16LE: dst = "16le"
        elif flag & self.T8: dst = "8"
        else: dst = src
        return src, dst

    @staticmethod
    def dec(enc, bs, cesu=False):
        if enc == "8":
            return dec8_cesu(bs) if cesu else dec8_strict(bs)
        return dec16(bs, enc == "16be")

    def __call__(self, case_line, impl_line):
        c = vparse(case_line)
        try:
            o = vparse(impl_line)
        except Exception:
            return ("C18:unparsable-output", "harness output not parsable: %r" % impl_line[:80])
        op = c[0]
        try:
            if op == 0: return self.decode(c[1], c[2], o)
            if op == 1: return self.encode(c[1], c[2], c[3], o)
            if op == 2: return self.loop(c[1], c[2], c[3], o)
            if op == 3: return self.strncpy_l(c[1], c[2], c[3], o)
            if op == 4: return self.entry(c[1], o)
            if op == 5: return self.loop(self.F8 | self.T8, c[1], c[2], o, name="utf8-utf8")
            if op == 6: return self.sweep(c[1], c[2], c[3], o)
        except (IndexError, TypeError, ValueError) as ex:
            return ("C18:output-shape", "unexpected result shape %r for op %r (%s)" % (impl_line[:80], op, ex))
        return None

    # one decoder call
    def decode(self, fn, bs, o):
        cnt, uc = o
        n = len(bs)
        names = ["_utf8_to_unicode", "utf8_to_unicode", "cesu8_to_unicode", "utf16be_to_unicode", "utf16le_to_unicode"]
        nm = names[fn]
        if abs(cnt) > n:
            return ("C18:decode:%s:overread" % nm, "%s consumed %d of %d bytes of %s" % (nm, cnt, n, bs.hex()))
        if fn <= 2:
            mode = "surrogatepass" if fn == 0 else "strict"
            f = first8(bs, mode)
            if cnt > 0:
                if fn == 2 and cnt == 6:
                    sc = dec8_cesu(bs[:6])
                    ok = sc is not None and len(sc) == 1 and sc[0] == uc and dec8_strict(bs[:6]) is None
                else:
                    ok = f is not None and f == (cnt, uc) and uc != 0
                if not ok:
                    return ("C18:decode:%s:accepts-invalid" % nm,
                            "%s(%s) = (%d, U+%04X): not the shortest-form encoding of that code point" % (nm, bs.hex(), cnt, uc))
            elif f is not None and f[1] != 0 and not (fn == 2 and 0xD800 <= f[1] <= 0xDFFF):
                return ("C18:decode:%s:rejects-valid" % nm, "%s(%s) = (%d, U+%04X) but the input starts with the well-formed "
                        "encoding of U+%04X" % (nm, bs.hex(), cnt, uc, f[1]))
            if cnt == 0 and not (n == 0 or bs[0] == 0 or (fn == 2 and n >= 6 and bs[3] == 0)):
                return ("C18:decode:%s:no-progress" % nm, "%s(%s) = 0 on a non-empty input not starting with NUL" % (nm, bs.hex()))
            if cnt < 0 and uc != 0xFFFD and not (fn == 1 and cnt == -3 and 0xD800 <= uc <= 0xDFFF):
                return ("C18:decode:%s:replacement" % nm, "%s(%s) = (%d, U+%04X): not U+FFFD" % (nm, bs.hex(), cnt, uc))
        else:
            be = fn == 3
            want = None
            if n >= 2:
                u = struct.unpack(">H" if be else "<H", bs[:2])[0]
                if not 0xD800 <= u <= 0xDFFF:
                    want = (2, u)
                elif u <= 0xDBFF and n >= 4:
                    u2 = struct.unpack(">H" if be else "<H", bs[2:4])[0]
                    if 0xDC00 <= u2 <= 0xDFFF:
                        want = (4, 0x10000 + ((u - 0xD800) << 10) + (u2 - 0xDC00))
            if cnt > 0 and want != (cnt, uc):
                return ("C18:decode:%s:accepts-invalid" % nm, "%s(%s) = (%d, U+%04X), expected %r" % (nm, bs.hex(), cnt, uc, want))
            if cnt <= 0 and want is not None:
                return ("C18:decode:%s:rejects-valid" % nm, "%s(%s) = (%d, U+%04X), expected %r" % (nm, bs.hex(), cnt, uc, want))
            if (cnt == 0) != (n == 0):
                return ("C18:decode:%s:no-progress" % nm, "%s(%s) = %d" % (nm, bs.hex(), cnt))
            if cnt < 0 and uc != 0xFFFD:
                return ("C18:decode:%s:replacement" % nm, "%s(%s) = (%d, U+%04X): not U+FFFD" % (nm, bs.hex(), cnt, uc))
        return None

    # one encoder call
    def encode(self, fn, rem, uc, o):
        w, bs = o
        nm = ["unicode_to_utf8", "unicode_to_utf16be", "unicode_to_utf16le"][fn]
        if w != len(bs) or w > rem:
            return ("C18:encode:%s:overflow" % nm, "%s(room %d, U+%X) wrote %d bytes" % (nm, rem, uc, w))
        if fn == 0:
            u = uc if uc <= 0x10FFFF else 0xFFFD
            want = enc8([u])
        elif uc <= 0x10FFFF:
            want = enc16([uc], fn == 1)
        else:
            return None if w in (0, 4) else ("C18:encode:%s:length" % nm, "%s(U+%X) wrote %d bytes" % (nm, uc, w))
        if rem >= len(want):
            if bs != want:
                return ("C18:encode:%s:wrong-bytes" % nm, "%s(room %d, U+%X) = %s, expected %s" % (nm, rem, uc, bs.hex(), want.hex()))
        elif w != 0:
            return ("C18:encode:%s:overflow" % nm, "%s(room %d, U+%X) wrote %d bytes where %d are needed" % (nm, rem, uc, w, len(want)))
        return None

    def judge(self, name, src, dst, data, status, body, normalising=False):
        """status 0 <-> data well-formed; then body decodes to the same scalars"""
        if status not in (0, -1):
            return ("C18:%s:status" % name, "status %d" % status)
        scal = self.dec(src, data, cesu=True)
        got = self.dec(dst, body)
        if got is None:
            return ("C18:%s:invalid-output" % name, "output %s is not well-formed %s (input %s, status %d)" %
                    (body.hex()[:80], dst, data.hex()[:80], status))
        if status == 0:
            if scal is None:
                return ("C18:%s:silent-change" % name, "ill-formed UTF-%s input %s converted with status 0 to %s" %
                        (src, data.hex()[:80], body.hex()[:80]))
            if normalising and not inert(scal):
                same = nfc(got) == nfc(scal)
            else:
                same = got == scal
            if not same:
                return ("C18:%s:different-name" % name, "well-formed input %s converted with status 0 to a different string %s" %
                        (data.hex()[:80], body.hex()[:80]))
        elif scal is not None:
            return ("C18:%s:rejects-valid" % name, "well-formed input %s reported as a conversion failure" % data.hex()[:80])
        return None

    # archive_string_append_unicode / strncat_from_utf8_to_utf8 called directly
    def loop(self, flag, prefix, data, o, name=None):
        if len(o) == 1:
            return None                      # (xNUL): op 5 is not called on input with NUL
        status, out, cap = o
        src, dst = self.encodings(flag)
        name = name or "append-unicode"
        ts = 2 if dst != "8" else 1
        if len(out) + ts > cap:
            return ("C18:%s:capacity" % name, "length %d + %d terminator bytes exceeds buffer_length %d" % (len(out), ts, cap))
        if out[:len(prefix)] != prefix:
            return ("C18:%s:prefix" % name, "existing content of the destination was altered")
        if src == "8" and b"\0" in data:
            return None                      # precondition of the callers (mbsnbytes) not met
        return self.judge(name, src, dst, data, status, out[len(prefix):])

    # archive_strncpy_l through a conversion object
    def strncpy_l(self, d, cs, data, o):
        if len(o) == 1:
            return ("C18:strncpy_l:no-conversion-object", "no conversion object for charset %d" % cs)
        status, out = o
        enc = ["8", "16be", "16le"][cs]
        if d == 0:
            return self.judge("to_charset-" + enc, "8", enc, cut8(data), status, out)
        data = cut8(data) if cs == 0 else cut16(data)
        return self.judge("from_charset-" + enc, enc, "8", data, status, out, normalising=True)

    # archive_entry_copy_pathname + views
    def entry(self, data, o):
        u8, w = o
        mbs = cut8(data)
        scal = dec8_cesu(mbs)
        if u8:
            if scal is None:
                return ("C18:entry:utf8-view:silent-change", "pathname %s is not UTF-8 but the UTF-8 view is %s" % (mbs.hex()[:80], u8[0].hex()[:80]))
            if u8[0] != enc8(scal):
                return ("C18:entry:utf8-view:different-name", "pathname %s has UTF-8 view %s" % (mbs.hex()[:80], u8[0].hex()[:80]))
        elif scal is not None:
            return ("C18:entry:utf8-view:rejects-valid", "no UTF-8 view of the well-formed pathname %s" % mbs.hex()[:80])
        if w:
            if enc_wide(w[0]) != mbs:
                return ("C18:entry:wcs-view:different-name", "pathname %s has wide view %r" % (mbs.hex()[:80], w[0][:20]))
        elif dec8_strict(mbs) is not None:
            return ("C18:entry:wcs-view:rejects-valid", "no wide view of the well-formed pathname %s" % mbs.hex()[:80])
        return None

    def sweep(self, fn, lo, hi, o):
        bs, mis = o
        nm = ["UTF-8", "UTF-16BE", "UTF-16LE"][fn]
        rng = range(lo, hi)
        want = enc8(rng) if fn == 0 else enc16(rng, fn == 1)
        if bs != want:
            return ("C18:sweep:%s:wrong-bytes" % nm, "encodings of U+%X..U+%X differ from the reference" % (lo, hi - 1))
        expect = [[u, 4] for u in rng if 0xD800 <= u <= 0xDFFF or (fn == 0 and u == 0)]
        if mis != expect:
            bad = [m for m in mis if m not in expect] + [m for m in expect if m not in mis]
            return ("C18:sweep:%s:round-trip" % nm, "encode/decode of U+%X (code %d: 1 exact-room call, 2 room-1 call wrote, "
                    "4 decode) in U+%X..U+%X" % (bad[0][0], bad[0][1], lo, hi - 1))
        return None

# ------------------------------------------------------------------ generators
BORDERS = [1, 0x7F, 0x80, 0x7FF, 0x800, 0xD7FF, 0xE000, 0xFFFD, 0xFFFE, 0xFFFF, 0x10000, 0x10FFFF,
           0xFEFF, 0xFDD0, 0x1FFFE, 0x1FFFF, 0x10FFFE, 0x2FA1D, 0x1F600, 0x41, 0x2F, 0xE9, 0x20AC]

def rand_scalar(r, inert_only=False):
    while True:
        k = r.randrange(10)
        if k < 2: u = r.choice(BORDERS)
        elif k < 4: u = r.randrange(1, 0x80)
        elif k < 5: u = r.randrange(0x80, 0x800)
        elif k < 7: u = r.randrange(0x800, 0x10000)
        else: u = r.randrange(0x10000, 0x110000)
        if not is_scalar(u) or u == 0:
            continue
        if inert_only and not inert([u]):
            continue
        return u

COMBINING = [[0x65, 0x301], [0x41, 0x30A], [0x1100, 0x1161], [0x1100, 0x1161, 0x11A8], [0xAC00, 0x11A8],
             [0x61, 0x323, 0x302], [0x61, 0x302, 0x323], [0x1E9B, 0x323], [0xF71, 0xF72], [0x44, 0x307, 0x323],
             [0xE9], [0x212B], [0x3A9], [0x2126], [0xFB01], [0x1D15E], [0x1D157, 0x1D165], [0x915, 0x93C],
             [0x958], [0x2ADC], [0xF73], [0x344], [0x41] + [0x300 + k for k in range(12)], [0x41] + [0x301] * 11,
             [0x3B1, 0x345, 0x301], [0x1F00, 0x345], [0x6D5, 0x654], [0x1B05, 0x1B35], [0x110A5, 0x110BA], [0x1109A]]

def rand_text(r, inert_only=False, maxn=12):
    us = []
    for _ in range(r.randrange(0, maxn)):
        if not inert_only and r.random() < 0.25:
            us += r.choice(COMBINING)
        elif not inert_only and r.random() < 0.1:
            us += [r.choice([0x61, 0x41, 0x65, 0x4F, 0x3B1, 0x915]), r.randrange(0x300, 0x370)]
        else:
            us.append(rand_scalar(r, inert_only))
    return us

def bad8(r):
    """one ill-formed UTF-8 piece"""
    k = r.randrange(16)
    u = rand_scalar(r)
    if k == 0: return bytes([0xC0 | r.randrange(2), 0x80 | r.randrange(64)])                 # overlong 2
    if k == 1: return bytes([0xE0, 0x80 | r.randrange(32), 0x80 | r.randrange(64)])          # overlong 3
    if k == 2: return bytes([0xF0, 0x80 | r.randrange(16), 0x80 | r.randrange(64), 0x80 | r.randrange(64)])  # overlong 4
    if k == 3: return enc8([r.randrange(0xD800, 0xDC00)])                                    # lone high surrogate
    if k == 4: return enc8([r.randrange(0xDC00, 0xE000)])                                    # lone low surrogate
    if k == 5: return enc8([r.randrange(0xDC00, 0xE000), r.randrange(0xD800, 0xDC00)])       # reversed pair
    if k == 6:
        e = enc8([r.choice([0x80, 0x7FF, 0x800, 0xFFFF, 0x10000, 0x10FFFF, u if u > 0x7F else 0xE9])])
        return e[:r.randrange(1, len(e))]                                                    # truncated
    if k == 7: return bytes([r.choice([0xFE, 0xFF])])
    if k == 8: return bytes([0xF4, 0x90 | r.randrange(48), 0x80 | r.randrange(64), 0x80 | r.randrange(64)])  # > 10FFFF
    if k == 9: return bytes([r.randrange(0xF5, 0xF8)] + [0x80 | r.randrange(64) for _ in range(r.randrange(0, 4))])
    if k == 10: return bytes([r.randrange(0xF8, 0xFC)] + [0x80 | r.randrange(64) for _ in range(r.randrange(0, 5))])
    if k == 11: return bytes([r.randrange(0xFC, 0xFE)] + [0x80 | r.randrange(64) for _ in range(r.randrange(0, 6))])
    if k == 12: return bytes([0x80 | r.randrange(64) for _ in range(r.randrange(1, 4))])     # stray continuation
    if k == 13: return enc8([r.randrange(0xD800, 0xDC00)]) + enc8([u])                       # high surrogate + other
    if k == 14: return bytes(r.randrange(1, 256) for _ in range(r.randrange(1, 5)))
    e = bytearray(enc8([u if u > 0x7F else 0x20AC])); e[-1] = r.choice([0x00 + r.randrange(1, 0x80), 0xC0 | r.randrange(64)])
    return bytes(e)                                                                          # bad continuation byte

def rand_bytes8(r, valid=None, nul=False):
    """UTF-8 byte string: well-formed, or with ill-formed pieces, optionally CESU-8 pairs"""
    valid = r.random() < 0.45 if valid is None else valid
    out = b""
    for _ in range(r.randrange(0, 10)):
        c = r.random()
        if not valid and c < 0.3:
            out += bad8(r)
        elif c < 0.36:
            u = r.randrange(0x10000, 0x110000) - 0x10000       # CESU-8 pair
            out += enc8([0xD800 + (u >> 10), 0xDC00 + (u & 0x3FF)])
        else:
            out += enc8(rand_text(r, maxn=3))
    if not valid and dec8_cesu(out) is not None:
        out += bad8(r)
    if nul and r.random() < 0.5:
        k = r.randrange(len(out) + 1)
        out = out[:k] + b"\0" + out[k:]
    return out

def rand_bytes16(r, be, valid=None, nul=False):
    valid = r.random() < 0.45 if valid is None else valid
    pk = (lambda v: struct.pack(">H", v)) if be else (lambda v: struct.pack("<H", v))
    out = b""
    for _ in range(r.randrange(0, 10)):
        c = r.random()
        if not valid and c < 0.3:
            k = r.randrange(6)
            if k == 0: out += pk(r.randrange(0xD800, 0xDC00))                                 # unpaired high
            elif k == 1: out += pk(r.randrange(0xDC00, 0xE000))                               # unpaired low
            elif k == 2: out += pk(r.randrange(0xDC00, 0xE000)) + pk(r.randrange(0xD800, 0xDC00))
            elif k == 3: out += pk(r.randrange(0xD800, 0xDC00)) + pk(r.randrange(0xD800, 0xDC00))
            elif k == 4: out += pk(r.randrange(0xD800, 0xDC00)) + pk(r.randrange(1, 0xD800))
            else: out += enc16([rand_scalar(r)], not be)                                      # wrong byte order
        else:
            out += enc16(rand_text(r, maxn=3), be)
    if not valid and dec16(out, be) is not None:
        out += pk(r.randrange(0xD800, 0xE000))
    if not valid and r.random() < 0.25:
        out += bytes([r.randrange(1, 256)])                                                  # odd length
    if nul and r.random() < 0.5:
        k = 2 * r.randrange(len(out) // 2 + 1)
        out = out[:k] + b"\0\0" + out[k:]
    return out

def gen_cases(r, K, n):
    """cases compared with the model"""
    T8, F8, T16BE, F16BE, T16LE, F16LE = (K[x] for x in ("SCONV_TO_UTF8", "SCONV_FROM_UTF8", "SCONV_TO_UTF16BE",
                                                          "SCONV_FROM_UTF16BE", "SCONV_TO_UTF16LE", "SCONV_FROM_UTF16LE"))
    flags8 = [F8 | T16BE, F8 | T16LE, F8 | T8, 0, F8]
    flags16 = [(F16BE | T8, True), (F16LE | T8, False), (F16BE, True), (F16LE, False), (F16LE | T16BE, False), (F16BE | T16LE, True)]
    cases = []
    for u in BORDERS + [0, 0xD800, 0xDBFF, 0xDC00, 0xDFFF, 0x110000, 0x1FFFFF, 0xFFFFFFFF]:
        for fn in range(3):
            for rem in range(6):
                cases.append(vfmt([1, fn, rem, u]))
        if u <= 0x10FFFF:
            for fn in range(3):
                cases.append(vfmt([0, fn, enc8([u])]))
                cases.append(vfmt([0, fn, enc8([u]) + b"z"]))
            for fn in (3, 4):
                cases.append(vfmt([0, fn, enc16([u], fn == 3)]))
                cases.append(vfmt([0, fn, enc16([u], fn == 3)[:-1]]))
    for _ in range(n):
        k = r.randrange(100)
        if k < 14:
            bs = rand_bytes8(r, nul=True) if r.random() < 0.5 else bad8(r) + bytes(r.randrange(256) for _ in range(r.randrange(0, 4)))
            cases.append(vfmt([0, r.randrange(3), bs]))
        elif k < 20:
            be = r.random() < 0.5
            cases.append(vfmt([0, 3 if be else 4, rand_bytes16(r, be, nul=True)[:r.randrange(0, 9)]]))
        elif k < 25:
            cases.append(vfmt([1, r.randrange(3), r.randrange(6), r.choice([rand_scalar(r), r.randrange(0xD800, 0xE000), r.randrange(0x110000, 2**32)])]))
        elif k < 40:
            pre = r.choice([b"", b"", b"p", b"x" * 31, b"y" * 33])
            cases.append(vfmt([2, r.choice(flags8), pre, rand_bytes8(r) * r.choice([1, 1, 1, 7])]))
        elif k < 55:
            fl, be = r.choice(flags16)
            pre = r.choice([b"", b"", b"p", b"x" * 31, b"y" * 33])
            cases.append(vfmt([2, fl, pre, rand_bytes16(r, be, nul=r.random() < 0.2) * r.choice([1, 1, 1, 7])]))
        elif k < 65:
            cases.append(vfmt([5, r.choice([b"", b"", b"p", b"x" * 31]), rand_bytes8(r) * r.choice([1, 1, 1, 7])]))
        elif k < 80:
            cases.append(vfmt([3, 0, r.randrange(3), rand_bytes8(r, nul=True)]))
        elif k < 92:
            cs = r.randrange(3)
            if r.random() < 0.5:        # well-formed, NFC-inert
                us = rand_text(r, inert_only=True)
                bs = enc8(us) if cs == 0 else enc16(us, cs == 1)
            else:                       # ill-formed pieces around inert text
                bs = b""
                for _ in range(r.randrange(1, 5)):
                    us = rand_text(r, inert_only=True, maxn=3)
                    if cs == 0:
                        bs += enc8(us) + (bad8(r) if r.random() < 0.6 else b"")
                    else:
                        bs += enc16(us, cs == 1) + (struct.pack(">H" if cs == 1 else "<H", r.randrange(0xD800, 0xE000)) if r.random() < 0.6 else b"")
                if cs and r.random() < 0.3:
                    bs += b"\x41"
            if not from_inert_ok(bs, cs):
                continue
            cases.append(vfmt([3, 1, cs, bs]))
        else:
            bs = rand_bytes8(r, nul=r.random() < 0.1)
            cases.append(vfmt([4, bs]))
    return cases

def from_inert_ok(bs, cs):
    """from_charset input on which the non-normalising model is comparable: every scalar the
    decoders can produce from it (U+FFFD included) is NFC-inert.  Python's lenient decoders find at
    least the well-formed characters libarchive's decoders find; the only extra source of scalars
    on the libarchive side is a CESU-8 pair (ED Ax/ED Bx), excluded here."""
    if cs == 0:
        if re.search(rb"\xed[\xa0-\xaf][\x80-\xbf]\xed[\xb0-\xbf]", bs):
            return False
        return inert([ord(c) for c in cut8(bs).decode("utf-8", "replace")])
    return inert([ord(c) for c in cut16(bs).decode("utf-16-be" if cs == 1 else "utf-16-le", "replace")])

def hangul_border_texts(r):
    """aimed at the case splits of the algorithmic Hangul part of archive_string_normalize_C/D: L, V, T jamo at
    and just outside their ranges (LBase 1100+19, VBase 1161+21, TBase 11A7 with TCount 28: 11A7 itself is NOT a
    trailing consonant), LV and LVT syllables followed by each of them"""
    L = [0x10FF, 0x1100, 0x1101, 0x1112, 0x1113]
    V = [0x1160, 0x1161, 0x1162, 0x1175, 0x1176]
    T = [0x11A6, 0x11A7, 0x11A8, 0x11A9, 0x11C2, 0x11C3]
    LV = [0xAC00, 0xAC00 + 28, 0xAC00 + 28 * 7, 0xD788]          # LV syllables (index multiple of 28)
    LVT = [0xAC01, 0xAC1B, 0xD7A3]
    out = []
    for l in L:
        for v in V:
            out.append([l, v])
            for t in T:
                out.append([l, v, t])
    for sy in LV + LVT:
        for t in T + V + L:
            out.append([sy, t])
            out.append([0x41, sy, t, 0x2E])
    for sy in LV:
        out.append([sy, 0x11A8, 0x11A8])
        out.append([sy, 0x0301, 0x11A8])
    return out

def gen_nfc_cases(r, n):
    """from_charset (normalising) on arbitrary, also combining, input: oracle only"""
    cases = []
    for us in hangul_border_texts(r):
        for cs in range(3):
            cases.append(vfmt([3, 1, cs, enc8(us) if cs == 0 else enc16(us, cs == 1)]))
    for us in COMBINING:
        for cs in range(3):
            cases.append(vfmt([3, 1, cs, enc8(us) if cs == 0 else enc16(us, cs == 1)]))
    for _ in range(n):
        cs = r.randrange(3)
        if r.random() < 0.7:
            us = rand_text(r)
            bs = enc8(us) if cs == 0 else enc16(us, cs == 1)
        else:
            bs = rand_bytes8(r, nul=True) if cs == 0 else rand_bytes16(r, cs == 1, nul=True)
        cases.append(vfmt([3, 1, cs, bs]))
    return cases

WINDOWS = [(0, 0x100), (0x700, 0x900), (0xD700, 0xE100), (0xFF00, 0x10100), (0x10FF00, 0x110000)]

def sweep_cases(r, tier):
    cases = []
    if tier == "thorough":
        blocks = [(lo, min(lo + 0x1000, 0x110000)) for lo in range(0, 0x110000, 0x1000)]
    else:
        blocks = list(WINDOWS) + [(lo, lo + 0x400) for lo in (r.randrange(0, 0x10FC00) for _ in range(24))]
    for lo, hi in blocks:
        for fn in range(3):
            cases.append(vfmt([6, fn, lo, hi]))
    return cases

def all_scalar_strings(step=0x200):
    """every scalar but U+0000, in strings of consecutive code points: string-level conversions"""
    for lo in range(0, 0x110000, step):
        us = [u for u in range(lo, lo + step) if is_scalar(u) and u != 0]
        if us:
            yield us

def nontrivial(case_line):
    c = vparse(case_line)
    if c[0] == 0: return len(c[2]) >= 2
    if c[0] == 1: return c[3] > 0x7F
    if c[0] in (2, 3): return any(b >= 0x80 for b in c[3])
    if c[0] == 4: return any(b >= 0x80 for b in c[1])
    if c[0] == 5: return any(b >= 0x80 for b in c[2])
    return True

def oracle_only(rep, name, exe, cases, oracle):
    """run the implementation alone and judge every result line"""
    path = vlib.write_cases(cases, name + ".cases")
    rc, lines, err = vlib.run_exe(exe, path)
    hits = 0
    if rc != 0 or len(lines) != len(cases):
        k = min(len(lines), len(cases) - 1)
        rep.violation("crash:%s:%s" % (name, vlib.crash_key(err)),
                      "implementation harness %s stopped (rc=%s) on case #%d" % (name, rc, k),
                      dict(correspondence=name, case=cases[k] if cases else None, stderr=err[-3000:]), found_input=True)
    for c, l in zip(cases, lines):
        hit = oracle(c, l)
        if hit:
            hits += 1
            rep.violation(hit[0], hit[1], dict(correspondence=name, case=c, impl=l, cmd="harness utf on the case line"), found_input=True)
    return dict(name=name, cases=len(cases), judged=min(len(lines), len(cases)), oracle_hits=hits, impl_rc=rc)

# ----------------------------------------------------------------------------- header charsets through the archive formats
HDR_CHARSETS = {"CP932": "cp932", "KOI8-R": "koi8_r", "ISO-8859-1": "latin_1", "ISO-8859-2": "iso8859_2", "ISO-8859-5": "iso8859_5",
                "ISO-8859-15": "iso8859_15", "CP437": "cp437", "CP866": "cp866"}

def charset_repertoire(codec):
    import unicodedata
    chars = []
    for b in range(0x80, 0x100):
        try:
            ch = bytes([b]).decode(codec)
        except UnicodeDecodeError:
            continue
        if len(ch) == 1 and ch.isprintable() and unicodedata.normalize("NFC", ch) == ch and ch.encode(codec) == bytes([b]):
            chars.append(ch)
    if codec == "cp932":
        for cp in list(range(0x3041, 0x3094)) + list(range(0x30A1, 0x30F7)) + [0x4E00, 0x65E5, 0x672C, 0x8A9E, 0x6F22, 0x5B57]:
            ch = chr(cp)
            try:
                if ch.encode(codec).decode(codec) == ch:
                    chars.append(ch)
            except UnicodeError:
                pass
    return chars

def hdrcharset_roundtrip(rep, r, quick):
    """Names written with hdrcharset=X (UTF-8 locale -> X in the header) and read back with hdrcharset=X (X -> UTF-8)
    through the archive formats that store the name in that charset must come back unchanged.  Lengths are chosen on
    both sides of the converter's initial output estimate (characters of one byte in X and three bytes in UTF-8)."""
    import readcore
    AE_IFREG = 0o100000
    mk = vlib.compile_harness("mkArchive", "asan")
    rd = vlib.compile_harness("readAll", "asan")
    env = {"VERIF_LOCALE": "C.UTF-8"}
    specs, metas = [], []
    for cs, codec in HDR_CHARSETS.items():
        rep_chars = charset_repertoire(codec)
        wide = [c for c in rep_chars if len(c.encode("utf-8")) == 3] or rep_chars
        for fmt in ("ustar", "gnutar", "newc", "zip"):
            lens = [1, 5, 10, 11, 12, 15, 16, 17, 31, 32, 33, 40, 60, 90] if not quick else [1, 11, 16, 33, 60]
            for n in lens:
                for pool in (wide, rep_chars):
                    name = "".join(r.choice(pool) for _ in range(n)) + ".txt"
                    if len(name.encode(codec)) > 99:
                        continue
                    ents = [["plain.txt", AE_IFREG, 0o644, 1, 2, 1000, b"p", b"", b"", 0, []],
                            [name.encode("utf-8"), AE_IFREG, 0o644, 1, 2, 1001, b"body", b"", b"", 0, []],
                            ["last.txt", AE_IFREG, 0o644, 1, 2, 1002, b"l", b"", b"", 0, []]]
                    specs.append(vfmt([fmt, "", "hdrcharset=" + cs, 512, ents]))
                    metas.append((cs, fmt, name))
    rc, lines, err = vlib.run_exe(mk, vlib.write_cases(specs, "c18-hdr-mk.cases"), timeout=900, env=env)
    if rc != 0 or len(lines) != len(specs):
        k = min(len(lines), len(specs) - 1)
        rep.violation("crash:hdrcharset-write:" + vlib.crash_key(err), "writer harness stopped (rc=%s) on %s %s name %r" % (rc, metas[k][1], metas[k][0], metas[k][2]),
                      dict(case=specs[k][:3000], stderr=err[-3000:]), found_input=True)
    rcases, rmeta, unavailable = [], [], set()
    for m, l in zip(metas, lines):
        v = vparse(l)
        if v[0] < 0:                      # the option was refused: this libc has no such converter
            unavailable.add(m[0]); continue
        if any(isinstance(x, list) and x and x[0] != 0 for x in v[1:-2]) or v[-2] != 0:
            rep.violation("C18:hdrcharset:%s:%s:write-status" % (m[1], m[0]), "%s with hdrcharset=%s: writing the name %r did not return OK: %s" % (m[1], m[0], m[2], str(v[:-1])[:200]),
                          dict(format=m[1], charset=m[0], name=m[2]), found_input=True)
            continue
        rcases.append(readcore.read_case(v[-1], source=(1,), consume=(0, 4096, 0), noraw=1, options=("hdrcharset=" + m[0]).encode()))
        rmeta.append(m)
    path = vlib.write_cases(rcases, "c18-hdr-rd.cases")
    rc, rl, err = vlib.run_exe(rd, path, timeout=900, env=dict(env, VERIF_TMP=vlib.scratch()))
    if rc != 0 or len(rl) != len(rcases):
        k = min(len(rl), len(rcases) - 1)
        rep.violation("crash:hdrcharset-read:" + vlib.crash_key(err), "reader harness stopped (rc=%s) on %s %s name %r" % (rc, rmeta[k][1], rmeta[k][0], rmeta[k][2]),
                      dict(case=rcases[k][:3000], stderr=err[-3000:]), found_input=True)
    n = 0
    for m, c, l in zip(rmeta, rcases, rl):
        n += 1
        d = vparse(l)
        names = [e[1] for e in d[:-4] if isinstance(e, list) and len(e) > 2]
        want = [b"plain.txt", m[2].encode("utf-8"), b"last.txt"]
        if names != want or d[-4] != 1:
            got = names[1] if len(names) > 1 else None
            rep.violation("C18:hdrcharset:%s:%s" % (m[1], m[0]),
                          "%s, hdrcharset=%s: wrote the name %r (%d bytes in UTF-8), read back %r; entries %d, final status %s" %
                          (m[1], m[0], m[2], len(want[1]), got.decode("utf-8", "replace") if got else None, len(names), d[-4]),
                          dict(format=m[1], charset=m[0], name=m[2], case=c[:4000], cmd="harness mkArchive (options hdrcharset) then readAll (same option), locale C.UTF-8"),
                          found_input=True)
    return n, sorted(unavailable)

def run(rep):
    pr = vlib.proof_part(rep, "C18", translators=["gen_utf"])
    K = gen_consts()
    oracle = Oracle(K)
    runner = vlib.build_runner("utf")
    exe = vlib.compile_harness("utf", "asan", private=True)
    r = vlib.rng(rep.seed, "C18")
    thorough = rep.tier == "thorough"
    cases = gen_cases(r, K, 6000 if not thorough else 120000)
    cases += sweep_cases(r, rep.tier)
    if thorough:
        for us in all_scalar_strings():
            b8 = enc8(us)
            for cs in range(3):
                cases.append(vfmt([3, 0, cs, b8]))
            cases.append(vfmt([5, b"", b8]))
            cases.append(vfmt([2, K["SCONV_FROM_UTF16BE"] | K["SCONV_TO_UTF8"], b"", enc16(us, True)]))
            cases.append(vfmt([2, K["SCONV_FROM_UTF16LE"] | K["SCONV_TO_UTF8"], b"", enc16(us, False)]))
    corpus = vlib.load_corpus("C18")
    st = vlib.correspond(rep, "utf", runner, exe, corpus + cases, oracle=oracle)
    ncases = gen_nfc_cases(r, 1500 if not thorough else 30000)
    if thorough:
        for us in all_scalar_strings():
            for cs in range(3):
                ncases.append(vfmt([3, 1, cs, enc8(us) if cs == 0 else enc16(us, cs == 1)]))
    st2 = oracle_only(rep, "utf-nfc", exe, ncases, oracle)
    try:
        nhdr, unavailable = hdrcharset_roundtrip(rep, vlib.rng(rep.seed, "C18-hdr"), not thorough)
    except vlib.BuildError:
        raise
    rep.coverage["hdrcharset_roundtrips"] = nhdr
    rep.coverage["hdrcharsets_without_converter"] = unavailable
    allc = cases + ncases
    rep.coverage.update(
        evaluations=len(allc) + len(corpus),
        distinct_nontrivial=len(set(c for c in allc if nontrivial(c))),
        rule="decoder/encoder calls on class borders (U+0000 007F 0080 07FF 0800 D7FF E000 FFFD..FFFF 10000 10FFFF), random scalars, "
             "surrogates, values > 10FFFF, every room 0..5; ill-formed UTF-8 (overlong 2/3/4-byte forms, lone/reversed surrogates, "
             "CESU-8 pairs, truncated sequences, FE/FF, F5..FD lead bytes, > U+10FFFF, stray/bad continuation bytes) and UTF-16 "
             "(unpaired/reversed surrogates, wrong byte order, odd length, embedded zero unit) through the driver loops with empty "
             "and non-empty destinations, through archive_strncpy_l with to_charset/from_charset objects and through archive_entry "
             "views; combining sequences and Hangul jamo; encode/decode sweeps over code point windows (quick) or all of "
             "0..0x10FFFF (thorough); non-trivial = the case involves a non-ASCII byte / a multi-byte decode / a non-ASCII code point",
        samples=[cases[300], cases[700], ncases[5]],
        traces_validated_against_impl=st["agree"], correspondence=st, differential=st2)
    rep.assumptions += [
        "locale C.UTF-8; the wide-character view is glibc's mbrtowc (accepts 5/6-byte forms): judged only as 'still carries the same bytes'",
        "archive_string_normalize_C (from_charset objects) is not modelled: compared with the model on NFC-inert input only, judged by "
        "canonical equivalence (Python unicodedata %s) otherwise" % unicodedata.unidata_version,
        "strncat_from_utf8_to_utf8 / archive_string_append_unicode are only ever called by archive_strncat_l on NUL-free input "
        "(mbsnbytes/utf16nbytes); the harness does not call strncat_from_utf8_to_utf8 on input with NUL (it would not terminate on "
        "ED A0 80 00 .., see C18_utf8_loop_nul_no_progress_refuted)",
        "buffer sizes < 2^31, no allocation failure, no size_t wrap",
        "iconv-backed charsets (CP932, KOI8-R, ISO-8859-1/2/5/15, CP437, CP866): not modelled; names from each charset's repertoire are written with hdrcharset=X and read back with the same option through ustar, gnutar, cpio newc and zip and must come back unchanged (oracle only)",
    ]
    vlib.proof_verdict(rep, "C18", pr)

def replay(rep, path):
    d = json.load(open(path))
    case = d["replay"]["case"]
    vlib.run_translators(["gen_utf"])
    oracle = Oracle(gen_consts())
    exe = vlib.compile_harness("utf", "asan", private=True)
    if d["replay"].get("correspondence") == "utf-nfc":
        oracle_only(rep, "utf-nfc", exe, [case], oracle)
    else:
        runner = vlib.build_runner("utf")
        vlib.correspond(rep, "utf", runner, exe, [case], oracle=oracle)
    rep.coverage.update(evaluations=1, distinct_nontrivial=1, samples=[case])
