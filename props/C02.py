"""C02 - write-then-read round trip preserves entries in every format.
Proof part: coq/Properties_C02.v (byte-level: header round trips of ustar / cpio newc / cpio odc on the
representable domain, entry-list framing, pax record lengths, ustar_split_join, normaliser fixed points).
Correspondence: extracted writer model vs the real writers on whole archives (entry lists with bodies and
random write chunkings); extracted header parser model vs the real reader's getters.
Oracle (real behaviour only, all writable formats x option sets x one filter x block sizes): every entry
whose metadata lies in the format's range is accepted with ARCHIVE_OK, the archive is detected as the
format written, the entries read back in order (or as the same set for the sorting containers) with every
carried getter equal and byte-identical bodies, and writing the read-back entries again with the same
writer and reading again changes nothing (fixed point)."""
import os, sys
import vlib
from vlib import vfmt
import C10
from C10 import ent, fparse, un1, norm_path, RB, REG, DIR, LNK, CHR, BLK, FIFO, SOCK, IFMT, OK, WARN, mkdev

LEVEL = "proof"

TARF = {"pathname", "hardlink", "symlink", "uname", "gname", "perm", "filetype", "uid", "gid", "size", "mtime", "rdev"}
CPIOF = {"pathname", "symlink", "perm", "filetype", "uid", "gid", "size", "mtime", "dev", "nlink", "rdev"}

# name kinds: "any" (arbitrary depth/length), "ustar" (<=100 or splittable 155/100), "short99", "base" (no '/'),
# "base15", "tree" (explicit parent directories first)
FORMATS = {
    "ustar":   dict(pads_short_body=True, codes={0x30001}, types=[REG, DIR, LNK, CHR, BLK, FIFO], hard=True, names="ustar", linkmax=100, idmax=0o777777,
                    tmax=2**33 - 1, ugmax=32, fields=TARF, order="seq", devmax=0o777777),
    "v7tar":   dict(pads_short_body=True, codes={0x30000}, types=[REG, DIR, LNK], hard=True, names="short99", linkmax=99, idmax=0o777777, tmax=2**33 - 1,
                    ugmax=0, fields=TARF - {"uname", "gname", "rdev"}, order="seq"),
    "gnutar":  dict(pads_short_body=True, codes={0x30004}, types=[REG, DIR, LNK, CHR, BLK, FIFO], hard=True, names="any", linkmax=400, idmax=2**56 - 1,
                    tmax=2**33 - 1, ugmax=32, fields=TARF, order="seq", devmax=0o777777),
    "pax":     dict(pads_short_body=True, codes={0x30001, 0x30002}, types=[REG, DIR, LNK, CHR, BLK, FIFO], hard=True, names="any", linkmax=400,
                    idmax=2**53, tmax=2**40, ugmax=200, fields=TARF | {"mtime_ns", "atime", "ctime", "xattrs"}, order="seq",
                    devmax=0o777777, utf8=True),
    "paxr":    dict(pads_short_body=True, codes={0x30001, 0x30002}, types=[REG, DIR, LNK, CHR, BLK, FIFO], hard=True, names="any", linkmax=400,
                    idmax=2**53, tmax=2**40, ugmax=200, fields=TARF | {"xattrs", "mtime_ns_opt"}, order="seq", devmax=0o777777, utf8=True),
    "odc":     dict(pads_short_body=True, codes={0x10001}, types=[REG, DIR, LNK, CHR, BLK, FIFO, SOCK], names="any", linkmax=400, idmax=0o777777,
                    tmax=2**33 - 1, fields=CPIOF, order="seq", devall=0o777777, nlinkmax=0o777777),
    "newc":    dict(pads_short_body=True, codes={0x10004}, types=[REG, DIR, LNK, CHR, BLK, FIFO, SOCK], names="any", linkmax=400, idmax=2**32 - 1,
                    tmax=2**32 - 1, fields=CPIOF | {"ino"}, order="seq", devmax=2**32 - 1, nlinkmax=2**32 - 1, inomax=2**32 - 1),
    "bin":     dict(pads_short_body=True, codes={0x10002}, types=[REG, DIR, LNK, CHR, BLK], names="any", linkmax=400, idmax=65535, tmax=2**32 - 1,
                    fields=CPIOF, order="seq", devall=65535, nlinkmax=65535),
    "pwb":     dict(pads_short_body=True, codes={0x10002, 0x10007}, types=[REG, DIR, CHR, BLK], names="any", idmax=65535, tmax=2**32 - 1,
                    fields=CPIOF - {"symlink"}, order="seq", devall=65535, nlinkmax=65535),
    "arbsd":   dict(codes={0x70000, 0x70002}, types=[REG], names="base", idmax=999999, tmax=10**12 - 1,
                    fields={"pathname", "perm", "uid", "gid", "size", "mtime"}, order="seq"),
    "argnu":   dict(codes={0x70001}, types=[REG], names="base15", idmax=999999, tmax=10**12 - 1,
                    fields={"pathname", "perm", "uid", "gid", "size", "mtime"}, order="seq"),
    "zip":     dict(seekable=True, codes={0x50000}, types=[REG, DIR, LNK], names="any", linkmax=400, idmax=2**32 - 1, tmin=315532800, tmax=2**31 - 1,
                    fields={"pathname", "symlink", "perm", "filetype", "uid", "gid", "size", "mtime"}, order="seq", utf8=True,
                    options=[b"", b"zip:compression=store", b"zip:compression=deflate", b"zip:zip64", b"zip:compression=bzip2",
                             b"zip:compression=xz", b"zip:compression=zstd", b"zip:compression=lzma"]),
    "7zip":    dict(seekable=True, codes={0xE0000}, types=[REG, DIR, LNK], names="any", linkmax=400, tmax=2**33, permmask=0o777,
                    fields={"pathname", "symlink", "perm", "filetype", "size", "mtime", "mtime_ns100"}, order="set", utf8=True,
                    options=[b"", b"7zip:compression=copy", b"7zip:compression=deflate", b"7zip:compression=bzip2",
                             b"7zip:compression=lzma1", b"7zip:compression=lzma2", b"7zip:compression=ppmd", b"7zip:compression=zstd"]),
    "xar":     dict(seekable=True, codes={0xA0000}, types=[REG, DIR, LNK, FIFO, SOCK], names="tree", linkmax=400, idmax=2**31 - 1, tmax=2**31 - 1,
                    ugmax=200, permmask=0o777,
                    fields={"pathname", "symlink", "uname", "gname", "perm", "filetype", "uid", "gid", "size", "mtime"}, order="seq",
                    utf8=True, options=[b"", b"xar:compression=none", b"xar:compression=bzip2", b"xar:checksum=md5", b"xar:compression=xz"]),
    "iso9660": dict(seekable=True, codes={0x40001}, types=[REG, DIR, LNK, CHR, BLK, FIFO, SOCK], names="tree", linkmax=200, idmax=2**32 - 1,
                    tmax=2**32 - 1, fields={"pathname", "symlink", "perm", "filetype", "uid", "gid", "size", "mtime", "rdev"},
                    order="set", devmax=2**31 - 1, root=True, options=[b"iso9660:rockridge=strict", b"iso9660:rockridge=strict,joliet", b"iso9660:rockridge=strict,zisofs=direct",
                                                                    b"iso9660:rockridge=strict,iso-level=4", b"iso9660:rockridge=strict,iso-level=2", b"iso9660:rockridge=strict,iso-level=3"]),
    "mtree":   dict(codes={0x80000}, types=[REG, DIR, LNK, CHR, BLK, FIFO], names="tree", linkmax=400, idmax=2**62, tmax=2**40,
                    ugmax=100, nobody=True,
                    fields={"pathname", "symlink", "uname", "gname", "perm", "filetype", "uid", "gid", "size", "mtime", "mtime_ns", "rdev"},
                    order="set", devmax=2**31 - 1, options=[b"", b"mtree:all", b"mtree:use-set"]),
    "mtree-classic": dict(codes={0x80000}, types=[REG, DIR, LNK, CHR, BLK, FIFO], names="tree", linkmax=400, idmax=2**62, tmax=2**40,
                    ugmax=0, nobody=True,
                    fields={"pathname", "symlink", "perm", "filetype", "uid", "gid", "size", "mtime", "mtime_ns", "rdev"},
                    order="set", devmax=2**31 - 1, root=True),
    "warc":    dict(codes={0xF0000}, types=[REG], names="any", namemax=200, tmax=2**32 - 1, fields={"pathname", "size", "mtime"}, order="seq",
                    nospace=True),
    "raw":     dict(codes={0x90000}, types=[REG], names="base", fields=set(), order="seq", single=True),
}
FILTERS = [(b"", 0)] * 6 + [(b"gzip", 1), (b"bzip2", 2), (b"compress", 3), (b"lzma", 5), (b"xz", 6), (b"uuencode", 7), (b"b64encode", 7),
                            (b"lz4", 13), (b"zstd", 14)]
BLOCKS = [(0, -1), (0, -1), (10240, -1), (512, -1), (513, 1), (1, -1), (20 * 512, 512), (4096, 4096)]
BODY_SIZES = [0, 1, 511, 512, 513, 5, 5, 1000, 4097]

def rname(r, n, utf8=False):
    alpha = "abcdefghijklmnopqrstuvwxyz0123456789_-."
    s = "".join(r.choice(alpha) for _ in range(n))
    if utf8 and n >= 6 and r.random() < 0.3:
        s = "é世" + s[5:]        # 2 + 3 bytes of UTF-8
    b = s.encode("utf-8")[:n]
    if b.startswith(b".") or b.startswith(b"-"):
        b = b"x" + b[1:]
    try:
        b.decode("utf-8")
    except UnicodeDecodeError:
        b = b[:-1] + b"z" if len(b) > 1 else b"z"
        try:
            b.decode("utf-8")
        except UnicodeDecodeError:
            b = bytes(ord(r.choice(alpha[:26])) for _ in range(n))
    return b

def deep_name(r, n, utf8=False):
    """n bytes with '/' roughly every 30-60 bytes, no empty components, no trailing '/'"""
    out = b""
    while len(out) < n:
        out += rname(r, r.randrange(20, 61), utf8) + b"/"
    out = out[:n]
    out = out.replace(b"//", b"/x")
    if out.endswith(b"/"):
        out = out[:-1] + b"e"
    if out.startswith(b"/"):
        out = b"r" + out[1:]
    try:
        out.decode("utf-8")
    except UnicodeDecodeError:
        return deep_name(r, n, False)
    return out

def sibling_family(r, kind=None):
    """names that a directory-oriented writer (iso9660 level 1-4 and Joliet identifiers, 8.3 style truncation) maps to the
    SAME identifier, so that its duplicate resolver has to rename them: characters the target set lacks, case
    differences, a common prefix longer than the identifier"""
    kind = r.randrange(6) if kind is None else kind
    if kind == 5:       # next to nothing in front of a long extension, identifier of full length
        stem = r.choice([b"k.", b"ab.", b"abcd.", b"k.x."])
        w = stem + rname(r, r.choice([40, 62, 70, 110, 130, 200])).replace(b".", b"y")
        return [w + sfx for sfx in (b"", b"1", b"2.c")]
    if kind == 0:       # one or two characters, all replaced by '_'
        stem = r.choice([b"", b"a", b"Z"])
        return [stem + c for c in r.sample([b"?", b"*", b":", b";", b"\\", b'"', b"<", b">", b"|"], r.choice([2, 3, 5]))]
    if kind == 1:       # differ in case only
        w = rname(r, r.choice([1, 3, 8, 12])).lower()
        return sorted({w, w.upper(), w.capitalize()})
    if kind == 2:       # same first 8 characters and extension
        w = rname(r, 8)
        return [w + rname(r, r.choice([1, 4])) + b".txt" for _ in range(r.choice([2, 3, 4]))]
    if kind == 3:       # longer than a Joliet identifier (64 / 103 UCS-2 characters), same prefix
        w = rname(r, r.choice([64, 103, 110]))
        return [w + rname(r, r.choice([1, 5])) + r.choice([b"", b".c"]) for _ in range(r.choice([2, 3]))]
    w = rname(r, r.choice([1, 2, 5]))      # replaced characters in the middle and in the extension
    return [w + c + b"x" + e for c, e in r.sample([(b"?", b""), (b"*", b""), (b":", b".a?"), (b";", b".a*"), (b"+", b""), (b"=", b"")], 3)]

def gen_path(r, fmt, spec, k, ft):
    kind = spec["names"]
    utf8 = spec.get("utf8", False)
    if kind == "base15":
        return rname(r, r.choice([1, 5, 14, 15])) + b""
    if kind == "base":
        n = r.choice([1, 8, 15, 16, 17, 40, 99, 100, 101, 255])
        nm = rname(r, n)
        if fmt == "arbsd" and r.random() < 0.2:
            nm = nm[:max(1, n // 2)] + b" " + nm[max(1, n // 2) + 1:] if n > 2 else nm
        return nm
    if kind == "short99":
        n = r.choice([1, 10, 50, 98, 99]) - (1 if ft == DIR else 0)
        return deep_name(r, max(1, n)) if n > 30 else rname(r, max(1, n))
    if kind == "ustar":
        n = r.choice([1, 20, 99, 100, 101, 155, 156, 200, 255, 256])
        if ft == DIR:
            n = r.choice([1, 20, 98, 99])      # the writer appends '/' to directory names
        if n <= 100:
            return deep_name(r, n) if n > 40 else rname(r, n)
        # splittable: prefix (<=155) '/' name (<=100)
        namelen = r.randrange(max(1, n - 156), min(100, n - 2) + 1)
        prelen = n - 1 - namelen
        if prelen < 1 or prelen > 155:
            namelen, prelen = min(100, n - 2), n - 1 - min(100, n - 2)
        pre = deep_name(r, prelen)
        return pre + b"/" + rname(r, namelen)
    if kind == "tree":
        return rname(r, r.choice([1, 8, 30, 64, 100]), utf8)
    n = min(r.choice([1, 8, 20, 99, 100, 101, 155, 156, 255, 256, 300]), spec.get("namemax", 10**6))
    return deep_name(r, n, utf8) if n > 30 else rname(r, n, utf8)

def gen_sequence(r, fmt, spec, big=0.06):
    """list of entry dicts, all inside what the format is documented to hold"""
    n = 1 if spec.get("single") else r.choice([1, 2, 3, 4, 6])
    idmax = spec.get("idmax", 0)
    ids = [0, 1, 1000, idmax, idmax - 1, idmax // 2, 65535, 65536] if idmax else [0]
    tmin, tmax = spec.get("tmin", 0), spec.get("tmax", 2**31 - 1)
    times = [tmin, tmin + 1, tmax, tmax - 1, (tmin + tmax) // 2, 10**9, 2**31 - 1, 2**31, 2**32 - 1]
    es, used = [], set()
    dirs = []
    family = []
    for k in range(n):
        ft = r.choice(spec["types"] + [REG] * 3)
        d = dict(mode=ft | (r.choice([0o644, 0o755, 0o600, 0o7777 & spec.get("permmask", 0o7777), 0o444, 0]) if r.random() < 0.5
                           else r.randrange(0o10000) & spec.get("permmask", 0o7777)), nlink=1)   # every combination of the twelve bits
        if ft == DIR:
            d["mode"] |= 0o100        # directories without search permission are awkward for nothing here; keep x for owner
        for _ in range(20):
            p = gen_path(r, fmt, spec, k, ft)
            if spec["names"] == "tree":
                if not family and r.random() < 0.25:
                    family = sibling_family(r)
                if family:
                    p = family.pop()
            if spec["names"] == "tree" and dirs and r.random() < 0.5:
                p = r.choice(dirs) + b"/" + p
            if spec.get("nospace"):
                p = p.replace(b" ", b"_")
            if p not in used and not any(u.startswith(p + b"/") or p.startswith(u + b"/") for u in used if spec["names"] != "tree"):
                break
        if p in used:
            continue
        used.add(p)
        d["path"] = p
        if ft == DIR and spec["names"] == "tree":
            dirs.append(p)
        d["uid"] = min(r.choice(ids), idmax) if idmax else 0
        d["gid"] = min(r.choice(ids), idmax) if idmax else 0
        t = min(max(r.choice(times), tmin), tmax)
        ns = r.choice([0, 0, 1, 999999999, 123456700, 500000000])
        d["mtime"] = (t, ns)
        if "atime" in spec["fields"]:
            d["atime"] = (min(max(r.choice(times), 1), tmax), r.choice([0, 5, 999999999]))
            d["ctime"] = (min(max(r.choice(times), 1), tmax), r.choice([0, 7]))
        size = 0
        body = b""
        if ft == REG:
            size = r.choice(BODY_SIZES)
            body = bytes(r.randrange(256) for _ in range(size)) if r.random() < 0.7 else bytes([65 + k]) * size
            if r.random() < big:
                # a body whose compressed form is larger than the writers' internal 64 KiB buffers (2:1 compressible)
                size = r.choice([70001, 140000, 200000])
                body = bytes(r.choice(b"0123456789abcdef") for _ in range(size))
            if spec.get("single") and body:
                body = b"R" + body[1:]       # a raw stream that starts with zeros is, correctly, taken for a tar end mark
        if size > 1 and r.random() < 0.12 and spec.get("pads_short_body"):
            body = body[:r.randrange(0, size)]      # fewer bytes than declared: the writer pads with zeros
        d["size"], d["body"] = size, body
        d["chunks"] = r.choice([(), (), (1,), (3, 7), (512,), (511, 2), (100, 0), (4096,)])
        if ft == LNK:
            d["sym"] = deep_name(r, r.choice([1, 30, spec.get("linkmax", 100)])) if r.random() < 0.7 else rname(r, r.choice([1, 20]))
            if len(d["sym"]) > spec.get("linkmax", 100):
                d["sym"] = d["sym"][:spec.get("linkmax", 100)].rstrip(b"/") or b"t"
        if ft in (CHR, BLK):
            if "devall" in spec:
                d["rdev"] = r.choice([mkdev(1, 5), mkdev(4, 64), spec["devall"] & ~0xff | 3])
                if d["rdev"] > spec["devall"]:
                    d["rdev"] = mkdev(1, 5)
            else:
                dm = spec.get("devmax", 255)
                d["rdev"] = mkdev(r.choice([1, 4, 255, dm]), r.choice([0, 5, 255, dm]))
        if spec.get("ugmax"):
            if r.random() < 0.6:
                d["uname"] = rname(r, r.choice([1, 8, spec["ugmax"]]))
            if r.random() < 0.6:
                d["gname"] = rname(r, r.choice([1, 8, spec["ugmax"]]))
        if "dev" in spec["fields"]:
            d["dev"] = r.choice([0, 3, spec.get("devall", spec.get("devmax", 255))])
            if "devall" not in spec:
                d["dev"] = mkdev(r.choice([0, 8, 255]), r.choice([1, 255]))
            d["ino"] = 100 + k
        if "ino" in spec["fields"]:
            d["ino"] = r.choice([k + 1, spec["inomax"] - k])
        if "xattrs" in spec["fields"] and r.random() < 0.3:
            d["xattrs"] = [(b"user.k%d" % j, bytes(r.randrange(256) for _ in range(r.choice([0, 1, 20])))) for j in range(r.choice([1, 2]))]
        es.append(d)
    # a hard link to an earlier regular file, where the format has a link field
    regs = [e for e in es if e["mode"] & IFMT == REG]
    if spec.get("hard") and regs and r.random() < 0.4:
        tgt = r.choice(regs)
        if len(tgt["path"]) <= spec.get("linkmax", 100):
            p = gen_path(r, fmt, spec, 99, REG)
            if p not in used:
                es.append(dict(path=p, hard=tgt["path"], mode=tgt["mode"], uid=tgt["uid"], gid=tgt["gid"], mtime=tgt["mtime"], size=0,
                               body=b"", chunks=(), nlink=2))
    return es

def to_ent(d):
    return ent(path=d["path"], hard=d.get("hard"), sym=d.get("sym"), uname=d.get("uname"), gname=d.get("gname"), mode=d["mode"],
               uid=d.get("uid", 0), gid=d.get("gid", 0), size=d["size"], mtime=d.get("mtime"), atime=d.get("atime"), ctime=d.get("ctime"),
               dev=d.get("dev"), ino=d.get("ino"), nlink=d.get("nlink", 1), rdev=d.get("rdev", 0), body=d["body"],
               chunks=d.get("chunks", ()), flags=16 if d.get("rdev") else 0, xattrs=d.get("xattrs", ()))

def gen_cases(rep):
    r = vlib.rng(rep.seed, "C02")
    per = 100 if rep.tier == "quick" else 1500
    out = []
    for fmt, spec in FORMATS.items():
        for k in range(per):
            es = gen_sequence(r, fmt, spec)
            if not es:
                continue
            opts = r.choice(spec.get("options", [b""]))
            if fmt == "iso9660" and not opts:
                opts = b"iso9660:rockridge=strict"
            flt, fcode = r.choice(FILTERS)
            if spec.get("seekable"):
                flt, fcode = b"", 0          # the container readers need a seekable source (or lose the central directory)
            bpb, bilb = r.choice(BLOCKS)
            plain = fmt in C10.BYTE_LEVEL and k % 2 == 0
            if plain:
                flt, fcode, bpb, bilb = b"", 0, 0, -1
            loc = 1 if spec.get("utf8") else r.choice([0, 1])
            line = vfmt([0, loc, fmt.encode(), opts, flt, bpb, bilb, [to_ent(d) for d in es],
                         (1 << 22) if plain else 0, -1, 0])
            out.append((line, dict(fmt=fmt, opts=opts.decode(), flt=flt.decode(), fcode=fcode, bpb=bpb, bilb=bilb, loc=loc,
                                   entries=es, model=plain, round=1)))
        # directed: bodies beyond the writers' internal 64 KiB buffers (2:1 compressible and incompressible) under every
        # option set; link targets of every '/' phase, so that wherever a writer cuts a long target into records
        # one of them has its separator exactly there
        for opts in spec.get("options", [b""]):
            es = []
            if REG in spec["types"] and not spec.get("nobody"):
                nm = (lambda k: b"big%d" % k)
                bodies = [bytes(r.choice(b"0123456789abcdef") for _ in range(140000)), bytes(r.randrange(256) for _ in range(70001))]
                if spec.get("single"):
                    bodies = [b"R" + bodies[0][1:]]
                for k, body in enumerate(bodies):
                    es.append(dict(mode=REG | 0o644, nlink=1, path=nm(k), uid=0, gid=0, mtime=(10**9 + k, 0), size=len(body), body=body,
                                   chunks=r.choice([(), (4096,), (65536,), (100000, 1)])))
            if LNK in spec["types"] and "symlink" in spec["fields"] and not spec.get("single"):
                lm = min(spec.get("linkmax", 100), 200)
                for ph in range(7):
                    tgt = b"".join(b"/" if (j % 7 == ph and 0 < j < lm - 1) else b"abcdefghijklmnopqrstuvwxyz"[j % 26:j % 26 + 1] for j in range(lm))
                    es.append(dict(mode=LNK | 0o777, nlink=1, path=b"ln%d" % ph, uid=0, gid=0, mtime=(10**9, 0), size=0, body=b"", chunks=(), sym=tgt))
            if not es:
                continue
            o2 = opts if (opts or fmt != "iso9660") else b"iso9660:rockridge=strict"
            line = vfmt([0, 1, fmt.encode(), o2, b"", 0, -1, [to_ent(d) for d in es], 0, -1, 0])
            out.append((line, dict(fmt=fmt, opts=o2.decode(), flt="", fcode=0, bpb=0, bilb=-1, loc=1, entries=es, model=False, round=1)))
        # directed: members with and without owner names side by side (writers that factor common values out)
        if spec.get("ugmax"):
            for opts in spec.get("options", [b""]):
                es = []
                for j, (un, gn) in enumerate([(None, None), (b"alice", b"staff"), (b"alice", b"staff"), (None, b"staff"), (b"alice", None),
                                              (None, None), (b"bob", b"wheel")]):
                    d = dict(mode=REG | 0o644, nlink=1, path=b"own%d" % j, uid=1000, gid=100, mtime=(10**9 + j, 0), size=1, body=b"x", chunks=())
                    if un: d["uname"] = un
                    if gn: d["gname"] = gn
                    es.append(d)
                line = vfmt([0, 1, fmt.encode(), opts, b"", 0, -1, [to_ent(d) for d in es], 0, -1, 0])
                out.append((line, dict(fmt=fmt, opts=opts.decode(), flt="", fcode=0, bpb=0, bilb=-1, loc=1, entries=es, model=False, round=1)))
        # directed: every kind of sibling family (names the writer's duplicate resolver has to rename), in the root
        # and in a sub-directory, under every option set of the directory-oriented formats
        if spec["names"] == "tree":
            for kind in range(6):
                for opts in spec.get("options", [b""]):
                    fam = sorted(set(sibling_family(r, kind)))      # (the same pathname twice is not a round-trip question)
                    es = [dict(mode=DIR | 0o755, nlink=1, path=b"sub", uid=0, gid=0, mtime=(10**9, 0), size=0, body=b"", chunks=())]
                    for j, nm in enumerate(fam):
                        for pre in (b"", b"sub/"):
                            body = b"body of %d\n" % j
                            es.append(dict(mode=REG | 0o644, nlink=1, path=pre + nm, uid=0, gid=0, mtime=(10**9 + j, 0), size=len(body), body=body, chunks=()))
                    # ... and as directories with a member each (formats that describe directories in lines of their own)
                    es.append(dict(mode=DIR | 0o755, nlink=1, path=b"dirs", uid=0, gid=0, mtime=(10**9, 0), size=0, body=b"", chunks=()))
                    for j, nm in enumerate(fam):
                        es.append(dict(mode=DIR | 0o755, nlink=1, path=b"dirs/" + nm, uid=0, gid=0, mtime=(10**9 + j, 0), size=0, body=b"", chunks=()))
                        es.append(dict(mode=REG | 0o644, nlink=1, path=b"dirs/" + nm + b"/f", uid=0, gid=0, mtime=(10**9 + j, 0), size=2, body=b"f\n", chunks=()))
                    line = vfmt([0, 1, fmt.encode(), opts, b"", 0, -1, [to_ent(d) for d in es], 0, -1, 0])
                    out.append((line, dict(fmt=fmt, opts=opts.decode(), flt="", fcode=0, bpb=0, bilb=-1, loc=1, entries=es, model=False, round=1)))
    return out

# ---- comparison --------------------------------------------------------------------------------
def expected_fields(fmt, spec, d):
    f = spec["fields"]
    ft = d["mode"] & IFMT
    exp = {}
    if "pathname" in f:
        exp["pathname"] = norm_path(d["path"], fmt)
    if "filetype" in f and not d.get("hard"):
        exp["filetype"] = ft
    if "perm" in f:
        exp["perm"] = d["mode"] & 0o7777
    for k in ("uid", "gid"):
        if k in f:
            exp[k] = d.get(k, 0)
    if "size" in f and ft == REG and not d.get("hard"):
        exp["size"] = d["size"]
    if "mtime" in f and d.get("mtime"):
        s, ns = d["mtime"]
        if "mtime_ns" in f:
            exp["mtime"] = [s, ns]
        elif "mtime_ns100" in f:
            exp["mtime"] = [s, ns // 100 * 100]
        else:
            exp["mtime"] = [s, 0]
    for k in ("atime", "ctime"):
        if k in f and d.get(k):
            exp[k] = list(d[k])
    if "symlink" in f and d.get("sym") is not None:
        exp["symlink"] = d["sym"]
    if "hardlink" in f and d.get("hard") is not None:
        exp["hardlink"] = d["hard"]
    for k in ("uname", "gname"):
        if k in f and d.get(k) is not None:
            exp[k] = d[k]
    if "rdev" in f and ft in (CHR, BLK):
        exp["rdev"] = d.get("rdev", 0)
    if "dev" in f and d.get("dev") is not None:
        exp["dev"] = d["dev"]
    if "ino" in f and d.get("ino") is not None:
        exp["ino"] = d["ino"]
    if "nlink" in f:
        exp["nlink"] = max(1, d.get("nlink", 1))
    if "xattrs" in f and d.get("xattrs"):
        exp["xattrs"] = sorted([list(x) for x in d["xattrs"]])
    return exp

def rb_fields(rb, fmt):
    return dict(pathname=norm_path(un1(rb[RB["pathname"]]), fmt), filetype=rb[RB["mode"]] & IFMT, perm=rb[RB["mode"]] & 0o7777,
                uid=rb[RB["uid"]], gid=rb[RB["gid"]], size=un1(rb[RB["size"]]), mtime=un1(rb[RB["mtime"]]), atime=un1(rb[RB["atime"]]),
                ctime=un1(rb[RB["ctime"]]), symlink=un1(rb[RB["symlink"]]), hardlink=un1(rb[RB["hardlink"]]),
                uname=un1(rb[RB["uname"]]), gname=un1(rb[RB["gname"]]), rdev=rb[RB["rdev"]], dev=un1(rb[RB["dev"]]),
                ino=un1(rb[RB["ino"]]), nlink=max(1, rb[RB["nlink"]]), xattrs=sorted(rb[20]) if len(rb) > 20 else [])

def short(v):
    s = repr(v)
    return s if len(s) < 70 else s[:66] + "...'(%d bytes)" % (len(v) if hasattr(v, "__len__") else 0)

def short2(g, v):
    """both values, and where they first differ when they are long"""
    if isinstance(g, bytes) and isinstance(v, bytes) and max(len(g), len(v)) >= 60:
        i = next((k for k in range(min(len(g), len(v))) if g[k] != v[k]), min(len(g), len(v)))
        return "%s, written %s [first difference at byte %d: read %r / written %r]" % (short(g), short(v), i, g[max(0, i - 8):i + 12], v[max(0, i - 8):i + 12])
    return "%s, written %s" % (short(g), short(v))

def check_round1(meta, iv):
    """-> None | (key, description)"""
    fmt = meta["fmt"]
    spec = FORMATS[fmt]
    w, _, rd = iv
    es = meta["entries"]
    tag = "%s%s%s" % (fmt, (" [" + meta["opts"] + "]") if meta["opts"] else "", (" | " + meta["flt"]) if meta["flt"] else "")
    if w[0] != OK:
        return ("C02:%s:open" % fmt, "%s: opening the writer failed with %d" % (tag, w[0]))
    if len(w[1]) != len(es):
        return ("C02:%s:write-aborted" % fmt, "%s: only %d of %d entries were written: %s" % (tag, len(w[1]), len(es), w[1][-1:]))
    for k, (rec, d) in enumerate(zip(w[1], es)):
        hs, err, dsum, fs = rec[0], rec[1].decode("latin1"), rec[4], rec[5]
        if hs == OK and dsum >= 0 and fs != OK and len(d["body"]) < d["size"]:
            return ("C02:%s:short-body" % fmt,
                    "%s: entry #%d: %d bytes written for a declared size of %d: archive_write_finish_entry returns %d instead of padding (%s)" %
                    (tag, k, len(d["body"]), d["size"], fs, err[:60]))
        if hs != OK or fs != OK or dsum < 0:
            return ("C02:%s:refused-representable" % fmt,
                    "%s: entry #%d (type %o, %d-byte name, uid %d, mtime %s) inside the format's range was answered with header=%d "
                    "data=%d finish=%d (%s)" % (tag, k, d["mode"] & IFMT, len(d["path"]), d.get("uid", 0), d.get("mtime"), hs, dsum, fs, err[:60]))
        if (d["mode"] & IFMT) == REG and not d.get("hard") and dsum != min(len(d["body"]), d["size"]):
            return ("C02:%s:data-count" % fmt, "%s: archive_write_data accepted %d of %d bytes" % (tag, dsum, d["size"]))
    if w[2] != OK:
        return ("C02:%s:close" % fmt, "%s: archive_write_close returned %d" % (tag, w[2]))
    if rd[3] != 1:
        # nothing at all could be read through the filter: the filter; otherwise the format reader
        where = ("filter-" + meta["flt"]) if (meta["flt"] and len(rd[2]) == 0 and len(es) > 0) else fmt
        return ("C02:%s:read-error" % where, "%s (bytes_per_block %d, bytes_in_last_block %d): reading the archive back ends with %d (%s) after %d of %d entries" %
                (tag, meta["bpb"], meta["bilb"], rd[3], rd[4].decode("latin1")[:70], len(rd[2]), len(es)))
    if spec.get("single") and not es[0]["body"] and rd[0] in (0x60000, 0x30000):
        return None          # an empty raw stream is the empty archive (behind some filters the tar reader claims it first)
    if rd[0] not in spec["codes"]:
        return ("C02:%s:format-detected" % (("filter-" + meta["flt"]) if meta["flt"] else fmt), "%s: archive detected as format 0x%x, written as %s" % (tag, rd[0], sorted(hex(c) for c in spec["codes"])))
    if rd[1] != meta["fcode"]:
        return ("C02:%s:filter-detected" % fmt, "%s: outermost filter detected as %d, written with %d" % (tag, rd[1], meta["fcode"]))
    if spec.get("single"):
        want = es[0]["body"]
        got = rd[2][0][RB["body"]] if len(rd[2]) == 1 else None
        if got is None or got[:len(want)] != want or (got[len(want):].strip(b"\0") != b"") or (meta["bpb"] == 0 and got != want):
            return ("C02:%s:body" % fmt, "%s: the raw stream does not read back as the body written (block padding aside)" % tag)
        return None
    rbs = [e for e in rd[2]]
    if spec.get("root"):
        rbs = [e for e in rbs if norm_path(un1(e[RB["pathname"]]), fmt) not in (b".", b"")]
    want_paths = [norm_path(d["path"], fmt) for d in es]
    got_paths = [norm_path(un1(e[RB["pathname"]]), fmt) for e in rbs]
    if spec["order"] == "seq":
        if got_paths != want_paths:
            k = next((i for i, (a, b) in enumerate(zip(got_paths, want_paths)) if a != b), min(len(got_paths), len(want_paths)))
            return ("C02:%s:pathname" % fmt, "%s: entry #%d reads back as %s, written %s (%d entries read, %d written)" %
                    (tag, k, short(got_paths[k]) if k < len(got_paths) else None, short(want_paths[k]) if k < len(want_paths) else None,
                     len(got_paths), len(want_paths)))
        pairs = list(zip(es, rbs))
    else:
        if sorted(got_paths) != sorted(want_paths):
            missing = [p for p in want_paths if p not in got_paths]
            extra = [p for p in got_paths if p not in want_paths]
            return ("C02:%s:pathname" % fmt, "%s: the set of entries differs: missing %s, unexpected %s" %
                    (tag, short(missing[:2]), short(extra[:2])))
        byp = {norm_path(un1(e[RB["pathname"]]), fmt): e for e in rbs}
        pairs = [(d, byp[norm_path(d["path"], fmt)]) for d in es]
    for k, (d, rb) in enumerate(pairs):
        if rb[0] != OK:
            return ("C02:%s:read-warning" % fmt, "%s: archive_read_next_header returned %d for entry #%d" % (tag, rb[0], k))
        exp = expected_fields(fmt, spec, d)
        got = rb_fields(rb, fmt)
        for f, v in exp.items():
            g = got[f]
            if f in ("symlink", "hardlink", "uname", "gname") and g == b"":
                g = None
            if f == "mtime" and "mtime_ns_opt" in spec["fields"] and g is not None and g[0] == v[0] and g[1] in (0, d["mtime"][1]):
                continue        # pax restricted keeps the nanoseconds only when it emits an extended header anyway
            if g != v:
                return ("C02:%s:%s" % (fmt, f), "%s: entry #%d (type %o) %s reads back as %s" %
                        (tag, k, d["mode"] & IFMT, f, short2(g, v)))
        if not spec.get("nobody") and (d["mode"] & IFMT) == REG and not d.get("hard"):
            want = d["body"][:d["size"]] + b"\0" * max(0, d["size"] - len(d["body"]))
            body = rb[RB["body"]]
            if rb[RB["dstatus"]] != 0 or body[:len(want)] != want:
                return ("C02:%s:body" % fmt, "%s: entry #%d body of %d bytes reads back differently (status %d, %d bytes, first difference at %s)" %
                        (tag, k, len(want), rb[RB["dstatus"]], len(body),
                         next((i for i in range(min(len(body), len(want))) if body[i] != want[i]), min(len(body), len(want)))))
            if len(body) != len(want):
                return ("C02:%s:body-trailing-bytes" % fmt,
                        "%s: entry #%d: looping on archive_read_data until it returns 0 yields %d bytes for a %d-byte body (extra: %s)" %
                        (tag, k, len(body), len(want), short(body[len(want):])))
    return None

def input_class(key, meta, iv):
    """the class of failing input a finding belongs to (None: no special class).  Known findings are registered under
    key:class, so that any other failure of the same kind on the same format keeps the plain key and is reported."""
    fmt, es = meta["fmt"], meta["entries"]
    w, _, rd = iv
    part = key.split(":")
    kind = part[2] if len(part) > 2 else ""
    padded = meta["bpb"] > 0 and meta["bilb"] != 1          # the last block of the output is filled with zero bytes
    if kind == "read-error" and padded:
        if part[1].startswith("filter-") or len(rd[2]) == len(es):
            return "zero-padded-last-block"
    if kind == "format-detected" and fmt == "gnutar" and es and max(es[0].get("uid", 0), es[0].get("gid", 0)) >= 1 << 56:
        return "first-header-id-ge-2^56"
    if kind == "xattrs":
        for d, rb in zip(es, rd[2]):
            want = sorted([list(x) for x in d.get("xattrs") or []])
            got = sorted(rb[20]) if len(rb) > 20 else []
            if want != got:
                return "each-twice" if got == sorted(want + want) else None
    if kind == "pathname" and fmt == "xar":
        got = [un1(e[RB["pathname"]]) for e in rd[2]]
        for d, g in zip(es, got):
            if d["path"] != g:
                # a name with bytes outside ASCII, long enough for its base64 form to be broken into lines, comes back cut
                if any(c >= 0x80 for c in d["path"]) and len(d["path"]) > 57 and g is not None and d["path"].startswith(g):
                    return "base64-name-over-57-bytes"
                return None
    if kind == "body" and fmt == "zip" and "compression=lzma" in meta["opts"]:
        for d, rb in zip(es, rd[2]):
            if (d["mode"] & IFMT) == REG and d["size"] == 0 and rb[RB["dstatus"]] != 0:
                return "lzma-empty-file"
    return None

def classified(hit, meta, iv):
    if not hit:
        return hit
    c = input_class(hit[0], meta, iv)
    return (hit[0] + ":" + c, hit[1]) if c else hit

def rb_to_ent(rb, spec):
    """the read-back entry, handed unchanged to the writer again"""
    t = lambda v: tuple(v) if v else None
    return ent(path=un1(rb[RB["pathname"]]), hard=un1(rb[RB["hardlink"]]), sym=un1(rb[RB["symlink"]]), uname=un1(rb[RB["uname"]]),
               gname=un1(rb[RB["gname"]]), mode=rb[RB["mode"]], uid=rb[RB["uid"]], gid=rb[RB["gid"]], size=un1(rb[RB["size"]]),
               mtime=t(un1(rb[RB["mtime"]])), atime=t(un1(rb[RB["atime"]])), ctime=t(un1(rb[RB["ctime"]])),
               btime=t(un1(rb[RB["birthtime"]])), dev=un1(rb[RB["dev"]]), ino=un1(rb[RB["ino"]]), nlink=rb[RB["nlink"]], rdev=rb[RB["rdev"]],
               body=rb[RB["body"]][:un1(rb[RB["size"]]) or 0] if not spec.get("nobody") else b"", flags=16 if rb[RB["rdev"]] else 0,
               xattrs=[tuple(x) for x in rb[20]] if len(rb) > 20 else (), fflags=tuple(rb[21]) if len(rb) > 21 and rb[21] != [0, 0] else ())

FIXED_FIELDS = ["pathname", "hardlink", "symlink", "uname", "gname", "mode", "uid", "gid", "size", "mtime", "atime", "ctime", "birthtime",
                "dev", "ino", "nlink", "rdev"]

def check_round2(meta, iv, rb1):
    fmt = meta["fmt"]
    spec = FORMATS[fmt]
    w, _, rd = iv
    tag = "%s%s" % (fmt, (" [" + meta["opts"] + "]") if meta["opts"] else "")
    bad = [rec for rec in w[1] if rec[0] != OK or rec[5] != OK]
    if w[0] != OK or len(w[1]) != len(rb1) or bad or w[2] != OK:
        rec = bad[0] if bad else None
        return ("C02:%s:fixedpoint-refused" % fmt, "%s: writing the read-back entries again is not accepted: %s" %
                (tag, (rec[0], rec[1].decode("latin1")[:60], rec[5]) if rec else (w[0], len(w[1]), len(rb1), w[2])))
    if rd[3] != 1:
        return ("C02:%s:fixedpoint-read-error" % fmt, "%s: the re-written archive reads back with %d (%s)" % (tag, rd[3], rd[4].decode("latin1")[:60]))
    a, b = list(rb1), list(rd[2])
    if spec["order"] != "seq":
        key = lambda e: (un1(e[RB["pathname"]]) or b"")
        a, b = sorted(a, key=key), sorted(b, key=key)
    if len(a) != len(b):
        return ("C02:%s:fixedpoint-count" % fmt, "%s: %d entries read back first, %d after writing them again" % (tag, len(a), len(b)))
    for k, (x, y) in enumerate(zip(a, b)):
        for f in FIXED_FIELDS:
            if x[RB[f]] != y[RB[f]]:
                return ("C02:%s:fixedpoint-%s" % (fmt, f), "%s: entry %s: %s was %s after the first read and is %s after writing it again" %
                        (tag, short(un1(x[RB["pathname"]])), f, short(x[RB[f]]), short(y[RB[f]])))
        if not spec.get("nobody") and x[RB["body"]] != y[RB["body"]]:
            n = un1(x[RB["size"]]) or 0
            if x[RB["body"]][:n] != y[RB["body"]][:n]:
                return ("C02:%s:fixedpoint-body" % fmt, "%s: entry %s: body differs after writing the read-back entry again" % (tag, short(un1(x[RB["pathname"]]))))
        if len(x) > 20 and x[20] != y[20]:
            return ("C02:%s:fixedpoint-xattrs" % fmt, "%s: entry %s: xattrs differ after writing the read-back entry again" % (tag, short(un1(x[RB["pathname"]]))))
    return None

PARSE_FORMATS = ("ustar", "newc", "odc")

def view_fields(fmt, v):
    """the extracted parser's view of one entry, as the getters the real reader must show"""
    path, link, typ, mode, uid, gid, size, mtime, uname, gname, rmaj, rmin, dmaj, dmin, ino, nlink, body = v
    if fmt == "ustar":
        ft = {48: REG, 50: LNK, 51: CHR, 52: BLK, 53: DIR, 54: FIFO}.get(typ, REG)
        d = dict(pathname=path, hardlink=link if typ == 49 else None, symlink=link if typ == 50 else None, perm=mode & 0o7777,
                 uid=max(uid, 0), gid=max(gid, 0), size=size if typ == 48 else 0, mtime=[mtime, 0], uname=uname or None, gname=gname or None,
                 rdev=mkdev(rmaj, rmin) if typ in (51, 52) else 0, body=body)
        if typ != 49:
            d["filetype"] = ft
        return d
    d = dict(pathname=path, symlink=link if typ == LNK else None, filetype=typ, perm=mode & 0o7777, uid=uid, gid=gid, size=size,
             mtime=[mtime, 0], ino=ino, nlink=max(1, nlink), body=body)
    if fmt == "newc":
        d["rdev"], d["dev"] = mkdev(rmaj, rmin), mkdev(dmaj, dmin)
    else:
        d["rdev"], d["dev"] = rmaj, dmaj
    return d

def parse_correspondence(rep, runner, todo, stats):
    """model parser on the bytes the REAL writer produced vs what the REAL reader returned for them"""
    if not todo:
        return
    lines = [vfmt([1, 0, fmt.encode(), b"", b"", 0, -1, data, 0, -1, 0]) for fmt, data, rd, line in todo]
    path = vlib.write_cases(lines, "fmt-parse.cases")
    rc, ml, err = vlib.run_exe(runner, path, timeout=900)
    if rc != 0 or len(ml) != len(lines):
        rep.violation("corr:fmt-parse:model-runner", "model runner failed (rc=%s, %d/%d lines): %s" % (rc, len(ml), len(lines), err[-300:]),
                      dict(correspondence="fmt-parse", stage="model"), found_input=False)
        return
    first = None
    for (fmt, data, rd, line), m in zip(todo, ml):
        mv = fparse(m)
        ok = bool(mv) and len(mv[0]) == len(rd[2])
        why = "the model parser rejects the archive or finds %s entries, the reader %d" % (len(mv[0]) if mv else "no", len(rd[2]))
        if ok:
            for v, rb in zip(mv[0], rd[2]):
                want = view_fields(fmt, v)
                got = rb_fields(rb, fmt)
                got["pathname"] = un1(rb[RB["pathname"]])
                got["body"] = rb[RB["body"]]
                for k2 in ("symlink", "hardlink", "uname", "gname"):
                    if got[k2] == b"":
                        got[k2] = None
                bad = [k2 for k2, x in want.items() if got.get(k2) != x]
                if bad:
                    ok, why = False, "entry %s: %s is %s for the model parser, %s for the reader" % (
                        short(want["pathname"]), bad[0], short(want[bad[0]]), short(got.get(bad[0])))
                    break
        if ok:
            stats["parse_agree"] += 1
        else:
            stats["parse_disagree"] += 1
            if first is None:
                first = (fmt, why, line)
    if first:
        rep.violation("corr:fmt-parse", "header parser model and real reader disagree on %d archives (first: %s: %s)" %
                      (stats["parse_disagree"], first[0], first[1]),
                      dict(correspondence="fmt-parse", broken="correspondence fmt-parse (model parser vs real reader)", case=first[2]),
                      found_input=False)

def run_round(rep, exe, cases, tagname):
    lines = [c[0] for c in cases]
    metas = [dict(fmt=c[1]["fmt"], field="sequence", desc="%s/%s" % (c[1]["opts"], c[1]["flt"])) for c in cases]
    return C10.run_resuming(rep, tagname, exe, lines, metas, env=C10.harness_env(), pid="C02")

# ----------------------------------------------------------------------------- sparse files through the pax writer
from vlib import vparse as _vp
def _fnv(data):
    h = 1469598103934665603
    for b in data:
        h = ((h ^ b) * 1099511628211) & 0xFFFFFFFFFFFFFFFF
    return h

def sparse_roundtrip(rep, quick):
    """Sparse files are stored by the pax writers as a text map followed by the data blocks.  Written with the real
    writer, read back with the real reader, compared with what was written (holes read back as zeros), with a plain
    entry behind the sparse one.  The map texts are chosen around the 512-byte record borders (the map is padded to a
    record), block offsets and lengths around digit-count borders."""
    import readcore
    mk = vlib.compile_harness("mkArchive", "asan")
    rd = vlib.compile_harness("readAll", "asan")
    def map_len(blocks, size):
        bl = list(blocks)
        if not bl or bl[-1][0] + bl[-1][1] < size:
            bl.append((size, 0))
        return len("%d\n" % len(bl)) + sum(len("%d\n%d\n" % b) for b in bl)
    cands = []
    for step, ln in ((8192, 1), (8192, 12), (10000, 123), (70000, 1), (512, 7), (100000, 4096)):
        for n in range(1, 260):
            blocks = [(step * i + (0 if step > ln else 0), ln) for i in range(n)] if step > ln else None
            if not blocks:
                continue
            size = blocks[-1][0] + ln + 4097
            cands.append((map_len(blocks, size), blocks, size))
    pick = [c for c in cands if c[0] % 512 in (0, 1, 511)]
    r = vlib.rng(rep.seed, "C02-sparse")
    pick = pick[: (24 if quick else 400)] + r.sample(cands, 6 if quick else 60)
    specs, metas = [], []
    AE_IFREG = 0o100000
    for mlen, blocks, size in pick:
        if size > (3 << 20):
            continue
        body = bytearray(size)
        for off, ln in blocks:
            for j in range(ln):
                body[off + j] = (off + j * 7 + 1) & 0xff or 1
        for fmt in ("pax", "paxr"):
            ents = [["sp/holes", AE_IFREG, 0o644, 1, 2, 1000, bytes(body), b"", b"", 0, [list(b) for b in blocks]],
                    ["sp/after.txt", AE_IFREG, 0o600, 1, 2, 1001, b"after the sparse file\n", b"", b"", 0, []]]
            specs.append(vfmt([fmt, "", "", 512, ents]))
            metas.append((fmt, mlen, len(blocks), size, _fnv(bytes(body))))
    rc, lines, err = vlib.run_exe(mk, vlib.write_cases(specs, "c02-sparse-mk.cases"), timeout=900)
    rcases, rmeta = [], []
    for m, l in zip(metas, lines):
        v = _vp(l)
        if v[0] < -20 or v[-2] < -20:
            rep.violation("C02:%s:sparse:write-failed" % m[0], "writing a sparse file (map of %d bytes, %d blocks) failed with status %s" % (m[1], m[2], v[-2]),
                          dict(format=m[0], map_bytes=m[1], blocks=m[2]), found_input=True)
            continue
        rcases.append(readcore.read_case(v[-1], source=(1,), consume=(0, 65536, 0), noraw=1)); rmeta.append(m)
    rc, rl, err = readcore.run_readall(rd, rcases, timeout=900)
    n = 0
    for m, c, l in zip(rmeta, rcases, rl):
        n += 1
        d = _vp(l)
        ents = [e for e in d[:-4] if isinstance(e, list)]
        fmt, mlen, nb, size, h = m
        what = None
        if len(ents) != 2 or d[-4] != 1:
            what = "read back %d entries (final status %s), wrote 2" % (len(ents), d[-4])
        elif ents[0][3] not in (size, [size]) or ents[0][-2] != size or ents[0][-1] != h or ents[0][-3] != 0:
            what = "sparse entry reads back with size %s, %s data bytes (status %s), hash %s; wrote %d bytes, hash %s" % (ents[0][3], ents[0][-2], ents[0][-3], ents[0][-1], size, h)
        elif ents[1][1] != b"sp/after.txt" or ents[1][-2] != 22:
            what = "the entry behind the sparse file reads back as %r with %s bytes" % (ents[1][1], ents[1][-2])
        if what:
            rep.violation("C02:%s:sparse:map-%s" % (fmt, "record-multiple" if mlen % 512 == 0 else "other"),
                          "%s, sparse map text of %d bytes (%d blocks): %s" % (fmt, mlen, nb, what),
                          dict(format=fmt, map_bytes=mlen, blocks=nb, case=c[:200000], cmd="harness mkArchive then readAll"), found_input=True)
    return n

def zisofs_passthrough(rep, quick):
    """iso9660 with the zisofs option and a member that already IS a zisofs file (made by mkzftree): the writer is
    documented to store it as it is and mark it, so it reads back as the bytes it decodes to; when its first write is
    shorter than the detection window it is compressed like any other file and reads back as it was written.  Either
    way the image is readable and the members around it are untouched.  Sizes put the header the writer reserves
    in front of each compressed file on both sides of its 64 KiB buffer."""
    import readcore, zlib, struct
    AE_IFREG = 0o100000
    mk = vlib.compile_harness("mkArchive", "asan")
    rd = vlib.compile_harness("readAll", "asan")
    def zisofs(data, lb=15):
        bs = 1 << lb
        blocks = [data[i:i + bs] for i in range(0, len(data), bs)]
        comp = [zlib.compress(b) if any(b) else b"" for b in blocks]
        hdr = bytes([0x37, 0xE4, 0x53, 0x96, 0xC9, 0xDB, 0xD6, 0x07]) + struct.pack("<I", len(data)) + bytes([4, lb, 0, 0])
        off, ptr = 16 + 4 * (len(blocks) + 1), b""
        for c in comp:
            ptr += struct.pack("<I", off); off += len(c)
        return hdr + ptr + struct.pack("<I", off) + b"".join(comp)
    r = vlib.rng(rep.seed, "C02-zisofs")
    specs, metas = [], []
    for dl, kind in ((100000, "text"), (3000, "text"), (40, "text")) if quick else ((100000, "text"), (300000, "rand"), (3000, "text"), (40, "text"), (70000, "text")):
        D = bytes(r.choice(b"abcdefgh ") for _ in range(dl)) if kind == "text" else bytes(r.randrange(256) for _ in range(dl))
        Z = zisofs(D)
        for chunk in (0, 10, 64, 4096) if quick else (0, 10, 63, 64, 65, 4096, 100000):
            for pre in (0, 65500, 65536) if quick else (0, 100, 63000, 65000, 65500, 65530, 65536, 66000, 131000):
                ents = []
                if pre:
                    ents.append(["pre.bin", AE_IFREG, 0o644, 0, 0, 1, bytes(r.randrange(256) for _ in range(pre)), b"", b"", 0, []])
                ents.append(["a.bin", AE_IFREG, 0o644, 0, 0, 1, Z, b"", b"", chunk, []])
                ents.append(["b.txt", AE_IFREG, 0o644, 0, 0, 1, b"hello world\n" * 1000, b"", b"", 0, []])
                specs.append(vfmt(["iso9660", "", "iso9660:rockridge=strict,zisofs=direct", 512, ents]))
                metas.append((dl, chunk, pre, D, Z, ents))
    rc, lines, err = vlib.run_exe(mk, vlib.write_cases(specs, "c02-zisofs-mk.cases"), timeout=900)
    rcases, rmeta = [], []
    for m, l in zip(metas, lines):
        v = _vp(l)
        if v[0] < -20 or v[-2] < -20:
            rep.violation("C02:iso9660:zisofs-member:write-failed", "writing an iso9660 image with a zisofs member failed with status %s" % v[-2],
                          dict(member_bytes=len(m[4]), chunk=m[1], before=m[2]), found_input=True)
            continue
        rcases.append(readcore.read_case(v[-1], source=(1,), consume=(0, 1 << 20, 1), noraw=1)); rmeta.append(m)
    rc, rl, err = readcore.run_readall(rd, rcases, timeout=900)
    n = 0
    for (dl, chunk, pre, D, Z, ents), c, l in zip(rmeta, rcases, rl):
        n += 1
        d = readcore.digest_ok(l) if l else None
        got = {e[1]: (e[10], e[12]) for e in (d or []) if isinstance(e, list) and len(e) > 9}
        what = None
        for e in ents:
            st, b = got.get(e[0].encode(), (None, None))
            if e[0] == "a.bin":
                if not (st == 0 and b in (Z, D)):
                    what = "the zisofs member (%d bytes, decoding to %d) reads back with status %s and %s bytes: neither what was written nor what it decodes to" % (
                        len(Z), len(D), st, len(b) if isinstance(b, bytes) else b)
            elif not (st == 0 and b == e[6]):
                what = what or "member %s next to the zisofs member reads back with status %s and different bytes" % (e[0], st)
        if what:
            rep.violation("C02:iso9660:zisofs-member", "iso9660 zisofs=direct, member written in pieces of %d, %d bytes in front of it: %s" % (chunk, pre, what),
                          dict(case=c[:200000], chunk=chunk, before=pre, cmd="harness mkArchive then readAll"), found_input=True)
    return n

def run(rep):
    C10.big_stack()
    pr = vlib.proof_part(rep, "C02", translators=["gen_defines", "gen_fmt"])
    runner = vlib.build_runner("fmt")
    exe = vlib.compile_harness("fmt", "asan")
    cases = [(l, meta_from_line(l)) for l in vlib.load_corpus("C02")] + gen_cases(rep)
    stats = dict(evaluations=0, agree=0, disagree=0, keys={}, round2=0, parse_agree=0, parse_disagree=0)
    parse_todo = []
    il = run_round(rep, exe, cases, "fmt-rt1")
    # model on the plain byte-level subset
    midx = [k for k, c in enumerate(cases) if c[1]["model"]]
    mpath = vlib.write_cases([cases[k][0] for k in midx], "fmt-rt-model.cases")
    rc_m, ml, m_err = vlib.run_exe(runner, mpath, timeout=900)
    if rc_m != 0 or len(ml) != len(midx):
        rep.violation("corr:fmt:model-runner", "model runner failed (rc=%s, %d/%d lines): %s" % (rc_m, len(ml), len(midx), m_err[-300:]),
                      dict(correspondence="fmt", stage="model"), found_input=False)
        ml = []
    model_of = dict(zip(midx, ml))
    round2, first_dis = [], None
    for k, (line, meta) in enumerate(cases):
        if il[k] is None:
            continue
        try:
            iv = fparse(il[k])
        except Exception:
            rep.violation("C02:unparsable-output", "harness output not parsable", dict(case=line[:2000], impl=il[k][:300]), found_input=True)
            continue
        stats["evaluations"] += 1
        hit = classified(check_round1(meta, iv), meta, iv)
        if hit:
            stats["keys"].setdefault(hit[0], hit[1])
            rep.violation(hit[0], hit[1], dict(correspondence="fmt", case=line, fmt=meta["fmt"], opts=meta["opts"], flt=meta["flt"],
                                               round=1, impl=il[k][:3000], cmd="./check C02 --replay <this file>"), found_input=True)
        elif not FORMATS[meta["fmt"]].get("single"):
            spec = FORMATS[meta["fmt"]]
            rb1 = [e for e in iv[2][2]]
            ents2 = [rb_to_ent(e, spec) for e in rb1]
            line2 = vfmt([0, meta["loc"], meta["fmt"].encode(), meta["opts"].encode(), b"", 0, -1, ents2, 0, -1, 0])
            round2.append((line2, dict(meta, round=2, rb1=rb1, line1=line)))
        if k in model_of and not hit and meta["fmt"] in PARSE_FORMATS and iv[0][3] == len(iv[1]):
            parse_todo.append((meta["fmt"], iv[1], iv[2], line))
        if k in model_of:
            try:
                mv = fparse(model_of[k])
            except Exception:
                mv = [model_of[k][:40]]
            if C10.project_impl(iv) == mv:
                stats["agree"] += 1
            else:
                stats["disagree"] += 1
                if first_dis is None and not hit:
                    first_dis = (k, line, C10.project_impl(iv), mv, meta)
    if first_dis is not None:
        k, line, pi, mv, meta = first_dis
        rep.violation("corr:fmt-archive", "model and implementation disagree on %d whole-archive cases (first: #%d %s, %s differ)" %
                      (stats["disagree"], k, meta["fmt"], "status/lengths" if pi[:3] != mv[:3] else "output bytes"),
                      dict(correspondence="fmt", broken="correspondence fmt (whole archives)", case=line, impl=str(pi[:3]), model=str(mv[:3])),
                      found_input=False)
    parse_correspondence(rep, runner, parse_todo, stats)
    try:
        stats["sparse_roundtrips"] = sparse_roundtrip(rep, rep.tier == "quick")
        stats["zisofs_members"] = zisofs_passthrough(rep, rep.tier == "quick")
    except (vlib.BuildError, Exception) as ex:
        rep.violation("C02:sparse:could-not-run", "sparse round trips could not be run: %r" % (ex,), dict(error=repr(ex)), found_input=False)
    if round2:
        il2 = run_round(rep, exe, round2, "fmt-rt2")
        for k, (line2, meta) in enumerate(round2):
            if il2[k] is None:
                continue
            iv2 = fparse(il2[k])
            stats["round2"] += 1
            hit = check_round2(meta, iv2, meta["rb1"])
            if hit:
                stats["keys"].setdefault(hit[0], hit[1])
                rep.violation(hit[0], hit[1], dict(correspondence="fmt", case=meta["line1"], case2=line2, fmt=meta["fmt"], opts=meta["opts"],
                                                   flt="", round=2, impl=il2[k][:3000], cmd="./check C02 --replay <this file>"), found_input=True)
    nontriv = [c for c in cases if len(c[1]["entries"]) >= 2 or any(len(e["path"]) > 100 for e in c[1]["entries"])]
    rep.coverage.update(
        evaluations=stats["evaluations"] + stats["round2"],
        distinct_nontrivial=vlib.distinct_count([c[0] for c in nontriv]),
        rule="generated entry sequences (names at 99/100/101/155/156/255/256 bytes, UTF-8 names, every file type the format holds, ids and "
             "times at the field-width borders inside the representable range, sym/hard links, bodies 0/1/511/512/513/... with random write "
             "chunkings) x %d writable formats x option sets x filters {none gzip bzip2 compress lzma xz uuencode b64encode lz4 zstd} x block "
             "sizes, each written by the real writer, read by the real reader through auto-detection, and written+read once more (fixed "
             "point); non-trivial = at least two entries or a name longer than 100 bytes" % len(FORMATS),
        samples=[cases[0][0][:300], cases[len(cases) // 2][0][:300]],
        traces_validated_against_impl=stats["agree"] + stats["parse_agree"],
        correspondence=dict(whole_archive=dict(agree=stats["agree"], disagree=stats["disagree"]),
                            parser=dict(agree=stats["parse_agree"], disagree=stats["parse_disagree"])),
        fixed_point_rounds=stats["round2"], oracle_keys=sorted(stats["keys"].keys()))
    rep.assumptions += [
        "representable ranges per format are the table FORMATS in props/C02.py (read off the writers and the C10 results); values outside are C10's subject",
        "ACLs are not generated (C15 covers them); sparse files only through the pax writers (sparse_roundtrip); xattrs only for pax; file flags not generated",
        "shar/shardump have no reader and are not round-tripped; raw is checked on its single body",
        "filters lrzip/lzop/grzip/lzip need external programs or are not built in and are not used"]
    vlib.proof_verdict(rep, "C02", pr)

def meta_from_line(line):
    cv = fparse(line)
    fmt = cv[2].decode()
    es = []
    for x in cv[7]:
        es.append(dict(path=un1(x[0]), hard=un1(x[1]), sym=un1(x[2]), uname=un1(x[3]), gname=un1(x[4]), mode=x[5], uid=x[6], gid=x[7],
                       size=un1(x[8]) or 0, mtime=tuple(un1(x[9])) if x[9] else None, atime=tuple(un1(x[10])) if x[10] else None,
                       ctime=tuple(un1(x[11])) if x[11] else None, dev=un1(x[13]), ino=un1(x[14]), nlink=x[15], rdev=x[16], body=x[17],
                       chunks=tuple(x[18]), xattrs=[tuple(t) for t in x[20]]))
    fcode = dict(FILTERS).get(cv[4], 0)
    return dict(fmt=fmt, opts=cv[3].decode(), flt=cv[4].decode(), fcode=fcode, bpb=cv[5], bilb=cv[6], loc=cv[1], entries=es,
                model=False, round=1)

def replay(rep, path):
    import json
    C10.big_stack()
    d = json.load(open(path))
    rp = d["replay"]
    exe = vlib.compile_harness("fmt", "asan")
    line = rp["case"]
    meta = meta_from_line(line)
    fmt = meta["fmt"]
    cv = fparse(line)
    il = run_round(rep, exe, [(line, meta)], "fmt-replay")
    if il[0] is not None:
        iv = fparse(il[0])
        hit = classified(check_round1(meta, iv), meta, iv)
        if hit:
            rep.violation(hit[0], hit[1], dict(case=line, impl=il[0][:3000]), found_input=True)
        elif not FORMATS[fmt].get("single"):
            rb1 = [e for e in iv[2][2]]
            line2 = vfmt([0, cv[1], cv[2], cv[3], b"", 0, -1, [rb_to_ent(e, FORMATS[fmt]) for e in rb1], 0, -1, 0])
            il2 = run_round(rep, exe, [(line2, dict(meta, round=2))], "fmt-replay2")
            if il2[0] is not None:
                hit = check_round2(meta, fparse(il2[0]), rb1)
                if hit:
                    rep.violation(hit[0], hit[1], dict(case=line, case2=line2, impl=il2[0][:3000]), found_input=True)
    rep.coverage.update(evaluations=1, distinct_nontrivial=1, samples=[line[:300]])
