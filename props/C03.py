"""C03 - filter (compression / encoding) round trip is the identity.

proof       coq/Properties_C03.v over coq/Codec/CodecDefs.v (uuencode / b64encode writers, client
            re-blocking, uu read filter + bidder, abstract drive loop / member concatenation)
corr-1      model writer vs real archive_write_add_filter_{b64encode,uuencode} + raw format: the exact
            blocks handed to the client write callback, for random streams x chunkings x bytes_per_block
corr-2      model bidder+decoder vs the real uu read filter, on the MODEL's encoder output (any read
            blocking) and on mutated lines (single read block, see CodecDefs.v for why)
spec        every filter {gzip,bzip2,xz,lzma,lzip,zstd,lz4,compress,uuencode,b64encode}, stacks <= 3,
            options, write/read chunkings: recovered bytes == input, reader filter codes == writer
            filter codes, two-member concatenation decodes to the concatenation (real code only)."""
import os, re, json, base64, binascii, resource, time
import vlib
from vlib import vfmt, vparse

LEVEL = "proof"
FILTERS = ["gzip", "bzip2", "xz", "lzma", "lzip", "zstd", "lz4", "compress", "uuencode", "b64encode"]
MULTI = ["gzip", "bzip2", "xz", "lzip", "zstd", "lz4"]
CODE = dict(gzip=1, bzip2=2, compress=3, lzma=5, xz=6, uuencode=7, b64encode=7, lzip=9, lz4=13, zstd=14)
UUISH = ("uuencode", "b64encode")

# ------------------------------------------------------------------ known defect classes
# Each class is decided from the CASE (what was asked of the writer), never from the model.
def case_defect_class(case_line):
    c = vparse(case_line)
    if c[0] == 2:
        return defect_class([x.decode() for x in c[1]], c[2].decode("utf-8", "replace"), [data_len(c[3])], c[6])
    if c[0] == 3:
        return defect_class([x.decode() for x in c[1]], c[2].decode("utf-8", "replace") + "," + c[3].decode("utf-8", "replace"),
                            [data_len(c[4]), data_len(c[5])], c[8])
    return None

def defect_class(filters, wopts, datalens, readmode):
    """returns (key, description) when the case lies in a class where the pinned tree is known to fail;
    datalens: length of the stream of every archive written in the case"""
    opts = parse_opts(wopts)
    datalen = min(datalens)
    if datalen == 0 and filters and filters[0] == "compress":
        return ("C03:compress:empty-stream",
                "compress write filter closed without any data written: close() always emits cur_code, which is 0 when no "
                "byte was ever read, so the empty stream decodes to one NUL byte")
    if datalen == 0 and filters and filters[0] == "lz4":
        return ("C03:lz4:empty-stream",
                "lz4 write filter closed without any data written: the stream descriptor is only emitted by the first write, so "
                "close() calls XXH32_digest(NULL) (NULL dereference, stream-checksum is on by default) or, with "
                "!stream-checksum, emits a bare 4-byte end mark that is not an lz4 frame")
    for f in filters:
        if f in UUISH:
            m = opts.get((f, "mode"))
            if m is not None and mode_value(m) < 0o100:
                return ("C03:uu:mode-below-0100",
                        "%s with option mode=%s writes the header with '%%o' (fewer than three octal digits); the uu reader "
                        "only accepts exactly three octal digits after 'begin ', so the output is not recognised" % (f, m))
            n = opts.get((f, "name"))
            if n is not None and any(ord(ch) < 0x20 or ord(ch) > 0x7e for ch in n):
                return ("C03:uu:name-not-printable-ascii",
                        "%s with a name option containing a byte outside 0x20..0x7e: the reader's get_line rejects the header line" % f)
    if datalen == 0 and filters and filters[0] in UUISH and readmode in (0, 1):
        return ("C03:uu:empty-stream-not-recognised",
                "empty stream through %s: the uu bidder needs a data line followed by another line (uuencode) / "
                "more bytes after the second line (b64encode) and bids 0, so the encoded text comes back undecoded" % filters[0])
    for f in filters:
        if f == "zstd":
            lg = opts.get(("zstd", "long"))
            if lg is not None and int(lg) > 27:
                return ("C03:zstd:long-above-27",
                        "zstd:long=%s is accepted by the writer (documented range 10..31) but the read filter never raises "
                        "ZSTD_d_windowLogMax above the default 27, so it cannot decode the writer's own output" % lg)
    return None

def parse_opts(wopts):
    d = {}
    for item in wopts.split(","):
        if not item or ":" not in item:
            continue
        mod, kv = item.split(":", 1)
        if kv.startswith("!"):
            d[(mod, kv[1:])] = None
        elif "=" in kv:
            k, v = kv.split("=", 1)
            d[(mod, k)] = v
        else:
            d[(mod, kv)] = "1"
    return d

def mode_value(s):
    v = 0
    for ch in s:
        if "0" <= ch <= "7":
            v = v * 8 + ord(ch) - 48
        else:
            break
    return v & 0o777

# ------------------------------------------------------------------ generators (spec level)
def opt_choices(r, f, tier):
    """one valid option assignment for filter f, as a list of 'module:key[=value]' items"""
    o = []
    def maybe(p):
        return r.random() < p
    if f == "gzip":
        if maybe(.7): o.append("gzip:compression-level=%d" % r.choice([0, 1, 1, 6, 9, r.randrange(10)]))
        if maybe(.3): o.append(r.choice(["gzip:timestamp", "gzip:!timestamp"]))
    elif f == "bzip2":
        if maybe(.7): o.append("bzip2:compression-level=%d" % r.choice([0, 1, 1, 5, 9]))
    elif f in ("xz", "lzma", "lzip"):
        if maybe(.8): o.append("%s:compression-level=%d" % (f, r.choice([0, 0, 1, 1, 2, 3, 6] + ([9] if tier == "thorough" else []))))
        if f == "xz" and maybe(.4): o.append("xz:threads=%d" % r.choice([0, 1, 2, 2, 3]))
    elif f == "zstd":
        if maybe(.7): o.append("zstd:compression-level=%d" % r.choice([-7, -1, 1, 1, 3, 3, 9, 15, 19] + ([22] if tier == "thorough" else [])))
        if maybe(.3): o.append("zstd:threads=%d" % r.choice([0, 1, 2, 3]))
        if maybe(.3): o.append("zstd:long=%d" % r.choice([10, 11, 17, 20, 23, 24] + ([27] if tier == "thorough" else [])))
        if maybe(.25): o.append("zstd:frame-per-file")
        if maybe(.25): o.append("zstd:min-frame-in=%s" % r.choice(["0", "1", "100", "1k", "64k", "1M"]))
        if maybe(.25): o.append("zstd:min-frame-out=%s" % r.choice(["0", "1", "100", "1k", "64k"]))
        if maybe(.25): o.append("zstd:max-frame-in=%s" % r.choice(["1024", "1025", "4k", "100k", "1M"]))
        if maybe(.25): o.append("zstd:max-frame-out=%s" % r.choice(["1024", "1025", "4k", "100k"]))
    elif f == "lz4":
        if maybe(.5): o.append("lz4:compression-level=%d" % r.choice([1, 2, 3, 9, r.randrange(1, 10)]))
        if maybe(.4): o.append(r.choice(["lz4:stream-checksum", "lz4:!stream-checksum"]))
        if maybe(.4): o.append(r.choice(["lz4:block-checksum", "lz4:!block-checksum"]))
        if maybe(.6): o.append("lz4:block-size=%d" % r.choice([4, 4, 5, 6, 7]))
        if maybe(.4): o.append("lz4:block-dependence")
    elif f in UUISH:
        if maybe(.4): o.append("%s:mode=%s" % (f, r.choice(["644", "755", "100", "777", "0644", "600", "400", "1777", "644x"])))
        if maybe(.4): o.append("%s:name=%s" % (f, r.choice(["-", "a", "file.bin", "begin 644 x", "with space", "~tilde~", "x" * 200])))
    return o

SIZES_SMALL = [0, 1, 2, 3, 4, 44, 45, 46, 56, 57, 58, 59, 89, 90, 91, 113, 114, 115, 255, 256, 1000]
SIZES_MID = [4095, 4096, 4097, 10239, 10240, 10241, 32768, 49151, 49152, 49153, 65535, 65536, 65537, 100000, 100001, 99999,
             131071, 131072, 131073, 200000, 262143, 262144, 262145]
SIZES_BIG = [900000, 900001, 1048575, 1048576, 1048577]
SIZES_HUGE = [4194303, 4194304, 4194305, 8 * 1048576 + 1, 16 * 1048576]

def pick_len(r, tier, allow_big=True):
    c = r.random()
    if c < .30:
        return r.choice(SIZES_SMALL)
    if c < .45:
        return r.randrange(0, 3000)
    if c < .75:
        return r.choice(SIZES_MID)
    if c < .85:
        return r.randrange(3000, 300000)
    if not allow_big:
        return r.choice(SIZES_MID)
    if tier == "thorough" and c > .97:
        return r.choice(SIZES_HUGE)
    return r.choice(SIZES_BIG)

def pick_data(r, n):
    """data descriptor understood by harness/codec.c:make_data; first byte is always 0 (no signature)"""
    k = r.random()
    if n <= 64 and k < .5:
        b = bytes([0] + [r.randrange(256) for _ in range(n - 1)]) if n else b""
        return b
    if k < .4:
        return [1, r.randrange(1, 2**31), n]                      # incompressible
    if k < .7:
        return [2, r.randrange(1, 2**31), n, r.choice([1, 1, 2, 3, 7, 16, 64])]   # highly repetitive
    return [3, r.randrange(1, 2**31), n]                          # mixed runs / noise

def data_len(d):
    return len(d) if isinstance(d, (bytes, bytearray)) else d[2]

def pick_wchunks(r, n):
    c = r.random()
    if c < .25:
        return []
    if c < .35 and n <= 5000:
        return [1]
    if c < .55:
        return [r.choice([7, 44, 45, 46, 57, 58, 1000, 4096, 65535, 65536, 65537, 100000])]
    k = r.randrange(2, 6)
    l = [r.choice([0, 1, 3, 45, 57, 100, 4096, 65536, r.randrange(1, 70000)]) for _ in range(k)]
    if n > 100000:
        l = [x if x == 0 or x > 500 else x * 1000 for x in l]
    if not any(l):
        l[0] = 1 + r.randrange(5000)
    if n > 5000 and max(l) < 64:
        l.append(4096)
    return l

def pick_rblocks(r, approx):
    c = r.random()
    if c < .25:
        return []
    if c < .35 and approx <= 6000:
        return [1]
    if c < .6:
        return [r.choice([2, 3, 10, 61, 62, 63, 512, 1023, 1024, 1025, 4096, 10240, 65536, 131072])] if approx <= 300000 else [r.choice([4096, 10240, 65536, 131072])]
    k = r.randrange(2, 6)
    l = [r.choice([1, 2, 61, 62, 100, 512, 4096, 65536, r.randrange(1, 70000)]) for _ in range(k)]
    if approx > 100000:
        l = [x if x > 500 else x * 1000 for x in l]
    return l

def pick_req(r, n):
    c = r.random()
    if c < .5:
        return 0
    if n <= 3000 and c < .6:
        return 1
    return r.choice([7, 100, 4096, 65536, 65537, 1000000])

def pick_stack(r):
    c = r.random()
    if c < .55:
        return [r.choice(FILTERS)]
    if c < .85:
        return [r.choice(FILTERS), r.choice(FILTERS)]
    return [r.choice(FILTERS), r.choice(FILTERS), r.choice(FILTERS)]

def gen_rt(r, tier, stack=None, n=None, wopts=None, readmode=None):
    stack = stack or pick_stack(r)
    heavy = sum(1 for f in stack if f in ("xz", "lzma", "lzip", "bzip2"))
    n = pick_len(r, tier, allow_big=(heavy <= 1)) if n is None else n
    if wopts is None:
        items = []
        for f in dict.fromkeys(stack):
            items += opt_choices(r, f, tier)
        wopts = ",".join(items)
    d = pick_data(r, n)
    rm = r.choice([0, 0, 1]) if readmode is None else readmode
    return vfmt([2, [f for f in stack], wopts, d, pick_wchunks(r, n), pick_rblocks(r, n), rm, pick_req(r, n)])

def gen_concat(r, tier, f=None):
    f = f or r.choice(MULTI)
    na = pick_len(r, tier, allow_big=False)
    nb = pick_len(r, tier, allow_big=False)
    oa = ",".join(opt_choices(r, f, tier))
    ob = oa if r.random() < .4 else ",".join(opt_choices(r, f, tier))
    return vfmt([3, [f], oa, ob, pick_data(r, na), pick_data(r, nb), pick_wchunks(r, max(na, nb)),
                 pick_rblocks(r, na + nb), r.choice([0, 0, 1]), pick_req(r, na + nb)])

def fixed_rt_cases(tier):
    """the corner grid that every run covers regardless of the seed: every filter x {empty, 1 byte}
    x read mode, option borders, and the exact inputs of the known defect classes"""
    out = []
    for f in FILTERS:
        for n in (0, 1):
            for rm in (0, 1):
                d = b"" if n == 0 else b"\x00"
                out.append(vfmt([2, [f], "", d, [], [], rm, 0]))
                out.append(vfmt([2, [f], "", d, [], [1], rm, 1]))
    border = ["gzip:compression-level=0", "gzip:compression-level=9", "gzip:timestamp", "bzip2:compression-level=0",
              "bzip2:compression-level=9", "xz:compression-level=0", "xz:threads=2", "xz:threads=0", "lzma:compression-level=0",
              "lzip:compression-level=0", "zstd:compression-level=-7", "zstd:compression-level=19", "zstd:threads=2",
              "zstd:long=10", "zstd:long=24", "zstd:frame-per-file", "zstd:min-frame-out=1", "zstd:min-frame-in=1",
              "zstd:frame-per-file,zstd:min-frame-in=1k", "zstd:max-frame-in=1024", "zstd:max-frame-out=1024",
              "lz4:block-size=4", "lz4:block-size=5", "lz4:block-size=6", "lz4:block-size=7", "lz4:stream-checksum",
              "lz4:!stream-checksum", "lz4:block-checksum", "lz4:block-dependence", "lz4:compression-level=9",
              "lz4:block-dependence,lz4:block-size=4,lz4:compression-level=3",
              "uuencode:mode=100", "uuencode:mode=777", "uuencode:name=some file.txt", "b64encode:mode=100",
              "b64encode:name=begin 644 x"]
    for o in border:
        f = o.split(":")[0]
        for d in ([1, 11, 70001], [2, 12, 262145, 3], [3, 13, 65536]):
            out.append(vfmt([2, [f], o, d, [65537], [4096], 0, 0]))
    if tier == "thorough":
        for o in ("zstd:long=27", "zstd:compression-level=22", "xz:compression-level=9", "lzma:compression-level=9",
                  "lzip:compression-level=9"):
            out.append(vfmt([2, [o.split(":")[0]], o, [3, 14, 300000], [], [], 0, 0]))
    # lz4 block size +-1 with and without block dependence
    for bs, n in ((4, 65536), (5, 262144), (6, 1048576)):
        for dn in (-1, 0, 1):
            for dep in ("", ",lz4:block-dependence"):
                out.append(vfmt([2, ["lz4"], "lz4:block-size=%d%s" % (bs, dep), [3, 20 + bs, n + dn], [], [65536], 0, 0]))
    # history across block boundaries: an incompressible (stored) block followed by data whose matches reach
    # back into it - lz4 block dependence with blocks above 64 KiB, zstd long windows, gzip/xz windows
    for bs, blk in ((5, 262144), (6, 1048576), (7, 4194304) if tier == "thorough" else (5, 262144)):
        for dist in (60000, 65536, 70000):
            for extra in ("", ",lz4:!stream-checksum", ",lz4:compression-level=9"):
                out.append(vfmt([2, ["lz4"], "lz4:block-dependence,lz4:block-size=%d%s" % (bs, extra),
                                 [4, 7 + bs, blk + 100000, blk, dist], [], [65536], 0, 0]))
    for f, o in (("zstd", ""), ("zstd", "zstd:long=23"), ("gzip", ""), ("xz", ""), ("lz4", "")):
        out.append(vfmt([2, [f], o, [4, 11, 400000, 262144, 60000], [], [10240], 0, 0]))
    # known defect classes (exact failing inputs)
    for f in UUISH:
        out.append(vfmt([2, [f], "", b"", [], [], 0, 0]))
        out.append(vfmt([2, [f, "gzip"], "", b"", [], [], 0, 0]))
        out.append(vfmt([2, [f], "%s:mode=7" % f, b"\x00\x01", [], [], 0, 0]))
        out.append(vfmt([2, [f], "%s:mode=77" % f, b"\x00\x01", [], [], 1, 0]))
        out.append(vfmt([2, [f], "%s:name=café.bin" % f, b"\x00\x01", [], [], 0, 0]))
    out.append(vfmt([2, ["zstd"], "zstd:long=28", [3, 5, 1000], [], [], 0, 0]))
    # uuencode output whose length is 2 (mod read block size): the final "end" line is cut after "en"
    out.append(vfmt([2, ["uuencode"], "", [1, 5, 22282], [], [10240], 0, 0]))    # 30722 = 3 * 10240 + 2
    out.append(vfmt([2, ["uuencode"], "", [1, 5, 2959], [], [4096], 1, 0]))      # 4098 = 4096 + 2
    # first read block ends exactly at the end of the header line / of the first body line
    out.append(vfmt([2, ["uuencode"], "", [1, 5, 100], [], [12, 4096], 1, 0]))
    out.append(vfmt([2, ["uuencode"], "", [1, 5, 100], [], [74], 0, 0]))
    out.append(vfmt([2, ["b64encode"], "", [1, 5, 100], [], [19, 4096], 1, 0]))
    out.append(vfmt([2, ["b64encode"], "", [1, 5, 100], [], [96], 0, 0]))
    out.append(vfmt([2, ["gzip", "uuencode"], "uuencode:name=data.gz", [1, 5, 1000], [], [80], 0, 0]))   # 18 + 62
    # every small read block size on short uuencode / b64encode output (with the repairs in place all must pass)
    for f in UUISH:
        for n in (0, 1, 46):
            for rb in (1, 2, 3, 5, 7, 11, 12, 13, 14, 15, 16, 17, 18, 19, 20, 23, 24, 25):
                out.append(vfmt([2, [f], "", [1, 7, n] if n else b"", [], [rb], rb % 2, 0]))
    return out

def fixed_concat_cases(tier):
    out = []
    for f in MULTI:
        for da, db in ((b"", b""), (b"", b"\x00b"), (b"\x00a", b""), (b"\x00hello", b"\x00world"),
                       ([1, 3, 70000], [2, 4, 70000, 1]), ([3, 5, 200000], [1, 6, 1])):
            for rb in ([], [1] if all(data_len(x) < 3000 for x in (da, db)) else [4096]):
                out.append(vfmt([3, [f], "", "", da, db, [], rb, 0, 0]))
    return out

# ------------------------------------------------------------------ oracle (spec level, real code only)
def rt_oracle(case_line, impl_line):
    c = vparse(case_line)
    op = c[0]
    filters = [x.decode() for x in c[1]]
    if op == 2:
        wopts, n, rm = c[2].decode("utf-8", "replace"), data_len(c[3]), c[6]
        allopts = wopts
    else:
        wopts, n, rm = c[2].decode("utf-8", "replace"), data_len(c[4]) + data_len(c[5]), c[8]
        allopts = wopts + "," + c[3].decode("utf-8", "replace")
    stack = "+".join(filters)
    try:
        (optrc, wrc, wcodes, outlen, probe, rstatus, rcodes, reclen, equal, firstdiff, fb_in, fb_out, h_in, h_out,
         head, err, retry) = vparse(impl_line)
    except Exception:
        return ("C03:harness:unparsable-output", "harness output not parsable: %s" % impl_line[:200])
    err = err.decode("utf-8", "replace")
    what = "concatenation of two members" if op == 3 else "round trip"
    cls = case_defect_class(case_line)
    def hit(kind, msg):
        if cls is not None:
            return (cls[0], cls[1] + " [observed: %s]" % msg)
        return ("C03:%s:%s" % (stack, kind), "%s through [%s] options '%s', %d bytes, read mode %d: %s" %
                (what, stack, allopts, n, rm, msg))
    if optrc != 0 and cls is not None and cls[0] == "C03:uu:name-not-printable-ascii":
        return None          # a writer that refuses such a name makes the option invalid: outside the statement
    if optrc != 0:
        return hit("option-rejected", "archive_write_set_options returned %d for a valid option string" % optrc)
    if wrc != 0:
        return hit("write-error", "writer returned %d" % wrc)
    if probe != 1:
        return None          # the payload itself starts with something a bidder accepts: outside the statement
    if (rstatus == -30 and "uuencode" in filters and err == "Insufficient compressed data" and retry == 1 and cls is None):
        return ("C03:uu:end-line-split-across-reads",
                "uuencode output (%d data bytes, stack [%s]) read with blocks %s: ARCHIVE_FATAL 'Insufficient compressed data' although the "
                "same bytes read as one block decode correctly. In ST_UUEND a window that ends inside the final 'end' line is not "
                "carried over (the nl == 0 test excludes ST_UUEND), so 'e' / 'en' fails the \"end\" comparison"
                % (n, stack, c[5] if op == 2 else c[7]))
    if (cls is None and retry == 1 and filters[-1] in UUISH and rstatus == 0 and rcodes == [0]
            and bid_window_at_line_boundary(filters, allopts, n, c[5] if op == 2 else c[7], rm)):
        return ("C03:uu:bidder-window-at-line-boundary",
                "%s output (stack [%s], %d data bytes) read with blocks %s is not recognised although the same bytes read as one "
                "block are: the data buffered when the uu bidder runs ends exactly at the end of the header line ('if (!avail) "
                "return 0') or of the first body line ('if (avail && ...)'), and the bidder does not read on"
                % (filters[-1], stack, n, c[5] if op == 2 else c[7]))
    if rstatus != 0:
        return hit("read-error", "reader status %d (%s) after %d of %d bytes" % (rstatus, err, reclen, n))
    if rcodes != wcodes:
        return hit("filter-codes", "reader reports filter codes %s, writer had %s" % (rcodes, wcodes))
    if not equal:
        return hit("data", "recovered %d bytes, first difference at offset %d of %d" % (reclen, firstdiff, n))
    if fb_out != reclen:
        return hit("filter-bytes", "archive_filter_bytes(0) = %d but %d bytes were delivered" % (fb_out, reclen))
    if fb_in > outlen or fb_in < 0:
        return hit("filter-bytes-in", "archive_filter_bytes(-1) = %d but the archive has %d bytes" % (fb_in, outlen))
    return None

def uu_header_len(f, opts):
    mode = opts.get((f, "mode"))
    m = 0o644 if mode is None else mode_value(mode)
    name = opts.get((f, "name"))
    name = b"-" if name is None else name.encode("utf-8")
    return (6 if f == "uuencode" else 13) + len("%o" % m) + 1 + len(name) + 1

def first_window(sizes, least):
    """bytes buffered when the uu bidder first looks: whole read blocks, at least [least] bytes
    (what the bidders registered before it have asked for)"""
    if not sizes:
        return None
    pos, k = 0, 0
    while pos < least or k == 0:
        pos += max(1, sizes[k % len(sizes)])
        k += 1
    return pos

def bid_window_at_line_boundary(filters, wopts, n, sizes, readmode):
    f = filters[-1]
    H = uu_header_len(f, parse_opts(wopts))
    LB, per = (45, lambda k: 1 + 4 * ((k + 2) // 3) + 1) if f == "uuencode" else (57, lambda k: 4 * ((k + 2) // 3) + 1)
    l2 = set([per(LB)])
    if len(filters) == 1:
        l2 = set([per(min(n, LB))]) if n > 0 else set()
    else:
        l2 |= set(per(k) for k in range(1, LB))
    w = first_window(sizes, 14 if readmode == 0 else 1)
    return w is not None and (w == H or any(w == H + x for x in l2))

def run_impl_only(rep, name, exe, cases, oracle, timeout=1500):
    """spec-level part: the real code only (no model exists for the external codecs).  A crash of the
    harness on one case is recorded and the run resumes with the next case."""
    stats = dict(name=name, cases=len(cases), ok=0, oracle_hits=0, skipped_signature=0, crashes=0)
    start = 0
    lines_all = []
    while start < len(cases):
        path = vlib.write_cases(cases[start:], name + ".cases")
        rc, lines, err = vlib.run_exe(exe, path, timeout=timeout)
        lines = lines[:len(cases) - start]
        lines_all += lines
        if rc == 0 and len(lines) == len(cases) - start:
            break
        k = start + len(lines)
        if k >= len(cases):
            break
        stats["crashes"] += 1
        summ = [l for l in err.split("\n") if "ERROR: " in l or "SUMMARY" in l or "runtime error" in l or "TIMEOUT" in l]
        cls = case_defect_class(cases[k])
        if cls is not None:
            rep.violation(cls[0], cls[1] + " [observed: harness stopped rc=%s: %s]" % (rc, "; ".join(summ)[:300]),
                          dict(kind="spec", case=cases[k], stderr=err[-3000:]), found_input=True)
        else:
            rep.violation("crash:%s:%s" % (name, vlib.crash_key(err)),
                          "implementation harness %s stopped (rc=%s) on case #%d: %s" % (name, rc, k, "; ".join(summ)[:400]),
                          dict(kind="spec", case=cases[k], stderr=err[-3000:]), found_input=True)
        lines_all.append(None)
        start = k + 1
        if stats["crashes"] > 40:
            break
    keys = set()
    for c, il in zip(cases, lines_all):
        if il is None:
            continue
        h = oracle(c, il)
        if h:
            stats["oracle_hits"] += 1
            # at most 12 distinct keys are reported (a broken filter fails in every stack that contains it)
            if h[0] in keys or len(keys) < 12:
                keys.add(h[0])
                rep.violation(h[0], h[1], dict(kind="spec", case=c, impl=il), found_input=True)
        else:
            stats["ok"] += 1
            try:
                if vparse(il)[4] != 1:
                    stats["skipped_signature"] += 1
            except Exception:
                pass
    stats["evaluated"] = sum(1 for x in lines_all if x is not None)
    return stats

# ------------------------------------------------------------------ corr-1: uuencode / b64encode writers
BPBS = [0, 0, 0, 1, 2, 7, 57, 100, 512, 1000, 10240, 10240, 65535, 65536, 65537, 70000, 100000, 200000]
MODES = [None, None, None, b"644", b"755", b"100", b"777", b"0", b"7", b"77", b"1777", b"0644", b"644abc", b"8", b"00000000000000000644"]
NAMES = [None, None, None, b"-", b"a", b"file.bin", b"with space", b"begin 644 x", b"x" * 300, b"caf\xc3\xa9", b"tab\there", b"two\nlines"]

def gen_enc(r, tier, big=False):
    kind = r.randrange(2)
    LB = 57 if kind == 0 else 45
    bpb = r.choice(BPBS)
    if big:
        total = r.choice([49152, 49153, 60000, 120000, 150001, 200000])
    else:
        c = r.random()
        total = (r.choice([0, 1, 2, 3, LB - 1, LB, LB + 1, 2 * LB - 1, 2 * LB, 2 * LB + 1, 3 * LB]) if c < .4
                 else r.randrange(0, 400) if c < .8 else r.randrange(400, 6000))
    data = bytes(r.getrandbits(8) for _ in range(total)) if total < 20000 else r.randbytes(total)
    chunks = []
    pos = 0
    style = r.randrange(5)
    while pos < total:
        if style == 0:
            n = total
        elif style == 1:
            n = r.choice([1, 1, 2, 3]) if total < 3000 else r.randrange(500, 5000)
        elif style == 2:
            n = r.choice([LB - 1, LB, LB + 1, 0, 1, 2 * LB])
        elif style == 3:
            n = r.randrange(0, 2 * LB + 3) if total < 20000 else r.randrange(0, 70000)
        else:
            n = r.choice([0, 1, LB - 1, LB, 1000, 4096, 65536, 65537])
        chunks.append(data[pos:pos + n])
        pos += n
    if r.random() < .2:
        chunks.append(b"")
    mode, name = r.choice(MODES), r.choice(NAMES)
    return vfmt([0, kind, bpb, [mode] if mode is not None else [], [name] if name is not None else [], chunks])

def py_decode(kind, text):
    """independent decoder (python's binascii) of a complete uuencode / base64 stream"""
    lines = text.split(b"\n")
    if kind == 0:
        if not lines[0].startswith(b"begin-base64 "):
            return None
        out = b""
        for l in lines[1:]:
            if l == b"====":
                return out
            out += base64.b64decode(l, validate=True)
        return None
    if not lines[0].startswith(b"begin "):
        return None
    out = b""
    k = 1
    while k < len(lines):
        l = lines[k]
        if l == b"`":
            return out if lines[k + 1] == b"end" else None
        out += binascii.a2b_uu(l + b"\n")
        k += 1
    return None

def enc_oracle(case_line, impl_line):
    """what the writer must do, judged without the model: no error; every block but the last is
    exactly bytes_per_block long (bpb > 0); a standard decoder recovers concat(chunks)"""
    c = vparse(case_line)
    kind, bpb, chunks = c[1], c[2], c[5]
    fname = "b64encode" if kind == 0 else "uuencode"
    try:
        rc, blocks = vparse(impl_line)
    except Exception:
        return ("C03:harness:unparsable-output", "harness output not parsable")
    data = b"".join(chunks)
    if rc == -25 and c[4] and any(ch < 0x20 or ch > 0x7e for ch in c[4][0]):
        return None          # a writer that refuses a non-printable name: the option is invalid, nothing to check
    if rc != 0:
        return ("C03:%s:write-error" % fname, "%s writer returned %d" % (fname, rc))
    if bpb > 0 and any(len(b) != bpb for b in blocks[:-1]):
        return ("C03:%s:blocking" % fname, "a block other than the last is not bytes_per_block=%d long: %s" %
                (bpb, [len(b) for b in blocks][:10]))
    if bpb > 0 and blocks and not (0 < len(blocks[-1]) <= bpb):
        return ("C03:%s:blocking" % fname, "last block has %d bytes with bytes_per_block=%d" % (len(blocks[-1]), bpb))
    text = b"".join(blocks)
    name = c[4][0] if c[4] else b"-"
    if b"\n" in name:
        return None
    try:
        got = py_decode(kind, text)
    except Exception as ex:
        got = None
    if got != data:
        return ("C03:%s:encoding" % fname, "a standard %s decoder does not recover the %d input bytes from the writer's output "
                "(write calls of %s bytes)" % ("base64" if kind == 0 else "uudecode", len(data), [len(x) for x in chunks][:12]))
    return None

# ------------------------------------------------------------------ corr-2: uu read filter
def header_is_readable(text, case0):
    """the header line has exactly three octal digits and a printable name: outside this class the
    reader is known not to recognise the writer's output (defect classes above)"""
    line = text.split(b"\n", 1)[0]
    name = case0[4][0] if case0[4] else b"-"
    return (re.fullmatch(rb"begin(-base64)? [0-7]{3} [\x20-\x7e]{1,100000}", line) is not None and
            all(0x20 <= ch <= 0x7e for ch in name))

def gen_dec_from_model(r, case0_line, model_line, tier):
    """read-back cases built from what the MODEL writer emitted for case0"""
    c0 = vparse(case0_line)
    rc, blocks = vparse(model_line)
    text = b"".join(blocks)
    data = b"".join(c0[5])
    out = []
    readable = header_is_readable(text, c0)
    signature = data[:6] == b"begin " or data[:13] == b"begin-base64 "
    expect = [data] if (readable and len(data) > 0 and not signature) else []
    n = len(text)
    sizes = r.choice([[], [1] if n < 5000 else [4096], [2, 3], [61], [62], [63], [512], [1024], [4096], [65536],
                      [r.randrange(1, 200) for _ in range(4)]])
    if n > 100000:
        sizes = [x if x >= 64 else x * 1000 for x in sizes]
    out.append(vfmt([1, text, sizes, expect]))
    if len(data) <= 20000 and readable:
        m = mutate(r, c0[1], text)
        if m is not None:
            out.append(vfmt([1, m, [], []]))
    return out

def mutate(r, kind, text):
    lines = text.split(b"\n")[:-1]          # without the empty piece after the final newline
    nl = b"\n"
    k = r.randrange(12)
    body = list(range(1, max(1, len(lines) - (1 if kind == 0 else 2))))
    if k == 0:
        return b"\r\n".join(lines) + b"\r\n"
    if k == 1:
        junk = [b"hello world", b"From: someone", b"", b"begin", b"begin 64 x", b"begin-base64 644"]
        return nl.join(r.sample(junk, r.randrange(1, 4)) + lines) + nl
    if k == 2:
        tail = r.choice([b"trailing garbage\n", b"x\ny\n", b"\n\n", b"more", b"end", b"\x00\x00\x00", b"line\n\xff\xfe", b"end\n", b"====\n"])
        return text + tail
    if k == 3 and body:
        i = r.choice(body)
        l = bytearray(lines[i])
        if l:
            l[0] = r.choice([0x20, 0x21, 0x4d, 0x4e, 0x5f, 0x60, 0x61, 0x7e, l[0] ^ 1])
        lines[i] = bytes(l)
        return nl.join(lines) + nl
    if k == 4 and body:
        i = r.choice(body)
        l = bytearray(lines[i])
        if l:
            l[r.randrange(len(l))] = r.choice([0x21, 0x61, 0x7e, 0x3d, 0x2d, 0x20, 0x60, 0x5f])
        lines[i] = bytes(l)
        return nl.join(lines) + nl
    if k == 5:
        if r.random() < .5:
            return nl.join(lines[:r.randrange(1, len(lines) + 1)]) + nl      # cut at a line boundary
        return text[:r.randrange(len(text) + 1)]                              # cut anywhere (unterminated last line)
    if k == 6:
        return nl.join(lines[:-1]) + nl
    if k == 7:
        other = text.replace(b"begin-base64 ", b"begin ") if False else text
        return text + other
    if k == 8 and kind == 1 and body:
        i = r.choice(body)
        lines[i] = lines[i] + r.choice([b"a", b"z", b"!", b"`", b"M", b"ab"])
        return nl.join(lines) + nl
    if k == 9 and kind == 1:
        return text.replace(b"`", b" ")
    if k == 10 and body:
        i = r.choice(body)
        lines[i] = lines[i][:r.randrange(len(lines[i]) + 1)]
        return nl.join(lines) + nl
    if k == 11 and body:
        i = r.choice(body)
        lines.insert(i, b"")
        return nl.join(lines) + nl
    return None

def end_line_can_split(total, sizes):
    """does a read-block boundary fall after the 'e' or the 'en' of the final "end\\n"?"""
    pos, k, cuts = 0, 0, set()
    while pos < total:
        pos += max(1, sizes[k % len(sizes)])
        k += 1
        cuts.add(pos)
    return (total - 3) in cuts or (total - 2) in cuts

def dec_oracle(case_line, impl_line):
    c = vparse(case_line)
    if not c[3]:
        return None
    want = c[3][0]
    try:
        status, codes, rec = vparse(impl_line)
    except Exception:
        return ("C03:harness:unparsable-output", "harness output not parsable")
    kind = "b64encode" if c[1].startswith(b"begin-base64") else "uuencode"
    if status == -30 and kind == "uuencode" and c[2] and end_line_can_split(len(c[1]), c[2]):
        return ("C03:uu:end-line-split-across-reads",
                "uuencode output for %d data bytes read with blocks %s: ARCHIVE_FATAL; a read block boundary falls inside the "
                "final 'end' line, which ST_UUEND does not carry over to the next call" % (len(want), c[2]))
    if status == 0 and codes == [0] and c[2]:
        w = first_window(c[2], 1)
        nl1 = c[1].find(b"\n") + 1
        nl2 = c[1].find(b"\n", nl1) + 1
        if w in (nl1, nl2):
            return ("C03:uu:bidder-window-at-line-boundary",
                    "%s output for %d data bytes read with blocks %s is not recognised: the first read block ends exactly at "
                    "the end of line %d and the uu bidder does not read on" % (kind, len(want), c[2], 1 if w == nl1 else 2))
    if status != 0:
        return ("C03:%s:uu-read-error" % kind, "the uu read filter fails (%d) on the %s writer's output for %d bytes, read blocks %s" %
                (status, kind, len(want), c[2]))
    if codes != [7, 0]:
        return ("C03:%s:uu-filter-codes" % kind, "reader filter codes %s instead of [7, 0] on the %s writer's output" % (codes, kind))
    if rec != want:
        return ("C03:%s:uu-data" % kind, "the uu read filter recovers %d bytes instead of the %d written (read blocks %s)" %
                (len(rec), len(want), c[2]))
    return None

def raise_stack_limit():
    """the extracted model recurses over byte lists (non tail-recursive list functions)"""
    try:
        soft, hard = resource.getrlimit(resource.RLIMIT_STACK)
        resource.setrlimit(resource.RLIMIT_STACK, (hard, hard))
    except Exception:
        pass

def model_lines(runner, cases, name):
    path = vlib.write_cases(cases, name + ".cases")
    rc, lines, err = vlib.run_exe(runner, path, timeout=900)
    if rc != 0 or len(lines) != len(cases):
        raise vlib.ModelError("model runner failed on %s (rc=%s, %d/%d lines): %s" % (name, rc, len(lines), len(cases), err[-300:]))
    return lines

def rt_nontrivial(case_line):
    """non-trivial = at least one byte of payload really goes through a codec and is read back in
    more than one read block or written in more than one write call"""
    c = vparse(case_line)
    if c[0] == 2:
        return data_len(c[3]) > 0 and (len(c[4]) > 0 or len(c[5]) > 0)
    return data_len(c[4]) > 0 and data_len(c[5]) > 0

def run(rep):
    raise_stack_limit()
    t0 = time.time()
    phase = {}
    pr = vlib.proof_part(rep, "C03", translators=["gen_codec"])
    phase["coq"] = round(time.time() - t0, 1)
    runner = vlib.build_runner("codec")
    exe = vlib.compile_harness("codec", "asan")
    phase["build"] = round(time.time() - t0, 1)
    quick = rep.tier == "quick"
    corpus = vlib.load_corpus("C03")
    # ---- corr-1: writers
    r = vlib.rng(rep.seed, "C03/enc")
    n_enc = 200 if quick else 3000
    enc_cases = [c for c in corpus if c.startswith("(0 ")]
    enc_cases += [gen_enc(r, rep.tier) for _ in range(n_enc)] + [gen_enc(r, rep.tier, big=True) for _ in range(8 if quick else 80)]
    st1 = vlib.correspond(rep, "codec-enc", runner, exe, enc_cases, oracle=enc_oracle)
    phase["corr1"] = round(time.time() - t0, 1)
    # ---- corr-2: uu read filter on the model writer's output (+ mutated lines)
    r = vlib.rng(rep.seed, "C03/dec")
    dec_cases = [c for c in corpus if c.startswith("(1 ")]
    for c, m in zip(enc_cases, model_lines(runner, enc_cases, "codec-enc-model")):
        dec_cases += gen_dec_from_model(r, c, m, rep.tier)
    st2 = vlib.correspond(rep, "codec-dec", runner, exe, dec_cases, oracle=dec_oracle)
    phase["corr2"] = round(time.time() - t0, 1)
    # ---- spec level: every filter, stacks, options, chunkings, concatenation (real code only)
    r = vlib.rng(rep.seed, "C03/spec")
    spec_cases = [c for c in corpus if c.startswith("(2 ") or c.startswith("(3 ")]
    spec_cases += fixed_rt_cases(rep.tier) + fixed_concat_cases(rep.tier)
    n_rt = 200 if quick else 3000
    spec_cases += [gen_rt(r, rep.tier) for _ in range(n_rt)]
    spec_cases += [gen_concat(r, rep.tier) for _ in range(n_rt // 3)]
    st3 = run_impl_only(rep, "codec-spec", exe, spec_cases, rt_oracle, timeout=1500 if quick else 20000)
    phase["spec"] = round(time.time() - t0, 1)
    allc = enc_cases + dec_cases + spec_cases
    rep.coverage.update(
        evaluations=len(allc),
        distinct_nontrivial=len(set(c for c in enc_cases if len(vparse(c)[5]) > 1)) +
                            len(set(c for c in dec_cases if vparse(c)[3])) +
                            len(set(c for c in spec_cases if rt_nontrivial(c))),
        rule="corr-1: random streams (0..200000 bytes, line length +-1, > bs) x write partitions (1 byte, line +-1, random, "
             "with empty calls) x bytes_per_block {0,1,..,200000} x mode/name options, both encoders; non-trivial = more than "
             "one write call.  corr-2: the model writer's output read back by the real uu filter with read blocks "
             "{1,2/3,61..63,512..65536,random}, plus mutated streams (CRLF, junk before/after, bad length / data characters, "
             "cut lines, two members); non-trivial = unmutated stream with a readable header and a non-empty payload.  "
             "spec: filters {gzip,bzip2,xz,lzma,lzip,zstd,lz4,compress,uuencode,b64encode}, stacks of 1..3, valid option "
             "strings, streams {empty, 1 byte, random, repetitive, mixed; line/block/buffer size +-1; up to 1 MiB quick, "
             "16 MiB thorough}, write chunkings x read blockings x request sizes x reader with all / only the stack's "
             "filters, two-member concatenation for gzip,bzip2,xz,lzip,zstd,lz4; payloads never begin with a compression "
             "signature (first byte 0, and the harness probes the payload with all bidders); non-trivial = non-empty "
             "payload written or read in several pieces (both members non-empty for concatenation)",
        samples=[enc_cases[0][:300], dec_cases[0][:300], spec_cases[-1][:300], spec_cases[len(spec_cases) // 2][:300]],
        traces_validated_against_impl=st1["agree"] + st2["agree"],
        correspondence=[st1, st2], spec=st3, phase_end_secs=phase)
    rep.assumptions += [
        "the client write callback accepts every block whole (the model of archive_write_client_write assumes it)",
        "uu decoder model is a whole-stream model: window (read block) dependent behaviour of uudecode_filter_read is not "
        "modelled (list at uu_loop in coq/Codec/CodecDefs.v); mutated streams are therefore read in ONE block",
        "zlib, bzip2, liblzma, zstd, lz4 and the LZW compress code are not modelled: for them only the spec-level oracle "
        "(real writer -> real reader) and the abstract drive-loop / member-concatenation theorems apply",
        "readers forced with archive_read_append_filter are not part of the oracle (compress: NULL upstream dereference in "
        "compress_bidder_init; uu: a first window holding only the header line is taken as end of data)",
        "mode option strings longer than 21 octal digits are not generated (atol8 shifts a signed 64-bit value: UB)",
    ]
    vlib.proof_verdict(rep, "C03", pr)

def replay(rep, path):
    raise_stack_limit()
    d = json.load(open(path))
    rp = d["replay"]
    case = rp.get("case")
    exe = vlib.compile_harness("codec", "asan")
    if case is None:
        raise RuntimeError("replay file has no case")
    if case.startswith("(0 ") or case.startswith("(1 "):
        runner = vlib.build_runner("codec")
        if case.startswith("(0 "):
            vlib.correspond(rep, "codec-enc", runner, exe, [case], oracle=enc_oracle)
        else:
            vlib.correspond(rep, "codec-dec", runner, exe, [case], oracle=dec_oracle)
    else:
        run_impl_only(rep, "codec-spec", exe, [case], rt_oracle)
    rep.coverage.update(evaluations=1, distinct_nontrivial=1, samples=[case[:400]])
