"""C20 - passphrase-protected entries decrypt only with the right passphrase.
proof (Properties_C20.v: PKWARE cipher, AES-CTR driver over any block cipher, passphrase list, reader
decisions over abstract PBKDF2/HMAC) + correspondence of the extracted model with the real trad_enc_*,
aes_ctr_*, __archive_read_next_passphrase and, on real archive fields, with the reader's decisions +
end-to-end oracle (write with a passphrase / read back with right, wrong, no passphrase; third-party
reference archives; corrupted archives; Info-ZIP cross-check)."""
import os, io, zlib, hmac, hashlib, struct, zipfile, binascii, subprocess, shutil
import vlib
from vlib import vfmt, vparse

LEVEL = "proof"
H = os.path.join(vlib.VERIF, "harness")
OK, WARN, FAILED, FATAL = 0, -20, -25, -30
# check_authentication_code reports a wrong HMAC as ARCHIVE_WARN (bad CRC is ARCHIVE_FAILED).  The oracle
# accepts any status below ARCHIVE_OK at the end of the entry; set this to True to demand FAILED/FATAL
# (key C20:aes:mac-mismatch-only-warn) once fixes/C20-mac-mismatch-warn.diff is adopted.
STRICT_MAC_STATUS = False
ERRNAME = {0: "none", 1: "Passphrase required", 2: "Incorrect passphrase", 3: "Too many incorrect passphrases",
           4: "bad Authentication code", 5: "bad CRC", 6: "Corrupted", 9: "other"}
ENCNAME = {0: "none", 1: "zipcrypt", 2: "aes128", 3: "aes256"}

def build_harness(variant="asan"):
    return vlib.compile_harness("crypto", variant, private=True,
                                sources=[os.path.join(H, f) for f in ("crypto.c", "crypto_w.c", "crypto_r.c")])

def run_harness(exe, cases, name):
    path = vlib.write_cases(cases, name + ".cases")
    rc, lines, err = vlib.run_exe(exe, path, timeout=1500)
    return rc, lines, err

# ------------------------------------------------------------------ independent reference pieces (python)
def _crc32_macro(c, b):
    return (zlib.crc32(bytes([b]), c ^ 0xffffffff) ^ 0xffffffff) & 0xffffffff

class PyTrad:
    """APPNOTE 6.1 traditional encryption, written from the specification (not from libarchive)"""
    def __init__(self, pw):
        self.k = [305419896, 591751049, 878082192]
        for c in pw:
            self.upd(c)
    def upd(self, c):
        k = self.k
        k[0] = _crc32_macro(k[0], c)
        k[1] = ((k[1] + (k[0] & 0xff)) * 134775813 + 1) & 0xffffffff
        k[2] = _crc32_macro(k[2], k[1] >> 24)
    def byte(self):
        t = (self.k[2] | 2) & 0xffff
        return ((t * (t ^ 1)) >> 8) & 0xff
    def decrypt(self, data):
        out = bytearray()
        for c in data:
            t = c ^ self.byte()
            self.upd(t)
            out.append(t)
        return bytes(out)

def py_ctr(table, key, data):
    """WinZip AE: AES-CTR, little-endian counter starting at 1; table maps (key, counter block) -> E"""
    out = bytearray()
    for i in range(0, len(data), 16):
        blk = struct.pack("<Q", i // 16 + 1) + bytes(8)
        ks = table[(key, blk)]
        out += bytes(a ^ b for a, b in zip(data[i:i + 16], ks))
    return bytes(out)

def inflate_raw(b):
    d = zlib.decompressobj(-15)
    return d.decompress(b) + d.flush()

AES_LENS = {1: (8, 16), 2: (12, 24), 3: (16, 32)}

def parse_zip(arc):
    """entries of a zip in central-directory order with the raw (still encrypted) data area"""
    z = zipfile.ZipFile(io.BytesIO(arc))
    ents = []
    for i in sorted(z.infolist(), key=lambda x: x.header_offset):
        off = i.header_offset
        flags, method = struct.unpack("<HH", arc[off + 6:off + 10])
        nl, el = struct.unpack("<HH", arc[off + 26:off + 30])
        extra = arc[off + 30 + nl:off + 30 + nl + el]
        ds = off + 30 + nl + el
        e = dict(name=i.filename, flags=flags, method=method, csize=i.compress_size, usize=i.file_size, crc=i.CRC,
                 decdat=arc[off + 11] if flags & 8 else arc[off + 17], data=arc[ds:ds + i.compress_size],
                 data_off=ds, encrypted=bool(flags & 1), aes=None, actual=method)
        if method == 99:
            k = 0
            while k + 4 <= len(extra):
                hid, hl = struct.unpack("<HH", extra[k:k + 4])
                if hid == 0x9901:
                    vendor, = struct.unpack("<H", extra[k + 4:k + 6])
                    e["aes"] = dict(vendor=vendor, strength=extra[k + 8])
                    e["actual"], = struct.unpack("<H", extra[k + 9:k + 11])
                k += 4 + hl
        ents.append(e)
    return ents

def uudecode(path):
    out, on = bytearray(), False
    for line in open(path, "rb"):
        if line.startswith(b"begin "):
            on = True
            continue
        if not on:
            continue
        s = line.rstrip(b"\r\n")
        if s == b"end":
            break
        if s in (b"`", b""):
            continue
        try:
            out += binascii.a2b_uu(line)
        except binascii.Error:
            n = (((line[0] - 32) & 63) * 4 + 5) // 3
            out += binascii.a2b_uu(line[:n])
    return bytes(out)

# ------------------------------------------------------------------ generators
def gen_pw(r):
    k = r.randrange(8)
    if k == 0:
        return bytes(r.choice(b"abcXYZ019") for _ in range(r.randrange(1, 9)))
    if k == 1:
        return bytes(r.choice(b"abcdefghijklmnopqrstuvwxyz0123456789 !#%&/()=?") for _ in range(r.randrange(64, 300)))
    if k == 2:
        return "".join(r.choice("päßwörd✓密码пароль€") for _ in range(r.randrange(1, 12))).encode("utf-8")
    if k == 3:
        return bytes(r.randrange(0x80, 0x100) for _ in range(r.randrange(1, 20)))
    if k == 4:
        return bytes(r.randrange(1, 0x100) for _ in range(r.randrange(1, 40)))
    if k == 5:
        return b" " + bytes(r.choice(b"pass word\t") for _ in range(r.randrange(1, 10))) + b" "
    if k == 6:
        return b"password"
    return bytes([r.randrange(1, 256)])

def gen_body(r, n):
    k = r.randrange(4)
    if k == 0:
        return r.randbytes(n)
    if k == 1:
        words = [b"lorem ", b"ipsum ", b"dolor ", b"sit ", b"amet\n", b"0000000000000000"]
        out = bytearray()
        while len(out) < n:
            out += r.choice(words)
        return bytes(out[:n])
    if k == 2:
        return bytes([r.randrange(256)]) * n
    return bytes((i * 7 + 3) & 0xff for i in range(n))

def gen_parts(r, n, allow_short=False):
    """((in_len out_len) ...) covering n bytes"""
    mode = r.randrange(7)
    cuts = []
    if mode == 0 or n == 0:
        cuts = [n] if r.random() < 0.7 else []
    elif mode == 1 and n <= 80:
        cuts = [1] * n
    elif mode == 2:
        cuts = [16] * (n // 16) + ([n % 16] if n % 16 else [])
    elif mode == 3:
        left = n
        while left > 0:
            c = min(left, r.choice([15, 16, 17, 1, 31, 32, 33, 48]))
            cuts.append(c); left -= c
    elif mode == 4:
        left = n
        first = min(left, r.randrange(0, 17))
        cuts.append(first); left -= first
        while left > 0:
            c = min(left, r.randrange(1, 70))
            cuts.append(c); left -= c
    else:
        left = n
        while left > 0:
            c = min(left, r.randrange(0, max(2, n // 2 + 2)))
            cuts.append(c); left -= c
    parts = []
    for c in cuts:
        ol = c if r.random() < 0.7 else c + r.randrange(1, 20)
        if allow_short and c > 0 and r.random() < 0.08:
            ol = r.randrange(0, c)
        parts.append([c, ol])
    return parts

def parts_ok(parts):
    return all(ol >= il for il, ol in parts)

def gen_trad_case(r, n, same=True, allow_short=False):
    pww = gen_pw(r) if r.random() < 0.95 else b""
    pwr = pww if same else gen_pw(r)
    body = gen_body(r, n)
    pe = gen_parts(r, n, allow_short)
    clen = sum(min(il, ol) for il, ol in pe) if pe else n
    if pe and sum(il for il, _ in pe) < n:
        clen += n - sum(il for il, _ in pe)
    pd = gen_parts(r, clen, allow_short)
    return vfmt([1, pww, pwr, r.randbytes(11), r.randrange(256), body, pe, pd])

def trad_oracle(case, out):
    _, pww, pwr, rnd, chk, body, pe, pd = case
    try:
        hdr, cipher, kw, rr, crcchk, plain, kr = out
    except Exception:
        return ("C20:trad:shape", "unexpected harness output for a trad case")
    if pww == pwr and parts_ok(pe) and parts_ok(pd):
        if rr != 0 or crcchk != chk:
            return ("C20:trad:check-byte", "reader with the writer's passphrase got check byte %#x (writer stored %#x), r=%d" % (crcchk, chk, rr))
        if plain != body:
            return ("C20:trad:roundtrip", "trad_enc decrypt(encrypt(body)) differs from body (len %d, partitions %r / %r)" % (len(body), pe, pd))
        if kw != kr:
            return ("C20:trad:keys", "writer and reader keys differ after the same bytes")
        ref = PyTrad(pww)
        if ref.decrypt(hdr)[11] != chk or ref.decrypt(cipher) != body:
            return ("C20:trad:spec", "ciphertext is not what APPNOTE's traditional encryption produces (independent python decryption fails)")
    return None

def ctr_oracle(case, out, tables):
    _, key, body, parts, tbl = case
    if len(key) not in (16, 24, 32):
        return None if out == [-1] else ("C20:ctr:keylen", "aes_ctr_init accepted a %d-byte key" % len(key))
    if not parts_ok(parts) or out[0] != 0:
        return None if out[0] == 0 else ("C20:ctr:status", "aes_ctr_update failed")
    want = py_ctr(tables, key, body)
    if out[1] != want:
        n = next((i for i in range(min(len(want), len(out[1]))) if want[i] != out[1][i]), min(len(want), len(out[1])))
        return ("C20:ctr:keystream", "aes_ctr output differs from body xor E(counter i/16+1) at byte %d (len %d, partition %r)" % (n, len(body), parts))
    return None

def gen_pp_case(r):
    pws = [bytes([65 + i]) * r.randrange(1, 3) for i in range(6)]
    has_cb = r.random() < 0.5
    script = []
    for _ in range(r.randrange(0, 5)):
        script.append([] if r.random() < 0.3 else [b"cb" + r.choice(pws)])
    ops = []
    for _ in range(r.randrange(0, 5)):
        ops.append([2, r.choice(pws) if r.random() < 0.9 else b""])
    for _ in range(r.randrange(1, 30)):
        c = r.random()
        if c < 0.12:
            ops.append([1])
        elif c < 0.18:
            ops.append([2, r.choice(pws) if r.random() < 0.9 else b""])
        else:
            ops.append([0])
    if r.random() < 0.5:
        ops = [o for o in ops if o[0] != 2 or ops.index(o) < 6] or [[0]]
    return vfmt([3, 1 if has_cb else 0, script, ops])

def pp_oracle(case, out):
    """after a reset the next candidates are the items (as they were at the reset) in order"""
    _, has_cb, script, ops = case
    if len(out) != len(ops):
        return ("C20:pp:shape", "passphrase-list harness returned %d results for %d operations" % (len(out), len(ops)))
    expect = None     # list still to come, or None
    for op, o in zip(ops, out):
        tag, res, items, cand = o
        if op[0] == 1:
            expect = list(items)
        elif op[0] == 2:
            expect = None
        else:
            if expect is not None:
                if expect:
                    if res != [expect[0]]:
                        return ("C20:pp:order", "after a reset the candidates must be the list items in order: wanted %r, got %r" % (expect[0], res))
                    expect = expect[1:]
                    if not expect:
                        expect = None     # what follows is the callback's business
            if res and res[0] != items[0]:
                return ("C20:pp:head", "the candidate handed out (%r) is not the head of the list %r" % (res[0], items))
    return None

# ------------------------------------------------------------------ end to end
def cfg(items, script=None, mode=0, bs=10240, chunk=4096, limit=1 << 20):
    return [list(items), 0 if script is None else 1, [] if script is None else [[x] if x is not None else [] for x in script],
            mode, bs, chunk, limit]

def gen_cfgs(r, P, wrongs):
    """(i) by value (ii) callback (iii) list with wrong ones first (iv) none (v) only wrong ones"""
    bss = [1, 2, 3, 7, 11, 13, 16, 17, 29, 64, 100, 512, 4096, 10240]
    chs = [1, 3, 16, 17, 100, 4096, 65536]
    def geo():
        return dict(mode=r.randrange(2), bs=r.choice(bss), chunk=r.choice(chs))
    w = list(wrongs)
    out = [cfg([P], **geo()),
           cfg([], script=[P], **geo()),
           cfg(w[:r.randrange(1, len(w) + 1)] + [P] + (w[:1] if r.random() < 0.3 else []), **geo()),
           cfg([], **geo()),
           cfg(w[:r.randrange(1, len(w) + 1)], **geo())]
    # the whole archive in one read window (open_memory2 with a read size beyond any internal buffer) and in two
    out.append(cfg([P], mode=0, bs=1 << 22, chunk=r.choice([4096, 65536, 1 << 20])))
    out.append(cfg([P], mode=1, bs=r.choice([262144, 262145, 300000]), chunk=65536))
    extra = r.randrange(5)
    if extra == 0:
        out.append(cfg(w[:1], script=[w[1], P], **geo()))          # wrong list, callback wrong then right
    elif extra == 1:
        out.append(cfg(w[:2], script=[w[2]], **geo()))              # everything wrong, callback too
    elif extra == 2:
        out.append(cfg([], script=[], **geo()))                     # callback that answers NULL
    elif extra == 3:
        out.append(cfg([P], mode=1, bs=1, chunk=1))
    return out

def gen_e2e_case(r, enc, comp, lens, sizemode=None, limit=1 << 20):
    P = gen_pw(r)
    wrongs = []
    while len(wrongs) < 3:
        w = gen_pw(r)
        if w != P and w not in wrongs:
            wrongs.append(w)
    bodies = [gen_body(r, n) for n in lens]
    if enc == 0:
        bodies = [b.replace(b"PK", b"pk") for b in bodies]
    sm = r.choice([1, 1, 1, 0]) if sizemode is None else sizemode
    return vfmt([4, enc, comp, P, r.randrange(2), sm, r.randrange(315532800, 4102444800), r.choice([1, 7, 16, 100, 65536]),
                 bodies, gen_cfgs(r, P, wrongs), limit])

def candidates_of(cf):
    items, has_cb, script = cf[0], cf[1], cf[2]
    return list(items) + ([s[0] for s in script if s] if has_cb else [])

def collision_before(ent, cands, P):
    """does a wrong candidate tried before P (P=None: any candidate) pass the first test, i.e. the 8-bit
    check byte resp. the 16-bit verification value?  Computed independently of libarchive."""
    enc = 1 if ent["method"] != 99 else 2
    for c in cands:
        if c == P:
            return False
        if enc == 1:
            if len(ent["data"]) >= 12 and PyTrad(c).decrypt(ent["data"][:12])[11] == ent["decdat"]:
                return True
        elif ent["aes"]:
            slen, klen = AES_LENS[ent["aes"]["strength"]]
            dk = hashlib.pbkdf2_hmac("sha1", c, ent["data"][:slen], 1000, 2 * klen + 2)
            if dk[-2:] == ent["data"][slen:slen + 2]:
                return True
    return False

class E2E:
    """oracle over one 'write + several reads' harness line; collects violations and statistics"""
    def __init__(self, rep):
        self.rep = rep
        self.stats = dict(reads=0, right_ok=0, refused=0, collisions=0, warn_only=0, unencrypted=0,
                          empty_unsized=0, header_lost=0)

    def hit(self, key, what, case_line, ci, impl):
        self.rep.violation(key, what, dict(kind="e2e", case=case_line, read_config=ci, impl=impl[:4000],
                                           cmd="harness crypto on the case line"), found_input=True)

    def collision_before(self, enc, ent, cands, P):
        return collision_before(ent, cands, P)

    def check(self, case_line, out_line):
        case = vparse(case_line)
        _, enc, comp, P, wmode, sizemode, mtime, wchunk, bodies, cfgs, alimit = case
        try:
            out = vparse(out_line)
            wsetup, wents, wclose, used, arcl, reads = out
        except Exception:
            self.hit("C20:e2e:unparsable-output", "harness output not parsable", case_line, -1, out_line)
            return None
        if P == b"" or wmode == 2:
            bad = [k for k, (b, we) in enumerate(zip(bodies, wents)) if enc and len(b) and we[0] >= WARN and we[1] >= 0]
            if bad:
                self.hit("C20:write:no-passphrase-accepted", "writer reported success for encrypted entry %d although no "
                         "usable passphrase was set" % bad[0], case_line, -1, out_line)
            return None
        wbad = [s for s in wsetup if s != 0] or wclose != 0 or \
            [1 for b, we in zip(bodies, wents) if we[0] != 0 or we[1] != 0 or we[2] != len(b) or we[3] != 0]
        if wbad:
            self.hit("C20:write:status", "writing an encrypted zip (%s, compression %d) reported an error: setup %r entries %r close %r" %
                     (ENCNAME[enc], comp, wsetup, [w[:4] for w in wents], wclose), case_line, -1, out_line)
            return None
        arc = arcl[0] if arcl else None
        zents = None
        if arc is not None:
            try:
                zents = parse_zip(arc)
            except Exception as ex:
                self.hit("C20:write:not-a-zip", "python cannot parse what the writer produced: %s" % ex, case_line, -1, out_line)
                return None
        for ci, (cf, rr) in enumerate(zip(cfgs, reads)):
            self.check_read(case_line, out_line, ci, cf, rr, enc, comp, P, sizemode, bodies, zents)
        return dict(case=case, arc=arc, zents=zents, reads=reads)

    def check_read(self, case_line, out_line, ci, cf, rr, enc, comp, P, sizemode, bodies, zents):
        items, has_cb, script, readmode, bs, chunk, limit = cf
        addst, he0, openr, ents, fitems, fcand, cbcalls, closer = rr
        self.stats["reads"] += 1
        where = "%s/%s, %s reader, block %d, read size %d" % (ENCNAME[enc], "deflate" if comp == 8 else "store",
                                                              "streaming" if readmode else "seeking", bs, chunk)
        cands = candidates_of(cf)
        avail = P in cands
        if openr != 0 or he0 > 0:
            self.hit("C20:e2e:open", "open failed (%d) or encryption claimed before any header (%d): %s" % (openr, he0, where),
                     case_line, ci, out_line)
            return
        all_ok = True
        for bi, body in enumerate(bodies):
            encd = enc != 0 and (len(body) > 0 or not sizemode)
            if bi >= len(ents) or len(ents[bi]) <= 3:
                # header not delivered
                prev_fail = any(len(e) > 3 and e[6] < 0 for e in ents[:bi]) or any(len(e) <= 3 for e in ents[:bi])
                if bi < len(ents):
                    hr = ents[bi][0]
                    if hr >= 0:
                        self.hit("C20:e2e:shape", "header entry without a status", case_line, ci, out_line)
                if avail and not prev_fail:
                    self.hit("C20:e2e:header-lost:%s" % ENCNAME[enc], "entry %d cannot be reached although the right passphrase "
                             "was supplied (%s)" % (bi, where), case_line, ci, out_line)
                elif avail:
                    self.stats["header_lost"] += 1
                all_ok = False
                break
            e = ents[bi]
            hr, name, size, dataenc, metaenc, he_h, n, okcalls, eclass, emsg, dlen, dcrc, dl, he_a = e
            data = dl[0] if dl else None
            same = (data == body) if data is not None else (dlen == len(body) and dcrc == zlib.crc32(body))
            # ---- indicators
            if encd:
                if dataenc != 1 or metaenc != 0 or he_h != 1 or he_a != 1:
                    self.hit("C20:indicator:encrypted-entry", "encrypted entry %d reports is_data_encrypted=%d is_metadata_encrypted=%d "
                             "has_encrypted_entries=%d/%d (want 1 0 1/1): %s" % (bi, dataenc, metaenc, he_h, he_a, where),
                             case_line, ci, out_line)
            else:
                if dataenc != 0 or metaenc != 0 or (enc == 0 and (he_h != 0 or he_a != 0)):
                    self.hit("C20:indicator:plain-entry", "unencrypted entry %d reports is_data_encrypted=%d is_metadata_encrypted=%d "
                             "has_encrypted_entries=%d/%d: %s" % (bi, dataenc, metaenc, he_h, he_a, where), case_line, ci, out_line)
            if size and size[0] != len(body):
                self.hit("C20:e2e:size", "entry %d: size %d reported for a %d-byte body" % (bi, size[0], len(body)), case_line, ci, out_line)
            # ---- data
            if not encd:
                self.stats["unencrypted"] += 1
                if n != 0 or not same:
                    self.hit("C20:e2e:plain-entry-data", "unencrypted entry %d of an archive written with %s does not read back "
                             "(status %d, %d bytes): %s" % (bi, ENCNAME[enc], n, dlen, where), case_line, ci, out_line)
                continue
            if avail:
                if n == 0 and same:
                    self.stats["right_ok"] += 1
                    continue
                all_ok = False
                if len(body) == 0 and not sizemode:
                    self.stats["empty_unsized"] += 1
                    self.hit("C20:e2e:empty-unsized-entry:%s:%s" % (ENCNAME[enc], "streaming" if readmode else "seeking"),
                             "an entry of unknown size that received no data is flagged encrypted but has no encryption header; "
                             "reading it with the RIGHT passphrase gives status %d (%s) [%s]" % (n, ERRNAME.get(eclass, "?"), where),
                             case_line, ci, out_line)
                    break
                zent = zents[bi] if zents and bi < len(zents) else None
                if zent is not None and n < 0 and self.collision_before(enc, zent, cands, P):
                    self.stats["collisions"] += 1      # inherent: 8-bit check byte / 16-bit verification value
                    if readmode:
                        break
                    continue
                self.hit("C20:e2e:right-passphrase:%s:%s" % (ENCNAME[enc], "deflate" if comp == 8 else "store"),
                         "entry %d (%d bytes) written with passphrase %r does not read back with it: status %d (%s), %d bytes, "
                         "identical=%s [%s; candidates %r]" % (bi, len(body), P, n, ERRNAME.get(eclass, "?"), dlen, same, where, cands),
                         case_line, ci, out_line)
                if readmode:
                    break
            else:
                all_ok = False
                if dlen == 0 and len(body) == 0 and (n == 0 or not sizemode):
                    # nothing to decrypt and nothing handed out (the seeking reader knows the entry is empty; an
                    # entry of unknown size without data has no encryption header, see C20:e2e:empty-unsized-entry)
                    self.stats["empty_open"] = self.stats.get("empty_open", 0) + 1
                    if n < 0 and readmode:
                        break
                elif n >= 0:
                    self.hit("C20:e2e:no-error:%s" % ENCNAME[enc],
                             "entry %d read WITHOUT the right passphrase ends with status %d after %d bytes%s [%s; candidates %r]" %
                             (bi, n, dlen, " IDENTICAL to the plaintext" if same and len(body) else "", where, cands), case_line, ci, out_line)
                else:
                    self.stats["refused"] += 1
                    if eclass in (1, 2, 3) and (dlen != 0 or n != FAILED):
                        self.hit("C20:e2e:data-before-refusal", "passphrase refused (%s) but %d bytes had been handed out / status %d [%s]" %
                                 (ERRNAME[eclass], dlen, n, where), case_line, ci, out_line)
                    if eclass not in (1, 2, 3):
                        # accepted by the 8/16-bit first test, caught later (CRC, inflate, HMAC): then some
                        # candidate must really pass that test
                        zent = zents[bi] if zents and bi < len(zents) else None
                        if zent is not None and not collision_before(zent, cands, None):
                            self.hit("C20:e2e:accepted-wrong-passphrase:%s" % ENCNAME[enc],
                                     "none of the candidates %r passes the check byte / verification value of entry %d, yet the reader "
                                     "went on to decrypt (%d bytes handed out, final status %d %s) [%s]" %
                                     (cands, bi, dlen, n, ERRNAME.get(eclass, "?"), where), case_line, ci, out_line)
                        self.stats["collisions"] += 1
                        if n == WARN:
                            self.stats["warn_only"] += 1
                            if STRICT_MAC_STATUS:
                                self.hit("C20:aes:mac-mismatch-only-warn", "wrong passphrase accepted by the verification value; the "
                                         "only signal is ARCHIVE_WARN at the end of the entry", case_line, ci, out_line)
                    want = 1 if not cands else 2
                    if eclass in (1, 2) and eclass != want:
                        self.hit("C20:e2e:message", "with candidates %r the refusal should read '%s', got '%s'" %
                                 (cands, ERRNAME[want], ERRNAME[eclass]), case_line, ci, out_line)
                if readmode:
                    break       # the streaming reader needs the passphrase even to skip
        if avail and all_ok and enc != 0 and any(len(b) > 0 for b in bodies):
            if not fitems or fitems[0] != P:
                self.hit("C20:pp:success-not-first", "after decrypting with %r the passphrase list is %r (the one that worked must be first)" %
                         (P, fitems), case_line, ci, out_line)

# ------------------------------------------------------------------ decision model on real archive fields
def decide_cases(P, zents, cfgs, need_ecb):
    """per read config: (entries usable, model case builder inputs).  need_ecb collects (key, nblocks)."""
    encs = [z for z in zents if z["encrypted"]]
    if not encs or any(len(z["data"]) > 8192 for z in encs):
        return None
    if any(z["method"] != 99 and len(z["data"]) < 12 for z in encs):
        return None       # no encryption header at all (see C20:e2e:empty-unsized-entry)
    if any(z["method"] == 99 and (z["aes"] is None or len(z["data"]) < AES_LENS[z["aes"]["strength"]][0] + 12) for z in encs):
        return None
    kind = 1 if encs[0]["method"] == 99 else 0
    if any((z["method"] == 99) != bool(kind) for z in encs):
        return None
    allc = []
    for cf in cfgs:
        for c in candidates_of(cf):
            if c not in allc:
                allc.append(c)
    if P not in allc:
        allc.append(P)
    info = dict(kind=kind, encs=encs, kdf={}, accepted=[])
    if kind == 1:
        for z in encs:
            slen, klen = AES_LENS[z["aes"]["strength"]]
            salt, pv = z["data"][:slen], z["data"][slen:slen + 2]
            z["salt"], z["pv"], z["cipher"], z["mac"] = salt, pv, z["data"][slen + 2:-10], z["data"][-10:]
            for c in allc:
                dk = hashlib.pbkdf2_hmac("sha1", c, salt, 1000, 2 * klen + 2)
                info["kdf"][(c, salt)] = dk
                if dk[-2:] == pv:
                    info["accepted"].append((z, dk[:klen], dk[klen:2 * klen]))
                    need_ecb.append((dk[:klen], len(z["cipher"]) // 16 + 2))
    return info

def build_decide_case(P, info, cf, tables):
    kind, encs = info["kind"], info["encs"]
    items, has_cb, script = cf[0], cf[1], cf[2]
    if kind == 0:
        ents = []
        for z in encs:
            cipher = z["data"][12:]
            t = PyTrad(P); t.decrypt(z["data"][:12])
            crc = z["crc"] if z["actual"] == 0 else zlib.crc32(t.decrypt(cipher))
            ents.append([z["data"][:12], z["decdat"], cipher, crc])
        return vfmt([5, 0, has_cb, script, items, ents, []])
    ents, kdf, mac, et = [], [], [], []
    for z in encs:
        klen = AES_LENS[z["aes"]["strength"]][1]
        crc = []
        if z["aes"]["vendor"] == 1:
            if z["actual"] == 0:
                crc = [z["crc"]]
            else:
                dk = info["kdf"][(P, z["salt"])]
                crc = [zlib.crc32(py_ctr(tables, dk[:klen], z["cipher"]))]
        ents.append([z["aes"]["strength"], z["salt"], z["pv"], z["cipher"], z["mac"], crc])
    for (c, salt), dk in info["kdf"].items():
        kdf.append([c, salt, dk])
    for z, key, mkey in info["accepted"]:
        mac.append([mkey, z["cipher"], hmac.new(mkey, z["cipher"], hashlib.sha1).digest()])
        for k in range(len(z["cipher"]) // 16 + 3):
            blk = struct.pack("<Q", k) + bytes(8)
            if (key, blk) in tables:
                et.append([key, blk, tables[(key, blk)]])
    return vfmt([5, 1, has_cb, script, items, ents, [kdf, mac, et]])

def compare_decide(rep, name, case_line, model_line, cf, rr, info, bodies_by_name, stats):
    """model prediction vs what the real reader did, entry by entry"""
    try:
        m = vparse(model_line)
    except Exception:
        m = None
    if not isinstance(m, list) or (m and not isinstance(m[0], list)):
        rep.violation("corr:crypto-decide:model", "decision model returned %r" % model_line[:200],
                      dict(kind="decide", case=case_line), found_input=False)
        return
    readmode = cf[3]
    real = {e[1]: e for e in rr[3] if len(e) > 3}
    complete = len([e for e in rr[3] if len(e) > 3]) == len(bodies_by_name)
    for z, me in zip(info["encs"], m):
        e = real.get(z["name"].encode())
        if e is None:
            break
        mst, merr, mdata, mitems, mcand = me
        n, eclass, dl = e[6], e[8], e[12]
        data = dl[0] if dl else None
        deflate = z["actual"] == 8
        ok = True
        if mst == OK:
            ok = n == 0
            if ok and data is not None:
                try:
                    ok = (inflate_raw(mdata) if deflate else mdata) == data
                except Exception:
                    ok = False
        elif merr in (1, 2, 3):
            ok = n == FAILED and eclass == merr and (e[10] == 0)
        elif merr == 4:
            # wrong key: inflate usually fails first; the streaming reader of a stored entry does not recognise
            # the data descriptor (CRC differs) and runs on until "Truncated ZIP file data"
            ok = (n == WARN and eclass == 4) or ((deflate or readmode) and n < 0)
        elif merr == 5:
            ok = (n == FAILED and eclass == 5) or ((deflate or readmode) and n < 0)
        else:
            ok = n < 0
        stats["decide_entries"] += 1
        if not ok:
            stats["decide_disagree"] += 1
            rep.violation("corr:crypto-decide", "decision model and real reader disagree on entry %s of %s: model (status %d, %s, %d bytes) "
                          "real (status %d, %s, %d bytes)" % (z["name"], name, mst, ERRNAME.get(merr, merr), len(mdata), n,
                                                              ERRNAME.get(eclass, eclass), e[10]),
                          dict(kind="decide", broken="correspondence crypto-decide (model family runner vs harness)",
                               case=case_line, model=model_line[:3000], impl=vfmt(e)[:3000]), found_input=False)
            return
        if n < 0 and readmode:
            return
    if complete and m and len(m) == len(info["encs"]) and not (readmode and any(e[6] < 0 for e in real.values())):
        if m[-1][3] != rr[4]:
            stats["decide_disagree"] += 1
            rep.violation("corr:crypto-decide", "passphrase list after reading %s: model %r real %r" % (name, m[-1][3], rr[4]),
                          dict(kind="decide", broken="correspondence crypto-decide", case=case_line, model=model_line[:3000]),
                          found_input=False)

# ------------------------------------------------------------------ reference archives of the test suite
REFS = [  # file, passphrase, wrong passphrase that passes the 16-bit verification value (found by search), or None
    ("test_read_format_zip_traditional_encryption_data.zip.uu", b"12345678", None),
    ("test_read_format_zip_winzip_aes128.zip.uu", b"password", b"wrong16553"),
    ("test_read_format_zip_winzip_aes256.zip.uu", b"password", None),
    ("test_read_format_zip_winzip_aes256_stored.zip.uu", b"password", b"wrong2576"),
    ("test_read_format_zip_winzip_aes256_large.zip.uu", b"password", None),
]

def ref_plain(arc, P, zents, tables):
    """independent decryption of a reference archive: name -> bytes"""
    out = {}
    trad = [z for z in zents if z["encrypted"] and z["method"] != 99]
    if trad:
        zf = zipfile.ZipFile(io.BytesIO(arc))
        for z in trad:
            out[z["name"]] = zf.read(z["name"], pwd=P)          # python's own ZipCrypto + CRC check
    for z in zents:
        if z["method"] == 99:
            slen, klen = AES_LENS[z["aes"]["strength"]]
            d = z["data"]
            dk = hashlib.pbkdf2_hmac("sha1", P, d[:slen], 1000, 2 * klen + 2)
            if dk[-2:] != d[slen:slen + 2]:
                raise ValueError("verification value")
            cipher, mac = d[slen + 2:-10], d[-10:]
            if hmac.new(dk[klen:2 * klen], cipher, hashlib.sha1).digest()[:10] != mac:
                raise ValueError("authentication code")
            plain = py_ctr(tables, dk[:klen], cipher)
            out[z["name"]] = inflate_raw(plain) if z["actual"] == 8 else plain
    return out

# ------------------------------------------------------------------ the check
def lens_for(tier, r):
    base = [[n] for n in range(0, 65)]
    multi = [[r.randrange(65, 400)] for _ in range(12)] + [[r.randrange(400, 5000)] for _ in range(6)]
    pairs = [[r.randrange(0, 70), r.randrange(0, 70)] for _ in range(14)] + [[0, 5], [5, 0, 17], [16, 32, 48]]
    big = [[70000], [300000, 3]] if tier == "quick" else [[70000], [300000, 3], [262144], [262145, 262143], [1 << 20]]
    return base, multi, pairs, big

def get_tables(exe, need):
    """need: list of (key, nblocks) -> {(key, counter block): E} through raw OpenSSL in the harness"""
    want = {}
    for key, nb in need:
        want[key] = max(want.get(key, 0), nb)
    keys = sorted(want)
    if not keys:
        return {}
    rc, lines, err = run_harness(exe, [vfmt([6, k, want[k]]) for k in keys], "ecb")
    if rc != 0 or len(lines) != len(keys):
        raise vlib.BuildError("ecb harness operation failed (rc %s): %s" % (rc, err[-500:]))
    t = {}
    for k, l in zip(keys, lines):
        for blk, encb in vparse(l):
            t[(k, blk)] = encb
    return t

def run(rep):
    import time
    t0 = time.time()
    timing = {}
    def lap(name):
        nonlocal t0
        timing[name] = round(time.time() - t0, 1)
        t0 = time.time()
    pr = vlib.proof_part(rep, "C20", translators=["gen_defines"])
    lap("coq")
    runner = vlib.build_runner("crypto")
    lap("runner")
    exe = build_harness("asan")
    lap("harness")
    r = vlib.rng(rep.seed, "C20")
    quick = rep.tier == "quick"
    cov = dict()

    # ---------------- correspondence 1: crc, trad, ctr, passphrase list
    cases = []
    for _ in range(20 if quick else 200):
        cases.append(vfmt([0, r.choice([0, 0xffffffff, r.randrange(1 << 32)]), r.randbytes(r.randrange(0, 300))]))
    tl = list(range(0, 65)) + [r.randrange(65, 600) for _ in range(40 if quick else 800)]
    for n in tl:
        cases.append(gen_trad_case(r, n, same=True))
    for _ in range(40 if quick else 600):
        cases.append(gen_trad_case(r, r.randrange(0, 100), same=r.random() < 0.5, allow_short=True))
    ctr_raw, need = [], []
    cl = list(range(0, 65)) * (1 if quick else 3) + [r.randrange(65, 1200) for _ in range(50 if quick else 1000)]
    for n in cl:
        klen = r.choice([16, 24, 32])
        key = r.randbytes(klen)
        ctr_raw.append((key, gen_body(r, n), gen_parts(r, n, allow_short=r.random() < 0.15)))
        need.append((key, n // 16 + 3))
    for bad in (0, 1, 15, 17, 31, 33, 48):
        ctr_raw.append((r.randbytes(bad), b"abc", []))
    tables = get_tables(exe, need)
    for key, body, parts in ctr_raw:
        tbl = [[key, struct.pack("<Q", k) + bytes(8), tables[(key, struct.pack("<Q", k) + bytes(8))]]
               for k in range(len(body) // 16 + 4) if (key, struct.pack("<Q", k) + bytes(8)) in tables]
        cases.append(vfmt([2, key, body, parts, tbl]))
    for _ in range(300 if quick else 6000):
        cases.append(gen_pp_case(r))

    def corr_oracle(case_line, impl_line):
        try:
            c, o = vparse(case_line), vparse(impl_line)
        except Exception:
            return ("C20:corr:unparsable-output", "harness output not parsable")
        if c[0] == 0:
            return None if o == zlib.crc32(c[2], c[1]) else ("C20:crc", "zlib crc32 differs from python's")
        if c[0] == 1:
            return trad_oracle(c, o)
        if c[0] == 2:
            return ctr_oracle(c, o, tables)
        if c[0] == 3:
            return pp_oracle(c, o)
        return None
    corpus = vlib.load_corpus("C20")
    lap("gen1")
    st = vlib.correspond(rep, "crypto", runner, exe, corpus + cases, oracle=corr_oracle)
    lap("corr1")

    # ---------------- end to end
    base, multi, pairs, big = lens_for(rep.tier, r)
    e2e = []
    for lens in base:
        for enc in (1, 2, 3):
            e2e.append(gen_e2e_case(r, enc, r.choice([0, 8]), lens))
    for k in range(16):      # every length mod 16 x every cipher x both compressions at a multi-block length
        for enc in (1, 2, 3):
            for comp in (0, 8):
                if quick and (k + enc + comp // 8) % 2:
                    continue
                e2e.append(gen_e2e_case(r, enc, comp, [16 * r.randrange(1, 9) + k]))
    for lens in multi + pairs:
        e2e.append(gen_e2e_case(r, r.choice([1, 2, 3]), r.choice([0, 8]), lens))
    for lens in pairs[:6]:
        e2e.append(gen_e2e_case(r, r.choice([1, 2, 3]), r.choice([0, 8]), lens, sizemode=0))
    for lens in big:
        e2e.append(gen_e2e_case(r, r.choice([1, 2, 3]), r.choice([0, 8]), lens, limit=0))
    # bodies beyond the 256 KiB decryption buffer, every cipher, stored and deflated
    for enc in (1, 2, 3):
        for comp in (0, 8):
            e2e.append(gen_e2e_case(r, enc, comp, [r.choice([262145, 300000, 524289]), 3], limit=0))
    for enc in (0,):
        for lens in ([0], [1], [33], [5, 0]):
            e2e.append(gen_e2e_case(r, enc, r.choice([0, 8]), lens))
    # fixed cases: an entry of unknown size that receives no data, alone / followed by a real entry
    for enc, comp in ((1, 0), (1, 8), (2, 0), (3, 8)):
        e2e.append(vfmt([4, enc, comp, b"secret", 0, 0, 1000000000, 7, [b"", b"abc"],
                         [cfg([b"secret"], mode=1, bs=64, chunk=16), cfg([b"secret"], mode=0), cfg([], script=[b"secret"], mode=1),
                          cfg([b"bad"], mode=0), cfg([], mode=1)], 1 << 20]))
    # the writer must refuse to encrypt without a usable passphrase
    e2e.append(vfmt([4, 1, 0, b"", 0, 1, 1000000000, 16, [b"abc"], [], 1 << 20]))
    e2e.append(vfmt([4, 2, 8, b"x", 2, 1, 1000000000, 16, [b"abc"], [], 1 << 20]))
    if not quick:
        for _ in range(3000):
            e2e.append(gen_e2e_case(r, r.choice([1, 2, 3]), r.choice([0, 8]), [r.randrange(0, 200) for _ in range(r.randrange(1, 4))]))
    rc, lines, err = run_harness(exe, e2e, "e2e")
    if rc != 0 or len(lines) != len(e2e):
        k = min(len(lines), len(e2e) - 1)
        rep.violation("crash:crypto-e2e:%s" % vlib.crash_key(err), "end-to-end harness stopped (rc=%s) on case #%d: %s" %
                      (rc, k, "; ".join(l for l in err.split("\n") if "ERROR" in l or "SUMMARY" in l or "runtime error" in l)[:400]),
                      dict(kind="e2e", case=e2e[k], stderr=err[-3000:]), found_input=True)
    lap("e2e-run")
    oracle = E2E(rep)
    parsed = []
    for c, l in zip(e2e, lines):
        p = oracle.check(c, l)
        if p and p["zents"] is not None:
            parsed.append((c, p))

    lap("e2e-oracle")
    # ---------------- reference archives (third-party tools, known passwords)
    tdir = os.path.join(vlib.REPO, "libarchive", "test")
    refs, ref_cases = [], []
    for fn, P, coll in REFS:
        arc = uudecode(os.path.join(tdir, fn))
        zents = parse_zip(arc)
        cfgs = [cfg([P], mode=0, bs=10240, chunk=512, limit=1 << 22), cfg([P], mode=1, bs=r.choice([1, 7, 100]), chunk=r.choice([1, 17, 4096]), limit=1 << 22),
                cfg([b"invalid_pass", b"invalid_phrase", P], mode=r.randrange(2), bs=r.choice([3, 64, 10240]), limit=1 << 22),
                cfg([], script=[b"nope", P], mode=r.randrange(2), limit=1 << 22),
                cfg([], mode=0), cfg([], mode=1), cfg([b"invalid_pass", b"invalid_phrase"], mode=r.randrange(2)),
                cfg([b"Password"], script=[b"12345679"], mode=r.randrange(2))]
        if coll:
            cfgs += [cfg([coll], mode=0, limit=1 << 22), cfg([coll, P], mode=1, limit=1 << 22)]
        refs.append((fn, P, coll, arc, zents, cfgs))
        ref_cases.append(vfmt([7, arc, cfgs]))
    rc, rlines, err = run_harness(exe, ref_cases, "refs")
    if rc != 0 or len(rlines) != len(ref_cases):
        rep.violation("crash:crypto-refs:%s" % vlib.crash_key(err), "harness stopped (rc=%s) while reading the suite's reference archives" % rc,
                      dict(kind="read", case=ref_cases[min(len(rlines), len(ref_cases) - 1)][:2000], stderr=err[-3000:]), found_input=True)

    # ---------------- AES tables for everything that needs an independent decryption / the decision model
    need, infos = [], []
    for c, p in parsed:
        P = p["case"][3]
        info = decide_cases(P, p["zents"], p["case"][9], need)
        infos.append(info)
    ref_infos = []
    for fn, P, coll, arc, zents, cfgs in refs:
        for z in zents:
            if z["method"] == 99:
                slen, klen = AES_LENS[z["aes"]["strength"]]
                dk = hashlib.pbkdf2_hmac("sha1", P, z["data"][:slen], 1000, 2 * klen + 2)
                need.append((dk[:klen], (len(z["data"]) - slen - 12) // 16 + 2))
        ref_infos.append(decide_cases(P, zents, cfgs, need))
    lap("refs-run+kdf")
    tables2 = get_tables(exe, need)
    lap("ecb")

    # reference archives: oracle
    ref_stats = dict(entries_ok=0, refused=0, collisions=0)
    for ri, ((fn, P, coll, arc, zents, cfgs), l) in enumerate(zip(refs, rlines)):
        try:
            plain = ref_plain(arc, P, zents, tables2)
        except Exception as ex:
            rep.violation("C20:ref:python-decrypt", "independent decryption of %s failed: %s" % (fn, ex), dict(kind="read", file=fn), found_input=False)
            continue
        reads = vparse(l)
        for ci, (cf, rr) in enumerate(zip(cfgs, reads)):
            cands = candidates_of(cf)
            ents = rr[3]
            for e in ents:
                if len(e) <= 3:
                    if P in cands and (not coll or coll not in cands):
                        rep.violation("C20:ref:header-lost", "%s: an entry cannot be reached with the right passphrase" % fn,
                                      dict(kind="read", file=fn, read_config=ci, impl=vfmt(rr)[:3000]), found_input=True)
                    break
                hr, name, size, dataenc, metaenc, he_h, n, okc, eclass, emsg, dlen, dcrc, dl, he_a = e
                want = plain[name.decode()]
                if dataenc != 1 or metaenc != 0 or he_h != 1:
                    rep.violation("C20:indicator:reference", "%s/%s: encrypted entry reports is_data_encrypted=%d is_metadata_encrypted=%d "
                                  "has_encrypted_entries=%d" % (fn, name.decode(), dataenc, metaenc, he_h),
                                  dict(kind="read", file=fn, read_config=ci, impl=vfmt(e)[:2000]), found_input=True)
                data = dl[0] if dl else None
                same = data == want if data is not None else (dlen == len(want) and dcrc == zlib.crc32(want))
                first = cands[0] if cands else None
                if P in cands and not (coll and coll in cands and cands.index(coll) < cands.index(P)):
                    if n != 0 or not same:
                        rep.violation("C20:ref:right-passphrase:%s" % fn.split(".")[0][len("test_read_format_zip_"):],
                                      "%s/%s does not decrypt to its known contents with passphrase %r (status %d %s, %d bytes, identical=%s; "
                                      "%s reader)" % (fn, name.decode(), P, n, ERRNAME.get(eclass, "?"), dlen, same, "streaming" if cf[3] else "seeking"),
                                      dict(kind="read", file=fn, read_config=ci, cfg=vfmt(cf), impl=vfmt(e)[:3000]), found_input=True)
                    else:
                        ref_stats["entries_ok"] += 1
                else:
                    if n >= 0:
                        rep.violation("C20:ref:no-error", "%s/%s read without the right passphrase (candidates %r) ends with status %d after %d bytes" %
                                      (fn, name.decode(), cands, n, dlen),
                                      dict(kind="read", file=fn, read_config=ci, cfg=vfmt(cf), impl=vfmt(e)[:3000]), found_input=True)
                    elif eclass in (1, 2, 3):
                        ref_stats["refused"] += 1
                        if dlen or n != FAILED:
                            rep.violation("C20:ref:data-before-refusal", "%s/%s: refused but %d bytes handed out" % (fn, name.decode(), dlen),
                                          dict(kind="read", file=fn, read_config=ci), found_input=True)
                    else:
                        ref_stats["collisions"] += 1
                        zent = next(z for z in zents if z["name"] == name.decode())
                        if not collision_before(zent, cands, None):
                            rep.violation("C20:ref:accepted-wrong-passphrase", "%s/%s: none of the candidates %r passes the first test, yet the "
                                          "reader went on to decrypt (%d bytes, status %d)" % (fn, name.decode(), cands, dlen, n),
                                          dict(kind="read", file=fn, read_config=ci, cfg=vfmt(cf), impl=vfmt(e)[:3000]), found_input=True)
                        if n == WARN and STRICT_MAC_STATUS:
                            rep.violation("C20:aes:mac-mismatch-only-warn", "%s/%s with %r: accepted by the verification value, only ARCHIVE_WARN at the end"
                                          % (fn, name.decode(), first), dict(kind="read", file=fn, read_config=ci), found_input=True)
                    if cf[3]:
                        break

    lap("refs-oracle")
    # ---------------- correspondence 2: decision model on the real archive fields
    dstats = dict(decide_cases=0, decide_entries=0, decide_disagree=0)
    dcases, dmeta = [], []
    for (c, p), info in zip(parsed, infos):
        if info is None:
            continue
        P = p["case"][3]
        names = [z["name"] for z in p["zents"]]
        for cf, rr in zip(p["case"][9], p["reads"]):
            dcases.append(build_decide_case(P, info, cf, tables2))
            dmeta.append(("written archive", cf, rr, info, names))
    for (fn, P, coll, arc, zents, cfgs), info, l in zip(refs, ref_infos, rlines):
        if info is None:
            continue
        for cf, rr in zip(cfgs, vparse(l)):
            dcases.append(build_decide_case(P, info, cf, tables2))
            dmeta.append((fn, cf, rr, info, [z["name"] for z in zents]))
    if dcases:
        path = vlib.write_cases(dcases, "decide.cases")
        rcm, mlines, merr = vlib.run_exe(runner, path, timeout=1500)
        if rcm != 0 or len(mlines) != len(dcases):
            rep.violation("corr:crypto-decide:model-runner", "model runner failed on decision cases (rc=%s, %d/%d): %s" %
                          (rcm, len(mlines), len(dcases), merr[-300:]), dict(kind="decide"), found_input=False)
        else:
            dstats["decide_cases"] = len(dcases)
            for dc, ml, (name, cf, rr, info, names) in zip(dcases, mlines, dmeta):
                compare_decide(rep, name, dc, ml, cf, rr, info, names, dstats)

    lap("decide")
    # ---------------- corrupted archives: one bit flipped in the ciphertext or in the authentication code
    cor_cases, cor_meta = [], []
    pick = [x for x in parsed if x[1]["case"][1] != 0 and x[1]["arc"] is not None]
    r.shuffle(pick)
    for c, p in pick[:60 if quick else 600]:
        P = p["case"][3]
        for z in p["zents"]:
            if not z["encrypted"] or len(z["data"]) < 13:
                continue
            if z["method"] == 99:
                slen = AES_LENS[z["aes"]["strength"]][0]
                lo, hi = slen + 2, len(z["data"])           # ciphertext or authentication code
            else:
                lo, hi = 12, len(z["data"])
            if hi <= lo:
                continue
            pos = z["data_off"] + r.randrange(lo, hi)
            arc = bytearray(p["arc"])
            arc[pos] ^= 1 << r.randrange(8)
            where = "authentication code" if z["method"] == 99 and pos >= z["data_off"] + len(z["data"]) - 10 else "ciphertext"
            cor_cases.append(vfmt([7, bytes(arc), [cfg([P], mode=0), cfg([P], mode=1, bs=r.choice([1, 16, 512]))]]))
            cor_meta.append((z["name"], where, p["case"][1], p["case"][8][int(z["name"][1:].split(".")[0])]))
            break
    cstats = dict(corrupted=len(cor_cases), detected=0, warn_only=0, harmless=0)
    if cor_cases:
        rc, clines, err = run_harness(exe, cor_cases, "corrupt")
        if rc != 0 or len(clines) != len(cor_cases):
            rep.violation("crash:crypto-corrupt:%s" % vlib.crash_key(err), "harness stopped (rc=%s) on a corrupted encrypted archive" % rc,
                          dict(kind="read", case=cor_cases[min(len(clines), len(cor_cases) - 1)], stderr=err[-3000:]), found_input=True)
        for cc, cl, (name, where, enc, body) in zip(cor_cases, clines, cor_meta):
            for ci, rr in enumerate(vparse(cl)):
                e = next((e for e in rr[3] if len(e) > 3 and e[1] == name.encode()), None)
                if e is None:
                    continue
                if e[6] >= 0 and e[12] and e[12][0] == body:
                    cstats["harmless"] += 1      # the bit was padding of the last deflate byte: same plaintext
                elif e[6] >= 0:
                    rep.violation("C20:corrupt:undetected:%s" % ENCNAME[enc], "one bit flipped in the %s of an %s entry: archive_read_data "
                                  "still ends with status %d after %d bytes (%s reader)" % (where, ENCNAME[enc], e[6], e[10], "streaming" if ci else "seeking"),
                                  dict(kind="read", case=cc, read_config=ci, impl=vfmt(e)[:3000]), found_input=True)
                else:
                    cstats["detected"] += 1
                    if e[6] == WARN:
                        cstats["warn_only"] += 1
                        if STRICT_MAC_STATUS:
                            rep.violation("C20:aes:mac-mismatch-only-warn", "corrupted %s of an AES entry is reported as ARCHIVE_WARN only" % where,
                                          dict(kind="read", case=cc, read_config=ci), found_input=True)

    # ---------------- Info-ZIP cross-check (traditional encryption written / read by another tool)
    lap("corrupt")
    xstats = infozip_cross(rep, exe, r, parsed, 12 if quick else 120)
    lap("infozip")

    nontrivial = set()
    for c, p in parsed:
        cs = p["case"]
        if cs[1] != 0 and any(len(b) for b in cs[8]):
            nontrivial.add(c)
    rep.coverage.update(
        evaluations=len(cases) + len(corpus) + oracle.stats["reads"] + sum(len(x[5]) for x in refs) + 2 * len(cor_cases) + dstats["decide_cases"],
        distinct_nontrivial=len(nontrivial) + len(set(c for c in cases if c.startswith("(1 ") or c.startswith("(2 "))),
        rule="correspondence: trad_enc_* for every body length 0..64 and longer, random partitions on both sides, passwords short/long/"
             "non-ASCII/raw bytes; aes_ctr_update for every length 0..64 (all lengths mod 16) and multi-block, keys of 16/24/32 bytes and "
             "illegal lengths, random partitions incl. block-aligned and short output buffers, E supplied from OpenSSL as a table; passphrase-list "
             "operation sequences with scripted callbacks.  end to end: {zipcrypt, aes128, aes256} x {store, deflate} x body lengths 0..64, "
             "every length mod 16 at a multi-block length, multi-entry, unknown-size entries, 70 KB - 300 KB bodies; per archive the reads "
             "(i) by value (ii) callback (iii) wrong ones first (iv) none (v) only wrong, seeking and streaming reader, block sizes 1..10240, "
             "read sizes 1..65536.  non-trivial = encrypted archive with a non-empty body, or a trad/ctr correspondence case",
        samples=[cases[25][:300], e2e[3][:400]],
        traces_validated_against_impl=st["agree"] + dstats["decide_entries"] - dstats["decide_disagree"],
        correspondence=st, end_to_end=oracle.stats, reference_archives=ref_stats, decision_model=dstats,
        corrupted=cstats, infozip=xstats, timing_s=timing)
    rep.assumptions += [
        "AES, PBKDF2-SHA1 and HMAC-SHA1 are Section variables of the Coq development (any functions); their cryptographic strength is outside the model",
        "a wrong passphrase passes the first test with probability 1/256 (check byte) resp. 2^-16 (verification value); such runs are counted as "
        "'collisions' and must still end below ARCHIVE_OK (CRC / inflate / authentication code)",
        "an authentication-code mismatch is reported by the code as ARCHIVE_WARN; the oracle accepts any status < ARCHIVE_OK (STRICT_MAC_STATUS=False)",
        "update calls with lengths >= 2^32 (unsigned truncation of max) are not modelled; no call site passes more than the 256 KiB decryption buffer",
        "aes_ctr_encrypt_counter failures of the crypto library (return -1) are not modelled",
    ]
    vlib.proof_verdict(rep, "C20", pr)

def infozip_cross(rep, exe, r, parsed, n):
    """zip -P / unzip -P (Info-ZIP) against libarchive, traditional encryption only"""
    zipx, unzipx = shutil.which("zip"), shutil.which("unzip")
    stats = dict(available=bool(zipx and unzipx), libarchive_reads_infozip=0, infozip_reads_libarchive=0)
    if not stats["available"]:
        return stats
    d = os.path.join(vlib.scratch(), "infozip")
    os.makedirs(d, exist_ok=True)
    cases, meta = [], []
    for k in range(n):
        P = bytes(r.choice(b"abcdefghijklmnopqrstuvwxyz0123456789_") for _ in range(r.randrange(1, 20)))
        body = gen_body(r, r.choice([0, 1, 15, 16, 17, r.randrange(0, 3000)]))
        fn = os.path.join(d, "f%d.bin" % k)
        zp = os.path.join(d, "a%d.zip" % k)
        open(fn, "wb").write(body)
        if os.path.exists(zp):
            os.remove(zp)
        p = subprocess.run([zipx, "-q", "-j"] + (["-0"] if r.random() < 0.4 else []) + ["-P", P.decode(), zp, fn],
                           stdout=subprocess.PIPE, stderr=subprocess.STDOUT, timeout=60)
        if p.returncode != 0 or not os.path.exists(zp):
            continue
        arc = open(zp, "rb").read()
        cases.append(vfmt([7, arc, [cfg([P], mode=r.randrange(2), bs=r.choice([1, 64, 10240])), cfg([b"zz" + P], mode=0), cfg([], mode=1)]]))
        meta.append((P, body))
    if cases:
        rc, lines, err = run_harness(exe, cases, "infozip")
        for c, l, (P, body) in zip(cases, lines, meta):
            reads = vparse(l)
            e = next((e for e in reads[0][3] if len(e) > 3), None)
            if e is None or e[6] != 0 or not e[12] or e[12][0] != body:
                rep.violation("C20:infozip:read", "archive written by Info-ZIP zip -P %r (%d-byte body) does not read back: %r" %
                              (P, len(body), None if e is None else (e[6], ERRNAME.get(e[8]), e[10])),
                              dict(kind="read", case=c, impl=l[:3000]), found_input=True)
                continue
            stats["libarchive_reads_infozip"] += 1
            for rr in reads[1:]:
                e2 = next((e for e in rr[3] if len(e) > 3), None)
                if e2 is not None and e2[6] >= 0 and len(body):
                    rep.violation("C20:infozip:no-error", "Info-ZIP encrypted entry read without the right passphrase ends with status %d" % e2[6],
                                  dict(kind="read", case=c, impl=l[:3000]), found_input=True)
    # the other direction: what libarchive wrote with zipcrypt
    k = 0
    for c, p in parsed:
        cs = p["case"]
        if cs[1] != 1 or p["arc"] is None or k >= n:
            continue
        P = cs[3]
        try:
            pw = P.decode("ascii")
        except Exception:
            continue
        if not pw.isalnum():
            continue
        k += 1
        zp = os.path.join(d, "l%d.zip" % k)
        open(zp, "wb").write(p["arc"])
        for bi, body in enumerate(cs[8]):
            q = subprocess.run([unzipx, "-p", "-P", pw, zp, "f%d.bin" % bi], stdout=subprocess.PIPE, stderr=subprocess.PIPE, timeout=60)
            if q.returncode != 0 or q.stdout != body:
                if len(body) == 0 and not cs[5]:
                    continue        # see C20:e2e:empty-unsized-entry
                rep.violation("C20:infozip:write", "Info-ZIP unzip -P %r cannot extract entry %d (%d bytes) of a zipcrypt archive written by "
                              "libarchive: rc %d %s" % (pw, bi, len(body), q.returncode, q.stderr.decode("utf-8", "replace")[:200]),
                              dict(kind="e2e", case=c), found_input=True)
            else:
                stats["infozip_reads_libarchive"] += 1
    return stats

def replay(rep, path):
    import json
    d = json.load(open(path))
    rp = d["replay"]
    exe = build_harness("asan")
    case = rp.get("case")
    n = 0
    if rp.get("kind") == "e2e" and case:
        rc, lines, err = run_harness(exe, [case], "replay")
        if rc != 0 or not lines:
            rep.violation("crash:crypto-e2e:%s" % vlib.crash_key(err), "harness stopped (rc=%s) on the replayed case" % rc,
                          dict(kind="e2e", case=case, stderr=err[-3000:]), found_input=True)
        else:
            E2E(rep).check(case, lines[0])
        n = 1
    elif rp.get("kind") == "read" and case and case.startswith("(7 "):
        rc, lines, err = run_harness(exe, [case], "replay")
        if rc != 0 or not lines:
            rep.violation("crash:crypto-read:%s" % vlib.crash_key(err), "harness stopped (rc=%s) on the replayed archive" % rc,
                          dict(kind="read", case=case, stderr=err[-3000:]), found_input=True)
        else:
            for ci, rr in enumerate(vparse(lines[0])):
                for e in rr[3]:
                    if len(e) > 3 and e[6] >= 0 and d.get("key", "").startswith(("C20:corrupt", "C20:ref:no-error", "C20:infozip:no-error")):
                        rep.violation(d["key"], d.get("what", "replayed"), dict(kind="read", case=case, read_config=ci, impl=vfmt(e)[:3000]), found_input=True)
        n = 1
    elif case and rp.get("correspondence") == "crypto":
        runner = vlib.build_runner("crypto")
        tables = {}
        c = vparse(case)
        if c[0] == 2:
            tables = {(k, b): e for k, b, e in c[4]}
        def orc(cl, il):
            cc, o = vparse(cl), vparse(il)
            return {1: lambda: trad_oracle(cc, o), 2: lambda: ctr_oracle(cc, o, tables), 3: lambda: pp_oracle(cc, o)}.get(cc[0], lambda: None)()
        vlib.correspond(rep, "crypto", runner, exe, [case], oracle=orc)
        n = 1
    elif rp.get("kind") == "decide" and case:
        runner = vlib.build_runner("crypto")
        p = vlib.write_cases([case], "decide.cases")
        rcm, ml, merr = vlib.run_exe(runner, p)
        rep.notes.append("decision-model case replayed on the model only: %s" % (ml[0][:300] if ml else merr[-300:]))
        n = 1
    rep.coverage.update(evaluations=n, distinct_nontrivial=n, samples=[(case or "")[:400]])
