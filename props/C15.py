"""C15 - ACLs survive conversion to text and back.
proof (Properties_C15.v) + correspondence of the Gallina model (coq/Entry/AclDefs.v) with the real
archive_entry_acl_to_text(_w) / archive_entry_acl_from_text(_w) / archive_acl_from_text_nl, + the property itself
evaluated on what the real code did (round trip as a multiset, parser status, no crash under ASan/UBSan)."""
import os, re, json
import vlib
from vlib import vfmt, vparse

LEVEL = "proof"

A, D, ALLOW, DENY, AUDIT, ALARM = 0x100, 0x200, 0x400, 0x800, 0x1000, 0x2000
POSIX, NFS4 = 0x300, 0x3c00
U, UO, G, GO, M, O, EV = 10001, 10002, 10003, 10004, 10005, 10006, 10107
EXTRA_ID, MARK_DEFAULT, SOLARIS, COMMA, COMPACT = 1, 2, 4, 8, 16
NFS4_PERM_BITS = [0x1, 0x8, 0x10, 0x20, 0x40, 0x80, 0x100, 0x200, 0x400, 0x800, 0x1000, 0x2000, 0x4000, 0x8000]
NFS4_FLAG_BITS = [0x01000000, 0x02000000, 0x04000000, 0x08000000, 0x10000000, 0x20000000, 0x40000000]
OK, WARN, FAILED, FATAL = 0, -20, -25, -30
INT_MAX = 2**31 - 1

M_CRASH, M_HANG, M_OVERRUN = "x4352415348", "x48414e47", "x4f56455252554e"
KEY_OF_MARKER = {
    M_CRASH: ("C15:from_text_w:null-deref:bare-default",
              "archive_entry_acl_from_text_w dereferences a NULL field pointer on an entry that consists of 'd' or 'default' only"),
    M_HANG: ("C15:from_text_nl:colon-after-text",
             "archive_acl_from_text_nl reads the byte after the length-limited text; when it is ':' the field loop never ends (int overflow of 'fields', then out-of-bounds store)"),
    M_OVERRUN: ("C15:to_text:heap-overflow:nfs4-noname-id",
                "archive_entry_acl_to_text writes past the buffer sized by archive_acl_text_len: nameless NFSv4 user/group entry with id >= 1000000 without EXTRA_ID"),
}

# ------------------------------------------------------------------ generators
NAMES_OK = ["joe", "a", "staff", "u1", "x9y", "root", "A-b_c.d", "fé", "日本", "Ωmega", "näme", "\U0001f600x", "0x1f", "1a", "r", "rwx", "default", "user", "d"]
NAMES_BAD = ["foo#bar", "#x", "a b", "a:b", "a,b", "12", "007", "x\ty", "4294967296", "tail ", " lead"]
IDS = [0, 1, 9, 10, 99, 100, 1000, 65534, 999999, 1000000, 1234567, 2**31 - 2, 2**31 - 1]

def enc_name(s, wide):
    return [ord(ch) for ch in s] if wide else s.encode("utf-8")

def gen_acl_case(r, force=None):
    wide = r.randrange(2)
    kind = force or r.choice(["posix"] * 5 + ["nfs4"] * 4 + ["mixed"])
    ents = []
    n = r.choice([0, 1, 1, 2, 3, 4, 6, 10])
    badname = r.random() < 0.12
    for _ in range(n):
        k = kind if kind != "mixed" else r.choice(["posix", "nfs4"])
        if k == "posix":
            typ = r.choice([A, A, D, D, A | D] if r.random() < 0.03 else [A, A, D])
            tag = r.choice([U, U, U, G, G, UO, GO, M, O] + ([EV] if r.random() < 0.05 else []))
            perm = r.randrange(8) if r.random() > 0.02 else r.choice([8, 0x80, 15])
        else:
            typ = r.choice([ALLOW, ALLOW, DENY, AUDIT, ALARM])     # exactly one type bit: anything else is not an NFSv4 entry type
            tag = r.choice([U, U, G, G, UO, GO, EV] + ([M, O] if r.random() < 0.05 else []))
            c = r.random()
            if c < 0.1:
                perm = sum(NFS4_PERM_BITS) | sum(NFS4_FLAG_BITS)
            elif c < 0.2:
                perm = 0
            else:
                perm = sum(b for b in NFS4_PERM_BITS if r.random() < 0.5) | sum(b for b in NFS4_FLAG_BITS if r.random() < 0.4)
            if r.random() < 0.02:
                perm |= r.choice([2, 4, 0x10000])
        if tag in (U, G):
            ident = r.choice(IDS) if r.random() < 0.7 else r.randrange(0, 2**31)
            c = r.random()
            if c < 0.25:
                name = ""
            elif badname and r.random() < 0.5:
                name = r.choice(NAMES_BAD)
            else:
                name = r.choice(NAMES_OK)
            if r.random() < 0.06:
                ident = r.choice([-1, -1, -2, -2**31])
        else:
            ident = -1 if r.random() < 0.9 else r.choice(IDS)
            name = "" if r.random() < 0.9 else r.choice(NAMES_OK)
        ents.append([typ, tag, perm, ident, enc_name(name, wide)])
    style = 0
    for f, p in ((EXTRA_ID, 0.8), (MARK_DEFAULT, 0.4), (SOLARIS, 0.3), (COMMA, 0.4), (COMPACT, 0.4)):
        if r.random() < p:
            style |= f
    tbits = r.choice([0, 0, 0, A, D, A | D])
    flags = style | tbits
    if kind == "nfs4":
        ptype = NFS4
    else:
        ptype = D if (tbits == D and not (style & MARK_DEFAULT) and r.random() < 0.9) else r.choice([A, A, A, POSIX])
    if r.random() < 0.01:
        ptype = r.choice([0, 0x3f00, 7])
    mode = r.choice([0o644, 0o755, 0, 0o777, 0o100640, 0o4751, r.randrange(0o10000)])
    return vfmt([0, wide, mode, ents, flags, ptype])

WITNESS_CASES = [
    # the '#' finding
    vfmt([0, 0, 0o644, [[A, U, 4, 1000, b"foo#bar"]], EXTRA_ID, A]),
    vfmt([0, 1, 0o644, [[A, U, 4, 1000, [ord(c) for c in "foo#bar"]]], EXTRA_ID, A]),
    # heap overflow: nameless NFSv4 user entry, id of 7 digits, char variant, no EXTRA_ID
    vfmt([0, 0, 0o644, [[ALLOW, U, 8, 1234567, b""]], 0, NFS4]),
    vfmt([0, 0, 0o644, [[DENY, G, 0xfff9 | 0x7f000000, INT_MAX, b""]], COMMA, NFS4]),
    # same entry, cases that are fine
    vfmt([0, 0, 0o644, [[ALLOW, U, 8, 123456, b""]], 0, NFS4]),
    vfmt([0, 0, 0o644, [[ALLOW, U, 8, 1234567, b""]], EXTRA_ID, NFS4]),
    vfmt([0, 1, 0o644, [[ALLOW, U, 8, 1234567, []]], 0, NFS4]),
    # NULL dereference in the wchar_t parser
    vfmt([1, 1, [ord(c) for c in "d"], A]),
    vfmt([1, 1, [ord(c) for c in "user::rwx,default"], A]),
    vfmt([1, 0, b"d", A]),
    vfmt([1, 0, b"default", D]),
    # byte after a length-limited text
    vfmt([2, b"user::rwx,group::r-x,other::r-x,user:joe:rwx", A, ord(":")]),
    vfmt([2, b"user::rwx,group::r-x,other::r-x,user:joe:rwx", A, ord("\n")]),
    vfmt([2, b"user::rwx\n", A, ord(":")]),
    vfmt([2, b"user::rwx, ", A, ord("#")]),
    # Solaris two-field form with a bad letter: partial mode accepted without a warning
    vfmt([1, 0, b"default:other:rq", A, [[], [], [[D, O, -1, b"", 0]]]]),
]

PERM_WORDS = ["rwx", "r-x", "---", "r--", "-w-", "--x", "rw-", "RWX", "r", "x", "rwxrwx", "-", "rx", "w--"]
def posix_perm_of(word):
    p = 0
    for ch in word:
        p |= {"r": 4, "R": 4, "w": 2, "W": 2, "x": 1, "X": 1, "-": 0}[ch]
    return p

def pad(r, s):
    if r.random() < 0.15:
        s = r.choice([" ", "\t", "  "]) + s
    if r.random() < 0.15:
        s = s + r.choice([" ", "\t", " \t"])
    return s

def gen_posix_text(r, wide):
    """grammar-aware POSIX.1e text with per-entry expectations:
    returns text (str), ptype, ann = [valid, bad, leak] lists of [type, tag, id, name, perm]"""
    ptype = r.choice([A, A, D, POSIX])
    base_type = A if ptype == POSIX else ptype
    items, valid, bad, leak = [], [], [], []
    used = set()
    for _ in range(r.choice([1, 2, 3, 5, 8])):
        c = r.random()
        dflt = r.random() < 0.4
        typ = D if dflt else base_type
        pre = r.choice(["default:", "d:"]) if dflt else ""
        if c < 0.55:
            which = r.choice(["user", "group"])
            tagw = r.choice([which, which[0]])
            if dflt and r.random() < 0.2:
                pre, tagw = "default", which          # old Solaris "defaultuser"
            pw = r.choice(PERM_WORDS)
            q = r.random()
            if q < 0.45:
                name = r.choice(NAMES_OK[:12] + ["joe%d" % r.randrange(100)])
                trail = r.choice([None, None, r.choice(IDS)])
                ident = trail if trail is not None else -1
                txt = "%s%s:%s:%s" % (pre, tagw if pre == "default" else pad(r, tagw), pad(r, name), pad(r, pw)) + (":%d" % trail if trail is not None else "")
                tup = [typ, U if which == "user" else G, ident, name, posix_perm_of(pw)]
            elif q < 0.75:
                ident = r.choice(IDS)
                txt = "%s%s:%d:%s" % (pre, tagw, ident, pw)
                tup = [typ, U if which == "user" else G, ident, str(ident), posix_perm_of(pw)]
            elif q < 0.85:
                ident = r.choice(IDS)
                txt = "%s%s::%s:%d" % (pre, tagw, pw, ident)
                tup = [typ, U if which == "user" else G, ident, "", posix_perm_of(pw)]
            else:
                ident = None
                txt = "%s%s::%s" % (pre, tagw, pad(r, pw))
                tup = [typ, UO if which == "user" else GO, -1, "", posix_perm_of(pw)]
            # a later entry with the same (type, tag, id) overwrites an earlier one (not for id -1 on user/group)
            slot = (typ, tup[1], ident)
            if ident != -1:
                if slot in used:
                    continue
                used.add(slot)
            items.append(txt); valid.append(tup)
        elif c < 0.75:
            which = r.choice(["other", "mask"])
            tagw = r.choice([which, which[0]])
            pw = r.choice(PERM_WORDS)
            slot = (typ, which)
            if slot in used:
                continue
            used.add(slot)
            txt = "%s%s%s%s" % (pre, tagw, r.choice(["::", ":"]), pw)
            items.append(txt); valid.append([typ, O if which == "other" else M, -1, "", posix_perm_of(pw)])
        elif c < 0.8:
            items.append(r.choice(["#comment", "# user::rwx", "#"]))
            if r.random() < 0.5:
                items[-1] += "\n"          # a comment runs to the next ',' or newline
        elif c < 0.93:
            b = r.choice(["zzz::rwx", "users::rwx", "user::rwq", "user:joe", "group:staff:", "mask:x:rwx", "other::",
                          "usr:joe:rwx", "default:", "d:zzz::rwx", "user:joe:rwx!", ":::", "g", "m"])
            items.append(b); bad.append([0, 0, -1, "", 0])
        else:
            which = r.choice(["other", "mask"])
            slot = (D, which)
            if slot in used:
                continue
            used.add(slot)
            w = r.choice(["rq", "wz", "x9", "rw!"])
            items.append("default:%s:%s" % (which, w))
            leak.append([D, O if which == "other" else M, -1, "", 0])
    text = ""
    for k, it in enumerate(items):
        if it.endswith("\n"):
            text += it
        elif it.endswith(":"):
            # white space skipping at the start of a field crosses a newline: "default:\nmask::rwx" is read as ONE entry
            text += it + ","
        else:
            text += it + (r.choice([",", "\n"]) if (k + 1 < len(items) or r.random() < 0.3) else "")
    return text, ptype, [valid, bad, leak]

NFS4_PERM_LETTERS = {"r": 0x8, "w": 0x10, "x": 0x1, "p": 0x20, "d": 0x800, "D": 0x100, "a": 0x200, "A": 0x400,
                     "R": 0x40, "W": 0x80, "c": 0x1000, "C": 0x2000, "o": 0x4000, "s": 0x8000, "-": 0}
NFS4_FLAG_LETTERS = {"f": 0x02000000, "d": 0x04000000, "i": 0x10000000, "n": 0x08000000, "S": 0x20000000,
                     "F": 0x40000000, "I": 0x01000000, "-": 0}

def gen_nfs4_text(r, wide):
    items, valid, bad = [], [], []
    for _ in range(r.choice([1, 2, 3, 5])):
        c = r.random()
        pl = "".join(ch for ch in "rwxpdDaARWcCos-" if r.random() < 0.4)
        fl = "".join(ch for ch in "fdinSFI-" if r.random() < 0.3)
        perm = 0
        for ch in pl: perm |= NFS4_PERM_LETTERS[ch]
        for ch in fl: perm |= NFS4_FLAG_LETTERS[ch]
        tw, typ = r.choice([("allow", ALLOW), ("deny", DENY), ("audit", AUDIT), ("alarm", ALARM)])
        if c < 0.35:
            tagw, tag = r.choice([("owner@", UO), ("group@", GO), ("everyone@", EV)])
            items.append("%s:%s:%s:%s" % (pad(r, tagw), pl, fl, pad(r, tw)))
            valid.append([typ, tag, -1, "", perm])
        elif c < 0.8:
            tagw, tag = r.choice([("user", U), ("group", G)])
            q = r.random()
            if q < 0.5:
                name = r.choice(NAMES_OK[:12]); trail = r.choice([None, r.choice(IDS)])
                ident = trail if trail is not None else -1
                items.append("%s:%s:%s:%s:%s" % (tagw, name, pl, fl, tw) + (":%d" % trail if trail is not None else ""))
                valid.append([typ, tag, ident, name, perm])
            else:
                ident = r.choice(IDS)
                items.append("%s:%d:%s:%s:%s" % (tagw, ident, pl, fl, tw))
                valid.append([typ, tag, ident, str(ident), perm])
        else:
            items.append(r.choice(["owner:rwx::allow", "owner@:rwz::allow", "user:joe:rwx:q:allow", "group@:rwx::permit",
                                   "everyone@:rwx", "user:joe:rwx::", "Owner@:r::allow", "owner@"]))
            bad.append([0, 0, -1, "", 0])
    text = ""
    for k, it in enumerate(items):
        text += it + ("," if it.endswith(":") else r.choice([",", "\n"]) if (k + 1 < len(items) or r.random() < 0.3) else "")
    return text, NFS4, [valid, bad, []]

SPECIAL_TEXTS = ["", "d", "default", "d:", "default:", ":", "::::::", "::::::::::::::::", "#", "#\n", ",", "\n", " ", "user",
                 "defaultuser::rwx", "defaultx", "default:default:user::rwx", "d:d:u::r", "u::r,d", "u::r\ndefault\n", "u::r, d ,g::r",
                 "user::rwx #c", "user:joe#c:rwx", "u:1:r:2", "u:99999999999:r", "u:2147483648:r", "u:2147483647:r", "u::r:2147483650",
                 "o:r", "m:x", "other:rwx:5", "mask::rwx:", "o::", "default:\nm::rw-", "other::\nd:o::rx", "user:joe:rwx:12:extra:more:fields", "owner@::::", "user:joe::::"]
MUT_CHARS = ":,# \t\n-rwxd0159uogm@"

def mutate(r, s):
    s = list(s)
    for _ in range(r.choice([1, 1, 2, 3])):
        k = r.random()
        pos = r.randrange(len(s) + 1)
        if k < 0.4 and s:
            s[pos % len(s)] = r.choice(MUT_CHARS)
        elif k < 0.7:
            s.insert(pos, r.choice(MUT_CHARS))
        elif k < 0.9 and s:
            del s[pos % len(s)]
        else:
            s = s[:pos]
    return "".join(s)

def enc_text(t, wide):
    if isinstance(t, (bytes, bytearray)):
        return list(t) if wide else bytes(t)
    return [ord(c) for c in t] if wide else t.encode("utf-8")

def ann_enc(ann, wide):
    return [[[t[0], t[1], t[2], enc_name(t[3], wide), t[4]] for t in lst] for lst in ann]

def gen_parse_case(r):
    wide = r.randrange(2)
    c = r.random()
    if c < 0.4:
        text, ptype, ann = (gen_posix_text if r.random() < 0.6 else gen_nfs4_text)(r, wide)
        return vfmt([1, wide, enc_text(text, wide), ptype, ann_enc(ann, wide)])
    if c < 0.7:
        text, ptype, _ = (gen_posix_text if r.random() < 0.6 else gen_nfs4_text)(r, wide)
        return vfmt([1, wide, enc_text(mutate(r, text), wide), ptype])
    if c < 0.8:
        t = r.choice(SPECIAL_TEXTS)
        if r.random() < 0.3:
            t = mutate(r, t)
        return vfmt([1, wide, enc_text(t, wide), r.choice([A, D, POSIX, NFS4, NFS4, 0, 0x400])])
    n = r.choice([1, 2, 3, 5, 8, 13, 30])
    if wide:
        cps = []
        for _ in range(n):
            cp = r.choice([r.randrange(1, 128), r.randrange(1, 128), r.randrange(128, 0x800), r.randrange(0x800, 0xD800),
                           r.randrange(0xE000, 0x10000), r.randrange(0x10000, 0x110000), ord(r.choice(MUT_CHARS))])
            cps.append(cp)
        return vfmt([1, 1, cps, r.choice([A, D, NFS4])])
    bs = bytes(r.choice([r.randrange(256), ord(r.choice(MUT_CHARS))]) for _ in range(n))
    return vfmt([1, 0, bs, r.choice([A, D, NFS4])])

def gen_nl_case(r):
    text, ptype, _ = (gen_posix_text if r.random() < 0.6 else gen_nfs4_text)(r, 0)
    if r.random() < 0.5:
        text = mutate(r, text)
    b = text.encode("utf-8").replace(b"\0", b"")
    sent = r.choice([0, 10, ord(","), ord("#"), ord(" "), ord("d"), ord("u"), ord(":"), r.randrange(256)])
    return vfmt([2, b, ptype, sent])

# ------------------------------------------------------------------ oracle (implementation output only)
def name_text(v):
    """bytes (char variant) or list of code points (wchar_t variant) -> tuple of ints"""
    return tuple(v)

SEP_CHARS = set(b":, \t\n")
def name_in_hypothesis(nm):
    """the property's hypothesis on a qualifier name: none of colon, comma, white space; not purely numeric"""
    if any(c in SEP_CHARS for c in nm):
        return False
    if nm and all(48 <= c <= 57 for c in nm):
        return False
    return True

def oracle(case_line, impl_line):
    case = vparse(case_line)
    try:
        out = vparse(impl_line)
    except Exception:
        return ("C15:unparsable-output", "harness output not parsable")
    op = case[0]
    if op == 0:
        return oracle_roundtrip(case, out)
    return oracle_parse(case, out)

def oracle_roundtrip(case, out):
    wide, flags, ptype = case[1], case[4], case[5]
    adds, before, tl, tinfo = out[0], out[1], out[2], out[3]
    if not tinfo:
        return None
    text, ln = tinfo
    if ln != len(text):
        return ("C15:to_text:len", "length reported by to_text (%d) differs from the length of the text (%d)" % (ln, len(text)))
    if ln + 1 > tl:
        return ("C15:to_text:allocation", "archive_acl_text_len returned %d for a text of %d characters" % (tl, ln))
    parsed = out[4]
    status, pmode, pents = parsed[0], parsed[1], parsed[2]
    bmode, bents = before
    types = 0
    for e in bents:
        types |= e[0]
    if (types & NFS4) and (types & POSIX):
        return None
    if types & NFS4:
        want = NFS4
        if ptype != NFS4:
            return None
    else:
        want = (flags & POSIX) or POSIX
        if ptype not in (A, D, POSIX):
            return None
        if want == D and not (flags & MARK_DEFAULT) and ptype != D:
            return None      # default entries written without the prefix and parsed as access entries
        if (want & A) and ptype == D:
            return None      # access entries (never prefixed) parsed as default entries
    if not (flags & EXTRA_ID):
        return None
    exp, hashname = [], False
    for (typ, tag, perm, ident, name) in bents:
        if not (typ & want):
            continue
        if typ not in (A, D, ALLOW, DENY, AUDIT, ALARM):
            return None
        nm = name_text(name)
        if tag in (U, G):
            if not name_in_hypothesis(nm):
                return None
            if not (0 <= ident <= INT_MAX or (ident == -1 and nm)):
                return None
            if 35 in nm:
                hashname = True
            exp.append((typ, tag, ident, nm if nm else None, perm))
        else:
            if not (typ & NFS4) and any(x[0] == typ and x[1] == tag for x in exp):
                return None     # two POSIX.1e entries of a tag without qualifier (distinguished only by a meaningless id)
            exp.append((typ, tag, None, None, perm))
    got = []
    for (typ, tag, perm, ident, name) in pents:
        got.append((typ, tag, ident if tag in (U, G) else None, name_text(name), perm))
    def matches(exp, got):
        got = list(got)
        for x in exp:
            hit = None
            for k, g in enumerate(got):
                if g[0] == x[0] and g[1] == x[1] and g[2] == x[2] and g[4] == x[4] and (x[3] is None or g[3] == x[3]):
                    hit = k
                    break
            if hit is None:
                return "entry %r lost or altered" % (x,)
            del got[hit]
        if got:
            return "extra entry %r after the round trip" % (got[0],)
        return None
    why = None
    if status != OK:
        why = "parsing the generated text returned status %d" % status
    else:
        why = matches(exp, got)
        if why is None and (want & A) and (bmode & 0o777) != (pmode & 0o777):
            why = "user/group/other permissions %o became %o" % (bmode & 0o777, pmode & 0o777)
    if why:
        shown = bytes(text) if not wide else "".join(chr(c) for c in text)
        if hashname:
            return ("C15:roundtrip:hash-in-name", "qualifier name containing '#' does not survive the round trip: %s; text %r" % (why, shown))
        return ("C15:roundtrip:entries-differ", "ACL changed by to_text/from_text (flags %#x, %s): %s; text %r" %
                (flags, "wchar_t" if wide else "char", why, shown))
    return None

def oracle_parse(case, out):
    op = case[0]
    ptype = case[3] if op == 1 else case[2]
    status, pmode, pents = out[0], out[1], out[2]
    if ptype not in (A, D, POSIX, NFS4):
        if status != FATAL or pents:
            return ("C15:parser:bad-type-arg", "type argument %#x: status %d" % (ptype, status))
        return None
    if status not in (OK, WARN):
        return ("C15:parser:status", "parser returned %d on text input" % status)
    ann = case[4] if (op == 1 and len(case) > 4) else None
    if not ann:
        return None
    valid, bad, leak = ann
    got = [(e[0], e[1], e[3] if e[1] in (U, G) else -1, name_text(e[4]), e[2]) for e in pents]
    if leak:
        for (typ, tag, ident, name, perm) in leak:
            if status == OK and not bad or any(g[0] == typ and g[1] == tag for g in got):
                return ("C15:parser:partial-mode-accepted",
                        "two-field 'other:<mode>'/'mask:<mode>' entry with an invalid mode letter is accepted with the permissions read so far, without a warning")
        return None
    if bad and status != WARN:
        return ("C15:parser:missing-warn", "text with a malformed entry parsed with status %d" % status)
    if not bad and status != OK:
        return ("C15:parser:spurious-warn", "well-formed text parsed with status %d" % status)
    base_type = A if ptype == POSIX else ptype
    for (typ, tag, ident, name, perm) in valid:
        nm = name_text(name)
        if typ == A and tag in (UO, GO, O) and ptype != NFS4:
            sh = {UO: 6, GO: 3, O: 0}[tag]
            if (pmode >> sh) & 7 != perm:
                return ("C15:parser:valid-entry-lost", "well-formed entry (type %#x tag %d perm %o) not reflected in the mode %o" % (typ, tag, perm, pmode))
            continue
        if (typ, tag, ident if tag in (U, G) else -1, nm, perm) not in got:
            return ("C15:parser:valid-entry-lost", "well-formed entry %r missing from the parsed ACL %r" % ((typ, tag, ident, nm, perm), got))
    return None

# ------------------------------------------------------------------ running
def nontrivial(case_line, impl_line):
    c = vparse(case_line)
    if c[0] == 0:
        try:
            o = vparse(impl_line)
        except Exception:
            return False
        return bool(o[3]) and len(o[1][1]) >= 1 and bool(c[4] & EXTRA_ID)
    t = c[2] if c[0] == 1 else c[1]
    return 58 in list(t)

def gen_flags():
    src = open(os.path.join(vlib.COQ, "Gen", "AclConsts.v")).read()
    return {m.group(1): m.group(2) == "true" for m in re.finditer(r"Definition (acl_fix_\w+) : bool := (\w+)\.", src)}

def stable(err):
    """sanitizer report without process ids, addresses and scratch paths (replay files keep their name from run to run)"""
    err = re.sub(r"==\d+==", "==PID==", err)
    err = re.sub(r"0x[0-9a-f]{6,}", "0xADDR", err)
    err = re.sub(r"/var/tmp/verif-\d+/", "/var/tmp/verif-PID/", err)
    err = re.sub(r"\(BuildId: [0-9a-f]+\)", "", err)
    return err

def isolated(rep, exe, case, marker, model_line, counts):
    """a case on which the model predicts a crash / hang / overrun: run it alone"""
    key, what = KEY_OF_MARKER[marker]
    path = vlib.write_cases([case], "acl-iso.cases")
    rc, lines, err = vlib.run_exe(exe, path, timeout=120)
    counts["isolated_runs"] += 1
    if rc != 0 or len(lines) != 1:
        err = stable(err)
        summ = [l for l in err.split("\n") if "ERROR: " in l or "SUMMARY" in l or "runtime error" in l or "TIMEOUT" in l]
        counts["isolated_crashes"] += 1
        rep.violation(key, "%s [%s]" % (what, "; ".join(summ)[:300] or "rc=%s" % rc),
                      dict(correspondence="acl", case=case, model=model_line, stderr=err[:2500],
                           cmd="harness acl on the case line"), found_input=True)
    else:
        # the model says this input cannot be handled, the code handled it: the model is wrong here
        rep.violation("corr:acl:predicted-failure-absent",
                      "model predicts %s but the implementation returned normally" % marker,
                      dict(correspondence="acl", case=case, model=model_line, impl=lines[0],
                           broken="correspondence acl (model predicts abnormal termination)"), found_input=False)

def run_cases(rep, runner, exe, cases):
    path = vlib.write_cases(cases, "acl-all.cases")
    rc, mlines, err = vlib.run_exe(runner, path)
    counts = dict(isolated_runs=0, isolated_crashes=0, predicted_abnormal=0)
    if rc != 0 or len(mlines) != len(cases):
        rep.violation("corr:acl:model-runner", "model runner failed (rc=%s): %s" % (rc, err[-300:]),
                      dict(correspondence="acl", stage="model"), found_input=False)
        return dict(agree=0, disagree=0), counts, []
    normal, per_marker = [], {}
    for c, m in zip(cases, mlines):
        mk = next((k for k in KEY_OF_MARKER if k in m), None)
        if mk is None:
            normal.append(c)
        else:
            counts["predicted_abnormal"] += 1
            per_marker.setdefault(mk, []).append((c, m))
    for mk, lst in per_marker.items():
        for c, m in lst[:(2 if mk == M_HANG else 6)]:
            isolated(rep, exe, c, mk, m, counts)
    impl_lines = {}
    def orc(c, il):
        impl_lines[c] = il
        return oracle(c, il)
    st = vlib.correspond(rep, "acl", runner, exe, normal, oracle=orc)
    return st, counts, [c for c in normal if c in impl_lines and nontrivial(c, impl_lines[c])]

def build():
    runner = vlib.build_runner("acl")
    exe = vlib.compile_harness("acl", "asan", private=True)
    return runner, exe

def run(rep):
    pr = vlib.proof_part(rep, "C15", translators=["gen_defines", "gen_acl"])
    runner, exe = build()
    r = vlib.rng(rep.seed, "C15")
    quick = rep.tier == "quick"
    n_rt, n_p, n_nl = (2500, 2500, 300) if quick else (50000, 50000, 5000)
    cases = list(WITNESS_CASES)
    cases += [gen_acl_case(r) for _ in range(n_rt)]
    cases += [gen_parse_case(r) for _ in range(n_p)]
    cases += [gen_nl_case(r) for _ in range(n_nl)]
    corpus = vlib.load_corpus("C15")
    st, counts, nontriv = run_cases(rep, runner, exe, corpus + cases)
    rep.coverage.update(
        evaluations=len(cases) + len(corpus),
        distinct_nontrivial=len(set(nontriv)),
        rule="(a) generated ACLs: POSIX.1e access+default and NFSv4 (all 4 types), every tag, permission subsets incl. all/none of the "
             "14 perm and 7 inheritance bits, ids {0,1,9,10,..,999999,1000000,2^31-2,2^31-1,random,-1,negative}, names ASCII/UTF-8/"
             "non-BMP/none, also names outside the hypothesis (#, separators, numeric), x style flags (extra-id, mark-default, solaris, "
             "comma, compact) x type bits x {char, wchar_t}: built with archive_entry_acl_add_entry(_w), archive_entry_acl_to_text(_w), "
             "parsed back with archive_entry_acl_from_text(_w) into a fresh entry, both enumerated; (b) parser inputs: grammar-generated "
             "texts with per-entry expectations, their mutations, special texts, random bytes / code points, in exact-size heap blocks; "
             "(c) archive_acl_from_text_nl with an explicit length and a chosen following byte. non-trivial = (a) text produced, at least "
             "one extended entry and EXTRA_ID set (round trip evaluated) / (b,c) text contains a colon",
        samples=[cases[len(WITNESS_CASES)][:300], cases[len(WITNESS_CASES) + n_rt][:300], cases[-1][:300]],
        traces_validated_against_impl=st.get("agree", 0), correspondence=st, isolated=counts,
        source_repairs_detected=gen_flags())
    rep.assumptions += [
        "character-set conversion of names (archive_mstring) is not modelled: the char variant is driven with byte names and "
        "archive_entry_acl_add_entry, the wchar_t variant with code-point names (valid Unicode scalars) and archive_entry_acl_add_entry_w; "
        "names read back through archive_entry_acl_next are converted with mbstowcs in the C.UTF-8 locale by the harness",
        "malloc failure (ENOMEM) paths are not modelled",
        "flags, types, permission sets are non-negative ints; ids are C ints (the model's digit functions are exact below 10^10)",
        "cases on which the model predicts a NULL dereference, an unterminated loop or a buffer overrun are run one per process",
    ]
    vlib.proof_verdict(rep, "C15", pr)

def replay(rep, path):
    d = json.load(open(path))
    case = d["replay"]["case"]
    vlib.run_translators(["gen_defines", "gen_acl"])
    runner, exe = build()
    st, counts, nontriv = run_cases(rep, runner, exe, [case])
    rep.coverage.update(evaluations=1, distinct_nontrivial=len(nontriv), samples=[case[:300]], correspondence=st, isolated=counts)
