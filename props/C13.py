"""C13 - independent handles on different threads (level: partial).

proof part : coq/Properties_C13.v over the footprint model (State/Threads*.v) and the statics table
             regenerated from the object files of this build (translators/gen_statics.py), joined with
             the committed classification props/C13_statics.json.
search     : harness/threads.c linked against the ThreadSanitizer build; k in {2,4,8} threads behind a
             barrier, every thread on its OWN handles; per-thread digests against a sequential run.
oracle     : a TSan report whose location is a libarchive static, a per-thread digest that differs from
             the sequential one, or a crash of the concurrent run  =>  C13:<symbol>.
             A writable static without classification entry, or classified unsynchronised, is a broken
             obligation (statics_ok) even when no race was observed on it in this run."""
import os, re, sys, json, binascii, subprocess, time, shlex
import vlib

LEVEL = "proof"   # level claimed: proof (partial, see evidence assumptions); "partial" is not a schema level
HERE = os.path.dirname(os.path.abspath(__file__))
sys.path.insert(0, os.path.join(vlib.VERIF, "translators"))

TSAN_ENV = {"TSAN_OPTIONS": "halt_on_error=0 report_signal_unsafe=0 exitcode=0 second_deadlock_stack=0 history_size=4",
            "TZ": "UTC"}
WRAP = ["-Wl,--wrap=fcntl", "-Wl,--wrap=fcntl64", "-Wl,--wrap=close"]
LHA_UU = "libarchive/test/test_read_format_lha_lh6.lzh.uu"
Z_UU = "libarchive/test/test_compat_mac-1.tar.Z.uu"

# (name, thread counts, iterations, workloads)      conc = all threads run the list in the same order
QUICK = [
    ("tar-first-use", (2, 8), 1000, "ustar,pax"),              # default_inode; decode_table first use
    ("tar-wrap", (8,), 2200, "ustar"),                         # > 0xffff headers in total: default_dev
    ("tar-family", (4,), 300, "gnutar,Z,targz,Zfile,pax"),     # debug_index (.Z), all tar flavours
    ("lha", (2, 4, 8), 300, "lha"),                            # crc16init/crc16tbl first use
    ("readers", (4,), 300, "cpio,newc,zip,7zip,lha"),
    ("zip-write", (2, 8), 300, "wrzip"),                       # dos_* first use
    ("writers", (4,), 64, "write,wrpax,wrzip"),
    ("disk", (2, 4), 300, "disk"),                             # static lst
    ("disk-old-kernel", (2, 4), 300, "diskold"),               # can_dupfd_cloexec
    ("disk-write", (4,), 100, "diskwr,entry"),
    ("disk-shrink", (2, 4), 40, "diskshrink,disk,ustar"),        # a file truncated under the reader: abort path, stale descriptor
    ("version", (2,), 200, "version"),                         # static str (crashes)
    ("wide-names", (2, 4), 400, "wname,entry"),                # hidden conversion state of the C library (UTF-8 locale)
    ("mix", (8,), 100, "ustar,wrzip,cpio,disk,entry,newc,zip,Z"),
]
THOROUGH_EXTRA = [
    ("tar-first-use", (4,), 5000, "ustar,pax"),
    ("tar-wrap", (2, 4), 9000, "ustar"),
    ("tar-family", (2, 8), 2000, "gnutar,Z,targz,Zfile,pax"),
    ("readers", (2, 8), 2000, "cpio,newc,zip,7zip,lha"),
    ("writers", (2, 8), 640, "write,wrpax,wrzip"),
    ("zip-write", (4,), 3000, "wrzip"),
    ("disk", (8,), 2000, "disk"),
    ("disk-old-kernel", (8,), 2000, "diskold"),
    ("disk-write", (2, 8), 1000, "diskwr,entry"),
    ("version", (4, 8), 1000, "version"),
    ("mix", (2, 4), 1000, "ustar,wrzip,cpio,disk,entry,newc,zip,Z"),
    ("mix2", (2, 4, 8), 500, "pax,write,lha,diskwr,7zip,targz,wrpax,diskold"),
    ("everything", (2, 4, 8), 200, "ustar,pax,gnutar,cpio,newc,zip,7zip,Z,targz,lha,Zfile,write,wrzip,wrpax,disk,diskwr,entry"),
]
# which workloads can reach which static (for attributing a digest difference / crash to a reported global)
TAR_WL = {"ustar", "pax", "gnutar", "Z", "targz", "Zfile"}
REACH = {"default_inode": TAR_WL, "default_dev": TAR_WL, "decode_table": {"pax"}, "debug_index": {"Z", "Zfile"},
         "crc16init": {"lha"}, "crc16tbl": {"lha"}, "lst": {"disk", "diskold"}, "can_dupfd_cloexec": {"diskold"},
         "dos_initialised": {"wrzip", "write"}, "dos_max_unix": {"wrzip", "write"}, "dos_min_unix": {"wrzip", "write"},
         "str": {"version"}}
# rows "libc:<function>" of the table (hidden state of the C library): the workloads whose results pass through them
LIBC_REACH = {"libc:mbrtowc(NULL)": {"wname"}, "libc:wcrtomb(NULL)": {"wname", "entry"}, "libc:mbtowc": {"wname"}, "libc:wctomb": {"wname", "entry"}}
# statics whose value can reach a handle's results (debug_index, can_dupfd_cloexec, dos_* cannot: same values / never read back)
FLOWS = {"default_inode", "default_dev", "decode_table", "crc16init", "crc16tbl", "lst", "str"}
# first-use races exist once per process: repeat those runs
REPEAT_FIRST_USE = {"lha": 3, "zip-write": 3, "tar-first-use": 3}      # thorough tier only

def uudecode(src, dst):
    out = bytearray()
    on = False
    for l in open(src, "rb"):
        if l.startswith(b"begin "):
            on = True
            continue
        if not on:
            continue
        if l.strip() == b"end":
            break
        if l.strip() in (b"`", b""):
            continue
        try:
            out += binascii.a2b_uu(l)
        except binascii.Error:
            n = (((l[0] - 32) & 63) * 4 + 5) // 3
            out += binascii.a2b_uu(l[:n])
    open(dst, "wb").write(out)

def base_sym(name):
    """compiler suffix of function-local statics (lst.1) stripped"""
    return re.sub(r"\.\d+$", "", name)

def load_classification():
    d = json.load(open(os.environ.get("VERIF_C13_CLASSIFICATION") or os.path.join(HERE, "C13_statics.json")))
    return d["statics"]

def classify(cls, obj, sym):
    for e in cls:
        if e["object"] == obj and e["symbol"] == sym:
            return e
    for e in cls:
        if e["object"] == "*" and e["symbol"] == sym:
            return e
    return None

def parse_tsan(stderr):
    """-> list of dict(kind, glob, where, func, text)"""
    reps = []
    blocks = re.split(r"(?m)^={18}\n", stderr)
    for b in blocks:
        m = re.search(r"WARNING: ThreadSanitizer: ([^\n(]+?)\s*\(pid=", b)
        if not m:
            continue
        kind = m.group(1).strip()
        g = re.search(r"Location is global '([^']+)' of size (\d+)", b)
        s = re.search(r"SUMMARY: ThreadSanitizer: [^\n]*? (\S+):(\d+) in (\S+)", b)
        where = "%s:%s" % (os.path.basename(s.group(1)), s.group(2)) if s else "?"
        func = s.group(3) if s else "?"
        inlib = "/libarchive/" in (s.group(1) if s else "") or "/libarchive/" in b
        reps.append(dict(kind=kind, glob=base_sym(g.group(1)) if g else None, where=where, func=func,
                         inlib=inlib, text=b.strip()[:1800]))
    m = re.search(r"ThreadSanitizer: (SEGV|nested bug|CHECK failed)[^\n]*", stderr)
    fatal = m.group(0) if m else None
    return reps, fatal

class Harness:
    def __init__(self):
        self.exe = vlib.compile_harness("threads", "tsan", extra=WRAP)
        sc = vlib.scratch()
        self.lha = os.path.join(sc, "c13.lzh")
        self.z = os.path.join(sc, "c13.tar.Z")
        uudecode(os.path.join(vlib.REPO, LHA_UU), self.lha)
        uudecode(os.path.join(vlib.REPO, Z_UU), self.z)
        self.n = 0

    def run(self, mode, k, iters, workloads, timeout=900):
        self.n += 1
        wd = os.path.join(vlib.scratch(), "c13wd%d" % self.n)
        os.makedirs(wd, exist_ok=True)
        argv = [self.exe, mode, str(k), str(iters), workloads, wd, self.lha, self.z]
        env = dict(os.environ)
        env.update(TSAN_ENV)
        t0 = time.time()
        try:
            p = subprocess.run(argv, stdout=subprocess.PIPE, stderr=subprocess.PIPE, env=env, timeout=timeout)
            rc, out, err = p.returncode, p.stdout.decode("utf-8", "replace"), p.stderr.decode("utf-8", "replace")
        except subprocess.TimeoutExpired as ex:
            rc, out, err = 124, (ex.stdout or b"").decode("utf-8", "replace"), "TIMEOUT after %ds" % timeout
        subprocess.run(["rm", "-rf", wd])
        digests = {}
        badclose = 0
        for l in out.split("\n"):
            f = l.split()
            if len(f) == 6 and f[0] == "D":
                digests[(f[1], int(f[3]))] = (f[4], int(f[5]))
            if len(f) == 3 and f[0] == "X" and f[1] == "badclose":
                badclose = int(f[2])
        cmd = "TSAN_OPTIONS='%s' TZ=UTC harness/threads(tsan) %s %d %d %s <workdir> <%s decoded> <%s decoded>" % (
            TSAN_ENV["TSAN_OPTIONS"], mode, k, iters, workloads, LHA_UU, Z_UU)
        return dict(rc=rc, digests=digests, badclose=badclose, stderr=err, secs=time.time() - t0, cmd=cmd,
                    spec=dict(mode=mode, k=k, iters=iters, workloads=workloads))

def evaluate(rep, h, plan, table, cls, cov, repeat=None):
    """runs the plan; returns (tsan symbols seen, summary records)"""
    seen = {}            # symbol -> dict(report, run)
    other = []           # reports without a global location, in runs without any global report
    problems = []        # digest mismatches / crashes not explained by a reported global
    runs = []
    matched = 0
    seq_cache = {}
    for name, ks, iters, wls in plan:
        key = (iters, wls)
        if key not in seq_cache:
            seq_cache[key] = h.run("seq", 1, iters, wls)
        sq = seq_cache[key]
        if sq["rc"] != 0 or not sq["digests"]:
            rep.violation("C13:harness:sequential-run", "sequential reference run of %s failed rc=%s: %s" %
                          (wls, sq["rc"], sq["stderr"][-300:]), dict(run=sq["spec"], cmd=sq["cmd"]), found_input=False)
            continue
        if sq.get("badclose"):
            rep.violation("C13:fd:closed-twice", "%d close() call(s) on a descriptor that was not open (EBADF) in the single-threaded run of %s: "
                          "a handle closed a descriptor twice; with another thread in between that is another handle's file" % (sq["badclose"], wls),
                          dict(run=sq["spec"], cmd=sq["cmd"]), found_input=True)
        sreps, _ = parse_tsan(sq["stderr"])
        if sreps:
            rep.violation("C13:tsan-in-sequential-run", "ThreadSanitizer report in the single-threaded run: %s" % sreps[0]["text"][:300],
                          dict(run=sq["spec"], cmd=sq["cmd"]), found_input=True)
        for k in ks:
            for _ in range((repeat or {}).get(name, 1)):
                r = h.run("conc", k, iters, wls)
                if r.get("badclose"):
                    rep.violation("C13:fd:closed-twice", "%d close() call(s) hit a descriptor that was not open (EBADF) with %d threads running %s: "
                                  "some handle closed a descriptor it no longer owned" % (r["badclose"], k, wls),
                                  dict(run=r["spec"], cmd=r["cmd"]), found_input=True)
                reps, fatal = parse_tsan(r["stderr"])
                globs = sorted(set(x["glob"] for x in reps if x["glob"]))
                rec = dict(mix=name, k=k, iters=iters, workloads=wls, rc=r["rc"], secs=round(r["secs"], 1),
                           tsan_reports=len(reps), globals=globs, fatal=fatal)
                bad = []          # (workload, text)
                for (w, tid), (dg, calls) in sorted(r["digests"].items()):
                    ref = sq["digests"].get((w, 0))
                    if ref is None or ref[0] != dg:
                        bad.append((w, "%s/thread %d: %s (sequential %s)" % (w, tid, dg, ref[0] if ref else "?")))
                    else:
                        matched += 1
                wset = set(wls.split(","))
                expected = k * len(wset)
                crashed = r["rc"] != 0 or len(r["digests"]) != expected
                rec["digest_mismatches"] = len(bad)
                rec["crashed"] = crashed
                runs.append(rec)
                for x in reps:
                    if x["glob"] and x["glob"] not in seen:
                        seen[x["glob"]] = dict(report=x, run=r, notes=[])
                unexplained = []
                for w in sorted(set(b[0] for b in bad)):
                    txt = "per-thread digests differ from the sequential run: " + "; ".join(b[1] for b in bad if b[0] == w)[:160]
                    gs = [g for g in globs if g in FLOWS and w in REACH[g]]
                    if "default_inode" in gs:
                        gs = [g for g in gs if g in ("default_inode", "default_dev")]
                    if not gs:          # statics this file knows nothing about (new ones)
                        gs = [g for g in globs if g not in REACH]
                    for g in gs:
                        if txt not in seen[g]["notes"] and len(seen[g]["notes"]) < 3:
                            seen[g]["notes"].append(txt)
                            seen[g].setdefault("effect_run", r)
                    if not gs:
                        unexplained.append(txt)
                if crashed:
                    txt = "the concurrent run did not finish (rc=%s, %d/%d digests%s)" % (
                        r["rc"], len(r["digests"]), expected, ", " + fatal if fatal else "")
                    gs = [g for g in globs if REACH.get(g, wset) & wset]
                    for g in gs:
                        if len(seen[g]["notes"]) < 3:
                            seen[g]["notes"].append(txt)
                            seen[g]["effect_run"] = r
                    if not gs:
                        unexplained.append(txt)
                if unexplained:
                    problems.append((name, k, r, unexplained))
                if not globs:
                    for x in reps:
                        if x["inlib"]:
                            other.append((name, k, r, x))
    cov["runs"] = runs
    cov["digests_equal_to_sequential"] = matched
    return seen, other, problems

def report(rep, table, cls, seen, other, problems):
    for obj, sym, size, sec in table:
        e = classify(cls, obj, sym)
        hit = seen.get(sym)
        if e is not None and not e["class"].startswith("unsynchronised"):
            if hit:
                rep.violation("C13:%s" % sym, "ThreadSanitizer %s on %s (%s) although it is classified %s: %s in %s" %
                              (hit["report"]["kind"], sym, obj, e["class"], hit["report"]["where"], hit["report"]["func"]),
                              replay_of(hit), found_input=True)
            continue
        cl_txt = ("UNCLASSIFIED writable static (%s, %d bytes, %s): no entry in props/C13_statics.json" % (obj, size, sec)
                  if e is None else
                  "classified unsynchronised (%s, %d bytes; %s): %s" % (obj, size, ", ".join(e["functions"]), e["why"]))
        if hit:
            x = hit["report"]
            what = "static %s: ThreadSanitizer %s at %s in %s, %d threads on independent handles (%s)" % (
                sym, x["kind"], x["where"], x["func"], hit["run"]["spec"]["k"], hit["run"]["spec"]["workloads"])
            if hit["notes"]:
                what += "; " + " | ".join(hit["notes"])[:200]
            rep.violation("C13:%s" % sym, what + " || " + cl_txt, replay_of(hit), found_input=True)
        else:
            eff = [(name, k, r, note) for name, k, r, note in problems if set(r["spec"]["workloads"].split(",")) & LIBC_REACH.get(sym, set())]
            if eff:
                name, k, r, note = eff[0]
                rep.violation("C13:%s" % sym, "%s (%s): no lock, and with %d threads on independent handles (%s) %s || %s" %
                              (sym, obj, k, r["spec"]["workloads"], " | ".join(note)[:300], cl_txt),
                              dict(run=r["spec"], cmd=r["cmd"], stderr=r["stderr"][-1500:]), found_input=True)
                continue
            rep.violation("C13:%s" % sym, "static %s: obligation statics_ok broken, no race observed on it in this run || %s" % (sym, cl_txt),
                          dict(broken="statics_ok", object=obj, symbol=sym, section=sec), found_input=False)
    intable = set(s for _, s, _, _ in table)
    for sym, hit in sorted(seen.items()):
        if sym in intable:
            continue
        x = hit["report"]
        rep.violation("C13:%s" % sym, "ThreadSanitizer %s on global %s (not in the statics table of the plain build) at %s in %s%s" %
                      (x["kind"], sym, x["where"], x["func"], " || " + " | ".join(hit["notes"])[:300] if hit["notes"] else ""),
                      replay_of(hit), found_input=True)
    for name, k, r, x in other[:20]:
        rep.violation("C13:race:%s" % x["func"], "ThreadSanitizer %s at %s in %s between threads on independent handles (no global location; %s, k=%d)" %
                      (x["kind"], x["where"], x["func"], r["spec"]["workloads"], k),
                      dict(run=r["spec"], cmd=r["cmd"], report=x["text"]), found_input=True)
    for name, k, r, note in problems:
        rep.violation("C13:%s:%s" % ("crash" if r["rc"] != 0 or "did not finish" in " ".join(note) else "digest", name),
                      "%s with %d threads on independent handles: %s" % (r["spec"]["workloads"], k, " | ".join(note)[:400]),
                      dict(run=r["spec"], cmd=r["cmd"], stderr=r["stderr"][-1500:]), found_input=True)

def replay_of(hit):
    r = hit.get("effect_run") or hit["run"]
    return dict(run=r["spec"], cmd=r["cmd"], report=hit["report"]["text"], notes=hit["notes"])

def statics_table():
    import gen_statics
    table, nobj = gen_statics.collect(vlib.build_repo("plain"))
    return table, nobj

def run(rep):
    pr = vlib.proof_part(rep, "C13", translators=["gen_statics"])
    table, nobj = statics_table()
    cls = load_classification()
    h = Harness()
    plan = list(QUICK) if rep.tier == "quick" else list(QUICK) + list(THOROUGH_EXTRA)
    cov = {}
    seen, other, problems = evaluate(rep, h, plan, table, cls, cov, repeat=REPEAT_FIRST_USE if rep.tier != "quick" else None)
    report(rep, table, cls, seen, other, problems)
    nconc = len(cov["runs"])
    overl = set((r["workloads"], r["k"]) for r in cov["runs"])
    joined = []
    for obj, sym, size, sec in table:
        e = classify(cls, obj, sym)
        joined.append(dict(object=obj, symbol=sym, size=size, section=sec,
                           **{"class": e["class"] if e else "UNCLASSIFIED"},
                           functions=e["functions"] if e else [], tsan_reported=sym in seen,
                           tsan=("%s %s in %s" % (seen[sym]["report"]["kind"], seen[sym]["report"]["where"], seen[sym]["report"]["func"])) if sym in seen else None))
    rep.coverage.update(
        evaluations=nconc,
        distinct_nontrivial=len(overl),
        rule="one evaluation = one process with k in {2,4,8} threads released together by a barrier, each running its workload list "
             "(read ustar/pax/gnutar/cpio/newc/zip/7zip/lha/.Z/.gz from memory, write 16 format x filter combinations to memory, "
             "archive_read_disk on an own directory, archive_write_disk, archive_version_details, entry text conversions) for the given "
             "number of iterations on handles of its own, under ThreadSanitizer, compared per thread and workload with the digest of a "
             "single-threaded run; non-trivial = distinct (workload list, k) with k >= 2",
        samples=[r_["mix"] + ": conc %d %d %s" % (r_["k"], r_["iters"], r_["workloads"]) for r_ in cov["runs"][:6]],
        traces_validated_against_impl=cov["digests_equal_to_sequential"],
        statics_objects_scanned=nobj, statics_table=joined,
        tsan_globals_reported=sorted(seen.keys()),
        tsan_reports_without_global=len(other),
        runs=cov["runs"])
    rep.assumptions += [
        "C memory model is outside Coq: the theorems are about the footprint abstraction (State/ThreadsDefs.v); the statics table "
        "(objdump over the object files of this build) and the ThreadSanitizer run tie it to the binary",
        "the statics table is that of THIS build configuration (zlib crc32 and libc arc4random_buf are used, so archive_crc32.h's table "
        "and archive_random.c's generator state are not compiled in; props/C13_statics.json classifies them for other configurations)",
        "ThreadSanitizer sees races only on paths the workloads execute, and first-use races once per process",
        "dev/ino of tar entries are digested relative to the first entry of the same handle (a process-wide counter gives consecutive "
        "numbers to a handle used alone, whatever ran before)",
        "disk-writer permissions (umask exception) and chdir are outside the digests; directories are opened by absolute path",
        "can_dupfd_cloexec is exercised by failing fcntl(F_DUPFD_CLOEXEC) through --wrap=fcntl in the harness (the old kernels named in the source comment)",
    ]
    vlib.proof_verdict(rep, "C13", pr)

def replay(rep, path):
    d = json.load(open(path))
    spec = d["replay"].get("run")
    table, nobj = statics_table()
    cls = load_classification()
    if not spec:
        # a broken obligation without a failing schedule: re-evaluate the table
        report(rep, table, cls, {}, [], [])
        rep.coverage.update(evaluations=0, distinct_nontrivial=0, samples=[])
        return
    h = Harness()
    cov = {}
    seen, other, problems = evaluate(rep, h, [("replay", (spec["k"],), spec["iters"], spec["workloads"])], table, cls, cov)
    want = d.get("key", "")
    report(rep, [t for t in table if "C13:%s" % t[1] == want or t[1] in seen], cls, seen, other, problems)
    rep.coverage.update(evaluations=len(cov["runs"]), distinct_nontrivial=1,
                        samples=["conc %d %d %s" % (spec["k"], spec["iters"], spec["workloads"])], runs=cov["runs"])
