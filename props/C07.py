"""C07 - any call sequence on a handle is safe; illegal order fails fatally.

proof part   : coq/Properties_C07.v over the table of archive_check_magic sites regenerated from /repo
               (translators/gen_magic.py -> coq/Gen/MagicTable.v)
correspondence A (scripted back ends, reader and writer): the statuses returned by the format / client
               callbacks are part of the case; extracted model and real core run the same line (exact diff)
correspondence B (real back ends, all five kinds): harness first, then the model is asked whether SOME
               back-end behaviour explains the observed (status, archive.state) of every call
oracle       : evaluated on what the implementation did, independent of the model (see oracle_*)."""
import os, re, json, itertools
import vlib
from vlib import vfmt, vparse

LEVEL = "proof"

OK, EOF, RETRY, WARN, FAILED, FATAL = 0, 1, -10, -20, -25, -30
D = [OK, EOF, RETRY, WARN, FAILED, FATAL]
NEW, HEADER, DATA, S_EOF, CLOSED, S_FATAL = 1, 2, 4, 0x10, 0x20, 0x8000
ANYST = {NEW, HEADER, DATA, S_EOF, CLOSED}
ALL = ANYST | {S_FATAL}
RM, WM, RDM, WDM, MM = 0xdeb0c5, 0xb0c5c0de, 0xbadb0c5, 0xc001b0c5, 0xcad11c9
ANY_STATE = 0xFFFFFFFF
KINDS = ["read", "write", "read_disk", "write_disk", "match"]

# ------------------------------------------------------------------ model op constructors
def Q(f, magic, r): return [0, f, magic, r]
def NOCHECK(r=0): return [1, r]
def FAIL(): return [2]
def PAIR(f1, f2, magic): return [33, f1, f2, magic]

# ================================================================== A: scripted programs
R_QUERIES = [("archive_read_set_open_callback", [OK]), ("archive_read_set_callback_data2", [OK]),
             ("archive_read_add_passphrase", [OK, FAILED]), ("archive_read_header_position", [0]),
             ("_archive_set_options", [OK])]
W_QUERIES = [("archive_write_set_bytes_per_block", [OK]), ("archive_write_get_bytes_per_block", [10240]),
             ("archive_write_set_bytes_in_last_block", [OK]), ("_archive_set_options", [OK])]
W_FORMATS = ["archive_write_set_format_ustar", "archive_write_set_format_pax_restricted"]

def st(r, odd=True):
    c = r.random()
    if c < 0.45: return OK
    if odd and c > 0.97: return r.choice([-31, 5, -1, 2])
    return r.choice(D)

def gen_blocks(r):
    blocks, off = [], r.choice([0, 0, 0, 7])
    for _ in range(r.choice([0, 1, 1, 2, 3])):
        c = r.random()
        if c < 0.15: off += r.choice([1, 50, 4000])          # hole
        elif c < 0.22: off = max(0, off - r.choice([1, 30]))  # out of order
        sz = r.choice([0, 1, 10, 100, 100, 4096])
        s = r.choice([OK] * 6 + [EOF, WARN, FATAL, RETRY, FAILED])
        blocks.append([s, sz, off])
        off += sz
    return blocks

def scripted_reader_op(r):
    c = r.random()
    if c < 0.07: return [3]
    if c < 0.15:
        f, rs = r.choice(R_QUERIES); return Q(f, RM, r.choice(rs))
    if c < 0.19: return NOCHECK(0)
    if c < 0.21: return FAIL()
    if c < 0.30: return [4, r.choice([0] * 6 + [FATAL, WARN, 1, FAILED]), r.choice([OK] * 5 + [FATAL]), r.choice([1] * 5 + [0])]
    if c < 0.52: return [6, st(r), st(r)]
    if c < 0.60: return [7, st(r, False)]
    if c < 0.78: return [8, r.choice([1, 10, 100, 5000]), gen_blocks(r)]
    if c < 0.86: return [10, st(r)]
    if c < 0.90: return [11, r.choice([0, 1]), r.choice([0, 100, FATAL, FAILED])]
    return [12, r.choice([OK, OK, FATAL, WARN, 1])]

def scripted_writer_op(r):
    c = r.random()
    if c < 0.10: return [14, r.choice(W_FORMATS), OK]
    if c < 0.17:
        f, rs = r.choice(W_QUERIES); return Q(f, WM, r.choice(rs))
    if c < 0.20: return NOCHECK(0)
    if c < 0.24: return FAIL()
    if c < 0.34: return [15, r.choice([OK] * 6 + [FATAL, WARN, FAILED, 1]), st(r, False)]
    if c < 0.56: return [16, st(r), OK, st(r)]
    if c < 0.72: return [17, r.choice([3, 3, 0, FATAL, FAILED, WARN])]
    if c < 0.84: return [18, st(r)]
    return [19, st(r, False), st(r, False), OK]

def gen_scripted(r, kind, maxlen=40):
    n = r.choice([1, 2, 3, 5, 8, 12, 20, maxlen])
    ops = []
    if r.random() < 0.6:       # a legal prefix, so that deep states are reached often
        if kind == 0:
            ops += [[3], [4, 0, OK, 1]]
            for _ in range(r.randrange(0, 3)):
                ops += [[6, OK, OK]] + ([[8, 100, gen_blocks(r)]] if r.random() < 0.5 else [])
        else:
            ops += [[14, r.choice(W_FORMATS), OK], [15, OK, OK]]
            for _ in range(r.randrange(0, 3)):
                ops += [[16, OK, OK, OK]] + ([[17, 3]] if r.random() < 0.5 else [])
    gen = scripted_reader_op if kind == 0 else scripted_writer_op
    ops += [gen(r) for _ in range(n)]
    ops = ops[:maxlen]
    ops.append([13, r.choice([OK, OK, FATAL])] if kind == 0 else [20, st(r, False), st(r, False), OK, st(r, False)])
    return vfmt([0, kind, ops])

def enum_scripted(kind, depth):
    """every sequence of up to `depth` calls over a representative op set, then free"""
    if kind == 0:
        base = [[3], [4, 0, OK, 1], [4, 0, FATAL, 1], [6, OK, OK], [6, OK, EOF], [6, OK, FATAL], [6, FATAL, OK], [7, OK],
                [8, 10, [[OK, 100, 0]]], [10, OK], [11, 1, 0], [12, OK], FAIL(), Q("archive_read_header_position", RM, 0)]
        fin = [13, OK]
        pre = [[], [[3], [4, 0, OK, 1]], [[3], [4, 0, OK, 1], [6, OK, OK]]]
    else:
        base = [[14, W_FORMATS[0], OK], [15, OK, OK], [15, FATAL, OK], [16, OK, OK, OK], [16, OK, OK, FATAL], [17, 3],
                [18, OK], [19, OK, OK, OK], FAIL(), Q("archive_write_get_bytes_per_block", WM, 10240)]
        fin = [20, OK, OK, OK, OK]
        pre = [[], [[14, W_FORMATS[0], OK], [15, OK, OK]], [[14, W_FORMATS[0], OK], [15, OK, OK], [16, OK, OK, OK]]]
    out = []
    for p in pre:
        for d in range(0, depth + 1):
            for seq in itertools.product(base, repeat=d):
                out.append(vfmt([0, kind, p + list(seq) + [fin]]))
    return out

# what the API contract allows, per scripted op code: states in which the call is legal (None = always)
R_LEGAL = {3: {NEW}, 4: {NEW}, 6: {HEADER, DATA}, 7: {DATA}, 8: {DATA}, 10: {DATA}, 11: {DATA}, 12: None, 13: None, 1: None, 2: None}
W_LEGAL = {14: {NEW}, 15: {NEW}, 16: {HEADER, DATA}, 17: {DATA}, 18: {HEADER, DATA}, 19: None, 20: None, 1: None, 2: None}
Q_LEGAL = {"archive_read_set_open_callback": {NEW}, "archive_read_set_callback_data2": {NEW}, "archive_read_add_passphrase": {NEW},
           "archive_read_header_position": ANYST, "_archive_set_options": {NEW}, "archive_write_set_bytes_per_block": {NEW},
           "archive_write_get_bytes_per_block": ANYST, "archive_write_set_bytes_in_last_block": ANYST}

def oracle_scripted(case_line, impl_line):
    mode, kind, ops = vparse(case_line)
    try:
        out = vparse(impl_line)
    except Exception:
        return ("C07:unparsable-output", "harness output not parsable: %s" % impl_line[:80])
    if out and out[0] == b"CRASH":
        return ("C07:crash:scripted-%s" % KINDS[kind], "the process died while executing the call program (%s)" % impl_line)
    calls, counters, leak, fdleak = out[:-3], out[-3], out[-2], out[-1]
    if len(calls) != len(ops):
        return ("C07:output-count", "number of results differs from number of calls")
    state = NEW
    failed = dead = False
    for k, (op, (status, after)) in enumerate(zip(ops, calls)):
        code = op[0]
        name = op[1].decode() if code in (0, 14) else None
        legal = Q_LEGAL.get(name) if code == 0 else (R_LEGAL if kind == 0 else W_LEGAL).get(code, None)
        where = "call #%d (op %s) in state %#x of a scripted %s" % (k, name or code, state, KINDS[kind])
        if legal is not None and state not in legal:
            if code == 8 and status != FATAL:
                return ("C07:magic:archive_read_data", "archive_read_data has no state check: %s returned %d (buffered bytes are handed out)" % (where, status))
            if status != FATAL or after != S_FATAL:
                return ("C07:illegal-not-fatal:%s:%s" % (KINDS[kind], name or code),
                        "illegal %s returned %d and left state %#x (want -30 / 0x8000)" % (where, status, after))
        if code == 6 and (dead or failed) and status in (OK, WARN):
            return ("C07:entry-after-end:read", "%s yields an entry after end of archive / failure" % where)
        if code == 6 and status in (EOF, FATAL):
            dead = True
        if after == S_FATAL:
            failed = True
        state = after
    if kind == 0 and counters[0] != counters[1]:
        return ("C07:free-leak:read:client-close", "client data source opened %d times but closed %d times by the end" % (counters[0], counters[1]))
    if kind == 1 and counters[2] != counters[3]:
        return ("C07:free-leak:write:client-close", "client opened %d times, close callback ran %d times (free callback %d)" % (counters[2], counters[3], counters[4]))
    if leak or fdleak:
        return ("C07:free-leak:%s" % KINDS[kind], "%d heap bytes / %d descriptors still allocated after the final free" % (leak, fdleak))
    return None

# ================================================================== B: real back ends
# real op tables: code -> (name, legal states or None, default args)
REAL_OPS = {
    0: {0: ("support_format_all", {NEW}, [0]), 1: ("support_filter_all", {NEW}, [0]), 2: ("set_options", {NEW}, [0, 1, 2]),
        3: ("open_memory", {NEW}, [0]), 4: ("next_header", {HEADER, DATA}, [0]), 5: ("next_header2", {HEADER, DATA}, [0]),
        6: ("read_data", {DATA}, [10, 1000, 65536]), 7: ("read_data_block", {DATA}, [0]), 8: ("data_skip", {DATA}, [0]),
        9: ("seek_data", {DATA}, [0]), 10: ("close", None, [0]), 11: ("free", None, [0]), 12: ("error accessors", None, [0]),
        13: ("header_position", ANYST, [0]), 14: ("add_passphrase", {NEW}, [0]), 15: ("open1", {NEW}, [0]),
        16: ("support_format_tar", {NEW}, [0]), 17: ("support_filter_gzip", {NEW}, [0])},
    1: {0: ("set_format", {NEW}, [0, 1, 2, 3]), 1: ("add_filter", {NEW}, [0, 0, 1, 2]), 2: ("set_options", {NEW}, [0, 1, 2]),
        3: ("open_memory", {NEW}, [0]), 4: ("write_header", {HEADER, DATA}, [0, 1, 2]), 5: ("write_data", {DATA}, [0, 100, 4096]),
        6: ("finish_entry", {HEADER, DATA}, [0]), 7: ("close", None, [0]), 8: ("fail", None, [0]), 9: ("free", None, [0]),
        10: ("error accessors", None, [0]), 11: ("set_bytes_per_block", {NEW}, [0]), 12: ("get_bytes_per_block", ANYST, [0])},
    2: {0: ("set_standard_lookup", ANYST, [0]), 1: ("set_behavior", ANYST, [0, 1]), 2: ("set_symlink_logical", ANYST, [0]),
        3: ("open", {NEW, CLOSED}, [0]), 4: ("next_header2", {HEADER, DATA}, [0]), 5: ("read_data_block", {DATA}, [0]),
        6: ("descend", {HEADER, DATA}, [0]), 7: ("close", None, [0]), 8: ("free", None, [0]), 9: ("error accessors", None, [0]),
        10: ("read_data", {DATA}, [10, 65536]), 11: ("next_header", {HEADER, DATA}, [0])},
    3: {0: ("set_options", ANYST, [0, 1, 2]), 1: ("set_standard_lookup", ANYST, [0]), 2: ("write_header", {HEADER, DATA}, [0, 1, 2, 3, 4]),
        3: ("write_data", {DATA}, [0, 10, 4096]), 4: ("write_data_block", {DATA}, [10]), 5: ("finish_entry", {HEADER, DATA}, [0]),
        6: ("close", None, [0]), 7: ("fail", None, [0]), 8: ("free", None, [0]), 9: ("error accessors", None, [0]),
        10: ("set_skip_file", ANYST, [0])},
    4: {0: ("include_pattern", {NEW}, [0]), 1: ("include_pattern(empty)", {NEW}, [0]), 2: ("exclude_pattern", {NEW}, [0]),
        3: ("include_uid", {NEW}, [0]), 4: ("excluded", {NEW}, [0]), 5: ("path_excluded", {NEW}, [0]),
        6: ("include_date(bad)", {NEW}, [0]), 7: ("free", None, [0]), 8: ("error accessors", None, [0]),
        9: ("include_uname", {NEW}, [0]), 10: ("include_time", {NEW}, [0])},
}
FREE_OP = {0: 11, 1: 9, 2: 8, 3: 8, 4: 7}
CLOSE_OP = {0: 10, 1: 7, 2: 7, 3: 6}
FAIL_OP = {1: 8, 3: 7}
NEXT_OPS = {0: (4, 5), 2: (4, 11)}
VARIANTS = {0: [0, 1, 2, 3, 4, 5], 1: [0, 1], 2: [0, 1, 2], 3: [0], 4: [0]}
VARIANT_NAMES = {0: ["valid ustar", "valid ustar.gz", "empty input", "ustar cut inside a body", "gzip stream with damaged middle",
                     "ustar with a garbage second header"], 1: ["large memory buffer", "memory buffer too small"],
                 2: ["directory tree", "missing path", "empty file"], 3: ["scratch directory"], 4: ["matcher"]}
INIT_STATE = {0: NEW, 1: NEW, 2: NEW, 3: HEADER, 4: NEW}
HAPPY = {0: [[0, 0], [1, 0], [3, 0], [4, 0]], 1: [[0, 0], [3, 0], [4, 0]], 2: [[3, 0], [4, 0]], 3: [[0, 1], [2, 0]], 4: [[0, 0]]}

def real_op(r, kind):
    code = r.choice(list(c for c in REAL_OPS[kind] if c != FREE_OP[kind]))
    w = r.random()
    if kind in NEXT_OPS and w < 0.25: code = r.choice(NEXT_OPS[kind])
    elif kind in (0, 2) and w < 0.40: code = r.choice([6, 7] if kind == 0 else [5, 10])
    elif kind in (1, 3) and w < 0.35: code = r.choice([4, 5] if kind == 1 else [2, 3])
    return [code, r.choice(REAL_OPS[kind][code][2])]

def gen_real(r, kind, maxlen=40):
    variant = r.choice(VARIANTS[kind])
    n = r.choice([1, 2, 3, 5, 8, 12, 20, maxlen])
    ops = []
    if r.random() < 0.65:
        hp = HAPPY[kind]
        ops += [list(o) for o in hp[:r.randrange(1, len(hp) + 1)]]
        if kind == 1 and r.random() < 0.4: ops.insert(1, [1, 0])
    ops += [real_op(r, kind) for _ in range(n)]
    ops = ops[:maxlen] + [[FREE_OP[kind], 0]]
    return vfmt([1, kind, variant, ops])

def enum_real(kind, depth):
    codes = [c for c in sorted(REAL_OPS[kind]) if c != FREE_OP[kind]]
    out = []
    prefixes = [[]] + [[list(o) for o in HAPPY[kind][:k]] for k in range(1, len(HAPPY[kind]) + 1)]
    for variant in VARIANTS[kind]:
        for p in prefixes:
            for d in range(0, depth + 1):
                if variant != VARIANTS[kind][0] and d > 1:
                    continue
                for seq in itertools.product(codes, repeat=d):
                    ops = p + [[c, REAL_OPS[kind][c][2][0]] for c in seq] + [[FREE_OP[kind], 0]]
                    out.append(vfmt([1, kind, variant, ops]))
    return out

FIXED_REAL = [
    # the call sequences of the findings reproduced by hand during the design round (run first)
    vfmt([1, 3, 0, [[0, 1], [2, 0], [5, 0], [3, 10], [6, 0], [8, 0]]]),    # write_disk: dir 0555 (fixup), finish_entry, write_data in HEADER -> FATAL, close, free
    vfmt([1, 3, 0, [[0, 1], [2, 2], [7, 0], [8, 0]]]),                     # write_disk: file open (DATA), fail, free
    vfmt([1, 1, 0, [[0, 0], [5, 1], [7, 0], [9, 0]]]),                     # writer: format set, write_data in NEW -> FATAL, close
    vfmt([1, 1, 0, [[0, 0], [1, 0], [3, 0], [8, 0], [9, 0]]]),             # writer: open, fail, free without close
    vfmt([1, 1, 0, [[0, 0], [1, 1], [3, 0], [9, 0]]]),                     # writer: filter that cannot be opened behind an opened client, free
    vfmt([1, 1, 0, [[0, 0], [1, 1], [3, 0], [7, 0], [9, 0]]]),             # ... close, free
    vfmt([1, 1, 0, [[0, 0], [1, 0], [1, 1], [3, 0], [4, 0], [7, 0], [9, 0]]]),   # gzip in front of the failing filter
    vfmt([1, 0, 1, [[0, 0], [1, 0], [3, 0], [4, 0], [6, 10], [10, 0], [6, 10], [11, 0]]]),   # reader: read_data after close (gzip)
    vfmt([1, 0, 0, [[0, 0], [1, 0], [3, 0], [4, 0], [6, 10], [3, 0], [6, 10], [11, 0]]]),    # reader: read_data on a failed handle
    vfmt([1, 0, 0, [[0, 0], [3, 0], [3, 0], [11, 0]]]),                    # reader: open_memory twice
    vfmt([1, 4, 0, [[1, 0], [7, 0]]]),                                     # matcher: error string, free
]

def leak_key(kind, ops, calls):
    states = [INIT_STATE[kind]] + [c[1] for c in calls]
    before = lambda k: states[k]
    name = KINDS[kind]
    if kind == 4:
        return "C07:free-leak:match"
    nsupport = 0
    for k, op in enumerate(ops[:len(calls)]):
        if kind == 0 and op[0] == 3 and before(k) != NEW:
            return "C07:open-leak:read_open_memory"
        if kind == 1 and op[0] == 3 and before(k) != NEW:
            return "C07:open-leak:write_open_memory"
        if kind == 0 and op[0] == 0 and before(k) == NEW:
            nsupport += 1
            if nsupport == 2:
                return "C07:support-twice-leak:read"
        if kind in (2, 3) and REAL_OPS[kind][op[0]][0] == "set_standard_lookup" and before(k) == S_FATAL:
            return "C07:magic:archive_%s_set_standard_lookup:leak" % name
    for k, op in enumerate(ops[:len(calls)]):
        if op[0] == FREE_OP[kind]:
            if before(k) == S_FATAL:
                return "C07:free-leak:%s" % name
            break
    return "C07:leak:%s" % name

def oracle_real(case_line, impl_line, crash_info=None):
    """the property, evaluated on the implementation's behaviour alone"""
    mode, kind, variant, ops = vparse(case_line)
    try:
        out = vparse(impl_line)
    except Exception:
        return ("C07:unparsable-output", "harness output not parsable: %s" % impl_line[:80])
    name = KINDS[kind]
    if out and out[0] == b"CRASH":
        how = vlib.crash_key(crash_info or "")
        return ("C07:crash:%s:%s" % (name, how), "the process died while executing the call program on a real %s handle (%s): %s" %
                (name, impl_line, "; ".join(l for l in (crash_info or "").split("\n") if "ERROR: " in l or "runtime error" in l)[:300]))
    calls, leak, fdleak = out[:-2], out[-2], out[-1]
    if len(calls) != len(ops):
        return ("C07:output-count", "number of results differs from number of calls")
    state = INIT_STATE[kind]
    failed = ended = False
    for k, (op, (status, after, x)) in enumerate(zip(ops, calls)):
        opname, legal, _ = REAL_OPS[kind][op[0]]
        where = "call #%d %s(%d) in state %#x on a real %s [%s]" % (k, opname, op[1], state, name, VARIANT_NAMES[kind][variant])
        if legal is not None and state not in legal:
            if opname == "read_data" and status != FATAL:
                return ("C07:magic:archive_read_data", "archive_read_data has no state check: %s returned %d" % (where, status))
            if status != FATAL or after != S_FATAL:
                return ("C07:magic:archive_%s_%s" % (name, opname),
                        "illegal %s returned %d and left state %#x (want -30 / 0x8000)" % (where, status, after))
        if kind in NEXT_OPS and op[0] in NEXT_OPS[kind]:
            if (ended or failed) and status in (OK, WARN):
                return ("C07:entry-after-end:%s" % name, "%s yields an entry after end of archive / failure" % where)
            if status == EOF: ended = True
            if status == FATAL: failed = True
        if kind == 2 and op[0] == 3 and status == OK:
            ended = False                      # a disk reader may be re-opened after close
        if after == S_FATAL:
            failed = True
        state = after
    if leak or fdleak:
        return (leak_key(kind, ops, calls) + (":fd" if fdleak and not leak else ""),
                "%d heap bytes / %d descriptors still allocated after the final free of a real %s handle" % (leak, fdleak, name))
    return None

# ------------------------------------------------------------------ model candidates for an observed call
def cands(kind, op, status, x):
    code, arg = op
    S = sorted(set(D + [status]))
    if kind == 0:
        if code == 0: return [Q("archive_read_support_format_all", RM, status)]
        if code == 1: return [Q("archive_read_support_filter_all", RM, status)]
        if code == 2: return [Q("_archive_set_options", RM, status)]
        if code in (3, 15):
            c = 5 if code == 3 else 4
            return [[c, o, f, ok] for o in sorted(set([0, status])) for f in sorted(set([OK, FATAL, status])) for ok in (1, 0)]
        if code in (4, 5): return [[6, r1, r2] for r2 in [status] + S for r1 in [OK] + S]
        if code == 6: return [[9, RM, x, status]]
        if code == 7: return [[7, status]]
        if code == 8: return [[10, status]] + ([[10, EOF]] if status == OK else [])
        if code == 9: return [[11, 1, status], [11, 0, status]]
        if code == 10: return [[12, status], [12, OK]]
        if code == 11: return [[13, status], [13, OK]]
        if code == 12: return [NOCHECK(status)]
        if code == 13: return [Q("archive_read_header_position", RM, status)]
        if code == 14: return [Q("archive_read_add_passphrase", RM, status)]
        if code == 16: return [Q("archive_read_support_format_tar", RM, status)]
        if code == 17: return [Q("__archive_read_register_bidder", RM, status)]
    if kind == 1:
        if code == 0:
            f = ["archive_write_set_format_ustar", "archive_write_set_format_pax_restricted",
                 "archive_write_set_format_cpio_newc", "archive_write_set_format_zip"][arg]
            return [[14, f, status]]
        if code == 1: return [Q("archive_write_add_filter_gzip", WM, status)]
        if code == 2: return [Q("_archive_set_options", WM, status)]
        if code == 3: return [[34, o, i] for o in [OK, status, WARN] for i in [status, OK]]
        if code == 4: return [[16, a, b, c] for c in [status] + S for a in [OK, status] for b in [OK, status]]
        if code == 5: return [[17, status]]
        if code == 6: return [[18, status], [18, OK]]
        if code == 7: return [[19, a, b, c] for (a, b, c) in [(OK, OK, OK), (status, OK, OK), (OK, status, OK), (OK, OK, status)]]
        if code == 8: return [FAIL()]
        if code == 9: return [[20, a, b, c, d] for (a, b, c, d) in [(OK, OK, OK, OK), (status, OK, OK, OK), (OK, status, OK, OK),
                                                                    (OK, OK, status, OK), (OK, OK, OK, status)]]
        if code == 10: return [NOCHECK(status)]
        if code == 11: return [Q("archive_write_set_bytes_per_block", WM, status)]
        if code == 12: return [Q("archive_write_get_bytes_per_block", WM, status)]
    if kind == 2:
        if code == 0: return [PAIR("archive_read_disk_set_gname_lookup", "archive_read_disk_set_uname_lookup", RDM)]
        if code == 1: return [Q("archive_read_disk_set_behavior", RDM, status)]
        if code == 2: return [Q("archive_read_disk_set_symlink_logical", RDM, status)]
        if code == 3: return [[21, 1], [21, 0]]
        if code in (4, 11): return [[22, status, 1], [22, OK, 0]]
        if code == 5: return [[23, status]]
        if code == 6: return [Q("archive_read_disk_descend", RDM, status)]
        if code == 7: return [[24]]
        if code == 8: return [[25]]
        if code == 9: return [NOCHECK(status)]
        if code == 10: return [[23, status]] if x else [[9, RDM, 0, status]]
    if kind == 3:
        if code == 0: return [Q("archive_write_disk_set_options", WDM, status)]
        if code == 1: return [PAIR("archive_write_disk_set_group_lookup", "archive_write_disk_set_user_lookup", WDM)]
        if code == 2: return [[26, f, fe, e, status, n, fd] for f in sorted(set([OK, status, FATAL, FAILED])) for fe in (0, 1) for e in (0, 1)
                              for n in (0, 1) for fd in (0, 1)]
        if code == 3: return [[27, status]]
        if code == 4: return [[28, status]]
        if code == 5: return [[29, status, 0], [29, status, 1], [29, OK, 0]]
        if code == 6: return [[30, status, 0], [30, status, 1]]
        if code == 7: return [FAIL()]
        if code == 8: return [[31, status, 0], [31, status, 1], [31, OK, 0]]
        if code == 9: return [NOCHECK(status)]
        if code == 10: return [Q("archive_write_disk_set_skip_file", WDM, status)]
    if kind == 4:
        site = {0: "archive_match_include_pattern", 1: "archive_match_include_pattern", 2: "archive_match_exclude_pattern",
                3: "archive_match_include_uid", 4: "archive_match_excluded", 5: "archive_match_path_excluded",
                6: "validate_time_flag", 9: "archive_match_include_uname", 10: "validate_time_flag"}
        if code == 7: return [[32]]
        if code == 8: return [NOCHECK(status)]
        return [Q(site[code], MM, status)]
    raise KeyError((kind, code))

def model_case(case_line, impl_line):
    mode, kind, variant, ops = vparse(case_line)
    out = vparse(impl_line)
    if out and out[0] == b"CRASH":
        return None
    steps = []
    for op, (status, after, x) in zip(ops, out[:-2]):
        is_free = op[0] == FREE_OP[kind]
        steps.append([cands(kind, op, status, x), status, ANY_STATE if is_free else after])
    return vfmt([1, kind, steps])

# ------------------------------------------------------------------ running
def run_harness(exe, cases, name, direct=False):
    path = vlib.write_cases(cases, name + ".cases")
    scr = os.path.join(vlib.scratch(), "magic-fs")
    rc, lines, err = vlib.run_exe(exe, path, args=[scr] + (["direct"] if direct else []),
                                  env={"ASAN_OPTIONS": "detect_leaks=%d:abort_on_error=0:exitcode=99" % (1 if direct else 0)})
    return rc, lines, err

def crash_segments(err):
    """stderr text belonging to each crashed case: {case index: text}"""
    segs, last = {}, 0
    for m in re.finditer(r"@@crash case (\d+)\n", err):
        segs[int(m.group(1))] = err[last:m.start()]
        last = m.end()
    return segs

def scripted_part(rep, runner, exe, cases):
    # same line to model and implementation; the forking harness turns a dying case into a (xCRASH ..) line
    return vlib.correspond(rep, "magic-scripted", runner, exe, cases, oracle=oracle_scripted,
                           impl_args=[os.path.join(vlib.scratch(), "magic-fs")],
                           impl_env={"ASAN_OPTIONS": "detect_leaks=0:abort_on_error=0:exitcode=99"})

def real_part(rep, runner, exe, cases):
    stats = dict(name="magic-real", cases=len(cases), agree=0, disagree=0, oracle_hits=0, crashes=0)
    rc, lines, err = run_harness(exe, cases, "magic-real")
    stats["impl_rc"] = rc
    if rc != 0 or len(lines) != len(cases):
        k = min(len(lines), len(cases) - 1)
        rep.violation("crash:magic-real:%s" % vlib.crash_key(err),
                      "implementation harness magic stopped (rc=%s) after %d/%d cases: %s" % (rc, len(lines), len(cases), err[-300:]),
                      dict(correspondence="magic-real", case=cases[k] if cases else None, stderr=err[-3000:]), found_input=True)
        return stats
    segs = crash_segments(err)
    mcases, idx = [], []
    for k, (c, l) in enumerate(zip(cases, lines)):
        hit = oracle_real(c, l, segs.get(k))
        if hit:
            stats["oracle_hits"] += 1
            if l.startswith("(x4352415348"):
                stats["crashes"] += 1
            rep.violation(hit[0], hit[1], dict(correspondence="magic-real", case=c, impl=l, stderr=(segs.get(k) or "")[-2500:],
                                               cmd="./check C07 --replay <this file>"), found_input=True)
        try:
            mc = model_case(c, l)
        except Exception as ex:
            mc = None
            if not hit:
                rep.violation("corr:magic-real:candidates", "cannot build model candidates: %r" % (ex,), dict(case=c, impl=l), found_input=False)
        if mc is not None:
            mcases.append(mc); idx.append((k, bool(hit)))
    mpath = vlib.write_cases(mcases, "magic-real.model")
    rc_m, m_lines, m_err = vlib.run_exe(runner, mpath)
    if rc_m != 0 or len(m_lines) != len(mcases):
        rep.violation("corr:magic-real:model-runner", "model runner failed (rc=%s, %d/%d lines): %s" % (rc_m, len(m_lines), len(mcases), m_err[-300:]),
                      dict(correspondence="magic-real", stage="model"), found_input=False)
        return stats
    first = None
    for (k, hit), ml in zip(idx, m_lines):
        flags = vparse(ml)
        if all(f == 1 for f in flags):
            stats["agree"] += 1
        else:
            stats["disagree"] += 1
            if first is None and not hit:
                first = (k, flags.index(0))
    if first is not None:
        k, j = first
        mode, kind, variant, ops = vparse(cases[k])
        rep.violation("corr:magic-real",
                      "no back-end behaviour makes the model produce what the implementation did on %d/%d call programs "
                      "(first: case #%d, call #%d = %s on a %s handle)" % (stats["disagree"], len(cases), k, j,
                                                                           REAL_OPS[kind][ops[j][0]][0], KINDS[kind]),
                      dict(correspondence="magic-real", broken="correspondence magic-real (model family runner vs harness)",
                           case=cases[k], impl=lines[k], call=j), found_input=False)
    return stats

def nontrivial(case_line):
    v = vparse(case_line)
    ops = v[-1]
    return len(ops) >= 3

def run(rep):
    pr = vlib.proof_part(rep, "C07", translators=["gen_defines", "gen_magic"])
    runner = vlib.build_runner("magic")
    exe = vlib.compile_harness("magic", "asan", private=True)
    quick = rep.tier == "quick"
    r = vlib.rng(rep.seed, "C07")
    scripted = []
    for kind in (0, 1):
        scripted += enum_scripted(kind, 2 if quick else 3)
        scripted += [gen_scripted(r, kind) for _ in range(1500 if quick else 40000)]
    real = list(FIXED_REAL) + vlib.load_corpus("C07")
    for kind in range(5):
        real += enum_real(kind, 2 if quick else 3)
        real += [gen_real(r, kind) for _ in range(400 if quick else 8000)]
    st_a = scripted_part(rep, runner, exe, scripted)
    st_b = real_part(rep, runner, exe, real)
    allc = scripted + real
    rep.coverage.update(
        evaluations=len(allc),
        distinct_nontrivial=len(set(c for c in allc if nontrivial(c))),
        rule="call programs on real handles of the five kinds: (A) reader and writer cores with scripted format/client-callback "
             "statuses (every sequence of <= %d calls over a representative op set after 3 prefixes, plus random programs up to 40 calls), "
             "(B) real back ends: tar/tar.gz/empty/cut/damaged/garbage input behind the reader, ustar/pax/cpio/zip (+gzip) writer to memory "
             "(large and too-small buffer), disk reader on a tree / missing path / plain file, disk writer into a scratch directory, matcher "
             "(every sequence of <= %d calls after each happy-path prefix, plus random programs up to 40 calls); each program ends with free; "
             "non-trivial = at least 3 calls" % (2 if quick else 3, 2 if quick else 3),
        samples=[scripted[0], scripted[-1][:300], real[0], real[-1][:300]],
        traces_validated_against_impl=st_a["agree"] + st_b["agree"],
        correspondence=[st_a, st_b])
    rep.assumptions += [
        "no allocation failure inside libarchive; fewer than 25 read filters; no archive_read_append_filter",
        "scripted mode: the read format has read_data/read_data_skip, the write format (ustar/pax with replaced callbacks) has every callback",
        "real mode compares per call: exists back-end statuses such that the model yields the observed (status, archive.state)",
        "archive_write_fail is also applied to scripted reader handles (it only stores the FATAL state)",
        "calls of another handle kind on a handle (NULL vtable slots) and calls after free are outside the property",
        "leaks are measured per call program with the sanitizer allocator statistics (confirmed by a second execution), descriptors via /proc/self/fd",
    ]
    vlib.proof_verdict(rep, "C07", pr)

def replay(rep, path):
    d = json.load(open(path))
    case = d["replay"].get("case")
    runner = vlib.build_runner("magic")
    exe = vlib.compile_harness("magic", "asan", private=True)
    if case is None:
        pr = vlib.proof_part(rep, "C07", translators=["gen_defines", "gen_magic"])
        vlib.proof_verdict(rep, "C07", pr)
        return
    if vparse(case)[0] == 0:
        scripted_part(rep, runner, exe, [case])
    else:
        real_part(rep, runner, exe, [case])
        rc, lines, err = run_harness(exe, [case], "magic-replay", direct=True)
        print("direct run (no fork) rc=%s\n%s\n%s" % (rc, "\n".join(lines), err[-3000:]))
    rep.coverage.update(evaluations=1, distinct_nontrivial=1, samples=[case])
