(* Generic driver appended to every extracted model (ml/gen/<family>_model.ml).
   Expects the extracted types positive/n/z/val and  run : val -> val  to be in scope.
   Reads one case per line on stdin (or argv.(1)), prints one result line per case. *)

let hexdigit c =
  match c with
  | '0'..'9' -> Char.code c - 48
  | 'a'..'f' -> Char.code c - 87
  | 'A'..'F' -> Char.code c - 55
  | _ -> failwith "bad hex digit"

let rec pos_of_int i =
  if i = 1 then XH
  else if i land 1 = 1 then XI (pos_of_int (i lsr 1))
  else XO (pos_of_int (i lsr 1))
let n_of_int i = if i = 0 then N0 else Npos (pos_of_int i)

(* hex string (msb first) -> n *)
let n_of_hex (s : string) : n =
  let cur = ref None in
  String.iter (fun c ->
    let d = hexdigit c in
    for k = 3 downto 0 do
      let b = (d lsr k) land 1 in
      cur := (match !cur with
        | None -> if b = 1 then Some XH else None
        | Some p -> Some (if b = 1 then XI p else XO p))
    done) s;
  match !cur with None -> N0 | Some p -> Npos p

let rec bits_of_pos p acc =  (* lsb first *)
  match p with
  | XH -> List.rev (1 :: acc)
  | XO q -> bits_of_pos q (0 :: acc)
  | XI q -> bits_of_pos q (1 :: acc)

let hex_of_pos p =
  let bits = bits_of_pos p [] in
  let rec groups l acc =
    match l with
    | [] -> acc
    | a :: b :: c :: d :: tl -> groups tl ((a + 2*b + 4*c + 8*d) :: acc)
    | [a; b; c] -> (a + 2*b + 4*c) :: acc
    | [a; b] -> (a + 2*b) :: acc
    | [a] -> a :: acc
  in
  let ds = groups bits [] in
  String.concat "" (List.map (fun d -> Printf.sprintf "%x" d) ds)

let hex_of_n = function N0 -> "0" | Npos p -> hex_of_pos p

let z_of_tok (s : string) : z =
  if String.length s > 0 && s.[0] = '-' then
    (match n_of_hex (String.sub s 1 (String.length s - 1)) with
     | N0 -> Z0 | Npos p -> Zneg p)
  else (match n_of_hex s with N0 -> Z0 | Npos p -> Zpos p)

let rec int_of_pos = function XH -> 1 | XO p -> 2 * int_of_pos p | XI p -> 2 * int_of_pos p + 1
let int_of_n = function N0 -> 0 | Npos p -> int_of_pos p

let bytes_of_tok (s : string) : n list =
  (* s starts with 'x' *)
  let l = String.length s in
  let rec go i acc =
    if i + 1 >= l then List.rev acc
    else go (i + 2) (n_of_int (hexdigit s.[i] * 16 + hexdigit s.[i+1]) :: acc)
  in go 1 []

(* recursive descent over a line *)
let parse_line (s : string) : val0 =
  let l = String.length s in
  let pos = ref 0 in
  let skip () = while !pos < l && (s.[!pos] = ' ' || s.[!pos] = '\t' || s.[!pos] = '\r') do incr pos done in
  let rec value () : val0 =
    skip ();
    if !pos >= l then failwith "unexpected end of line";
    if s.[!pos] = '(' then begin
      incr pos;
      let items = ref [] in
      let fin = ref false in
      while not !fin do
        skip ();
        if !pos >= l then failwith "unterminated list";
        if s.[!pos] = ')' then (incr pos; fin := true)
        else items := value () :: !items
      done;
      VL (List.rev !items)
    end else begin
      let st = !pos in
      while !pos < l && s.[!pos] <> ' ' && s.[!pos] <> ')' && s.[!pos] <> '(' && s.[!pos] <> '\t' && s.[!pos] <> '\r' do incr pos done;
      let tok = String.sub s st (!pos - st) in
      if String.length tok > 0 && tok.[0] = 'x' then VB (bytes_of_tok tok)
      else VI (z_of_tok tok)
    end
  in value ()

let rec print_val (b : Buffer.t) (v : val0) : unit =
  match v with
  | VI Z0 -> Buffer.add_string b "0"
  | VI (Zpos p) -> Buffer.add_string b (hex_of_pos p)
  | VI (Zneg p) -> Buffer.add_char b '-'; Buffer.add_string b (hex_of_pos p)
  | VB bs ->
    Buffer.add_char b 'x';
    List.iter (fun x -> Buffer.add_string b (Printf.sprintf "%02x" (int_of_n x land 255))) bs
  | VL l ->
    Buffer.add_char b '(';
    List.iteri (fun i x -> if i > 0 then Buffer.add_char b ' '; print_val b x) l;
    Buffer.add_char b ')'

let () =
  let ic = if Array.length Sys.argv > 1 then open_in Sys.argv.(1) else stdin in
  let buf = Buffer.create 65536 in
  (try
    while true do
      let line = input_line ic in
      if String.length line = 0 || line.[0] = '#' then ()
      else begin
        Buffer.clear buf;
        (try print_val buf (run (parse_line line))
         with Failure m -> Buffer.clear buf; Buffer.add_string buf ("(xERRPARSE)"); ignore m
            | Stack_overflow -> Buffer.clear buf; Buffer.add_string buf "(xERRSTACK)");
        Buffer.add_char buf '\n';
        print_string (Buffer.contents buf)
      end
    done
  with End_of_file -> ());
  flush stdout
