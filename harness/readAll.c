/* End-to-end reader harness (C01/C05/C06/C08): reads an archive through the public API with every
 * format and filter enabled, from a scripted byte source, and prints a canonical digest.
 *
 * case = (archive_bytes source rplan has_skip has_seek faults consume)
 *   source: 0 custom callbacks over memory (rplan/has_skip/has_seek/faults apply)
 *           1 archive_read_open_memory          2 (bs) archive_read_open_filename
 *           3 (bs) archive_read_open_fd on a file   4 (bs) archive_read_open_fd on a pipe
 *           5 archive_read_open_FILE                6 (cut...) archive_read_open_filenames, file split at cuts
 *     given as a list: (kind arg...)
 *   rplan: list of block sizes for the read callback (exhausted => everything left)
 *   faults: (kind n v): kind 0 = n-th read callback returns v (<0 error, 0 EOF)
 *                       kind 1 = n-th skip callback returns v    kind 2 = n-th seek callback returns v
 *                       kind 3 = n-th skip callback skips at most v bytes (honest short skip)
 *   consume: (mode arg): 0 read all with read_data(buffer arg)  1 read all with read_data_block
 *                        2 read prefix arg   3 data_skip   4 nothing      (applies to every entry)
 *            third element non-zero: print the delivered bytes instead of their hash (modes 0 and 2)
 * result = ((hdr_status pathname filetype size mode uid gid mtime hardlink symlink
 *            data_status data_len data_hash)... final_status flags filter_codes format)
 *   flags bit0: read_data returned more than asked; bit1: an entry was produced after EOF/FATAL;
 *         bit2: status outside the documented set; bit3: read_data_block offsets not increasing
 *         bit4: memory obtained on behalf of the handle is still allocated after archive_read_free (LSan);
 *         bit5: archive_read_free did not return ARCHIVE_OK
 */
#include <archive.h>
#include <archive_entry.h>
#include <fcntl.h>
#include <unistd.h>
#include <sys/wait.h>
#include <errno.h>
#if defined(__SANITIZE_ADDRESS__)
#include <sanitizer/lsan_interface.h>
#endif
#include <locale.h>
#include "val.h"

/* an entry that delivers more than this is not read further (data_status -77): nested compressed
 * streams can expand a few hundred bytes into an effectively endless entry */
#define DATA_CAP (24ULL << 20)
#define MAX_RETRIES 64	/* consecutive ARCHIVE_RETRY answers a client puts up with */

struct src {
	unsigned char *data; size_t len, pos;
	val *rplan; size_t ri;
	int nread, nskip, nseek;
	int f_kind[8]; long long f_n[8], f_v[8]; int nf;
	unsigned char *blk;
};

static long long fault(struct src *s, int kind, int n, int *hit)
{
	int i;
	for (i = 0; i < s->nf; i++)
		if (s->f_kind[i] == kind && s->f_n[i] == n) { *hit = 1; return s->f_v[i]; }
	*hit = 0;
	return 0;
}

static ssize_t cb_read(struct archive *a, void *d, const void **buff)
{
	struct src *s = d; size_t n, left = s->len - s->pos; int hit; long long v;
	(void)a;
	v = fault(s, 0, s->nread++, &hit);
	if (hit) return (ssize_t)v;
	free(s->blk); s->blk = NULL;
	if (s->ri < v_len(s->rplan)) { n = (size_t)v_ull(v_at(s->rplan, s->ri++)); if (n > left) n = left; }
	else n = left;
	if (n == 0) return 0;
	s->blk = malloc(n); memcpy(s->blk, s->data + s->pos, n); s->pos += n;
	*buff = s->blk;
	return (ssize_t)n;
}
static la_int64_t cb_skip(struct archive *a, void *d, la_int64_t req)
{
	struct src *s = d; size_t k = (size_t)req, left = s->len - s->pos; int hit; long long v;
	(void)a;
	{ int n = s->nskip++;
	  v = fault(s, 1, n, &hit);
	  if (hit) return v;
	  v = fault(s, 3, n, &hit);		/* honest short skip: at most v bytes */
	  if (hit && (size_t)v < k) k = (size_t)v; }
	if (k > left) k = left;
	s->pos += k;
	return (la_int64_t)k;
}
static la_int64_t cb_seek(struct archive *a, void *d, la_int64_t off, int whence)
{
	struct src *s = d; la_int64_t t; int hit; long long v;
	(void)a;
	v = fault(s, 2, s->nseek++, &hit);
	if (hit) return v;
	t = (whence == SEEK_SET ? 0 : whence == SEEK_CUR ? (la_int64_t)s->pos : (la_int64_t)s->len) + off;
	if (t < 0) t = 0;
	if (t > (la_int64_t)s->len) t = (la_int64_t)s->len;
	s->pos = (size_t)t;
	return t;
}

/* source 7: several data nodes behind callbacks (archive_read_append_callback_data); the seek callback
 * behaves like lseek() (offsets beyond the end are accepted, negative ones refused), the skip callback
 * never leaves its node */
struct mnode { unsigned char *data; size_t len; la_int64_t pos; size_t bs; unsigned char *blk; };
static int mn_open(struct archive *a, void *d) { struct mnode *n = d; (void)a; n->pos = 0; return ARCHIVE_OK; }
static int mn_close(struct archive *a, void *d) { struct mnode *n = d; (void)a; free(n->blk); n->blk = NULL; return ARCHIVE_OK; }
static ssize_t mn_read(struct archive *a, void *d, const void **buff)
{
	struct mnode *n = d; size_t k;
	(void)a;
	free(n->blk); n->blk = NULL;
	if (n->pos >= (la_int64_t)n->len) return 0;
	k = n->len - (size_t)n->pos; if (k > n->bs) k = n->bs;
	n->blk = malloc(k); memcpy(n->blk, n->data + n->pos, k); n->pos += (la_int64_t)k;
	*buff = n->blk;
	return (ssize_t)k;
}
static la_int64_t mn_skip(struct archive *a, void *d, la_int64_t req)
{
	struct mnode *n = d; la_int64_t left = (la_int64_t)n->len - n->pos;
	(void)a;
	if (left < 0) left = 0;
	if (req > left) req = left;
	n->pos += req;
	return req;
}
static la_int64_t mn_seek(struct archive *a, void *d, la_int64_t off, int whence)
{
	struct mnode *n = d; la_int64_t t;
	(void)a;
	t = (whence == SEEK_SET ? 0 : whence == SEEK_CUR ? n->pos : (la_int64_t)n->len) + off;
	if (t < 0) return ARCHIVE_FATAL;
	n->pos = t;
	return t;
}

static int status_ok(int r)
{
	return r == ARCHIVE_OK || r == ARCHIVE_EOF || r == ARCHIVE_RETRY || r == ARCHIVE_WARN ||
	    r == ARCHIVE_FAILED || r == ARCHIVE_FATAL;
}

static const char *tmpdir(void) { const char *t = getenv("VERIF_TMP"); return t ? t : "/var/tmp"; }

static void write_file(const char *path, const unsigned char *p, size_t n)
{
	FILE *f = fopen(path, "wb");
	if (n) fwrite(p, 1, n, f);
	fclose(f);
}

static void run_case(val *c)
{
	struct archive *a = archive_read_new();
	struct archive_entry *e;
	struct src s;
	val *source = v_at(c, 1), *faults = v_at(c, 5), *cons = v_at(c, 6);
	int kind = (int)v_ll(v_at(source, 0));
	int cmode = (int)v_ll(v_at(cons, 0));
	size_t carg = (size_t)v_ull(v_at(cons, 1));
	int dump = (int)v_ll(v_at(cons, 2));
	int r, flags = 0, fd = -1, done = 0, nent = 0, i;
	size_t k;
	pid_t child = 0;
	FILE *fp = NULL;
	char path[512], parts[8][512];
	struct mnode mn[8];
	int nmn = 0;
	char *read_options = NULL;
	const char *names[9];
	unsigned char *buf;

	memset(&s, 0, sizeof(s));
	s.data = v_at(c, 0)->b; s.len = v_len(v_at(c, 0)); s.rplan = v_at(c, 2);
	for (k = 0; k < v_len(faults) && k < 8; k++) {
		s.f_kind[k] = (int)v_ll(v_at(v_at(faults, k), 0));
		s.f_n[k] = v_ll(v_at(v_at(faults, k), 1));
		s.f_v[k] = v_ll(v_at(v_at(faults, k), 2));
		s.nf++;
	}
	archive_read_support_filter_all(a);
	archive_read_support_format_all(a);
	read_options = NULL;
	if (v_len(c) > 8 && v_len(v_at(c, 8)) > 0) {
		/* 9th case element: options for the reader (e.g. hdrcharset=CP932) */
		read_options = v_cstr(v_at(c, 8));
	}
	if (!v_ll(v_at(c, 7))) {
		/* the raw "format" accepts any byte string as one entry named "data": checks about
		 * well-formed archives cut short switch it off (8th case element non-zero) */
		archive_read_support_format_raw(a);
		archive_read_support_format_empty(a);
	}
	if (read_options != NULL && archive_read_set_options(a, read_options) < ARCHIVE_WARN) flags |= 4;
	free(read_options);
	snprintf(path, sizeof(path), "%s/readall-%d.bin", tmpdir(), (int)getpid());
	switch (kind) {
	case 0:
		archive_read_set_callback_data(a, &s);
		archive_read_set_read_callback(a, cb_read);
		if (v_ll(v_at(c, 3))) archive_read_set_skip_callback(a, cb_skip);
		if (v_ll(v_at(c, 4))) archive_read_set_seek_callback(a, cb_seek);
		r = archive_read_open1(a);
		break;
	case 1:
		r = archive_read_open_memory(a, s.data, s.len);
		break;
	case 2:
		write_file(path, s.data, s.len);
		r = archive_read_open_filename(a, path, (size_t)v_ull(v_at(source, 1)));
		break;
	case 3:
		write_file(path, s.data, s.len);
		fd = open(path, O_RDONLY);
		r = archive_read_open_fd(a, fd, (size_t)v_ull(v_at(source, 1)));
		break;
	case 4: {
		int pfd[2];
		if (pipe(pfd) != 0) { perror("pipe"); exit(3); }
		child = fork();
		if (child == 0) {
			size_t off = 0;
			close(pfd[0]);
			while (off < s.len) {
				ssize_t w = write(pfd[1], s.data + off, s.len - off);
				if (w <= 0) break;
				off += (size_t)w;
			}
			_exit(0);
		}
		close(pfd[1]);
		fd = pfd[0];
		r = archive_read_open_fd(a, fd, (size_t)v_ull(v_at(source, 1)));
		break; }
	case 5:
		write_file(path, s.data, s.len);
		fp = fopen(path, "rb");
		r = archive_read_open_FILE(a, fp);
		break;
	case 7: {
		size_t prev = 0;
		nmn = 0;
		for (k = 1; k <= v_len(source) && nmn < 8; k++) {
			size_t cut = (k < v_len(source)) ? (size_t)v_ull(v_at(source, k)) : s.len;
			if (cut > s.len) cut = s.len;
			if (cut < prev) cut = prev;
			mn[nmn].data = s.data + prev; mn[nmn].len = cut - prev; mn[nmn].pos = 0; mn[nmn].blk = NULL;
			mn[nmn].bs = v_len(s.rplan) ? (size_t)v_ull(v_at(s.rplan, 0)) : 10240;
			if (mn[nmn].bs == 0) mn[nmn].bs = 1;
			if (nmn == 0) archive_read_set_callback_data(a, &mn[nmn]);
			else archive_read_append_callback_data(a, &mn[nmn]);
			nmn++; prev = cut;
		}
		archive_read_set_open_callback(a, mn_open);
		archive_read_set_read_callback(a, mn_read);
		archive_read_set_close_callback(a, mn_close);
		if (v_ll(v_at(c, 3))) archive_read_set_skip_callback(a, mn_skip);
		if (v_ll(v_at(c, 4))) archive_read_set_seek_callback(a, mn_seek);
		r = archive_read_open1(a);
		break; }
	default: {
		size_t prev = 0, np = 0;
		for (k = 1; k <= v_len(source) && np < 8; k++) {
			size_t cut = (k < v_len(source)) ? (size_t)v_ull(v_at(source, k)) : s.len;
			if (cut > s.len) cut = s.len;
			if (cut < prev) cut = prev;
			snprintf(parts[np], sizeof(parts[np]), "%s/readall-%d.part%d", tmpdir(), (int)getpid(), (int)np);
			write_file(parts[np], s.data + prev, cut - prev);
			names[np] = parts[np];
			np++; prev = cut;
		}
		names[np] = NULL;
		r = archive_read_open_filenames(a, names, 10240);
		for (i = 0; i < (int)np; i++) ; /* files removed below */
		break; }
	}
	o_open();
	if (!status_ok(r)) flags |= 4;
	if (r < ARCHIVE_WARN) {
		o_open(); o_int(r); o_close();
		done = 1;
	}
	while (!done) {
		r = archive_read_next_header(a, &e);
		if (!status_ok(r)) flags |= 4;
		if (r == ARCHIVE_EOF || r == ARCHIVE_FATAL || nent > 100000) {
			int r2, j;
			/* no further entry may appear */
			for (j = 0; j < 2; j++) {
				r2 = archive_read_next_header(a, &e);
				if (r2 == ARCHIVE_OK || r2 == ARCHIVE_WARN) flags |= 2;
				if (!status_ok(r2)) flags |= 4;
			}
			break;
		}
		if (r == ARCHIVE_RETRY) { nent++; continue; }
		o_open();
		o_int(r);
		o_str(archive_entry_pathname(e));
		o_uint(archive_entry_filetype(e));
		o_open(); if (archive_entry_size_is_set(e)) o_int(archive_entry_size(e)); o_close();
		o_uint(archive_entry_perm(e));
		o_int(archive_entry_uid(e)); o_int(archive_entry_gid(e));
		o_open(); if (archive_entry_mtime_is_set(e)) { o_int(archive_entry_mtime(e)); o_int(archive_entry_mtime_nsec(e)); } o_close();
		o_optstr(archive_entry_hardlink(e));
		o_optstr(archive_entry_symlink(e));
		nent++;
		if (r == ARCHIVE_FAILED) { o_int(0); o_int(0); o_int(0); o_close(); continue; }
		{
			unsigned long long h = 1469598103934665603ULL, total = 0;
			int ds = ARCHIVE_OK, retries = 0;
			unsigned char *dbuf = NULL; size_t dcap = 0;
			if (cmode == 0 || cmode == 2) {
				size_t bs = (cmode == 0) ? (carg ? carg : 1) : 4096;
				size_t want = (cmode == 2) ? carg : (size_t)-1;
				buf = malloc(bs);
				while (want > 0) {
					size_t ask = bs < want ? bs : want;
					la_ssize_t n = archive_read_data(a, buf, ask);
					/* a client that retries, but not for ever: archive_read_data answers a block whose
					 * offset lies behind what was delivered with ARCHIVE_RETRY and keeps the block, so
					 * every further call answers the same (each call returns at once; it is the
					 * unbounded retry loop that would not end) */
					if (n < 0) { ds = (int)n; if (!status_ok(ds)) flags |= 4; if (n == ARCHIVE_RETRY && ++retries < MAX_RETRIES) continue; break; }
					retries = 0;
					if (n == 0) break;
					if ((size_t)n > ask) { flags |= 1; break; }
					for (k = 0; k < (size_t)n; k++) { h ^= buf[k]; h *= 1099511628211ULL; }
					if (dump) {
						if (total + (size_t)n > dcap) { dcap = (total + (size_t)n) * 2 + 64; dbuf = realloc(dbuf, dcap); }
						memcpy(dbuf + total, buf, (size_t)n);
					}
					total += (unsigned long long)n;
					if (total > DATA_CAP) { ds = -77; break; }	/* decompression bomb: stop, marked */
					if (cmode == 2) want -= (size_t)n;
				}
				free(buf);
			} else if (cmode == 1) {
				const void *p; size_t n; la_int64_t off, last = -1;
				for (;;) {
					ds = archive_read_data_block(a, &p, &n, &off);
					if (!status_ok(ds)) flags |= 4;
					if (ds == ARCHIVE_EOF) { ds = ARCHIVE_OK; break; }
					if (ds == ARCHIVE_RETRY) { if (++retries < MAX_RETRIES) continue; break; }
					retries = 0;
					if (ds < ARCHIVE_WARN) break;
					if (n > 0) {
						const unsigned char *q = p;
						if (off < last) flags |= 8;
						/* dense rendering: zero-fill the hole before this block */
						if (off > (la_int64_t)total && (unsigned long long)off - total > DATA_CAP) { ds = -77; break; }
						while ((la_int64_t)total < off) { h ^= 0; h *= 1099511628211ULL; total++; }
						for (k = 0; k < n; k++) { h ^= q[k]; h *= 1099511628211ULL; }
						total += n;
						last = off + (la_int64_t)n;
						if (total > DATA_CAP) { ds = -77; break; }
					}
				}
			} else if (cmode == 3) {
				ds = archive_read_data_skip(a);
				if (!status_ok(ds)) flags |= 4;
			}
			o_int(ds); o_uint(total);
			if (dump && (cmode == 0 || cmode == 2)) o_bytes(dbuf ? dbuf : (unsigned char *)"", (size_t)total);
			else o_uint(h);
			free(dbuf);
		}
		o_close();
	}
	{
		int fcodes[32], nf = archive_filter_count(a), fmt = archive_format(a);
		if (nf > 32) nf = 32;
		for (i = 0; i < nf; i++) fcodes[i] = archive_filter_code(a, i);
		/* after the handle is freed nothing obtained on its behalf may remain */
		if (archive_read_free(a) != ARCHIVE_OK) flags |= 32;
		free(s.blk);
		for (i = 0; i < nmn; i++) free(mn[i].blk);
#if defined(__SANITIZE_ADDRESS__)
		/* the recoverable check reports every block leaked so far in this process: only the first
		 * case that leaks can be blamed, later ones would inherit its report */
		{ static int leaked_before; if (!leaked_before && __lsan_do_recoverable_leak_check()) { flags |= 16; leaked_before = 1; } }
#endif
		o_int(r);
		o_int(flags);
		o_open();
		for (i = 0; i < nf; i++) o_int(fcodes[i]);
		o_close();
		o_int(fmt);
	}
	o_close();
	o_endline();
	if (fd >= 0) close(fd);
	if (fp) fclose(fp);
	if (child > 0) { int st; waitpid(child, &st, 0); }
	unlink(path);
	for (i = 0; i < 8; i++) {
		snprintf(parts[0], sizeof(parts[0]), "%s/readall-%d.part%d", tmpdir(), (int)getpid(), i);
		unlink(parts[0]);
	}
}

int main(int argc, char **argv)
{
	const char *loc = getenv("VERIF_LOCALE");
	if (loc && *loc && setlocale(LC_ALL, loc) == NULL) { fprintf(stderr, "no locale %s\n", loc); return 4; }
	return v_foreach_line(argc > 1 ? argv[1] : NULL, run_case);
}
