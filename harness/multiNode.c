/* Correspondence harness for the multi-volume layer of archive_read.c (coq/IO/MultiNodeDefs.v):
 * a pseudo-format runs a script of "read one block" / "seek" operations through the REAL
 * __archive_read_ahead / __archive_read_consume / __archive_read_seek over several honest seekable
 * data nodes registered with archive_read_append_callback_data (no switch callback: libarchive
 * closes the old node and opens the next one). case = (nodes bs ops). */
#include "archive_platform.h"
#include "archive.h"
#include "archive_entry.h"
#include "archive_private.h"
#include "archive_read_private.h"
#include "val.h"

struct nd {
	unsigned char *data; size_t len; int64_t pos; size_t bs;
	unsigned char *blk; int open;
};
static val *g_ops;

static int cb_open(struct archive *a, void *d)
{ struct nd *n = d; (void)a; n->pos = 0; n->open = 1; return (ARCHIVE_OK); }
static int cb_close(struct archive *a, void *d)
{ struct nd *n = d; (void)a; n->open = 0; free(n->blk); n->blk = NULL; return (ARCHIVE_OK); }
static ssize_t cb_read(struct archive *a, void *d, const void **buff)
{
	struct nd *n = d; size_t k;
	(void)a;
	free(n->blk); n->blk = NULL;
	if (n->pos >= (int64_t)n->len) return (0);
	k = n->len - (size_t)n->pos;
	if (k > n->bs) k = n->bs;
	n->blk = malloc(k);
	memcpy(n->blk, n->data + n->pos, k);
	n->pos += (int64_t)k;
	*buff = n->blk;
	return ((ssize_t)k);
}
static la_int64_t cb_seek(struct archive *a, void *d, la_int64_t off, int whence)
{
	struct nd *n = d; int64_t t;
	(void)a;
	t = (whence == SEEK_SET ? 0 : whence == SEEK_CUR ? n->pos : (int64_t)n->len) + off;
	if (t < 0) return (ARCHIVE_FATAL);
	n->pos = t;
	return (t);
}

static int fmt_bid(struct archive_read *a, int best) { (void)a; (void)best; return (1000); }
static int fmt_read_header(struct archive_read *a, struct archive_entry *e)
{
	size_t k;
	(void)e;
	for (k = 0; k < v_len(g_ops); k++) {
		val *op = v_at(g_ops, k);
		int kind = (int)v_ll(v_at(op, 0));
		o_open();
		if (kind == 0) {
			ssize_t av = 0;
			const void *p = __archive_read_ahead(a, 1, &av);
			o_int(0);
			if (p != NULL && av > 0) { o_bytes(p, (size_t)av); __archive_read_consume(a, av); }
			else o_bytes("", 0);
		} else if (kind == 1) {
			int64_t r = __archive_read_consume(a, v_ll(v_at(op, 1)));
			o_int(1); o_int(r);
		} else {
			int wh = (int)v_ll(v_at(op, 2));
			int64_t r = __archive_read_seek(a, v_ll(v_at(op, 1)),
			    wh == 0 ? SEEK_SET : wh == 1 ? SEEK_CUR : wh == 2 ? SEEK_END : 77);
			o_int(2); o_int(r);
		}
		o_int(a->filter->position);
		o_close();
	}
	return (ARCHIVE_EOF);
}
static int fmt_read_data(struct archive_read *a, const void **b, size_t *s, int64_t *o)
{ (void)a; *b = NULL; *s = 0; *o = 0; return (ARCHIVE_EOF); }
static int fmt_cleanup(struct archive_read *a) { (void)a; return (ARCHIVE_OK); }

static void run_case(val *c)
{
	struct archive *a = archive_read_new();
	struct archive_entry *e;
	val *nodes = v_at(c, 0);
	size_t n = v_len(nodes), i;
	struct nd *nd = calloc(n ? n : 1, sizeof(*nd));
	g_ops = v_at(c, 2);
	__archive_read_register_format((struct archive_read *)a, NULL, "verif-nodes", fmt_bid, NULL,
	    fmt_read_header, fmt_read_data, NULL, NULL, fmt_cleanup, NULL, NULL);
	for (i = 0; i < n; i++) {
		nd[i].data = v_at(nodes, i)->b; nd[i].len = v_len(v_at(nodes, i));
		nd[i].bs = (size_t)v_ull(v_at(c, 1));
		if (i == 0) archive_read_set_callback_data(a, &nd[i]);
		else archive_read_append_callback_data(a, &nd[i]);
	}
	archive_read_set_open_callback(a, cb_open);
	archive_read_set_read_callback(a, cb_read);
	archive_read_set_seek_callback(a, cb_seek);
	archive_read_set_close_callback(a, cb_close);
	o_open();
	if (archive_read_open1(a) == ARCHIVE_OK)
		(void)archive_read_next_header(a, &e);
	o_close();
	o_endline();
	archive_read_free(a);
	for (i = 0; i < n; i++) free(nd[i].blk);
	free(nd);
}

int main(int argc, char **argv)
{
	return v_foreach_line(argc > 1 ? argv[1] : NULL, run_case);
}
