/* lzw: a .Z stream through the real compress read filter (C01).
 * case = (bytes behind the two magic bytes)
 * The harness puts 1f 9d in front, enables ONLY the compress filter and the raw and empty formats, reads
 * everything and prints
 *   (0)                        archive_read_open failed (the filter refused the parameters byte)
 *   (1 data status 0)          status: 0 = clean end of data, 1 = ARCHIVE_FATAL while reading
 * (the last 0 stands for the model's out-of-bounds flag: the sanitizers stop this process instead). */
#include <archive.h>
#include <archive_entry.h>
#include "val.h"

static void one(val *c)
{
	val *z = v_at(c, 0);
	size_t n = v_len(z) + 2, got = 0, cap = 1 << 16;
	unsigned char *in = malloc(n), *out = malloc(cap);
	struct archive *a = archive_read_new();
	struct archive_entry *e;
	int r, st = 0;
	in[0] = 0x1f; in[1] = 0x9d;
	if (v_len(z)) memcpy(in + 2, z->b, v_len(z));
	archive_read_support_filter_compress(a);
	archive_read_support_format_raw(a);
	archive_read_support_format_empty(a);
	o_open();
	r = archive_read_open_memory(a, in, n);
	if (r != ARCHIVE_OK) {
		o_int(0);
	} else {
		r = archive_read_next_header(a, &e);
		if (r == ARCHIVE_OK || r == ARCHIVE_WARN) {
			for (;;) {
				la_ssize_t k;
				if (cap - got < 65536) { cap *= 2; out = realloc(out, cap); }
				k = archive_read_data(a, out + got, cap - got);
				if (k < 0) { st = 1; break; }
				if (k == 0) break;
				got += (size_t)k;
			}
		} else if (r != ARCHIVE_EOF)
			st = 1;
		o_int(1); o_bytes(out, got); o_int(st); o_int(0);
	}
	o_close();
	o_endline();
	archive_read_free(a);
	free(in); free(out);
}

int main(int argc, char **argv)
{
	return v_foreach_line(argc > 1 ? argv[1] : NULL, one);
}
