/* Correspondence harness for the read core (C01/C05/C08): a pseudo-format registered with
 * __archive_read_register_format runs the script of each case from inside read_header, so the
 * REAL __archive_read_ahead / __archive_read_consume / __archive_read_seek and the client
 * proxies of archive_read.c execute over a scripted client (see coq/IO/ReadCoreRun.v). */
#include "archive_platform.h"
#include "archive.h"
#include "archive_entry.h"
#include "archive_private.h"
#include "archive_read_private.h"
#include "val.h"

struct client {
	unsigned char *data; size_t len, pos;
	val *rplan, *splan, *kplan;
	size_t ri, si, ki;
	unsigned char *blk;	/* exact-size copy of the block handed out last (ASan sees over-reads) */
	int reads, skips, seeks;
};

static val *g_ops;
static struct client *g_cl;

static ssize_t cb_read(struct archive *a, void *d, const void **buff)
{
	struct client *c = d;
	size_t n, left = c->len - c->pos;
	(void)a;
	c->reads++;
	free(c->blk); c->blk = NULL;
	if (c->ri < v_len(c->rplan)) {
		val *it = v_at(c->rplan, c->ri++);
		int kind = (int)v_ll(v_at(it, 0));
		if (kind == 1) return (-1);
		if (kind == 2) return (0);
		n = (size_t)v_ull(v_at(it, 1));
		if (n > left) n = left;
	} else
		n = left;
	if (n == 0) return (0);
	c->blk = malloc(n);
	memcpy(c->blk, c->data + c->pos, n);
	c->pos += n;
	*buff = c->blk;
	return ((ssize_t)n);
}

static la_int64_t cb_skip(struct archive *a, void *d, la_int64_t request)
{
	struct client *c = d;
	size_t k, left = c->len - c->pos;
	(void)a;
	c->skips++;
	k = (size_t)request;
	if (c->si < v_len(c->splan)) {
		val *it = v_at(c->splan, c->si++);
		if (v_ll(v_at(it, 0)) != 0) return (v_ll(v_at(it, 1)));
		if ((size_t)v_ull(v_at(it, 1)) < k) k = (size_t)v_ull(v_at(it, 1));
	}
	if (k > left) k = left;
	c->pos += k;
	return ((la_int64_t)k);
}

static la_int64_t cb_seek(struct archive *a, void *d, la_int64_t offset, int whence)
{
	struct client *c = d;
	la_int64_t t;
	(void)a;
	c->seeks++;
	if (c->ki < v_len(c->kplan)) {
		val *it = v_at(c->kplan, c->ki++);
		if (v_ll(v_at(it, 0)) != 0) return (v_ll(v_at(it, 1)));
	}
	t = (whence == SEEK_SET ? 0 : whence == SEEK_CUR ? (la_int64_t)c->pos : (la_int64_t)c->len) + offset;
	if (t < 0) t = 0;
	if (t > (la_int64_t)c->len) t = (la_int64_t)c->len;
	c->pos = (size_t)t;
	return (t);
}

static int fmt_bid(struct archive_read *a, int best) { (void)a; (void)best; return (1000); }

static int fmt_read_header(struct archive_read *a, struct archive_entry *e)
{
	size_t k;
	(void)e;
	o_open();
	for (k = 0; k < v_len(g_ops); k++) {
		val *op = v_at(g_ops, k);
		int kind = (int)v_ll(v_at(op, 0));
		o_open();
		if (kind == 0) {
			ssize_t av = 12345;
			const void *p = __archive_read_ahead(a, (size_t)v_ull(v_at(op, 1)), &av);
			o_int(0);
			o_open();
			if (p != NULL && av > 0) { o_int(1); o_bytes(p, (size_t)av); }
			else if (p != NULL) { o_int(0); o_int(0); }	/* zero-length window: canonicalised like NULL/0 */
			else { o_int(0); o_int(av); }
			o_close();
		} else if (kind == 1) {
			int64_t r = __archive_read_consume(a, v_ll(v_at(op, 1)));
			o_int(1); o_int(r);
		} else {
			int wh = (int)v_ll(v_at(op, 2));
			int64_t r = __archive_read_seek(a, v_ll(v_at(op, 1)),
			    wh == 0 ? SEEK_SET : wh == 1 ? SEEK_CUR : wh == 2 ? SEEK_END : 77);
			o_int(2); o_int(r);
		}
		o_int(a->filter->position);
		o_close();
	}
	o_close();
	return (ARCHIVE_EOF);
}

static int fmt_read_data(struct archive_read *a, const void **b, size_t *s, int64_t *o)
{ (void)a; *b = NULL; *s = 0; *o = 0; return (ARCHIVE_EOF); }
static int fmt_cleanup(struct archive_read *a) { (void)a; return (ARCHIVE_OK); }

static void run_case(val *c)
{
	struct archive *a = archive_read_new();
	struct archive_entry *e;
	struct client cl;
	int r;
	memset(&cl, 0, sizeof(cl));
	cl.len = v_len(v_at(c, 0));
	cl.data = v_at(c, 0)->b;
	cl.rplan = v_at(c, 1); cl.splan = v_at(c, 2); cl.kplan = v_at(c, 3);
	g_ops = v_at(c, 6);
	g_cl = &cl;
	__archive_read_register_format((struct archive_read *)a, NULL, "verif-script", fmt_bid, NULL,
	    fmt_read_header, fmt_read_data, NULL, NULL, fmt_cleanup, NULL, NULL);
	archive_read_set_callback_data(a, &cl);
	archive_read_set_read_callback(a, cb_read);
	if (v_ll(v_at(c, 4))) archive_read_set_skip_callback(a, cb_skip);
	if (v_ll(v_at(c, 5))) archive_read_set_seek_callback(a, cb_seek);
	r = archive_read_open1(a);
	o_open();
	if (r != ARCHIVE_OK) {
		/* the open-time probe failed (read error on the first block): no script ran */
		o_open(); o_close();
	} else {
		r = archive_read_next_header(a, &e);
		(void)r;
	}
	/* oob flag of the model corresponds to an ASan report here: always 0 when we get this far */
	o_int(0);
	o_close();
	o_endline();
	archive_read_free(a);
	free(cl.blk);
}

int main(int argc, char **argv)
{
	return v_foreach_line(argc > 1 ? argv[1] : NULL, run_case);
}
