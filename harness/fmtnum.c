/* Numeric codec unit harness of the `fmt` family: calls the REAL static field formatters of the
 * writers and the REAL static field parsers of the readers (reached by including the .c files,
 * with the clashing static names renamed per file).
 *   (a kind v s maxsize strict) -> (ret bytes)    a = 10
 *        the field buffer has max(s, maxsize) bytes, prefilled with 0xEE
 *        kind 0 ustar format_number  1 ustar format_octal  2 ustar format_256
 *             3 gnutar format_number 4 gnutar format_octal 5 odc format_octal 6 newc format_hex
 *             7 ar format_octal      8 ar format_decimal   9 la_swap16 store  10 la_swap32 store
 *             11 v7tar format_number
 *   (b kind bytes) -> (value)                       b = 11
 *        kind 0 tar_atol 1 tar_atol8 2 tar_atol256 3 tar_atol10 4 cpio atol8 5 cpio atol16
 *             6 cpio le4 7 ar_atol10 8 ar_atol8
 */
#define format_octal ustar_format_octal
#define format_number ustar_format_number
#define format_256 ustar_format_256
#define template_header ustar_template_header
#include "archive_write_set_format_ustar.c"
#undef format_octal
#undef format_number
#undef format_256
#undef template_header

#define format_octal v7tar_format_octal
#define format_number v7tar_format_number
#define format_256 v7tar_format_256
#define template_header v7tar_template_header
#include "archive_write_set_format_v7tar.c"
#undef format_octal
#undef format_number
#undef format_256
#undef template_header

#define format_octal gnutar_format_octal
#define format_number gnutar_format_number
#define format_256 gnutar_format_256
#define template_header gnutar_template_header
#include "archive_write_set_format_gnutar.c"
#undef format_octal
#undef format_number
#undef format_256
#undef template_header

#define cpio cpio_odc
#define format_octal odc_format_octal
#define format_octal_recursive odc_format_octal_recursive
#define write_header odc_write_header
#define get_sconv odc_get_sconv
#define synthesize_ino_value odc_synthesize_ino_value
#include "archive_write_set_format_cpio_odc.c"
#undef cpio
#undef format_octal
#undef format_octal_recursive
#undef write_header
#undef get_sconv
#undef synthesize_ino_value
#undef c_magic_offset
#undef c_magic_size
#undef c_dev_offset
#undef c_dev_size
#undef c_ino_offset
#undef c_ino_size
#undef c_mode_offset
#undef c_mode_size
#undef c_uid_offset
#undef c_uid_size
#undef c_gid_offset
#undef c_gid_size
#undef c_nlink_offset
#undef c_nlink_size
#undef c_rdev_offset
#undef c_rdev_size
#undef c_mtime_offset
#undef c_mtime_size
#undef c_namesize_offset
#undef c_namesize_size
#undef c_filesize_offset
#undef c_filesize_size

#define cpio cpio_newc
#define write_header newc_write_header
#define get_sconv newc_get_sconv
#include "archive_write_set_format_cpio_newc.c"
#undef cpio
#undef write_header
#undef get_sconv

#define cpio cpio_binw
#define write_header binw_write_header
#define get_sconv binw_get_sconv
#define synthesize_ino_value binw_synthesize_ino_value
#include "archive_write_set_format_cpio_binary.c"
#undef cpio
#undef write_header
#undef get_sconv
#undef synthesize_ino_value

#define format_octal arw_format_octal
#define format_decimal arw_format_decimal
#include "archive_write_set_format_ar.c"
#undef format_octal
#undef format_decimal

#define checksum tar_r_checksum
#include "archive_read_support_format_tar.c"
#undef checksum

#define cpio cpio_rd
#define atol8 cpio_r_atol8
#define atol16 cpio_r_atol16
#define le4 cpio_r_le4
#define be4 cpio_r_be4
#include "archive_read_support_format_cpio.c"
#undef cpio

#include "archive_read_support_format_ar.c"

#include "val.h"

static void run_case(val *c)
{
	int op = (int)v_ll(v_at(c, 0));
	int kind = (int)v_ll(v_at(c, 1));
	o_open();
	if (op == 10) {
		int64_t v = (int64_t)v_ll(v_at(c, 2));
		int s = (int)v_ll(v_at(c, 3)), mx = (int)v_ll(v_at(c, 4)), strict = (int)v_ll(v_at(c, 5));
		size_t n = (size_t)(s > mx ? s : mx);
		char *p = malloc(n ? n : 1);
		int r = 0;
		memset(p, 0xEE, n ? n : 1);
		switch (kind) {
		case 0: r = ustar_format_number(v, p, s, mx, strict); break;
		case 1: r = ustar_format_octal(v, p, s); break;
		case 2: r = ustar_format_256(v, p, s); break;
		case 3: r = gnutar_format_number(v, p, s, mx); break;
		case 4: r = gnutar_format_octal(v, p, s); break;
		case 5: r = odc_format_octal(v, p, s); break;
		case 6: r = format_hex(v, p, s); break;
		case 7: r = arw_format_octal(v, p, s); break;
		case 8: r = arw_format_decimal(v, p, s); break;
		case 9: { uint16_t x = la_swap16((uint16_t)v); memcpy(p, &x, 2); break; }
		case 10: { uint32_t x = la_swap32((uint32_t)v); memcpy(p, &x, 4); break; }
		case 11: r = v7tar_format_number(v, p, s, mx, strict); break;
		}
		o_int(r);
		o_bytes(p, n);
		free(p);
	} else {
		val *b = v_at(c, 2);
		size_t n = v_len(b);
		/* the tar parsers (kinds 0-3) are also used on values that end where the read buffer ends (pax
		 * attributes, the GNU sparse 0.1 map): exactly the field.  The cpio and ar parsers only ever see
		 * fields inside a header block: one readable byte behind the field */
		size_t slack = kind <= 3 ? 0 : 1;
		char *p = malloc(n + slack ? n + slack : 1);
		int64_t r = 0;
		if (n) memcpy(p, b->b, n);
		if (slack) p[n] = '\0';
		switch (kind) {
		case 0: r = tar_atol(p, n); break;
		case 1: r = tar_atol8(p, n); break;
		case 2: r = tar_atol256(p, n); break;
		case 3: r = tar_atol10(p, n); break;
		case 4: r = cpio_r_atol8(p, (unsigned)n); break;
		case 5: r = cpio_r_atol16(p, (unsigned)n); break;
		case 6: r = cpio_r_le4((const unsigned char *)p); break;
		case 7: o_int((vint)ar_atol10(p, (unsigned)n)); goto done;
		case 8: o_int((vint)ar_atol8(p, (unsigned)n)); goto done;
		}
		o_int(r);
done:
		free(p);
	}
	o_close();
	o_endline();
}

int main(int argc, char **argv)
{
	return v_foreach_line(argc > 1 ? argv[1] : NULL, run_case);
}
