/* Writes an archive with the real writers and prints its bytes (used to build inputs for the
 * reader checks C05/C06/C08).
 * case = (format filter options bpb entries)   format/filter/options: byte strings (names as for
 *        archive_write_set_format_by_name / archive_write_add_filter_by_name / archive_write_set_options)
 *   entry = (pathname filetype perm uid gid mtime body symlink hardlink chunk sparse [xattrs])
 *        sparse = list of (offset length) pairs, chunk = write size for the body (0 = all at once)
 * result = (open_status (header_status data_status...)... close_status archive_bytes) */
#include <archive.h>
#include <archive_entry.h>
#include <locale.h>
#include "val.h"

struct sink { unsigned char *p; size_t n, cap; };
static la_ssize_t cb_write(struct archive *a, void *d, const void *b, size_t n)
{
	struct sink *s = d; (void)a;
	if (s->n + n > s->cap) { s->cap = (s->n + n) * 2 + 4096; s->p = realloc(s->p, s->cap); }
	memcpy(s->p + s->n, b, n); s->n += n;
	return (la_ssize_t)n;
}

static void run_case(val *c)
{
	struct archive *a = archive_write_new();
	struct sink s = { NULL, 0, 0 };
	char *fmt = v_cstr(v_at(c, 0)), *flt = v_cstr(v_at(c, 1)), *opt = v_cstr(v_at(c, 2));
	val *ents = v_at(c, 4);
	size_t k, j;
	int r;
	o_open();
	r = archive_write_set_format_by_name(a, fmt);
	if (r >= ARCHIVE_WARN && flt[0]) r = archive_write_add_filter_by_name(a, flt);
	if (r >= ARCHIVE_WARN && opt[0]) r = archive_write_set_options(a, opt);
	archive_write_set_bytes_per_block(a, (int)v_ll(v_at(c, 3)));
	archive_write_set_bytes_in_last_block(a, 1);
	if (r >= ARCHIVE_WARN) r = archive_write_open(a, &s, NULL, cb_write, NULL);
	o_int(r);
	for (k = 0; r >= ARCHIVE_WARN && k < v_len(ents); k++) {
		val *ev = v_at(ents, k);
		struct archive_entry *e = archive_entry_new();
		char *pn = v_cstr(v_at(ev, 0));
		val *body = v_at(ev, 6), *sp = v_at(ev, 10);
		size_t chunk = (size_t)v_ull(v_at(ev, 9)), off = 0;
		int hr;
		archive_entry_copy_pathname(e, pn);
		archive_entry_set_filetype(e, (unsigned)v_ull(v_at(ev, 1)));
		archive_entry_set_perm(e, (mode_t)v_ull(v_at(ev, 2)));
		archive_entry_set_uid(e, v_ll(v_at(ev, 3)));
		archive_entry_set_gid(e, v_ll(v_at(ev, 4)));
		archive_entry_set_mtime(e, v_ll(v_at(ev, 5)), 0);
		/* like archive_entry_copy_stat(): every entry has a size (the cpio writers refuse entries without one) */
		archive_entry_set_size(e, archive_entry_filetype(e) == AE_IFREG ? (la_int64_t)v_len(body) : 0);
		if (v_len(v_at(ev, 7))) { char *t = v_cstr(v_at(ev, 7)); archive_entry_copy_symlink(e, t); free(t); }
		if (v_len(v_at(ev, 8))) { char *t = v_cstr(v_at(ev, 8)); archive_entry_copy_hardlink(e, t); free(t); }
		for (j = 0; j < v_len(sp); j++)
			archive_entry_sparse_add_entry(e, v_ll(v_at(v_at(sp, j), 0)), v_ll(v_at(v_at(sp, j), 1)));
		if (v_len(ev) > 11) {		/* optional: extended attributes ((name value)...) */
			val *xs = v_at(ev, 11);
			for (j = 0; j < v_len(xs); j++) {
				char *xn = v_cstr(v_at(v_at(xs, j), 0));
				val *xv = v_at(v_at(xs, j), 1);
				archive_entry_xattr_add_entry(e, xn, xv->b, v_len(xv));
				free(xn);
			}
		}
		hr = archive_write_header(a, e);
		o_open(); o_int(hr);
		if (hr >= ARCHIVE_WARN && archive_entry_filetype(e) == AE_IFREG) {
			while (off < v_len(body)) {
				size_t n = chunk && chunk < v_len(body) - off ? chunk : v_len(body) - off;
				la_ssize_t w = archive_write_data(a, body->b + off, n);
				if (w < 0) { o_int(w); break; }
				if (w == 0) break;
				off += (size_t)w;
			}
		}
		o_close();
		if (hr == ARCHIVE_FATAL) r = hr;
		archive_entry_free(e);
		free(pn);
	}
	o_int(archive_write_close(a));
	o_bytes(s.p ? s.p : (unsigned char *)"", s.n);
	o_close();
	o_endline();
	archive_write_free(a);
	free(s.p); free(fmt); free(flt); free(opt);
}

int main(int argc, char **argv)
{
	/* VERIF_LOCALE: locale the writers convert names from (default: the C locale the process starts in) */
	const char *loc = getenv("VERIF_LOCALE");
	if (loc && *loc && setlocale(LC_ALL, loc) == NULL) { fprintf(stderr, "no locale %s\n", loc); return 4; }
	return v_foreach_line(argc > 1 ? argv[1] : NULL, run_case);
}
