/* Correspondence / oracle harness for C04 (secure extraction).
 *
 * The real archive_write_disk_posix.c is #included so that the static
 * cleanup_pathname_fsobj() can be called directly (op 1); ops 2 and 3 drive the
 * same translation unit through the public archive_write_disk API.
 *
 *  op 1  ( 1 flags xPATH )
 *        -> ( status xCLEANED xERRMSG )          exact-size heap buffer (ASan)
 *  op 2  ( 2 flags umask ( pre ... ) ( entry ... ) )
 *        pre   = ( kind xPATH xARG mode )        kind 0 file(ARG=content) 1 dir 2 symlink(ARG=target)
 *                                                3 hard link (ARG=existing path) 4 fifo
 *        entry = ( type xPATH xLINK mode mtime xDATA )   type 0 file 1 dir 2 symlink 3 hardlink 4 fifo
 *        -> ( ( (hdr fin) ... ) ( cwd_same umask_before umask_after ) ( target dump ) ( outside dump ) )
 *        The history runs in a forked child that chroot()s into a fresh sandbox
 *        /var/tmp/c04sb-XXXXXX = { outside/ (canary), target/ (cwd) }, so "/" in
 *        the case IS the sandbox root, exactly as in the model world.
 *  op 3  ( 3 fmt flags_unused umask ( pre ... ) ( entry ... ) )   fmt 0 tar(pax) 1 cpio(newc) 2 zip
 *        packs the entries with the real writer and extracts them with the
 *        freshly built bsdtar -x / bsdcpio -i / bsdunzip (default options,
 *        cwd = target, no chroot; absolute names/targets are rewritten to the
 *        sandbox).  -> ( exit_status ( outside dump ) )        oracle only.
 */
#define _GNU_SOURCE
#include "archive_write_disk_posix.c"

#include <dirent.h>
#include <sys/xattr.h>
#include <ftw.h>
#include <sys/wait.h>
#include <signal.h>
#include <sys/wait.h>
#include "val.h"

#define CANARY_MTIME 1000000000
#define SETUP_MTIME  1000000000

/* ------------------------------------------------------------------ op 1 */
static void op_cleanup(val *c)
{
	int flags = (int)v_ll(v_at(c, 1));
	char *path = v_cstr(v_at(c, 2));	/* exact-size block: strlen+1 */
	struct archive_string es;
	int eno = 0, r;

	archive_string_init(&es);
	r = cleanup_pathname_fsobj(path, &eno, &es, flags);
	o_open();
	o_int(r);
	if (r == ARCHIVE_OK) o_str(path); else o_str("");
	o_str(es.s ? es.s : "");
	o_close();
	o_endline();
	archive_string_free(&es);
	free(path);
}

/* ------------------------------------------------------------ fs helpers */
static void die(const char *what)
{
	fprintf(stderr, "fsSec harness: %s: %s\n", what, strerror(errno));
	exit(4);
}

static void set_mtime(const char *p, time_t t)
{
	struct timespec ts[2];
	ts[0].tv_sec = t; ts[0].tv_nsec = 0;
	ts[1].tv_sec = t; ts[1].tv_nsec = 0;
	if (utimensat(AT_FDCWD, p, ts, AT_SYMLINK_NOFOLLOW) != 0) die(p);
}

static void put_file(const char *p, const void *data, size_t n, mode_t mode)
{
	int fd = open(p, O_WRONLY | O_CREAT | O_EXCL, 0600);
	if (fd < 0) die(p);
	if (n && write(fd, data, n) != (ssize_t)n) die(p);
	if (fchmod(fd, mode) != 0) die(p);
	close(fd);
}

static void mkdirs_for(const char *p)	/* create the parents of p */
{
	char *s = strdup(p), *q;
	for (q = s + 1; *q; q++)
		if (*q == '/') {
			*q = '\0';
			if (mkdir(s, 0755) != 0 && errno != EEXIST) die(s);
			*q = '/';
		}
	free(s);
}

static void rm_rf(const char *p)
{
	/* rm(1) walks with openat(): copes with trees deeper than PATH_MAX */
	pid_t pid = fork();
	int st;
	if (pid == 0) {
		execl("/bin/rm", "rm", "-rf", "--", p, (char *)NULL);
		_exit(127);
	}
	if (pid > 0) waitpid(pid, &st, 0);
}

/* canary layout (must match props/C04.py and the model's initial world) */
static void build_outside(void)
{
	if (mkdir("outside", 0755) != 0) die("outside");
	put_file("outside/cfile", "canary", 6, 0644);
	if (mkdir("outside/cdir", 0755) != 0) die("cdir");
	put_file("outside/cdir/inner", "inner", 5, 0600);
	if (mkdir("outside/sub", 0755) != 0) die("sub");
	if (mkdir("outside/a", 0755) != 0) die("a");
	put_file("outside/b", "bee", 3, 0644);
	set_mtime("outside/cfile", CANARY_MTIME);
	set_mtime("outside/cdir/inner", CANARY_MTIME);
	set_mtime("outside/cdir", CANARY_MTIME);
	set_mtime("outside/sub", CANARY_MTIME);
	set_mtime("outside/a", CANARY_MTIME);
	set_mtime("outside/b", CANARY_MTIME);
	set_mtime("outside", CANARY_MTIME);
}

/* pre-existing contents of target/ ; cwd = sandbox root */
static void build_target(val *pre, const char *absprefix)
{
	size_t k;
	if (mkdir("target", 0755) != 0) die("target");
	for (k = 0; k < v_len(pre); k++) {
		val *p = v_at(pre, k);
		int kind = (int)v_ll(v_at(p, 0));
		char *rel = v_cstr(v_at(p, 1));
		char *arg = v_cstr(v_at(p, 2));
		mode_t mode = (mode_t)v_ll(v_at(p, 3));
		char path[8192], arg2[8192];
		snprintf(path, sizeof(path), "target/%s", rel);
		mkdirs_for(path);
		switch (kind) {
		case 0: put_file(path, v_at(p, 2)->b, v_len(v_at(p, 2)), mode); break;
		case 1: if (mkdir(path, 0755) != 0 && errno != EEXIST) die(path);
			if (chmod(path, mode) != 0) die(path); break;
		case 2:
			if (arg[0] == '/' && absprefix)
				snprintf(arg2, sizeof(arg2), "%s%s", absprefix, arg);
			else
				snprintf(arg2, sizeof(arg2), "%s", arg);
			if (symlink(arg2, path) != 0) die(path);
			break;
		case 3: snprintf(arg2, sizeof(arg2), "target/%s", arg);
			if (link(arg2, path) != 0) die(path); break;
		case 4: if (mkfifo(path, mode) != 0) die(path);
			if (chmod(path, mode) != 0) die(path); break;
		}
		free(rel); free(arg);
	}
}

/* all non-symlink objects under target get a fixed mtime (bottom-up is not needed: utimensat does
 * not touch the parent) */
static int mt_cb(const char *p, const struct stat *st, int t, struct FTW *f)
{
	(void)st; (void)t; (void)f;
	set_mtime(p, SETUP_MTIME);
	return 0;
}

/* ------------------------------------------------------------------ dump */
/* all accesses are relative to directory descriptors: extracted paths may exceed PATH_MAX */
struct dent { char *name; };
static int dent_cmp(const void *a, const void *b)
{
	return strcmp(((const struct dent *)a)->name, ((const struct dent *)b)->name);
}

static struct dent *list_dir(int dfd, size_t *np)
{
	int fd2 = dup(dfd);
	DIR *d = fd2 >= 0 ? fdopendir(fd2) : NULL;
	struct dirent *de;
	struct dent *v = NULL; size_t n = 0, cap = 0;
	*np = 0;
	if (d == NULL) { if (fd2 >= 0) close(fd2); return NULL; }
	rewinddir(d);
	while ((de = readdir(d)) != NULL) {
		if (!strcmp(de->d_name, ".") || !strcmp(de->d_name, "..")) continue;
		if (n == cap) { cap = cap ? cap * 2 : 16; v = realloc(v, cap * sizeof(*v)); }
		v[n++].name = strdup(de->d_name);
	}
	closedir(d);
	if (n > 1) qsort(v, n, sizeof(*v), dent_cmp);
	*np = n;
	return v;
}

static char *rel_join(const char *rel, const char *name)
{
	char *r = malloc(strlen(rel) + strlen(name) + 2);
	sprintf(r, "%s%s%s", rel, rel[0] ? "/" : "", name);
	return r;
}

struct seen { ino_t ino; char *path; };
static struct seen *seen_tab; static size_t seen_n, seen_cap;

/* first pass: remember the first (in dump order) path of every regular-file inode */
static void scan_groups(int dfd, const char *rel)
{
	size_t n, k;
	struct dent *v = list_dir(dfd, &n);
	for (k = 0; k < n; k++) {
		char *r = rel_join(rel, v[k].name);
		struct stat st;
		if (fstatat(dfd, v[k].name, &st, AT_SYMLINK_NOFOLLOW) == 0) {
			if (S_ISREG(st.st_mode)) {
				if (seen_n == seen_cap) { seen_cap = seen_cap ? seen_cap * 2 : 32; seen_tab = realloc(seen_tab, seen_cap * sizeof(*seen_tab)); }
				seen_tab[seen_n].ino = st.st_ino; seen_tab[seen_n].path = strdup(r); seen_n++;
			} else if (S_ISDIR(st.st_mode)) {
				int sub = openat(dfd, v[k].name, O_RDONLY | O_DIRECTORY | O_NOFOLLOW);
				if (sub >= 0) { scan_groups(sub, r); close(sub); }
			}
		}
		free(r);
		free(v[k].name);
	}
	free(v);
}

static const char *group_of(ino_t ino)
{
	size_t k, cnt = 0; const char *first = NULL;
	for (k = 0; k < seen_n; k++)
		if (seen_tab[k].ino == ino) { if (!first) first = seen_tab[k].path; cnt++; }
	return cnt > 1 ? first : "";
}

/* one object: ( xpath type xlink xcontent mode mtime xgroup|nlink ) ; type 0 file 1 dir 2 symlink 4 fifo 9 other */
/* an object outside the target that has gained the attribute of entry type 6 shows it in its mode field */
static int has_user_xattr(int dfd, const char *name, int isdir)
{
	char v[8];
	int fd = openat(dfd, name, O_RDONLY | O_NOFOLLOW | (isdir ? O_DIRECTORY : 0));
	int r = 0;
	if (fd >= 0) { r = fgetxattr(fd, "user.c04", v, sizeof(v)) >= 0; close(fd); }
	return r;
}

static void dump_obj(int dfd, const char *name, const char *rel, int inside, int with_time)
{
	struct stat st;
	char buf[8192];
	ssize_t n;
	if (fstatat(dfd, name, &st, AT_SYMLINK_NOFOLLOW) != 0) return;
	o_open();
	o_str(rel);
	if (S_ISREG(st.st_mode)) {
		int fd = openat(dfd, name, O_RDONLY | O_NOFOLLOW);
		size_t got = 0;
		o_int(0); o_str("");
		if (fd >= 0) {
			while (got < sizeof(buf) && (n = read(fd, buf + got, sizeof(buf) - got)) > 0) got += (size_t)n;
			close(fd);
		}
		o_bytes(buf, got);
		o_int((st.st_mode & 07777) | (!inside && has_user_xattr(dfd, name, 0) ? 0100000 : 0));
		/* an mtime nobody set explicitly is "now": printed as 0 */
		o_int(with_time && st.st_mtime < 1500000000 ? (vint)st.st_mtime : 0);
		if (inside) o_str(group_of(st.st_ino)); else o_int(st.st_nlink);
	} else if (S_ISDIR(st.st_mode)) {
		o_int(1); o_str(""); o_str("");
		o_int((st.st_mode & 07777) | (!inside && has_user_xattr(dfd, name, 1) ? 0100000 : 0));
		o_int(inside || st.st_mtime >= 1500000000 ? 0 : (vint)st.st_mtime);
		if (inside) o_str(""); else o_int(0);
	} else if (S_ISLNK(st.st_mode)) {
		n = readlinkat(dfd, name, buf, sizeof(buf) - 1);
		if (n < 0) n = 0;
		buf[n] = '\0';
		o_int(2); o_bytes(buf, (size_t)n); o_str("");
		o_int(0); o_int(0);
		if (inside) o_str(""); else o_int(0);
	} else {
		o_int(S_ISFIFO(st.st_mode) ? 4 : 9); o_str(""); o_str("");
		o_int(st.st_mode & 07777);
		o_int(inside || st.st_mtime >= 1500000000 ? 0 : (vint)st.st_mtime);
		if (inside) o_str(""); else o_int(st.st_nlink);
	}
	o_close();
}

static void dump_tree(int dfd, const char *rel, int inside, int with_time, const char *skip)
{
	size_t n, k;
	struct dent *v = list_dir(dfd, &n);
	for (k = 0; k < n; k++) {
		struct stat st;
		if (!(skip && !strcmp(v[k].name, skip))) {
			char *r = rel_join(rel, v[k].name);
			dump_obj(dfd, v[k].name, r, inside, with_time);
			if (fstatat(dfd, v[k].name, &st, AT_SYMLINK_NOFOLLOW) == 0 && S_ISDIR(st.st_mode)) {
				int sub = openat(dfd, v[k].name, O_RDONLY | O_DIRECTORY | O_NOFOLLOW);
				if (sub >= 0) { dump_tree(sub, r, inside, with_time, NULL); close(sub); }
			}
			free(r);
		}
		free(v[k].name);
	}
	free(v);
}

/* dump of the target tree (inside=1) or of everything else below the sandbox root (inside=0);
 * cwd must be the sandbox root */
static void dump_target(int with_time)
{
	int dfd = open("target", O_RDONLY | O_DIRECTORY | O_NOFOLLOW);
	int rfd = open(".", O_RDONLY | O_DIRECTORY);
	if (dfd >= 0) scan_groups(dfd, "");
	o_open();
	dump_obj(rfd, "target", "", 1, 0);
	if (dfd >= 0) { dump_tree(dfd, "", 1, with_time, NULL); close(dfd); }
	o_close();
	close(rfd);
}
static void dump_outside(void)
{
	int rfd = open(".", O_RDONLY | O_DIRECTORY);
	o_open();
	dump_obj(rfd, ".", "", 0, 1);
	dump_tree(rfd, "", 0, 1, "target");
	o_close();
	close(rfd);
}

/* ------------------------------------------------------------------ op 2 */
static struct archive_entry *make_entry(val *e, const char *absprefix)
{
	struct archive_entry *ae = archive_entry_new();
	int type = (int)v_ll(v_at(e, 0));
	char *path = v_cstr(v_at(e, 1));
	char *lnk = v_cstr(v_at(e, 2));
	mode_t mode = (mode_t)v_ll(v_at(e, 3)) & 0777;
	long long mt = v_ll(v_at(e, 4));
	size_t dlen = v_len(v_at(e, 5));
	char *p2 = path, *l2 = lnk;
	if (absprefix) {
		if (path[0] == '/') { p2 = malloc(strlen(path) + strlen(absprefix) + 1); sprintf(p2, "%s%s", absprefix, path); }
		if (lnk[0] == '/') { l2 = malloc(strlen(lnk) + strlen(absprefix) + 1); sprintf(l2, "%s%s", absprefix, lnk); }
	}
	archive_entry_copy_pathname(ae, p2);
	switch (type) {
	case 0: archive_entry_set_mode(ae, AE_IFREG | mode); archive_entry_set_size(ae, (la_int64_t)dlen); break;
	case 1: archive_entry_set_mode(ae, AE_IFDIR | mode); break;
	case 2: archive_entry_set_mode(ae, AE_IFLNK | mode); archive_entry_copy_symlink(ae, l2); break;
	case 3: archive_entry_set_mode(ae, AE_IFREG | mode); archive_entry_copy_hardlink(ae, l2);
		if (dlen > 0) archive_entry_set_size(ae, (la_int64_t)dlen);
		break;
	case 4: archive_entry_set_mode(ae, AE_IFIFO | mode); break;
	/* 5: a link target on an entry that says it is a regular file (the API allows it, a pax linkpath too) */
	case 5: archive_entry_set_mode(ae, AE_IFREG | mode); archive_entry_copy_symlink(ae, l2); break;
	/* 6: a symbolic link that carries an extended attribute */
	case 6: archive_entry_set_mode(ae, AE_IFLNK | mode); archive_entry_copy_symlink(ae, l2);
		archive_entry_xattr_add_entry(ae, "user.c04", "1", 1); break;
	}
	if (mt >= 0) archive_entry_set_mtime(ae, (time_t)mt, 0);
	if (p2 != path) free(p2);
	if (l2 != lnk) free(l2);
	free(path); free(lnk);
	return ae;
}

static void history_child(val *c)
{
	int flags = (int)v_ll(v_at(c, 1));
	mode_t um = (mode_t)v_ll(v_at(c, 2)), um_before, um_after;
	val *ents = v_at(c, 4);
	struct archive *a;
	char cwd0[4096], cwd1[4096];
	size_t k;
	int cwd_same = 1;

	if (chroot(".") != 0) die("chroot");
	if (chdir("/target") != 0) die("chdir target");
	umask(um);
	um_before = umask(um);
	if (getcwd(cwd0, sizeof(cwd0)) == NULL) die("getcwd");

	a = archive_write_disk_new();
	archive_write_disk_set_options(a, flags);
	o_open();
	o_open();
	for (k = 0; k < v_len(ents); k++) {
		val *e = v_at(ents, k);
		struct archive_entry *ae = make_entry(e, NULL);
		int hdr, fin;
		mode_t um_now;
		hdr = archive_write_header(a, ae);
		if (hdr == ARCHIVE_OK && archive_entry_size(ae) > 0 && v_len(v_at(e, 5)) > 0)
			(void)archive_write_data(a, v_at(e, 5)->b, v_len(v_at(e, 5)));
		fin = archive_write_finish_entry(a);
		/* entry type 6: Linux refuses user.* attributes on a symbolic link, the warning is not the model's business */
		if (v_ll(v_at(e, 0)) == 6 && fin == ARCHIVE_WARN) fin = ARCHIVE_OK;
		o_open(); o_int(hdr); o_int(fin); o_close();
		archive_entry_free(ae);
		/* the statement: cwd and umask are the same after every call as before it */
		um_now = umask(um);
		if (um_now != um) cwd_same = 0;
		if (getcwd(cwd1, sizeof(cwd1)) == NULL || strcmp(cwd0, cwd1) != 0) cwd_same = 0;
		if (hdr == ARCHIVE_FATAL) break;
	}
	o_close();
	archive_write_close(a);
	archive_write_free(a);
	um_after = umask(um);
	if (getcwd(cwd1, sizeof(cwd1)) == NULL || strcmp(cwd0, cwd1) != 0) cwd_same = 0;
	o_open(); o_int(cwd_same); o_int(um_before); o_int(um_after); o_close();

	if (chdir("/") != 0) die("chdir /");
	dump_target((flags & ARCHIVE_EXTRACT_TIME) != 0);
	dump_outside();
	o_close();
	o_endline();
	fflush(stdout);
	_exit(0);
}

static char *make_sandbox(val *pre, int absolute_links)
{
	char tmpl[] = "/var/tmp/c04sb-XXXXXX";
	char *sb = mkdtemp(tmpl);
	if (sb == NULL) die("mkdtemp");
	umask(022);
	sb = strdup(sb);
	if (chmod(sb, 0755) != 0) die("chmod sandbox");
	if (chdir(sb) != 0) die("chdir sandbox");
	build_outside();
	build_target(pre, absolute_links ? sb : NULL);
	nftw("target", mt_cb, 32, FTW_PHYS | FTW_DEPTH);
	set_mtime(".", CANARY_MTIME);
	return sb;
}

static void op_history(val *c)
{
	char *sb;
	pid_t pid;
	int st = 0;
	fflush(stdout);
	sb = make_sandbox(v_at(c, 3), 0);
	pid = fork();
	if (pid < 0) die("fork");
	if (pid == 0) {
		alarm(60);
		history_child(c);
		_exit(5);
	}
	if (waitpid(pid, &st, 0) < 0) die("waitpid");
	if (!WIFEXITED(st) || WEXITSTATUS(st) != 0) {
		/* the child may have printed a partial line */
		o_need_sp = 0;
		printf(" (x4352415348 %x)", (unsigned)st);	/* "CRASH" */
		o_endline();
	}
	if (chdir("/var/tmp") != 0) die("chdir /var/tmp");
	rm_rf(sb);
	free(sb);
}

/* ------------------------------------------------------------------ op 3 */
static int run_in(const char *dir, char *const argv[], const char *stdin_file)
{
	pid_t pid = fork();
	int st = 0;
	if (pid < 0) die("fork");
	if (pid == 0) {
		int fd;
		alarm(60);
		if (chdir(dir) != 0) _exit(120);
		if (stdin_file) { fd = open(stdin_file, O_RDONLY); if (fd < 0) _exit(121); dup2(fd, 0); close(fd); }
		fd = open("/dev/null", O_WRONLY); if (fd >= 0) { dup2(fd, 1); dup2(fd, 2); close(fd); }
		execv(argv[0], argv);
		_exit(122);
	}
	if (waitpid(pid, &st, 0) < 0) die("waitpid");
	if (WIFEXITED(st)) return WEXITSTATUS(st);
	return 1000 + (WIFSIGNALED(st) ? WTERMSIG(st) : 0);
}

static void op_frontend(val *c)
{
	int fmt = (int)v_ll(v_at(c, 1));
	mode_t um = (mode_t)v_ll(v_at(c, 3)), old;
	val *ents = v_at(c, 5);
	const char *bindir = getenv("VERIF_BIN");
	char *sb, arch[4096], tool[4096], tdir[4096];
	struct archive *w;
	size_t k;
	int rc = -1, nfiles = 0;
	long long next_ino = 100;
	/* cpio has no link names: remember (path, ino) of file entries */
	struct { char *path; long long ino; } inos[256]; size_t ninos = 0;

	fflush(stdout);
	sb = make_sandbox(v_at(c, 4), 1);
	snprintf(arch, sizeof(arch), "%s/h.arc", sb);
	snprintf(tdir, sizeof(tdir), "%s/target", sb);
	w = archive_write_new();
	if (fmt == 0) archive_write_set_format_pax_restricted(w);
	else if (fmt == 1) archive_write_set_format_cpio_newc(w);
	else { archive_write_set_format_zip(w); archive_write_set_options(w, "zip:compression=store"); }
	archive_write_add_filter_none(w);
	if (archive_write_open_filename(w, arch) != ARCHIVE_OK) die("open archive");
	for (k = 0; k < v_len(ents); k++) {
		val *e = v_at(ents, k);
		int type = (int)v_ll(v_at(e, 0));
		struct archive_entry *ae;
		if (fmt == 2 && (type == 3 || type == 4)) continue;
		if (v_len(v_at(e, 1)) == 0) continue;	/* by-catch: the zip writer reads path[strlen-1] of an empty name */
		ae = make_entry(e, sb);
		if (fmt == 1) {
			archive_entry_set_dev(ae, 1);
			archive_entry_set_nlink(ae, 1);
			if (type == 3) {
				size_t j; long long ino = -1;
				const char *t = archive_entry_hardlink(ae);
				for (j = 0; j < ninos; j++) if (t && !strcmp(inos[j].path, t)) ino = inos[j].ino;
				if (ino < 0) { archive_entry_free(ae); continue; }
				archive_entry_set_ino64(ae, ino);
				archive_entry_set_nlink(ae, 2);
				archive_entry_set_hardlink(ae, NULL);
				/* newc: a later member of a link group may carry the body */
				archive_entry_set_size(ae, (la_int64_t)v_len(v_at(e, 5)));
			} else {
				archive_entry_set_ino64(ae, next_ino);
				if ((type == 0 || type == 2) && ninos < 256) {
					inos[ninos].path = strdup(archive_entry_pathname(ae));
					inos[ninos].ino = next_ino; ninos++;
					archive_entry_set_nlink(ae, 2);
				}
				next_ino++;
			}
		}
		if (!archive_entry_size_is_set(ae))
			archive_entry_set_size(ae, 0);	/* the cpio writer insists on a size */
		if (archive_write_header(w, ae) >= ARCHIVE_WARN) {
			nfiles++;
			if (archive_entry_size(ae) > 0 && v_len(v_at(e, 5)) > 0)
				archive_write_data(w, v_at(e, 5)->b, v_len(v_at(e, 5)));
		}
		archive_entry_free(ae);
	}
	archive_write_close(w);
	archive_write_free(w);
	for (k = 0; k < ninos; k++) free(inos[k].path);
	/* the archive file lives in the sandbox root: re-stamp the root */
	if (chdir(sb) != 0) die("chdir sandbox");
	old = umask(um);
	if (bindir != NULL) {
		if (fmt == 0) {
			char *argv[] = { tool, "-x", "-f", arch, NULL };
			snprintf(tool, sizeof(tool), "%s/bsdtar", bindir);
			rc = run_in(tdir, argv, NULL);
		} else if (fmt == 1) {
			char *argv[] = { tool, "-i", NULL };
			snprintf(tool, sizeof(tool), "%s/bsdcpio", bindir);
			rc = run_in(tdir, argv, arch);
		} else {
			char *argv[] = { tool, "-o", arch, NULL };
			snprintf(tool, sizeof(tool), "%s/bsdunzip", bindir);
			rc = run_in(tdir, argv, NULL);
		}
	}
	umask(old);
	unlink(arch);
	set_mtime(".", CANARY_MTIME);	/* creating/removing h.arc touched the root's own mtime, nothing else */
	o_open();
	o_int(rc); o_int(nfiles);
	dump_outside();
	o_close();
	o_endline();
	if (chdir("/var/tmp") != 0) die("chdir /var/tmp");
	rm_rf(sb);
	free(sb);
}

static void run_case(val *c)
{
	switch ((int)v_ll(v_at(c, 0))) {
	case 1: op_cleanup(c); break;
	case 2: op_history(c); break;
	case 3: op_frontend(c); break;
	default: o_open(); o_str("BADOP"); o_close(); o_endline(); break;
	}
}

int main(int argc, char **argv)
{
	signal(SIGPIPE, SIG_IGN);
	return v_foreach_line(argc > 1 ? argv[1] : NULL, run_case);
}
