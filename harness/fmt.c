/* Harness of the `fmt` family (C10, C02, C11): drives the REAL libarchive writers and readers
 * through the public API only.
 *
 * case  = ( op locale fmt options filter bpb bilb payload emit poison rmode )
 *   op      0 write the entry program, then read the produced archive back
 *           1 payload is an archive (bytes): read it back only
 *           2 write only
 *   locale  0 "C", 1 "C.UTF-8"
 *   fmt     format name for archive_write_set_format_by_name
 *   options string for archive_write_set_options ("" = none)
 *   filter  filter name for archive_write_add_filter_by_name ("" = none)
 *   bpb     bytes_per_block (-1 = library default), bilb bytes_in_last_block (-1 = default)
 *   payload list of entries (op 0, 2) / archive bytes (op 1)
 *   emit    maximal number of archive bytes printed (0 = none)
 *   poison  -1 none, else 0..255: byte pattern the stack is filled with before every API call
 *   rmode   0 read every entry with its body; 1 read the first header only (truncated archives)
 * entry = ( path? hardlink? symlink? uname? gname? mode uid gid size? mtime? atime? ctime?
 *           birthtime? dev? ino? nlink rdev body chunks flags xattrs fflags )
 *   x? = () unset | (v);  times are (sec nsec);  chunks = list of write sizes (last one repeats;
 *   empty = one write);  flags bit0: stop after this header (the sink then refuses all output), bit1: set the pathname as a wide string made of the bytes' code points,
 *   bit2: do not write the body although size > 0, bit3: uname/gname/linknames via wide strings too,
 *   bit4: set rdev even when it is 0, bit5: attach Mac OS metadata (321 bytes), bit6: add a POSIX.1e access ACL with one
 *   named user.
 * result = ( ( open ( (hdr err before after data finish)* ) close total ) bytes
 *            ( format filter ( rentry* ) final err ) )
 * rentry = ( status path? hardlink? symlink? uname? gname? mode uid gid size? mtime? atime? ctime?
 *            birthtime? dev? ino? nlink rdev dstatus body xattrs fflags )
 */
#include <archive.h>
#include <archive_entry.h>
#include <locale.h>
#include <wchar.h>
#include <time.h>
#include <unistd.h>
#include "val.h"

#ifdef VERIF_VALGRIND
#include <valgrind/memcheck.h>
#endif

/* ---- pinned clock / pid / random source (C11): every caller in this process, libarchive.a included ---- */
#define PINNED_TIME 1000000000
time_t time(time_t *t) { if (t) *t = PINNED_TIME; return PINNED_TIME; }
pid_t getpid(void) { return 4242; }
/* archive_random() calls arc4random_buf on this platform (HAVE_ARC4RANDOM_BUF) */
static unsigned char g_rand_ctr;	/* reset for every case: what a case sees must not depend on the cases before it */
void arc4random_buf(void *buf, size_t n)
{
	unsigned char *p = buf;
	while (n-- > 0) *p++ = (unsigned char)(0x5a + 7 * g_rand_ctr++);
}

/* ---- stack poisoning trampoline ---- */
static int g_poison = -1;
static void __attribute__((noinline)) poison_stack(void)
{
	volatile unsigned char pad[192 * 1024];
	size_t k;
	if (g_poison < 0) return;
	for (k = 0; k < sizeof(pad); k++) pad[k] = (unsigned char)g_poison;
	__asm__ volatile("" : : "r"(pad) : "memory");
}
#define P() poison_stack()

/* ---- memory sink ---- */
struct sink { unsigned char *b; size_t n, cap; int dead; };
static la_ssize_t sink_write(struct archive *a, void *cd, const void *buf, size_t len)
{
	struct sink *s = cd;
	(void)a;
	if (s->dead) return -1;	/* the client gave the archive up: refuse further output */
	{
		/* touch every byte handed to the write callback: under memcheck a byte derived from
		 * uninitialised memory makes the branch (and the explicit check) report an error */
		const unsigned char *q = buf;
		static volatile unsigned long touched;
		size_t k;
#ifdef VERIF_VALGRIND
		(void)VALGRIND_CHECK_MEM_IS_DEFINED(buf, len);
#endif
		for (k = 0; k < len; k++)
			if (q[k] & 1) touched++;
	}
	if (s->n + len > s->cap) {
		size_t nc = s->cap ? s->cap : 65536;
		while (nc < s->n + len) nc *= 2;
		s->b = realloc(s->b, nc);
		s->cap = nc;
	}
	memcpy(s->b + s->n, buf, len);
	s->n += len;
	return (la_ssize_t)len;
}

static int has1(val *v) { return v_len(v) == 1; }

static wchar_t *wide_of(val *v)
{
	size_t n = v->n, k;
	wchar_t *w = malloc((n + 1) * sizeof(wchar_t));
	for (k = 0; k < n; k++) w[k] = (wchar_t)v->b[k];
	w[n] = 0;
	return w;
}

static void set_str(struct archive_entry *e, val *opt, int wide,
    void (*cp)(struct archive_entry *, const char *),
    void (*cpw)(struct archive_entry *, const wchar_t *))
{
	if (!has1(opt)) return;
	if (wide) {
		wchar_t *w = wide_of(v_at(opt, 0));
		cpw(e, w);
		free(w);
	} else {
		char *s = v_cstr(v_at(opt, 0));
		cp(e, s);
		free(s);
	}
}

static struct archive_entry *make_entry(val *d)
{
	struct archive_entry *e = archive_entry_new();
	int flags = (int)v_ll(v_at(d, 19));
	val *xs = v_at(d, 20), *ff = v_at(d, 21);
	size_t k;
	set_str(e, v_at(d, 0), flags & 2, archive_entry_copy_pathname, archive_entry_copy_pathname_w);
	set_str(e, v_at(d, 1), flags & 8, archive_entry_copy_hardlink, archive_entry_copy_hardlink_w);
	set_str(e, v_at(d, 2), flags & 8, archive_entry_copy_symlink, archive_entry_copy_symlink_w);
	set_str(e, v_at(d, 3), flags & 8, archive_entry_copy_uname, archive_entry_copy_uname_w);
	set_str(e, v_at(d, 4), flags & 8, archive_entry_copy_gname, archive_entry_copy_gname_w);
	if (flags & 32) {	/* Mac OS metadata (an AppleDouble blob): pax writes it as a '._' member of its own in front */
		unsigned char md[321];
		size_t k;
		for (k = 0; k < sizeof(md); k++) md[k] = (unsigned char)(k * 7 + 3);
		md[0] = 0x00; md[1] = 0x05; md[2] = 0x16; md[3] = 0x07;
		archive_entry_copy_mac_metadata(e, md, sizeof(md));
	}
	if (flags & 64) {	/* a POSIX.1e access ACL with one named user */
		archive_entry_acl_add_entry(e, ARCHIVE_ENTRY_ACL_TYPE_ACCESS, 7, ARCHIVE_ENTRY_ACL_USER_OBJ, -1, NULL);
		archive_entry_acl_add_entry(e, ARCHIVE_ENTRY_ACL_TYPE_ACCESS, 4, ARCHIVE_ENTRY_ACL_USER, 77, "u77");
		archive_entry_acl_add_entry(e, ARCHIVE_ENTRY_ACL_TYPE_ACCESS, 5, ARCHIVE_ENTRY_ACL_GROUP_OBJ, -1, NULL);
		archive_entry_acl_add_entry(e, ARCHIVE_ENTRY_ACL_TYPE_ACCESS, 5, ARCHIVE_ENTRY_ACL_MASK, -1, NULL);
		archive_entry_acl_add_entry(e, ARCHIVE_ENTRY_ACL_TYPE_ACCESS, 4, ARCHIVE_ENTRY_ACL_OTHER, -1, NULL);
	}
	archive_entry_set_mode(e, (mode_t)v_ull(v_at(d, 5)));
	archive_entry_set_uid(e, v_ll(v_at(d, 6)));
	archive_entry_set_gid(e, v_ll(v_at(d, 7)));
	if (has1(v_at(d, 8))) archive_entry_set_size(e, v_ll(v_at(v_at(d, 8), 0)));
	if (has1(v_at(d, 9))) archive_entry_set_mtime(e, (time_t)v_ll(v_at(v_at(v_at(d, 9), 0), 0)), (long)v_ll(v_at(v_at(v_at(d, 9), 0), 1)));
	if (has1(v_at(d, 10))) archive_entry_set_atime(e, (time_t)v_ll(v_at(v_at(v_at(d, 10), 0), 0)), (long)v_ll(v_at(v_at(v_at(d, 10), 0), 1)));
	if (has1(v_at(d, 11))) archive_entry_set_ctime(e, (time_t)v_ll(v_at(v_at(v_at(d, 11), 0), 0)), (long)v_ll(v_at(v_at(v_at(d, 11), 0), 1)));
	if (has1(v_at(d, 12))) archive_entry_set_birthtime(e, (time_t)v_ll(v_at(v_at(v_at(d, 12), 0), 0)), (long)v_ll(v_at(v_at(v_at(d, 12), 0), 1)));
	if (has1(v_at(d, 13))) archive_entry_set_dev(e, (dev_t)v_ull(v_at(v_at(d, 13), 0)));
	if (has1(v_at(d, 14))) archive_entry_set_ino64(e, v_ll(v_at(v_at(d, 14), 0)));
	archive_entry_set_nlink(e, (unsigned int)v_ull(v_at(d, 15)));
	if (v_ull(v_at(d, 16)) != 0 || (flags & 16)) archive_entry_set_rdev(e, (dev_t)v_ull(v_at(d, 16)));
	for (k = 0; k < v_len(xs); k++) {
		val *x = v_at(xs, k);
		char *nm = v_cstr(v_at(x, 0));
		archive_entry_xattr_add_entry(e, nm, v_at(x, 1)->b, v_at(x, 1)->n);
		free(nm);
	}
	if (v_len(ff) == 2)
		archive_entry_set_fflags(e, (unsigned long)v_ull(v_at(ff, 0)), (unsigned long)v_ull(v_at(ff, 1)));
	return e;
}

static void o_opt_bytes(const char *s) { o_optstr(s); }
static void o_time(int isset, long long s, long ns)
{
	o_open();
	if (isset) { o_open(); o_int(s); o_int(ns); o_close(); }
	o_close();
}

struct xa { char *name; unsigned char *v; size_t n; };
static int xa_cmp(const void *a, const void *b)
{
	return strcmp(((const struct xa *)a)->name, ((const struct xa *)b)->name);
}

static void out_rentry(struct archive *r, int st, struct archive_entry *e, int with_body)
{
	unsigned long fs, fc;
	int nx, k;
	o_open();
	o_int(st);
	o_opt_bytes(archive_entry_pathname(e));
	o_opt_bytes(archive_entry_hardlink(e));
	o_opt_bytes(archive_entry_symlink(e));
	o_opt_bytes(archive_entry_uname(e));
	o_opt_bytes(archive_entry_gname(e));
	o_uint((unsigned long long)archive_entry_mode(e));
	o_int((vint)archive_entry_uid(e));
	o_int((vint)archive_entry_gid(e));
	o_open(); if (archive_entry_size_is_set(e)) o_int((vint)archive_entry_size(e)); o_close();
	o_time(archive_entry_mtime_is_set(e), archive_entry_mtime(e), archive_entry_mtime_nsec(e));
	o_time(archive_entry_atime_is_set(e), archive_entry_atime(e), archive_entry_atime_nsec(e));
	o_time(archive_entry_ctime_is_set(e), archive_entry_ctime(e), archive_entry_ctime_nsec(e));
	o_time(archive_entry_birthtime_is_set(e), archive_entry_birthtime(e), archive_entry_birthtime_nsec(e));
	o_open(); if (archive_entry_dev_is_set(e)) o_uint((unsigned long long)archive_entry_dev(e)); o_close();
	o_open(); if (archive_entry_ino_is_set(e)) o_int((vint)archive_entry_ino64(e)); o_close();
	o_uint((unsigned long long)archive_entry_nlink(e));
	o_uint((unsigned long long)archive_entry_rdev(e));
	if (with_body) {
		struct sink body = { NULL, 0, 0, 0 };
		char buf[8192];
		la_ssize_t n;
		int dst = ARCHIVE_OK;
		for (;;) {
			P();
			n = archive_read_data(r, buf, sizeof(buf));
			if (n < 0) { dst = (int)n; break; }
			if (n == 0) break;
			if (body.n > (64u << 20)) { dst = -99; break; }
			sink_write(NULL, &body, buf, (size_t)n);
		}
		o_int(dst);
		o_bytes(body.b ? body.b : (unsigned char *)"", body.n);
		free(body.b);
	} else {
		o_int(0);
		o_bytes("", 0);
	}
	/* xattrs, sorted by name */
	nx = archive_entry_xattr_reset(e);
	o_open();
	if (nx > 0) {
		struct xa *xs = calloc((size_t)nx, sizeof(*xs));
		const char *nm; const void *v; size_t n;
		for (k = 0; k < nx && archive_entry_xattr_next(e, &nm, &v, &n) == ARCHIVE_OK; k++) {
			xs[k].name = strdup(nm);
			xs[k].v = malloc(n ? n : 1);
			memcpy(xs[k].v, v, n);
			xs[k].n = n;
		}
		nx = k;
		qsort(xs, (size_t)nx, sizeof(*xs), xa_cmp);
		for (k = 0; k < nx; k++) {
			o_open(); o_str(xs[k].name); o_bytes(xs[k].v, xs[k].n); o_close();
			free(xs[k].name); free(xs[k].v);
		}
		free(xs);
	}
	o_close();
	archive_entry_fflags(e, &fs, &fc);
	o_open(); o_uint(fs); o_uint(fc); o_close();
	o_close();
}

static void read_back(const unsigned char *b, size_t n, int rmode)
{
	struct archive *r;
	struct archive_entry *e;
	int st, fmt_code = -1, flt = -1, first = 1, count = 0;
	char *err = NULL;
	P();
	r = archive_read_new();
	archive_read_support_format_all(r);
	archive_read_support_format_raw(r);
	archive_read_support_filter_all(r);
	o_open();
	P();
	st = archive_read_open_memory(r, b, n);
	if (st < ARCHIVE_WARN) {
		o_int(-1); o_int(-1); o_open(); o_close(); o_int(st); o_str(archive_error_string(r));
		o_close();
		archive_read_free(r);
		return;
	}
	/* entries are buffered: format/filter codes are known only after the first header */
	{
		FILE *save = o_fp;
		char *mem = NULL; size_t memn = 0;
		FILE *tmp = open_memstream(&mem, &memn);
		int save_sp = o_need_sp;
		o_fp = tmp; o_need_sp = 0;
		for (;;) {
			P();
			st = archive_read_next_header(r, &e);
			if (first) { fmt_code = archive_format(r); flt = archive_filter_code(r, 0); first = 0; }
			if (st == ARCHIVE_EOF || st < ARCHIVE_WARN) break;
			out_rentry(r, st, e, rmode == 0);
			if (rmode == 1 || ++count > 100000) { st = ARCHIVE_EOF; break; }
		}
		if (st != ARCHIVE_EOF && archive_error_string(r)) err = strdup(archive_error_string(r));
		fclose(tmp);
		o_fp = save; o_need_sp = save_sp;
		o_int(fmt_code); o_int(flt);
		o_open(); fputs(mem, O_FP); o_need_sp = 0; o_close();
		free(mem);
	}
	o_int(st);
	o_str(err ? err : "");
	free(err);
	o_close();
	P();
	archive_read_free(r);
}

static void run_case(val *c)
{
	g_rand_ctr = 0;
	int op = (int)v_ll(v_at(c, 0));
	int loc = (int)v_ll(v_at(c, 1));
	char *fmt = v_cstr(v_at(c, 2)), *opts = v_cstr(v_at(c, 3)), *flt = v_cstr(v_at(c, 4));
	long long bpb = v_ll(v_at(c, 5)), bilb = v_ll(v_at(c, 6));
	val *payload = v_at(c, 7);
	size_t emit = (size_t)v_ull(v_at(c, 8));
	int rmode = (int)v_ll(v_at(c, 10));
	struct sink out = { NULL, 0, 0, 0 };
	g_poison = (int)v_ll(v_at(c, 9));
	setlocale(LC_ALL, loc == 1 ? "C.UTF-8" : "C");
	o_open();
	if (op == 1) {
		o_open(); o_close();
		o_bytes("", 0);
		read_back(payload->b, payload->n, rmode);
	} else {
		struct archive *a;
		size_t k;
		int st, failed = 0;
		P();
		a = archive_write_new();
		st = archive_write_set_format_by_name(a, fmt);
		if (st >= ARCHIVE_WARN && flt[0]) { P(); st = archive_write_add_filter_by_name(a, flt); }
		if (st >= ARCHIVE_WARN && opts[0]) { P(); st = archive_write_set_options(a, opts); }
		if (bpb >= 0) archive_write_set_bytes_per_block(a, (int)bpb);
		if (bilb >= 0) archive_write_set_bytes_in_last_block(a, (int)bilb);
		if (st >= ARCHIVE_WARN) { P(); st = archive_write_open(a, &out, NULL, sink_write, NULL); }
		o_open();
		o_int(st);
		o_open();
		for (k = 0; st >= ARCHIVE_WARN && !failed && k < v_len(payload); k++) {
			val *d = v_at(payload, k);
			struct archive_entry *e = make_entry(d);
			int flags = (int)v_ll(v_at(d, 19));
			val *body = v_at(d, 17), *chunks = v_at(d, 18);
			size_t before = out.n, off = 0, ci = 0;
			long long dsum = 0;
			int hs, fs = 0, dst = 0;
			P();
			hs = archive_write_header(a, e);
			o_open();
			o_int(hs);
			o_str(hs != ARCHIVE_OK ? archive_error_string(a) : "");
			o_uint(before); o_uint(out.n);
			if (hs == ARCHIVE_FATAL) failed = 1;
			if ((flags & 1) && hs >= ARCHIVE_WARN) {
				failed = 1;
			} else if (hs >= ARCHIVE_WARN) {
				while (!(flags & 4) && off < v_len(body)) {
					size_t want = v_len(chunks) ? (size_t)v_ull(v_at(chunks, ci < v_len(chunks) ? ci : v_len(chunks) - 1)) : v_len(body);
					la_ssize_t w;
					if (want == 0) want = 1;
					if (want > v_len(body) - off) want = v_len(body) - off;
					P();
					w = archive_write_data(a, body->b + off, want);
					ci++;
					if (w < 0) { dst = (int)w; break; }
					if (w == 0) break;
					dsum += w;
					off += (size_t)w;
				}
				P();
				fs = archive_write_finish_entry(a);
				if (fs == ARCHIVE_FATAL) failed = 1;
			}
			o_int(dst < 0 ? dst : dsum);
			o_int(fs);
			o_close();
			archive_entry_free(e);
		}
		o_close();
		P();
		if (failed) {
			/* abandoned archive: let close run against a sink that refuses everything, so that
			 * nothing more is produced and every resource is released */
			out.dead = 1;
			archive_write_close(a);
			st = -1000;
		} else
			st = archive_write_close(a);
		o_int(st);
		o_uint(out.n);
		o_close();
		P();
		archive_write_free(a);
		o_bytes(out.b ? out.b : (unsigned char *)"", out.n < emit ? out.n : emit);
		if (op == 0)
			read_back(out.b, out.n, rmode);
		else { o_open(); o_close(); }
	}
	o_close();
	o_endline();
	free(out.b);
	free(fmt); free(opts); free(flt);
}

int main(int argc, char **argv)
{
	return v_foreach_line(argc > 1 ? argv[1] : NULL, run_case);
}
