/* Correspondence harness for C15 (ACL text round trip).
 *
 * The first include makes the static archive_acl_text_len() of the CURRENT source reachable, so the
 * number of characters archive_acl_to_text_l/_w allocate can be printed next to what they write.
 * (archive_acl.o of libarchive.a is then not linked: every archive_acl_* symbol comes from this
 * translation unit, i.e. from the same source file, compiled with the same sanitizer flags.)
 * Everything else goes through the public archive_entry_acl_* API.
 *
 * case = ( 0 wide mode ( (type tag perm id name) ... ) flags ptype )
 *      | ( 1 wide text ptype )
 *      | ( 2 text ptype sent )
 * see coq/Entry/AclRun.v for the result format. */
#include "archive_acl.c"

#include <locale.h>
#include <wchar.h>
#include "val.h"

#define ALL_TYPES (ARCHIVE_ENTRY_ACL_TYPE_POSIX1E | ARCHIVE_ENTRY_ACL_TYPE_NFS4)

/* wide string from a list of code points (or from bytes), exact-size heap block, NUL-terminated;
 * stops at the first 0 like any C string */
static wchar_t *v_wstr(val *v)
{
	size_t n = v_len(v), k;
	wchar_t *w = malloc((n + 1) * sizeof(wchar_t));
	for (k = 0; k < n; k++)
		w[k] = (v->kind == 2) ? (wchar_t)v_ll(v_at(v, k)) : (wchar_t)v->b[k];
	w[n] = L'\0';
	return w;
}

static void o_wstr(const wchar_t *w, size_t n)
{
	size_t k;
	o_open();
	for (k = 0; k < n; k++) o_int((vint)w[k]);
	o_close();
}

static void out_name(const char *name, int wide)
{
	if (!wide) { o_str(name); return; }
	if (name == NULL) { o_open(); o_close(); return; }
	{
		size_t n = strlen(name), m;
		wchar_t *w = malloc((n + 1) * sizeof(wchar_t));
		m = mbstowcs(w, name, n + 1);
		if (m == (size_t)-1) { o_open(); o_int(-1); o_close(); }
		else o_wstr(w, m);
		free(w);
	}
}

/* mode and the entries of the list, in list order (the three entries synthesised from the mode
 * are skipped: the mode is printed instead) */
static void out_acl(struct archive_entry *e, int wide)
{
	int n, k = 0, type, perm, tag, id;
	const char *name;
	o_uint((unsigned long long)archive_entry_mode(e));
	o_open();
	n = archive_entry_acl_reset(e, ALL_TYPES);
	while (n > 0 && archive_entry_acl_next(e, ALL_TYPES, &type, &perm, &tag, &id, &name) == ARCHIVE_OK) {
		if (k++ < 3) continue;
		o_open();
		o_int(type); o_int(tag); o_int(perm); o_int(id); out_name(name, wide);
		o_close();
	}
	o_close();
}

static void out_parsed(int status, struct archive_entry *e, int wide)
{
	o_open();
	o_int(status);
	out_acl(e, wide);
	o_close();
}

static void op_roundtrip(val *c)
{
	int wide = (int)v_ll(v_at(c, 1));
	val *ents = v_at(c, 3);
	int flags = (int)v_ll(v_at(c, 4)), ptype = (int)v_ll(v_at(c, 5));
	struct archive_entry *e = archive_entry_new(), *e2;
	size_t k;
	int want, tflags;
	size_t tl;
	la_ssize_t len = -1;

	archive_entry_set_mode(e, (mode_t)v_ull(v_at(c, 2)));
	o_open();
	o_open();
	for (k = 0; k < v_len(ents); k++) {
		val *x = v_at(ents, k);
		int type = (int)v_ll(v_at(x, 0)), tag = (int)v_ll(v_at(x, 1)), perm = (int)v_ll(v_at(x, 2));
		int id = (int)v_ll(v_at(x, 3)), r;
		if (wide) {
			wchar_t *w = v_wstr(v_at(x, 4));
			r = archive_entry_acl_add_entry_w(e, type, perm, tag, id, w);
			free(w);
		} else {
			char *s = v_cstr(v_at(x, 4));
			r = archive_entry_acl_add_entry(e, type, perm, tag, id, s);
			free(s);
		}
		o_int(r);
	}
	o_close();
	o_open(); out_acl(e, wide); o_close();

	/* what archive_acl_to_text_l/_w will allocate */
	want = archive_acl_text_want_type(archive_entry_acl(e), flags);
	tflags = flags;
	if (want == ARCHIVE_ENTRY_ACL_TYPE_POSIX1E)
		tflags |= ARCHIVE_ENTRY_ACL_STYLE_MARK_DEFAULT;
	tl = (want == 0) ? 0 : archive_acl_text_len(archive_entry_acl(e), want, tflags, wide, NULL, NULL);
	o_uint((unsigned long long)tl);

	e2 = archive_entry_new();
	if (wide) {
		wchar_t *ws = archive_entry_acl_to_text_w(e, &len, flags);
		if (ws == NULL) { o_open(); o_close(); }
		else {
			size_t n = wcslen(ws);
			wchar_t *copy = malloc((n + 1) * sizeof(wchar_t));	/* exact size */
			int r;
			memcpy(copy, ws, (n + 1) * sizeof(wchar_t));
			free(ws);
			o_open(); o_wstr(copy, n); o_int((vint)len); o_close();
			r = archive_entry_acl_from_text_w(e2, copy, ptype);
			free(copy);
			out_parsed(r, e2, wide);
		}
	} else {
		char *s = archive_entry_acl_to_text(e, &len, flags);
		if (s == NULL) { o_open(); o_close(); }
		else {
			size_t n = strlen(s);
			char *copy = malloc(n + 1);
			int r;
			memcpy(copy, s, n + 1);
			free(s);
			o_open(); o_bytes(copy, n); o_int((vint)len); o_close();
			r = archive_entry_acl_from_text(e2, copy, ptype);
			free(copy);
			out_parsed(r, e2, wide);
		}
	}
	o_close();
	o_endline();
	archive_entry_free(e);
	archive_entry_free(e2);
}

static void op_parse(val *c)
{
	int wide = (int)v_ll(v_at(c, 1)), ptype = (int)v_ll(v_at(c, 3)), r;
	struct archive_entry *e = archive_entry_new();
	if (wide) {
		wchar_t *w = v_wstr(v_at(c, 2));
		r = archive_entry_acl_from_text_w(e, w, ptype);
		free(w);
	} else {
		char *s = v_cstr(v_at(c, 2));
		r = archive_entry_acl_from_text(e, s, ptype);
		free(s);
	}
	out_parsed(r, e, wide);
	o_endline();
	archive_entry_free(e);
}

/* archive_acl_from_text_nl as the pax reader calls it: [n] bytes, followed in memory by one more
 * byte [sent] that does not belong to the text */
static void op_parse_nl(val *c)
{
	val *t = v_at(c, 1);
	size_t n = v_len(t);
	int ptype = (int)v_ll(v_at(c, 2)), r;
	struct archive_entry *e = archive_entry_new();
	char *buf = malloc(n + 1);
	if (n) memcpy(buf, t->b, n);
	buf[n] = (char)v_ll(v_at(c, 3));
	r = archive_acl_from_text_nl(archive_entry_acl(e), buf, n, ptype, NULL);
	free(buf);
	out_parsed(r, e, 0);
	o_endline();
	archive_entry_free(e);
}

static void run_case(val *c)
{
	switch ((int)v_ll(v_at(c, 0))) {
	case 0: op_roundtrip(c); break;
	case 1: op_parse(c); break;
	default: op_parse_nl(c); break;
	}
}

int main(int argc, char **argv)
{
	if (setlocale(LC_ALL, "C.UTF-8") == NULL) {
		fprintf(stderr, "no C.UTF-8 locale\n");
		return 3;
	}
	return v_foreach_line(argc > 1 ? argv[1] : NULL, run_case);
}
