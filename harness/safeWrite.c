/* Correspondence harness for C19 (safe-writes extraction over an existing regular file).
 * Must run with LD_PRELOAD=<safeWrite_preload.so>; every case line
 *   ( variant old mode opts (size)? (mtime)? umask blksize stop ((kind off bytes)...) ((idx code)...) (expect_new)? )
 * is extracted with the REAL archive_write_disk in a fresh sandbox directory under /var/tmp and
 * answered with
 *   ( header (data...) finish close free ((kind path path2 arg result tag)...) final_tag (names...) (content)? )
 * tag = what the target name referred to BEFORE that call: 0 complete old file, 1 complete new
 * file (expect_new if given, else the final content of this run), 2 anything else, 3 no such name. */
#define _GNU_SOURCE
#include <archive.h>
#include <archive_entry.h>
#include <dirent.h>
#include <dlfcn.h>
#include <errno.h>
#include <fcntl.h>
#include <sys/stat.h>
#include <unistd.h>
#include "val.h"
#include "safeWrite_events.h"

static void (*p_begin)(const char *);
static void (*p_plan_add)(int, int);
static void (*p_end)(void);
static const struct sw_event *(*p_events)(int *);
static void (*p_snapshot)(long long *, unsigned long long *);

static char sandbox[128];
static const char *TARGET = "target";

static unsigned long long fnv(const unsigned char *b, size_t n)
{
	unsigned long long h = 1469598103934665603ULL;
	size_t k;
	for (k = 0; k < n; k++) {
		h ^= b[k];
		h *= 1099511628211ULL;
	}
	return h;
}

static void clean_dir(void)
{
	DIR *d = opendir(".");
	struct dirent *e;
	if (d == NULL)
		return;
	while ((e = readdir(d)) != NULL) {
		if (strcmp(e->d_name, ".") == 0 || strcmp(e->d_name, "..") == 0)
			continue;
		if (unlink(e->d_name) != 0)
			rmdir(e->d_name);
	}
	closedir(d);
}

static void remove_sandbox(void)
{
	if (sandbox[0] == '\0')
		return;
	if (chdir(sandbox) == 0) {
		clean_dir();
		if (chdir("/") == 0)
			rmdir(sandbox);
	}
}

static int cmp_str(const void *a, const void *b)
{
	return strcmp(*(char *const *)a, *(char *const *)b);
}

static int tag_of(long long len, unsigned long long hash, long long oldlen, unsigned long long oldhash,
    long long newlen, unsigned long long newhash)
{
	if (len < 0)
		return 3;
	if (len == oldlen && hash == oldhash)
		return 0;
	if (len == newlen && hash == newhash)
		return 1;
	return 2;
}

static void run_case(val *c)
{
	val *oldv = v_at(c, 1), *blocks = v_at(c, 9), *plan = v_at(c, 10), *expect = v_at(c, 11);
	int mode = (int)v_ll(v_at(c, 2)), opts = (int)v_ll(v_at(c, 3));
	int um = (int)v_ll(v_at(c, 6)), stop = (int)v_ll(v_at(c, 8));
	int flags = ARCHIVE_EXTRACT_SAFE_WRITES, fd, hdr, fin, clo, fre, n_ev, k, stopped = 0;
	long long final_len, newlen;
	unsigned long long final_hash, newhash, oldhash;
	unsigned char *final = NULL;
	struct archive *a;
	struct archive_entry *e;
	const struct sw_event *ev;
	size_t i;
	char *names[64];
	int n_names = 0;
	DIR *d;
	struct dirent *de;

	if (opts & 1) flags |= ARCHIVE_EXTRACT_PERM;
	if (opts & 2) flags |= ARCHIVE_EXTRACT_TIME;
	if (opts & 4) flags |= ARCHIVE_EXTRACT_OWNER;
	if (opts & 8) flags |= ARCHIVE_EXTRACT_SPARSE;

	/* the previous file */
	clean_dir();
	fd = open(TARGET, O_WRONLY | O_CREAT | O_TRUNC, 0600);
	if (fd < 0 || write(fd, oldv->b, v_len(oldv)) != (ssize_t)v_len(oldv)) {
		perror("cannot write the old file");
		exit(4);
	}
	close(fd);
	oldhash = fnv(oldv->b, v_len(oldv));
	umask((mode_t)um);

	a = archive_write_disk_new();
	archive_write_disk_set_options(a, flags);
	e = archive_entry_new();
	archive_entry_copy_pathname(e, TARGET);
	archive_entry_set_filetype(e, AE_IFREG);
	archive_entry_set_perm(e, (mode_t)mode);
	archive_entry_set_uid(e, (la_int64_t)geteuid());
	archive_entry_set_gid(e, (la_int64_t)getegid());
	if (v_len(v_at(c, 4)) == 1)
		archive_entry_set_size(e, v_ll(v_at(v_at(c, 4), 0)));
	if (v_len(v_at(c, 5)) == 1)
		archive_entry_set_mtime(e, (time_t)v_ll(v_at(v_at(c, 5), 0)), 0);

	p_begin(TARGET);
	for (i = 0; i < v_len(plan); i++)
		p_plan_add((int)v_ll(v_at(v_at(plan, i), 0)), (int)v_ll(v_at(v_at(plan, i), 1)));

	o_open();
	hdr = archive_write_header(a, e);
	o_int(hdr);
	o_open();
	if (hdr >= ARCHIVE_WARN) {
		for (i = 0; i < v_len(blocks) && !stopped; i++) {
			val *b = v_at(blocks, i), *data = v_at(b, 2);
			long long r;
			if (v_ll(v_at(b, 0)) == 0)
				r = (long long)archive_write_data_block(a, data->b, v_len(data), v_ll(v_at(b, 1)));
			else
				r = (long long)archive_write_data(a, data->b, v_len(data));
			o_int(r);
			if (stop && r < ARCHIVE_OK)
				stopped = 1;
		}
	}
	o_close();
	if (stop == 2) {
		/* the client goes straight on to the next entry: archive_write_header() finishes the previous one
		 * implicitly (oracle-only cases: the model has no second entry) */
		struct archive_entry *e2 = archive_entry_new();
		archive_entry_copy_pathname(e2, "other.txt");
		archive_entry_set_filetype(e2, AE_IFREG);
		archive_entry_set_perm(e2, 0644);
		archive_entry_set_size(e2, 3);
		fin = archive_write_header(a, e2);
		if (fin >= ARCHIVE_WARN)
			(void)archive_write_data(a, "abc", 3);
		(void)archive_write_finish_entry(a);
		archive_entry_free(e2);
	} else
	fin = archive_write_finish_entry(a);
	clo = archive_write_close(a);
	fre = archive_write_free(a);
	p_end();
	archive_entry_free(e);
	o_int(fin);
	o_int(clo);
	o_int(fre);

	/* final state */
	p_snapshot(&final_len, &final_hash);
	if (final_len >= 0) {
		int rfd = open(TARGET, O_RDONLY);
		final = malloc((size_t)final_len + 1);
		if (rfd < 0 || read(rfd, final, (size_t)final_len) != (ssize_t)final_len) {
			perror("cannot read back the target");
			exit(4);
		}
		close(rfd);
	}
	if (v_len(expect) == 1) {
		val *x = v_at(expect, 0);
		newlen = (long long)v_len(x);
		newhash = fnv(x->b, v_len(x));
	} else {
		newlen = final_len;
		newhash = final_hash;
	}

	ev = p_events(&n_ev);
	o_open();
	for (k = 0; k < n_ev; k++) {
		o_open();
		o_int(ev[k].kind);
		o_str(ev[k].path);
		o_str(ev[k].path2);
		o_int(ev[k].arg);
		o_int(ev[k].result);
		o_int(tag_of(ev[k].snap_len, ev[k].snap_hash, (long long)v_len(oldv), oldhash, newlen, newhash));
		o_close();
	}
	o_close();
	o_int(tag_of(final_len, final_hash, (long long)v_len(oldv), oldhash, newlen, newhash));

	/* directory listing, temp suffix canonicalised, sorted */
	d = opendir(".");
	while (d != NULL && (de = readdir(d)) != NULL && n_names < 64) {
		size_t tl = strlen(TARGET), nl = strlen(de->d_name);
		if (strcmp(de->d_name, ".") == 0 || strcmp(de->d_name, "..") == 0)
			continue;
		if (nl == tl + 7 && strncmp(de->d_name, TARGET, tl) == 0 && de->d_name[tl] == '.') {
			names[n_names] = malloc(nl + 1);
			snprintf(names[n_names++], nl + 1, "%s.XXXXXX", TARGET);
		} else
			names[n_names++] = strdup(de->d_name);
	}
	if (d != NULL)
		closedir(d);
	qsort(names, (size_t)n_names, sizeof(names[0]), cmp_str);
	o_open();
	for (k = 0; k < n_names; k++) {
		o_str(names[k]);
		free(names[k]);
	}
	o_close();
	o_open();
	if (final_len >= 0)
		o_bytes(final, (size_t)final_len);
	o_close();
	free(final);
	o_close();
	o_endline();
}

int main(int argc, char **argv)
{
	int rc;
	p_begin = (void (*)(const char *))dlsym(RTLD_DEFAULT, "verif_begin");
	p_plan_add = (void (*)(int, int))dlsym(RTLD_DEFAULT, "verif_plan_add");
	p_end = (void (*)(void))dlsym(RTLD_DEFAULT, "verif_end");
	p_events = (const struct sw_event *(*)(int *))dlsym(RTLD_DEFAULT, "verif_events");
	p_snapshot = (void (*)(long long *, unsigned long long *))dlsym(RTLD_DEFAULT, "verif_snapshot");
	if (!p_begin || !p_plan_add || !p_end || !p_events || !p_snapshot) {
		fprintf(stderr, "safeWrite: the interposer is not loaded (LD_PRELOAD=safeWrite_preload.so)\n");
		return 5;
	}
	if (argc > 1) {
		/* the case file is opened before we change directory */
		char *abs = realpath(argv[1], NULL);
		if (abs == NULL) { perror(argv[1]); return 2; }
		argv[1] = abs;
	}
	snprintf(sandbox, sizeof(sandbox), "/var/tmp/verif-c19-%ld", (long)getpid());
	if (mkdir(sandbox, 0700) != 0 || chdir(sandbox) != 0) {
		perror(sandbox);
		return 4;
	}
	atexit(remove_sandbox);
	rc = v_foreach_line(argc > 1 ? argv[1] : NULL, run_case);
	return rc;
}
