/* Correspondence harness for C09 (family writeCore): drives the REAL write core through the
 * public API only.
 *   case (0 bpb (bibl)? oret (plan..) (ops..))   raw format, archive_write_open with scripted callbacks
 *   case (1 bpb (bibl)? size (ops..))            raw format, archive_write_open_memory, buffer = malloc(size)
 *   case (2 bpb (bibl)? oret (plan..) (ops..) [filter])
 *                                                ustar format, optional write filter (ARCHIVE_FILTER_* code),
 *                                                scripted callbacks; also prints the reference stream
 *                                                (same ops and filter, bpb 0, accepting callback)
 * plan item: k >= 0 accept at most k bytes (returns min(k, offered)), negative: return -1.
 * op: (0 [xname size]) write_header, (1 xdata) write_data, (2 z) set_bytes_in_last_block,
 *     (3) finish_entry, (4) close, (5) free.
 * result mode 0/2: (open_status ((status ((offered ret xaccepted)..))..) closer_calls leaked [xreference])
 * result mode 1  : (open_status ((status used)..) xcontent leaked)
 * leaked = 1 when the heap holds more bytes after the handle was freed than before it was created */
#include <archive.h>
#include <archive_entry.h>
#include <unistd.h>
#include "val.h"

/* heap bytes currently allocated: a case that ends with more than it started with leaked */
#if defined(__SANITIZE_ADDRESS__)
size_t __sanitizer_get_current_allocated_bytes(void);	/* exported by libasan (allocator_interface.h) */
static size_t heap_now(void) { return __sanitizer_get_current_allocated_bytes(); }
#else
#include <malloc.h>
static size_t heap_now(void) { return mallinfo2().uordblks; }
#endif
static int leaky_cases;

struct rec { size_t call; size_t off; long long ret; unsigned char *acc; size_t acclen; };
struct cbs {
	val *plan; size_t next;
	int oret;
	int opener_calls, closer_calls;
	size_t cur_call;
	struct rec *recs; size_t nrec, cap;
	volatile unsigned sink;
};

static int open_cb(struct archive *a, void *cd)
{
	struct cbs *s = cd;
	(void)a;
	s->opener_calls++;
	return s->oret;
}

static int close_cb(struct archive *a, void *cd)
{
	struct cbs *s = cd;
	(void)a;
	s->closer_calls++;
	return ARCHIVE_OK;
}

static la_ssize_t write_cb(struct archive *a, void *cd, const void *buf, size_t len)
{
	struct cbs *s = cd;
	const unsigned char *p = buf;
	long long ret;
	size_t k;
	unsigned sum = 0;
	struct rec *r;
	(void)a;
	/* touch every offered byte: ASan faults if the library offers memory it does not own */
	for (k = 0; k < len; k++) sum += p[k];
	s->sink += sum;
	if (s->next < v_len(s->plan)) {
		long long want = v_ll(v_at(s->plan, s->next++));
		if (want < 0) ret = -1;
		else ret = ((unsigned long long)want < len) ? want : (long long)len;
	} else
		ret = (long long)len;
	if (s->nrec == s->cap) {
		s->cap = s->cap ? 2 * s->cap : 16;
		s->recs = realloc(s->recs, s->cap * sizeof(*s->recs));
	}
	r = &s->recs[s->nrec++];
	r->call = s->cur_call; r->off = len; r->ret = ret;
	r->acclen = ret > 0 ? (size_t)ret : 0;
	r->acc = malloc(r->acclen ? r->acclen : 1);
	memcpy(r->acc, p, r->acclen);
	return (la_ssize_t)ret;
}

static void cbs_free(struct cbs *s)
{
	size_t k;
	for (k = 0; k < s->nrec; k++) free(s->recs[k].acc);
	free(s->recs);
}

struct opres { long long status; unsigned long long used; };

/* one whole handle life: new, format, block settings, open, ops.  mem != NULL selects the memory sink */
static long long session(int ustar, int filter, long long bpb, val *bibl, struct cbs *s,
    unsigned char *membuf, size_t memsize, size_t *used, val *ops, struct opres *res)
{
	struct archive *a = archive_write_new();
	long long ost;
	size_t k;
	if (ustar) archive_write_set_format_ustar(a); else archive_write_set_format_raw(a);
	if (filter > 0) {
		if (archive_write_add_filter(a, filter) != ARCHIVE_OK) {
			fprintf(stderr, "filter %d not available\n", filter);
			exit(4);
		}
		if (filter == ARCHIVE_FILTER_GZIP)	/* no time stamp in the header: deterministic output */
			archive_write_set_filter_option(a, "gzip", "timestamp", NULL);
	}
	archive_write_set_bytes_per_block(a, (int)bpb);
	if (v_len(bibl) > 0)
		archive_write_set_bytes_in_last_block(a, (int)v_ll(v_at(bibl, 0)));
	if (s != NULL) {
		s->cur_call = (size_t)-1;
		ost = archive_write_open(a, s, open_cb, write_cb, close_cb);
	} else
		ost = archive_write_open_memory(a, membuf, memsize, used);
	for (k = 0; k < v_len(ops); k++) {
		val *op = v_at(ops, k);
		int kind = (int)v_ll(v_at(op, 0));
		long long st;
		if (s != NULL) s->cur_call = k;
		if (a == NULL) { st = -97; }
		else if (kind == 0) {
			struct archive_entry *e = archive_entry_new();
			if (v_len(op) >= 3) {
				char *name = v_cstr(v_at(op, 1));
				archive_entry_copy_pathname(e, name);
				free(name);
				archive_entry_set_size(e, v_ll(v_at(op, 2)));
			} else
				archive_entry_copy_pathname(e, "f");
			archive_entry_set_filetype(e, AE_IFREG);
			archive_entry_set_perm(e, 0644);
			st = archive_write_header(a, e);
			archive_entry_free(e);
		} else if (kind == 1) {
			val *d = v_at(op, 1);
			st = (long long)archive_write_data(a, d->b, d->n);
		} else if (kind == 2)
			st = archive_write_set_bytes_in_last_block(a, (int)v_ll(v_at(op, 1)));
		else if (kind == 3)
			st = archive_write_finish_entry(a);
		else if (kind == 4)
			st = archive_write_close(a);
		else {
			st = archive_write_free(a);
			a = NULL;
		}
		res[k].status = st;
		res[k].used = used ? (unsigned long long)*used : 0;
	}
	if (a != NULL) archive_write_free(a);
	return ost;
}

static void run_case(val *c)
{
	int mode = (int)v_ll(v_at(c, 0));
	long long bpb = v_ll(v_at(c, 1));
	val *bibl = v_at(c, 2);
	size_t k, j;
	if (mode == 1) {
		size_t size = (size_t)v_ull(v_at(c, 3));
		val *ops = v_at(c, 4);
		unsigned char *buf = malloc(size);	/* exactly size bytes: ASan red zone right behind */
		size_t used = 0xdeadbeef;
		struct opres *res = calloc(v_len(ops) + 1, sizeof(*res));
		size_t h0 = heap_now(), h1;
		long long ost = session(0, 0, bpb, bibl, NULL, buf, size, &used, ops, res);
		h1 = heap_now();
		o_open(); o_int(ost);
		o_open();
		for (k = 0; k < v_len(ops); k++) { o_open(); o_int(res[k].status); o_uint(res[k].used); o_close(); }
		o_close();
		o_bytes(buf, used <= size ? used : 0);
		o_int(h1 != h0); leaky_cases += (h1 != h0);
		o_close(); o_endline();
		free(res); free(buf);
		return;
	}
	{
		struct cbs s;
		val *ops = v_at(c, 5);
		int filter = (mode == 2) ? (int)v_ll(v_at(c, 6)) : 0;
		struct opres *res = calloc(v_len(ops) + 1, sizeof(*res));
		long long ost;
		size_t h0, h1, own;
		memset(&s, 0, sizeof(s));
		s.oret = (int)v_ll(v_at(c, 3));
		s.plan = v_at(c, 4);
		h0 = heap_now();
		ost = session(mode == 2, filter, bpb, bibl, &s, NULL, 0, NULL, ops, res);
		h1 = heap_now();
		/* the trace records are ours */
		own = s.cap * sizeof(*s.recs);
		for (k = 0; k < s.nrec; k++) own += s.recs[k].acclen ? s.recs[k].acclen : 1;
		o_open(); o_int(ost);
		o_open();
		j = 0;
		for (k = 0; k < v_len(ops); k++) {
			o_open(); o_int(res[k].status); o_open();
			for (; j < s.nrec && s.recs[j].call == k; j++) {
				o_open(); o_uint(s.recs[j].off); o_int(s.recs[j].ret);
				o_bytes(s.recs[j].acc, s.recs[j].acclen); o_close();
			}
			o_close(); o_close();
		}
		o_close();
		/* invocations outside any recorded API call (during open, or the implicit final free) */
		o_int((vint)s.closer_calls + 1000 * (vint)(s.nrec - j) + 1000000 * (vint)(s.opener_calls != 1));
		o_int(h1 != h0 + own); leaky_cases += (h1 != h0 + own);
		if (mode == 2) {
			struct cbs r;
			val noplan, nobibl;
			struct opres *res2 = calloc(v_len(ops) + 1, sizeof(*res2));
			memset(&r, 0, sizeof(r));
			memset(&noplan, 0, sizeof(noplan)); noplan.kind = 2;
			memset(&nobibl, 0, sizeof(nobibl)); nobibl.kind = 2;
			r.plan = &noplan;
			session(1, filter, 0, &nobibl, &r, NULL, 0, NULL, ops, res2);
			o_sp(); fputc('x', O_FP);
			for (k = 0; k < r.nrec; k++)
				for (j = 0; j < r.recs[k].acclen; j++) fprintf(O_FP, "%02x", r.recs[k].acc[j]);
			o_need_sp = 1;
			cbs_free(&r); free(res2);
		}
		o_close(); o_endline();
		cbs_free(&s); free(res);
	}
}

int main(int argc, char **argv)
{
	int rc;
	/* warm-up: let stdio allocate its buffers before any heap measurement */
	fflush(stdout);
	rc = v_foreach_line(argc > 1 ? argv[1] : NULL, run_case);
	fflush(stdout);
	/* leaks were attributed to their cases in the output: skip LeakSanitizer's end-of-process
	 * report, which could only name them again without the case */
	if (leaky_cases) _exit(rc);
	return rc;
}
