/* fflags: the file-flags fields of an archive_entry through the public API (C14).
 * case = (ops)   op: (0 set clear) set_fflags | (1 text wide) copy_fflags_text / _w | (2) fflags_text |
 *                    (3) fflags | (4) clone (continue with the clone, free the original) | (5) clear
 * result = list of (0) | (1 offset-of-first-unknown-token or -1) | (2 (text)?) | (3 set clear)        */
#include <archive.h>
#include <archive_entry.h>
#include <wchar.h>
#include "val.h"

static void one(val *c)
{
	val *ops = v_at(c, 0);
	struct archive_entry *e = archive_entry_new();
	size_t i;
	o_open();
	for (i = 0; i < v_len(ops); i++) {
		val *op = v_at(ops, i);
		int k = (int)v_ll(v_at(op, 0));
		o_open();
		switch (k) {
		case 0:
			archive_entry_set_fflags(e, (unsigned long)v_ull(v_at(op, 1)), (unsigned long)v_ull(v_at(op, 2)));
			o_int(0);
			break;
		case 1: {
			char *s = v_cstr(v_at(op, 1));
			size_t n = strlen(s), j;
			o_int(1);
			if (v_ll(v_at(op, 2))) {
				wchar_t *w = malloc((n + 1) * sizeof(wchar_t));
				const wchar_t *r;
				for (j = 0; j <= n; j++) w[j] = (wchar_t)(unsigned char)s[j];
				r = archive_entry_copy_fflags_text_w(e, w);
				o_int(r == NULL ? -1 : (vint)(r - w));
				free(w);
			} else {
				const char *r = archive_entry_copy_fflags_text(e, s);
				o_int(r == NULL ? -1 : (vint)(r - s));
			}
			free(s);
			break;
		}
		case 2:
			o_int(2);
			o_optstr(archive_entry_fflags_text(e));
			break;
		case 3: {
			unsigned long s = 12345, cl = 54321;
			archive_entry_fflags(e, &s, &cl);
			o_int(3); o_uint(s); o_uint(cl);
			break;
		}
		case 4: {
			struct archive_entry *e2 = archive_entry_clone(e);
			archive_entry_free(e);
			e = e2;
			o_int(0);
			break;
		}
		default:
			archive_entry_clear(e);
			o_int(0);
			break;
		}
		o_close();
	}
	o_close();
	o_endline();
	archive_entry_free(e);
}

int main(int argc, char **argv)
{
	return v_foreach_line(argc > 1 ? argv[1] : NULL, one);
}
