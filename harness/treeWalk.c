/* Harness for C12 (family treeWalk).  One case per line, first element = operation:
 *
 *  ( 0 sandbox tree )            materialise [tree] as sandbox/<top name> (sandbox is created, must not exist).
 *                                result ( status xattr-ok rd ) where rd mirrors the directories of the tree:
 *                                rd = ( ( name ... ) rd-of-1st-child-dir rd-of-2nd-child-dir ... ), names in the
 *                                order the real readdir returned them (child dirs in CASE order).
 *  ( 1 sandbox tree nodesc how ) model correspondence: run the REAL archive_read_disk on sandbox/<top> (already
 *                                materialised; children of the case are in real readdir order), calling
 *                                archive_read_disk_descend for every entry whose pathname is not in [nodesc]
 *                                (how = 0: after archive_read_next_header2 returned; 1: from the metadata filter
 *                                callback, as bsdtar does).  result ( status ( path ... ) stack-length depth
 *                                wd-restored ): the last three are read from the private struct tree at EOF
 *                                (working_dir_fd refers to the initial directory again, and getcwd unchanged).
 *  ( 3 sandbox tree strategy )   capture correspondence: read_disk (always descend) + the real link resolver.
 *                                result ( status ( ( path filetype ( hardlink )? size-is-set ) ... ) )
 *  ( 4 src dst format flags )    library round trip: archive_read_disk(src/.) -> archive_write(format) in memory
 *                                -> archive_read -> archive_write_disk(dst).  result ( status ( msg ... )
 *                                ( listed-path ... ) archive-bytes )
 *  ( 5 dir )                     snapshot of a directory tree taken with openat/fstatat/readlinkat/SEEK_DATA/
 *                                listxattr only (no libarchive code): result ( status ( obj ... ) ), sorted.
 *
 * tree = ( 0 name ino desc meta ) | ( 1 name ( child ... ) () meta ) | ( 2 name target () meta )
 *      | ( 3 name filetype () meta );  meta = ( mode mtime-sec mtime-nsec ( ( xname xvalue ) ... ) size
 *      ( ( offset length seed [literal-bytes] ) ... ) ).  The struct tree is reached by including the source file. */
#define _GNU_SOURCE
#include "archive_read_disk_posix.c"
#include <sys/xattr.h>
#include <sys/resource.h>
#include <dirent.h>
#include <locale.h>
#include "val.h"

/* ------------------------------------------------------------------ small helpers */
static int same_bytes(val *v, const char *s)
{
	size_t n = strlen(s);
	return v->kind == 1 && v->n == n && memcmp(v->b, s, n) == 0;
}

static unsigned char pattern_byte(unsigned long long off, unsigned long long seed)
{
	unsigned long long x = (off + 1) * 0x9E3779B97F4A7C15ULL + seed * 0xC2B2AE3D27D4EB4FULL;
	x ^= x >> 29;
	x *= 0xBF58476D1CE4E5B9ULL;
	x ^= x >> 32;
	return (unsigned char)(x | 1);	/* never zero: data stays data */
}

/* ------------------------------------------------------------------ op 0: materialise */
struct inorec { long long ino; int dirfd; char *name; };
static struct inorec *inotab;
static size_t ninotab, capinotab;
static int xattr_ok = 1;
static int make_errors;

static void set_xattrs_fd(int fd, val *xs)
{
	size_t k;
	for (k = 0; k < v_len(xs); k++) {
		val *x = v_at(xs, k);
		char *nm = v_cstr(v_at(x, 0));
		val *vv = v_at(x, 1);
		if (fsetxattr(fd, nm, vv->b ? (void *)vv->b : (void *)"", vv->n, 0) != 0) {
			if (errno == ENOTSUP || errno == EOPNOTSUPP) xattr_ok = 0;
			else { make_errors++; fprintf(stderr, "fsetxattr %s: %s\n", nm, strerror(errno)); }
		}
		free(nm);
	}
}

static void make_node(int dirfd, val *n)
{
	int kind = (int)v_ll(v_at(n, 0));
	char *name = v_cstr(v_at(n, 1));
	val *meta = v_at(n, 4);
	mode_t mode = (mode_t)v_ll(v_at(meta, 0));
	struct timespec ts[2];
	ts[0].tv_sec = (time_t)v_ll(v_at(meta, 1)); ts[0].tv_nsec = (long)v_ll(v_at(meta, 2));
	ts[1] = ts[0];
	if (kind == 0) {
		long long ino = v_ll(v_at(n, 2));
		size_t k;
		int fd;
		for (k = 0; k < ninotab; k++)
			if (inotab[k].ino == ino) break;
		if (k < ninotab) {
			if (linkat(inotab[k].dirfd, inotab[k].name, dirfd, name, 0) != 0) {
				make_errors++; fprintf(stderr, "linkat %s: %s\n", name, strerror(errno));
			}
			free(name);
			return;
		}
		fd = openat(dirfd, name, O_CREAT | O_EXCL | O_RDWR | O_CLOEXEC, 0600);
		if (fd < 0) { make_errors++; fprintf(stderr, "create %.40s: %s\n", name, strerror(errno)); free(name); return; }
		if (ftruncate(fd, (off_t)v_ll(v_at(meta, 4))) != 0) make_errors++;
		{
			val *segs = v_at(meta, 5);
			for (k = 0; k < v_len(segs); k++) {
				val *s = v_at(segs, k);
				unsigned long long off = v_ull(v_at(s, 0)), len = v_ull(v_at(s, 1)), seed = v_ull(v_at(s, 2));
				unsigned char buf[65536];
				val *lit = v_at(s, 3);	/* optional 4th element: literal bytes instead of the pattern */
				if (lit->kind == 1 && lit->n > 0) {
					if (pwrite(fd, lit->b, lit->n, (off_t)off) != (ssize_t)lit->n) make_errors++;
					continue;
				}
				while (len > 0) {
					size_t c = len > sizeof(buf) ? sizeof(buf) : (size_t)len, j;
					for (j = 0; j < c; j++) buf[j] = pattern_byte(off + j, seed);
					if (pwrite(fd, buf, c, (off_t)off) != (ssize_t)c) { make_errors++; break; }
					off += c; len -= c;
				}
			}
		}
		set_xattrs_fd(fd, v_at(meta, 3));
		if (fchmod(fd, mode) != 0) make_errors++;
		if (futimens(fd, ts) != 0) make_errors++;
		close(fd);
		if (ninotab == capinotab) {
			capinotab = capinotab ? capinotab * 2 : 64;
			inotab = realloc(inotab, capinotab * sizeof(*inotab));
		}
		inotab[ninotab].ino = ino;
		inotab[ninotab].dirfd = -1;
		inotab[ninotab].name = NULL;
		ninotab++;
		/* the directory descriptor is only kept for inodes that are used again: decided by the caller's
		 * generator through the link count stored as 7th element of the node (0/absent = single) */
		if (v_ll(v_at(n, 5)) > 1) {
			inotab[ninotab - 1].dirfd = fcntl(dirfd, F_DUPFD_CLOEXEC, 0);
			inotab[ninotab - 1].name = strdup(name);
		}
	} else if (kind == 1) {
		int fd;
		val *cs = v_at(n, 2);
		size_t k;
		if (mkdirat(dirfd, name, 0700) != 0) { make_errors++; fprintf(stderr, "mkdir %.40s: %s\n", name, strerror(errno)); free(name); return; }
		fd = openat(dirfd, name, O_RDONLY | O_DIRECTORY | O_CLOEXEC);
		if (fd < 0) { make_errors++; free(name); return; }
		for (k = 0; k < v_len(cs); k++)
			make_node(fd, v_at(cs, k));
		set_xattrs_fd(fd, v_at(meta, 3));
		if (fchmod(fd, mode) != 0) make_errors++;
		if (futimens(fd, ts) != 0) make_errors++;
		close(fd);
	} else if (kind == 2) {
		char *tg = v_cstr(v_at(n, 2));
		if (symlinkat(tg, dirfd, name) != 0) { make_errors++; fprintf(stderr, "symlink %.40s: %s\n", name, strerror(errno)); }
		if (utimensat(dirfd, name, ts, AT_SYMLINK_NOFOLLOW) != 0) make_errors++;
		free(tg);
	} else {
		mode_t ft = (mode_t)v_ll(v_at(n, 2));
		if (mknodat(dirfd, name, (ft & S_IFMT) | 0600, 0) != 0) { make_errors++; fprintf(stderr, "mknod %.40s: %s\n", name, strerror(errno)); }
		if (fchmodat(dirfd, name, mode, 0) != 0) make_errors++;
		if (utimensat(dirfd, name, ts, 0) != 0) make_errors++;
	}
	free(name);
}

/* directory mtimes are disturbed by later hard links into them: set all directory times again, bottom-up */
static void fix_dir_times(int dirfd, val *n)
{
	char *name;
	val *meta = v_at(n, 4), *cs = v_at(n, 2);
	struct timespec ts[2];
	size_t k;
	int fd;
	if (v_ll(v_at(n, 0)) != 1) return;
	name = v_cstr(v_at(n, 1));
	fd = openat(dirfd, name, O_RDONLY | O_DIRECTORY | O_CLOEXEC);
	free(name);
	if (fd < 0) { make_errors++; return; }
	for (k = 0; k < v_len(cs); k++) fix_dir_times(fd, v_at(cs, k));
	ts[0].tv_sec = (time_t)v_ll(v_at(meta, 1)); ts[0].tv_nsec = (long)v_ll(v_at(meta, 2));
	ts[1] = ts[0];
	if (futimens(fd, ts) != 0) make_errors++;
	close(fd);
}

static int cmp_str(const void *a, const void *b) { return strcmp(*(char *const *)a, *(char *const *)b); }

static void print_rd(int dirfd, val *n)
{
	char *name = v_cstr(v_at(n, 1));
	int fd = openat(dirfd, name, O_RDONLY | O_DIRECTORY | O_CLOEXEC);
	val *cs = v_at(n, 2);
	size_t k;
	DIR *d;
	struct dirent *de;
	free(name);
	o_open();
	o_open();
	if (fd >= 0 && (d = fdopendir(fcntl(fd, F_DUPFD_CLOEXEC, 0))) != NULL) {
		while ((de = readdir(d)) != NULL) {
			if (strcmp(de->d_name, ".") == 0 || strcmp(de->d_name, "..") == 0) continue;
			o_str(de->d_name);
		}
		closedir(d);
	}
	o_close();
	for (k = 0; k < v_len(cs); k++)
		if (v_ll(v_at(v_at(cs, k), 0)) == 1)
			print_rd(fd, v_at(cs, k));
	o_close();
	if (fd >= 0) close(fd);
}

static void op_make(val *c)
{
	char *sb = v_cstr(v_at(c, 1));
	val *tree = v_at(c, 2);
	int fd;
	size_t k;
	make_errors = 0;
	ninotab = 0;
	if (mkdir(sb, 0700) != 0) { o_open(); o_int(-1); o_close(); o_endline(); free(sb); return; }
	fd = open(sb, O_RDONLY | O_DIRECTORY | O_CLOEXEC);
	make_node(fd, tree);
	fix_dir_times(fd, tree);
	for (k = 0; k < ninotab; k++) { if (inotab[k].dirfd >= 0) close(inotab[k].dirfd); free(inotab[k].name); }
	ninotab = 0;
	o_open();
	o_int(make_errors ? -2 : 0);
	o_int(xattr_ok);
	if (v_ll(v_at(tree, 0)) == 1) print_rd(fd, tree); else { o_open(); o_close(); }
	o_close();
	o_endline();
	close(fd);
	free(sb);
}

/* ------------------------------------------------------------------ op 1: the real walker */
static val *g_nodesc;
static int in_nodesc(const char *p)
{
	size_t k;
	for (k = 0; k < v_len(g_nodesc); k++)
		if (same_bytes(v_at(g_nodesc, k), p)) return 1;
	return 0;
}

static int filter_descend(struct archive *a, void *data, struct archive_entry *e)
{
	(void)data;
	if (!in_nodesc(archive_entry_pathname(e)) && archive_read_disk_can_descend(a))
		archive_read_disk_descend(a);
	return 1;
}

static void tree_summary(struct archive *a, const char *cwd_before)
{
	struct tree *t = ((struct archive_read_disk *)a)->tree;
	struct tree_entry *te;
	struct stat s1, s2;
	char cwd_after[PATH_MAX];
	int n = 0, restored;
	for (te = t->stack; te != NULL; te = te->next) n++;
	restored = fstat(t->working_dir_fd, &s1) == 0 && fstat(t->initial_dir_fd, &s2) == 0 &&
	    s1.st_dev == s2.st_dev && s1.st_ino == s2.st_ino && t->d == INVALID_DIR_HANDLE &&
	    getcwd(cwd_after, sizeof(cwd_after)) != NULL && strcmp(cwd_after, cwd_before) == 0;
	o_int(n);
	o_int(t->depth);
	o_int(restored);
}

static void op_walk(val *c)
{
	char *sb = v_cstr(v_at(c, 1));
	char *top = v_cstr(v_at(v_at(c, 2), 1));
	int how = (int)v_ll(v_at(c, 4));
	struct archive *a = archive_read_disk_new();
	struct archive_entry *e = archive_entry_new();
	char cwd[PATH_MAX], home[PATH_MAX];
	int status = 0, r;
	g_nodesc = v_at(c, 3);
	if (getcwd(home, sizeof(home)) == NULL) home[0] = 0;
	if (chdir(sb) != 0 || getcwd(cwd, sizeof(cwd)) == NULL) { o_open(); o_int(-9); o_close(); o_endline(); goto out; }
	archive_read_disk_set_symlink_physical(a);
	if (how == 1)
		archive_read_disk_set_metadata_filter_callback(a, filter_descend, NULL);
	o_open();
	if (archive_read_disk_open(a, top) != ARCHIVE_OK) status = -3;
	o_need_sp = 0;
	{
		/* paths are collected first: the status comes first on the line */
		char **paths = NULL; size_t np = 0, cap = 0, k;
		while (status == 0) {
			r = archive_read_next_header2(a, e);
			if (r == ARCHIVE_EOF) break;
			if (r == ARCHIVE_FATAL) { status = -2; break; }
			if (r < ARCHIVE_WARN) { status = -1; break; }
			if (np == cap) { cap = cap ? cap * 2 : 256; paths = realloc(paths, cap * sizeof(char *)); }
			paths[np++] = strdup(archive_entry_pathname(e));
			if (how == 0 && !in_nodesc(archive_entry_pathname(e)))
				archive_read_disk_descend(a);
		}
		o_int(status);
		o_open();
		for (k = 0; k < np; k++) { o_str(paths[k]); free(paths[k]); }
		o_close();
		free(paths);
	}
	tree_summary(a, cwd);
	o_close();
	o_endline();
out:
	archive_read_close(a);
	archive_read_free(a);
	archive_entry_free(e);
	if (home[0]) { if (chdir(home) != 0) perror("chdir back"); }
	free(sb); free(top);
}

/* ------------------------------------------------------------------ op 3: capture = walk + link resolver */
static void out_centry(struct archive_entry *e)
{
	o_open();
	o_str(archive_entry_pathname(e));
	o_uint((unsigned long long)archive_entry_filetype(e));
	o_optstr(archive_entry_hardlink(e));
	o_int(archive_entry_size_is_set(e) ? 1 : 0);
	o_close();
}

static void op_capture(val *c)
{
	static const int fmt_of_strategy[4] = {
		ARCHIVE_FORMAT_TAR, ARCHIVE_FORMAT_MTREE, ARCHIVE_FORMAT_CPIO_POSIX, ARCHIVE_FORMAT_CPIO_SVR4_NOCRC };
	char *sb = v_cstr(v_at(c, 1));
	char *top = v_cstr(v_at(v_at(c, 2), 1));
	int strat = (int)v_ll(v_at(c, 3));
	struct archive *a = archive_read_disk_new();
	struct archive_entry_linkresolver *res = archive_entry_linkresolver_new();
	struct archive_entry *entry = NULL, *spare = NULL;
	char home[PATH_MAX];
	int status = 0, r;
	FILE *mem; char *membuf = NULL; size_t memlen = 0;
	FILE *saved = o_fp;
	if (getcwd(home, sizeof(home)) == NULL) home[0] = 0;
	archive_entry_linkresolver_set_strategy(res, fmt_of_strategy[strat & 3]);
	mem = open_memstream(&membuf, &memlen);
	o_fp = mem; o_need_sp = 0;
	if (chdir(sb) != 0 || archive_read_disk_open(a, top) != ARCHIVE_OK) status = -3;
	while (status == 0) {
		archive_entry_free(entry);
		entry = archive_entry_new();
		r = archive_read_next_header2(a, entry);
		if (r == ARCHIVE_EOF) break;
		if (r < ARCHIVE_WARN) { status = -1; break; }
		archive_read_disk_descend(a);
		if (archive_entry_filetype(entry) != AE_IFREG)
			archive_entry_set_size(entry, 0);
		archive_entry_linkify(res, &entry, &spare);
		while (entry != NULL) {
			out_centry(entry);
			if (entry != spare) archive_entry_free(entry);
			entry = spare;
			spare = NULL;
		}
	}
	archive_entry_free(entry);
	entry = NULL;
	archive_entry_linkify(res, &entry, &spare);
	while (entry != NULL) {
		out_centry(entry);
		archive_entry_free(entry);
		entry = NULL;
		archive_entry_linkify(res, &entry, &spare);
	}
	fclose(mem);
	o_fp = saved; o_need_sp = 0;
	o_open(); o_int(status); o_open();
	if (memlen) { fputs(membuf, O_FP); o_need_sp = 1; }
	o_close(); o_close(); o_endline();
	free(membuf);
	archive_entry_linkresolver_free(res);
	archive_read_close(a);
	archive_read_free(a);
	if (home[0]) { if (chdir(home) != 0) perror("chdir back"); }
	free(sb); free(top);
}

/* ------------------------------------------------------------------ op 4: library round trip */
struct membuf { unsigned char *p; size_t n, cap; };
static la_ssize_t mem_write(struct archive *a, void *cd, const void *buf, size_t len)
{
	struct membuf *m = cd;
	(void)a;
	if (m->n + len > m->cap) {
		while (m->n + len > m->cap) m->cap = m->cap ? m->cap * 2 : (1 << 20);
		m->p = realloc(m->p, m->cap);
	}
	memcpy(m->p + m->n, buf, len);
	m->n += len;
	return (la_ssize_t)len;
}

static char **msgs; static size_t nmsgs;
static void add_msg(const char *stage, const char *path, const char *err)
{
	char *s;
	if (nmsgs >= 40) return;
	if (asprintf(&s, "%s: %s: %s", stage, path ? path : "", err ? err : "(null)") < 0) return;
	msgs = realloc(msgs, (nmsgs + 1) * sizeof(char *));
	msgs[nmsgs++] = s;
}

static const char *const fmt_names[] = { "pax", "gnutar", "newc", "zip", "7zip", "xar", "iso9660", "mtree", "ustar", "odc" };

/* tar/write.c:copy_file_data_block */
static int copy_disk_to_archive(struct archive *disk, struct archive *a, struct archive_entry *entry)
{
	static const char nulls[16384];
	const void *buff; size_t sz; int64_t off, progress = 0;
	int r;
	while ((r = archive_read_data_block(disk, &buff, &sz, &off)) == ARCHIVE_OK) {
		while (off > progress) {
			int64_t gap = off - progress;
			size_t ns = gap > (int64_t)sizeof(nulls) ? sizeof(nulls) : (size_t)gap;
			la_ssize_t w = archive_write_data(a, nulls, ns);
			if (w < 0) { add_msg("write-data", archive_entry_pathname(entry), archive_error_string(a)); return -1; }
			if ((size_t)w < ns) return 0;
			progress += w;
		}
		{
			la_ssize_t w = archive_write_data(a, buff, sz);
			if (w < 0) { add_msg("write-data", archive_entry_pathname(entry), archive_error_string(a)); return -1; }
			if ((size_t)w < sz) return 0;
			progress += w;
		}
	}
	if (r < ARCHIVE_WARN) { add_msg("read-disk-data", archive_entry_pathname(entry), archive_error_string(disk)); return -1; }
	return 0;
}

static int write_one(struct archive *disk, struct archive *a, struct archive_entry *entry)
{
	int e = archive_write_header(a, entry);
	if (e != ARCHIVE_OK)
		add_msg(e == ARCHIVE_WARN ? "write-header-warn" : "write-header", archive_entry_pathname(entry), archive_error_string(a));
	if (e == ARCHIVE_FATAL) return -1;
	if (e >= ARCHIVE_WARN && archive_entry_size(entry) > 0 && disk != NULL)
		if (copy_disk_to_archive(disk, a, entry) != 0) return -1;
	return 0;
}

static void op_roundtrip(val *c)
{
	char *src = v_cstr(v_at(c, 1)), *dst = v_cstr(v_at(c, 2));
	int fmt = (int)v_ll(v_at(c, 3));
	int xflags = (int)v_ll(v_at(c, 4));
	struct membuf mb = { NULL, 0, 0 };
	struct archive *disk = archive_read_disk_new(), *a = archive_write_new(), *ar = NULL, *wd = NULL;
	struct archive_entry_linkresolver *res = archive_entry_linkresolver_new();
	struct archive_entry *entry = NULL, *spare = NULL, *ae;
	char home[PATH_MAX];
	int status = 0, r;
	char **listed = NULL; size_t nl = 0, capl = 0, k;
	nmsgs = 0; msgs = NULL;
	if (getcwd(home, sizeof(home)) == NULL) home[0] = 0;

	/* ---- disk -> archive (tar/write.c) */
	if (fmt < 0 || fmt >= (int)(sizeof(fmt_names) / sizeof(fmt_names[0])) ||
	    archive_write_set_format_by_name(a, fmt_names[fmt]) != ARCHIVE_OK) { status = -4; goto report; }
	archive_write_set_bytes_per_block(a, 0);
	if (fmt == 6)	/* the default rockridge=useful normalises modes and owners by design; the Joliet tree refuses paths
			 * whose (truncated) components add up to more than 240 characters and then the whole archive fails */
		archive_write_set_options(a, "iso9660:rockridge=strict,iso9660:!joliet");
	if (archive_write_open(a, &mb, NULL, mem_write, NULL) != ARCHIVE_OK) { status = -4; add_msg("open", "", archive_error_string(a)); goto report; }
	archive_entry_linkresolver_set_strategy(res, archive_format(a));
	archive_read_disk_set_symlink_physical(disk);
	archive_read_disk_set_standard_lookup(disk);
	if (chdir(src) != 0) { status = -5; goto report; }
	if (archive_read_disk_open(disk, ".") != ARCHIVE_OK) { status = -5; add_msg("disk-open", ".", archive_error_string(disk)); goto report; }
	for (;;) {
		archive_entry_free(entry);
		entry = archive_entry_new();
		r = archive_read_next_header2(disk, entry);
		if (r == ARCHIVE_EOF) break;
		if (r != ARCHIVE_OK) {
			add_msg("read-disk", archive_entry_pathname(entry), archive_error_string(disk));
			if (r == ARCHIVE_FATAL || r == ARCHIVE_FAILED) { status = -6; break; }
			if (r < ARCHIVE_WARN) continue;
		}
		archive_read_disk_descend(disk);
		if (archive_entry_filetype(entry) != AE_IFREG)
			archive_entry_set_size(entry, 0);
		archive_entry_linkify(res, &entry, &spare);
		while (entry != NULL) {
			if (write_one(disk, a, entry) != 0) status = -7;
			if (entry != spare) archive_entry_free(entry);
			entry = spare;
			spare = NULL;
		}
		if (status != 0) break;
	}
	archive_entry_free(entry);
	entry = NULL;
	archive_read_close(disk);
	if (status == 0) {
		/* tar/write.c: entries still deferred by the resolver are re-opened through their source path */
		archive_entry_linkify(res, &entry, &spare);
		while (entry != NULL) {
			struct archive_entry *e2 = archive_entry_new();
			r = archive_read_disk_open(disk, archive_entry_sourcepath(entry));
			if (r == ARCHIVE_OK) r = archive_read_next_header2(disk, e2);
			archive_entry_free(e2);
			if (r != ARCHIVE_OK) add_msg("reopen-deferred", archive_entry_pathname(entry), archive_error_string(disk));
			else if (write_one(disk, a, entry) != 0) status = -7;
			archive_entry_free(entry);
			archive_read_close(disk);
			entry = NULL;
			archive_entry_linkify(res, &entry, &spare);
		}
	}
	if (archive_write_close(a) != ARCHIVE_OK) { add_msg("write-close", "", archive_error_string(a)); if (status == 0) status = -8; }
	if (status != 0) goto report;

	/* ---- archive -> disk (archive_read_extract2 style) */
	ar = archive_read_new();
	archive_read_support_format_all(ar);
	archive_read_support_filter_all(ar);
	if (fmt == 7)	/* "mtree+data": without it the mtree reader never opens the files it describes */
		archive_read_set_options(ar, "mtree:checkfs");
	if (archive_read_open_memory(ar, mb.p, mb.n) != ARCHIVE_OK) { status = -10; add_msg("read-open", "", archive_error_string(ar)); goto report; }
	wd = archive_write_disk_new();
	archive_write_disk_set_options(wd, xflags);
	archive_write_disk_set_standard_lookup(wd);
	for (;;) {
		/* the mtree reader opens the files it describes relative to the current directory */
		if (chdir(src) != 0) { status = -11; break; }
		r = archive_read_next_header(ar, &ae);
		if (r == ARCHIVE_EOF) break;
		if (r != ARCHIVE_OK) add_msg("read-header", ae && r >= ARCHIVE_WARN ? archive_entry_pathname(ae) : "", archive_error_string(ar));
		if (r < ARCHIVE_WARN) { status = -12; break; }
		if (nl == capl) { capl = capl ? capl * 2 : 256; listed = realloc(listed, capl * sizeof(char *)); }
		listed[nl++] = strdup(archive_entry_pathname(ae) ? archive_entry_pathname(ae) : "");
		if (chdir(dst) != 0) { status = -11; break; }
		r = archive_write_header(wd, ae);
		if (r != ARCHIVE_OK) add_msg(r == ARCHIVE_WARN ? "disk-header-warn" : "disk-header", archive_entry_pathname(ae), archive_error_string(wd));
		if (r == ARCHIVE_FATAL) { status = -13; break; }
		if (r >= ARCHIVE_WARN && archive_entry_filetype(ae) == AE_IFREG &&
		    (!archive_entry_size_is_set(ae) || archive_entry_size(ae) > 0)) {
			const void *buff; size_t sz; int64_t off;
			int rr;
			while ((rr = archive_read_data_block(ar, &buff, &sz, &off)) == ARCHIVE_OK) {
				if (archive_write_data_block(wd, buff, sz, off) < ARCHIVE_WARN) {
					add_msg("disk-data", archive_entry_pathname(ae), archive_error_string(wd));
					break;
				}
			}
			if (rr < ARCHIVE_WARN) { add_msg("read-data", archive_entry_pathname(ae), archive_error_string(ar)); if (rr == ARCHIVE_FATAL) { status = -14; } }
		}
		r = archive_write_finish_entry(wd);
		if (r != ARCHIVE_OK) add_msg(r == ARCHIVE_WARN ? "disk-finish-warn" : "disk-finish", archive_entry_pathname(ae), archive_error_string(wd));
		if (r == ARCHIVE_FATAL) { status = -13; break; }
		if (status != 0) break;
	}
	if (chdir(dst) == 0) {
		if (archive_write_close(wd) != ARCHIVE_OK) add_msg("disk-close", "", archive_error_string(wd));
	}
report:
	o_open();
	o_int(status);
	o_open(); for (k = 0; k < nmsgs; k++) { o_str(msgs[k]); free(msgs[k]); } o_close();
	o_open(); for (k = 0; k < nl; k++) { o_str(listed[k]); free(listed[k]); } o_close();
	o_uint(mb.n);
	o_close();
	o_endline();
	free(msgs); free(listed); free(mb.p);
	archive_entry_linkresolver_free(res);
	archive_read_free(disk);
	archive_write_free(a);
	if (ar) archive_read_free(ar);
	if (wd) archive_write_free(wd);
	if (home[0]) { if (chdir(home) != 0) perror("chdir back"); }
	free(src); free(dst);
}

/* ------------------------------------------------------------------ op 5: independent snapshot */
struct sbuf { char *s; size_t n, cap; };
static void sb_set(struct sbuf *b, size_t keep, const char *add)
{
	size_t la = strlen(add);
	if (keep + la + 2 > b->cap) { b->cap = (keep + la + 2) * 2; b->s = realloc(b->s, b->cap); }
	memcpy(b->s + keep, add, la + 1);
	b->n = keep + la;
}

static unsigned long long fnv_fd(int fd, long long *total)
{
	unsigned long long h = 1469598103934665603ULL;
	unsigned char buf[1 << 16];
	ssize_t n; size_t k;
	*total = 0;
	while ((n = read(fd, buf, sizeof(buf))) > 0) {
		for (k = 0; k < (size_t)n; k++) { h ^= buf[k]; h *= 1099511628211ULL; }
		*total += n;
	}
	return h;
}

static int snap_errors;

static void snap_obj(int dirfd, const char *name, struct sbuf *path, size_t plen);

static void snap_dir_contents(int fd, struct sbuf *path, size_t plen)
{
	DIR *d = fdopendir(fcntl(fd, F_DUPFD_CLOEXEC, 0));
	struct dirent *de;
	char **names = NULL; size_t n = 0, cap = 0, k;
	if (d == NULL) { snap_errors++; return; }
	while ((de = readdir(d)) != NULL) {
		if (strcmp(de->d_name, ".") == 0 || strcmp(de->d_name, "..") == 0) continue;
		if (n == cap) { cap = cap ? cap * 2 : 32; names = realloc(names, cap * sizeof(char *)); }
		names[n++] = strdup(de->d_name);
	}
	closedir(d);
	if (n > 1) qsort(names, n, sizeof(char *), cmp_str);
	for (k = 0; k < n; k++) { snap_obj(fd, names[k], path, plen); free(names[k]); }
	free(names);
}

static void snap_xattrs(int fd)
{
	char list[65536], value[65536];
	ssize_t ln = fd >= 0 ? flistxattr(fd, list, sizeof(list)) : 0;
	char *names[1024]; size_t n = 0, k;
	ssize_t p = 0;
	o_open();
	while (ln > 0 && p < ln && n < 1024) { names[n++] = list + p; p += (ssize_t)strlen(list + p) + 1; }
	if (n > 1) qsort(names, n, sizeof(char *), cmp_str);
	for (k = 0; k < n; k++) {
		ssize_t vn;
		if (strncmp(names[k], "user.", 5) != 0) continue;
		vn = fgetxattr(fd, names[k], value, sizeof(value));
		o_open(); o_str(names[k]); o_bytes(value, vn > 0 ? (size_t)vn : 0); o_close();
	}
	o_close();
}

static int snap_root;
static void snap_obj(int dirfd, const char *name, struct sbuf *path, size_t plen)
{
	struct stat st;
	size_t mylen;
	int is_root = snap_root;
	snap_root = 0;
	if (is_root) sb_set(path, 0, ".");
	else if (plen) { sb_set(path, plen, "/"); sb_set(path, plen + 1, name); } else sb_set(path, 0, name);
	mylen = path->n;
	if (fstatat(dirfd, name, &st, AT_SYMLINK_NOFOLLOW) != 0) { snap_errors++; return; }
	o_open();
	o_bytes(path->s, mylen);
	o_uint((unsigned long long)(st.st_mode & S_IFMT));
	o_uint((unsigned long long)(st.st_mode & 07777));
	o_int((vint)st.st_mtim.tv_sec);
	o_int((vint)st.st_mtim.tv_nsec);
	if (S_ISREG(st.st_mode)) {
		int fd = openat(dirfd, name, O_RDONLY | O_CLOEXEC | O_NOFOLLOW | O_NOATIME);
		long long total = 0;
		if (fd < 0) fd = openat(dirfd, name, O_RDONLY | O_CLOEXEC | O_NOFOLLOW);
		o_int((vint)st.st_size);
		if (fd >= 0) {
			off_t pos = 0;
			o_uint(fnv_fd(fd, &total));
			o_open();
			for (;;) {
				off_t ds = lseek(fd, pos, SEEK_DATA), he;
				if (ds < 0) break;
				he = lseek(fd, ds, SEEK_HOLE);
				if (he < 0) he = st.st_size;
				o_open(); o_int((vint)ds); o_int((vint)(he - ds)); o_close();
				pos = he;
				if (pos >= st.st_size) break;
			}
			o_close();
			o_str("");
			snap_xattrs(fd);
			if (total != (long long)st.st_size) snap_errors++;
			close(fd);
		} else { snap_errors++; o_uint(0); o_open(); o_close(); o_str(""); o_open(); o_close(); }
	} else if (S_ISLNK(st.st_mode)) {
		char tg[PATH_MAX + 1];
		ssize_t n = readlinkat(dirfd, name, tg, PATH_MAX);
		o_int(0); o_uint(0); o_open(); o_close();
		o_bytes(tg, n > 0 ? (size_t)n : 0);
		o_open(); o_close();
	} else if (S_ISDIR(st.st_mode)) {
		int fd = openat(dirfd, name, O_RDONLY | O_DIRECTORY | O_CLOEXEC | O_NOFOLLOW);
		o_int(0); o_uint(0); o_open(); o_close(); o_str("");
		snap_xattrs(fd);
		if (fd >= 0) close(fd);
	} else {
		o_int(0); o_uint(0); o_open(); o_close(); o_str(""); o_open(); o_close();
	}
	o_uint((unsigned long long)st.st_ino);
	o_uint((unsigned long long)st.st_nlink);
	o_uint((unsigned long long)st.st_blocks);
	o_close();
	if (S_ISDIR(st.st_mode)) {
		int fd = openat(dirfd, name, O_RDONLY | O_DIRECTORY | O_CLOEXEC | O_NOFOLLOW);
		if (fd >= 0) { snap_dir_contents(fd, path, is_root ? 0 : mylen); close(fd); } else snap_errors++;
	}
}

static void op_snapshot(val *c)
{
	char *dir = v_cstr(v_at(c, 1));
	struct sbuf path = { NULL, 0, 0 };
	FILE *mem; char *membuf = NULL; size_t memlen = 0;
	FILE *saved = o_fp;
	snap_errors = 0;
	mem = open_memstream(&membuf, &memlen);
	o_fp = mem; o_need_sp = 0;
	sb_set(&path, 0, "");
	snap_root = 1;
	snap_obj(AT_FDCWD, dir, &path, 0);
	fclose(mem);
	o_fp = saved; o_need_sp = 0;
	o_open(); o_int(snap_errors ? -1 : 0); o_open();
	if (memlen) { fputs(membuf, O_FP); o_need_sp = 1; }
	o_close(); o_close(); o_endline();
	free(membuf); free(path.s); free(dir);
}

static void run_case(val *c)
{
	switch ((int)v_ll(v_at(c, 0))) {
	case 0: op_make(c); break;
	case 1: op_walk(c); break;
	case 3: op_capture(c); break;
	case 4: op_roundtrip(c); break;
	case 5: op_snapshot(c); break;
	default: o_open(); o_int(-99); o_close(); o_endline();
	}
}

int main(int argc, char **argv)
{
	struct rlimit rl;
	if (getrlimit(RLIMIT_NOFILE, &rl) == 0) { rl.rlim_cur = rl.rlim_max; setrlimit(RLIMIT_NOFILE, &rl); }
	umask(022);
	setlocale(LC_ALL, "");	/* as bsdtar/bsdcpio do: pathname conversions follow the environment */
	return v_foreach_line(argc > 1 ? argv[1] : NULL, run_case);
}
