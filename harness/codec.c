/* Correspondence / oracle harness for C03 (filter round trip).
 *
 * case (0 kind bpb (mode?) (name?) (chunk ...))
 *	real archive_write_add_filter_b64encode (kind 0) / _uuencode (kind 1) + raw format,
 *	bytes_per_block = bpb, the chunks written by one archive_write_data call each.
 *	-> (rc (block ...))	the exact blocks handed to the client write callback
 * case (1 input (blocksize ...) )
 *	real reader, ONLY the uu filter + raw/empty formats, input cut into read blocks.
 *	-> (status (filter codes) recovered)	recovered printed only when status == 0
 * case (2 (filter ...) wopts data (wchunk ...) (rblock ...) readmode reqsize)
 *	filter = name bytes; wopts = option string for archive_write_set_options
 *	data = bytes | (1 seed len) random | (2 seed len period) repetitive | (3 seed len) mixed
 *	readmode 0 = support_filter_all, 1 = only the filters of the stack (by code),
 *	2 = forced chain (archive_read_append_filter)
 *	-> (optrc wrc (writer codes) outlen probe rstatus (reader codes) reclen equal firstdiff
 *	    fbytes_in fbytes_out hash_in hash_out head errstring retry)
 *	retry: -1 = not needed; otherwise the read did not give back the input with the writer's
 *	filter codes and was repeated with ONE read block: 1 = that read did, 0 = it did not either
 * case (3 (filter ...) woptsA woptsB dataA dataB (wchunk ...) (rblock ...) readmode reqsize)
 *	two archives written with the same stack, concatenated, read back as one.
 *	-> same shape as op 2, compared with dataA ++ dataB
 */
#include <archive.h>
#include <archive_entry.h>
#include <stdint.h>
#include "val.h"

/* ------------------------------------------------------------------ memory sink */
struct sink {
	unsigned char *b;
	size_t len, cap;
	size_t *cuts;		/* end offset of every callback block */
	size_t ncuts, capcuts;
	int keep_cuts;
};

static void sink_init(struct sink *s, int keep_cuts)
{
	memset(s, 0, sizeof(*s));
	s->keep_cuts = keep_cuts;
}

static void sink_free(struct sink *s)
{
	free(s->b);
	free(s->cuts);
	memset(s, 0, sizeof(*s));
}

static la_ssize_t sink_write(struct archive *a, void *cd, const void *buff, size_t n)
{
	struct sink *s = cd;
	(void)a;
	if (s->len + n > s->cap) {
		size_t nc = s->cap ? s->cap : 4096;
		while (nc < s->len + n) nc *= 2;
		s->b = realloc(s->b, nc);
		s->cap = nc;
	}
	memcpy(s->b + s->len, buff, n);
	s->len += n;
	if (s->keep_cuts) {
		if (s->ncuts == s->capcuts) {
			s->capcuts = s->capcuts ? s->capcuts * 2 : 64;
			s->cuts = realloc(s->cuts, s->capcuts * sizeof(size_t));
		}
		s->cuts[s->ncuts++] = s->len;
	}
	return (la_ssize_t)n;
}

/* ------------------------------------------------------------------ memory source */
struct source {
	const unsigned char *b;
	size_t len, pos;
	val *sizes;		/* list of block sizes, cycled; empty list = one block */
	size_t k;
	unsigned char *cur;	/* exact-size heap copy of the current block (ASan sees over-reads) */
};

static la_ssize_t source_read(struct archive *a, void *cd, const void **buff)
{
	struct source *s = cd;
	size_t n, left = s->len - s->pos;
	(void)a;
	free(s->cur);
	s->cur = NULL;
	if (left == 0) {
		*buff = NULL;
		return 0;
	}
	if (v_len(s->sizes) == 0)
		n = left;
	else {
		n = (size_t)v_ull(v_at(s->sizes, s->k % v_len(s->sizes)));
		s->k++;
		if (n == 0) n = 1;
		if (n > left) n = left;
	}
	s->cur = malloc(n);
	memcpy(s->cur, s->b + s->pos, n);
	s->pos += n;
	*buff = s->cur;
	return (la_ssize_t)n;
}

/* ------------------------------------------------------------------ data generator */
static uint64_t xs(uint64_t *st)
{
	uint64_t x = *st;
	x ^= x << 13; x ^= x >> 7; x ^= x << 17;
	*st = x;
	return x;
}

/* returns an exact-size heap block (1 byte when empty) */
static unsigned char *make_data(val *d, size_t *plen)
{
	unsigned char *p;
	size_t n, i;
	if (d->kind == 1) {
		n = d->n;
		p = malloc(n ? n : 1);
		if (n) memcpy(p, d->b, n);
		*plen = n;
		return p;
	} else {
		int kind = (int)v_ll(v_at(d, 0));
		uint64_t st = v_ull(v_at(d, 1)) * 0x9E3779B97F4A7C15ULL + 0x1234567ULL;
		n = (size_t)v_ull(v_at(d, 2));
		p = malloc(n ? n : 1);
		if (st == 0) st = 1;
		if (kind == 1) {
			for (i = 0; i < n; i++) p[i] = (unsigned char)(xs(&st) >> 32);
		} else if (kind == 2) {
			size_t period = (size_t)v_ull(v_at(d, 3));
			unsigned char pat[64];
			if (period == 0 || period > 64) period = 1;
			for (i = 0; i < period; i++) pat[i] = (unsigned char)(xs(&st) >> 32);
			for (i = 0; i < n; i++) p[i] = pat[i % period];
		} else if (kind == 4) {
			/* an incompressible stretch of `head' bytes, then copies of what lies `dist' bytes
			 * back: the matches of every later block reach into the block before it */
			size_t head = (size_t)v_ull(v_at(d, 3)), dist = (size_t)v_ull(v_at(d, 4));
			if (dist == 0) dist = 1;
			for (i = 0; i < n; i++)
				p[i] = (i < head || i < dist) ? (unsigned char)(xs(&st) >> 32) : p[i - dist];
		} else {
			/* mixed: runs of one byte and random stretches */
			i = 0;
			while (i < n) {
				size_t run = 1 + (size_t)(xs(&st) % 5000);
				int rnd = (int)(xs(&st) & 1);
				unsigned char c = (unsigned char)(xs(&st) >> 40);
				while (run-- && i < n) p[i++] = rnd ? (unsigned char)(xs(&st) >> 32) : c;
			}
		}
		/* first byte: never the first byte of a compression signature (generator rule) */
		if (n > 0) p[0] = 0x00;
		*plen = n;
		return p;
	}
}

static uint64_t fnv(const unsigned char *p, size_t n)
{
	uint64_t h = 0xcbf29ce484222325ULL;
	size_t i;
	for (i = 0; i < n; i++) { h ^= p[i]; h *= 0x100000001b3ULL; }
	return h;
}

static int worst(int a, int b) { return b < a ? b : a; }

/* ------------------------------------------------------------------ op 0 */
static void op_encode(val *c)
{
	int kind = (int)v_ll(v_at(c, 1));
	int bpb = (int)v_ll(v_at(c, 2));
	val *mode = v_at(c, 3), *name = v_at(c, 4), *chunks = v_at(c, 5);
	const char *mod = kind == 0 ? "b64encode" : "uuencode";
	struct archive *a = archive_write_new();
	struct archive_entry *e = archive_entry_new();
	struct sink s;
	int rc = 0;
	size_t k, prev = 0;

	sink_init(&s, 1);
	rc = worst(rc, kind == 0 ? archive_write_add_filter_b64encode(a) : archive_write_add_filter_uuencode(a));
	rc = worst(rc, archive_write_set_format_raw(a));
	rc = worst(rc, archive_write_set_bytes_per_block(a, bpb));
	if (v_len(mode) == 1) {
		char *m = v_cstr(v_at(mode, 0));
		rc = worst(rc, archive_write_set_filter_option(a, mod, "mode", m));
		free(m);
	}
	if (v_len(name) == 1) {
		char *m = v_cstr(v_at(name, 0));
		rc = worst(rc, archive_write_set_filter_option(a, mod, "name", m));
		free(m);
	}
	rc = worst(rc, archive_write_open(a, &s, NULL, sink_write, NULL));
	archive_entry_set_pathname(e, "data");
	archive_entry_set_filetype(e, AE_IFREG);
	rc = worst(rc, archive_write_header(a, e));
	for (k = 0; k < v_len(chunks); k++) {
		val *ch = v_at(chunks, k);
		/* exact-size copy so ASan sees reads past the chunk */
		unsigned char *p = malloc(ch->n ? ch->n : 1);
		la_ssize_t w;
		if (ch->n) memcpy(p, ch->b, ch->n);
		w = archive_write_data(a, p, ch->n);
		if (w < 0) rc = worst(rc, (int)w);
		else if ((size_t)w != ch->n) rc = worst(rc, -1);
		free(p);
	}
	rc = worst(rc, archive_write_close(a));
	o_open();
	o_int(rc);
	o_open();
	for (k = 0; k < s.ncuts; k++) {
		o_bytes(s.b + prev, s.cuts[k] - prev);
		prev = s.cuts[k];
	}
	o_close();
	o_close();
	o_endline();
	archive_entry_free(e);
	archive_write_free(a);
	sink_free(&s);
}

/* ------------------------------------------------------------------ reading */
struct rres {
	int status;
	int codes[32];
	int ncodes;
	unsigned char *rec;
	size_t reclen, reccap;
	long long fb_in, fb_out;
	char err[160];
};

static void keep_err(struct archive *a, struct rres *r)
{
	const char *m = archive_error_string(a);
	size_t i;
	if (m == NULL) m = "";
	for (i = 0; i + 1 < sizeof(r->err) && m[i]; i++)
		r->err[i] = (m[i] >= 0x20 && m[i] < 0x7f) ? m[i] : '?';
	r->err[i] = '\0';
}

static void read_all(struct archive *a, struct source *src, size_t reqsize, struct rres *r)
{
	struct archive_entry *e;
	int rc, i;
	unsigned char *buf;
	memset(r, 0, sizeof(*r));
	r->fb_in = r->fb_out = -1;
	if (reqsize == 0) reqsize = 65536;
	rc = archive_read_open(a, src, NULL, source_read, NULL);
	if (rc != ARCHIVE_OK) {
		r->status = rc;
		keep_err(a, r);
		return;
	}
	rc = archive_read_next_header(a, &e);
	r->ncodes = archive_filter_count(a);
	if (r->ncodes > 32) r->ncodes = 32;
	for (i = 0; i < r->ncodes; i++)
		r->codes[i] = archive_filter_code(a, i);
	if (rc == ARCHIVE_EOF) {
		/* "empty" format: no entry at all */
		r->status = 0;
		r->fb_in = archive_filter_bytes(a, -1);
		r->fb_out = archive_filter_bytes(a, 0);
		return;
	}
	if (rc != ARCHIVE_OK) {
		r->status = rc;
		keep_err(a, r);
		return;
	}
	buf = malloc(reqsize);
	for (;;) {
		la_ssize_t n = archive_read_data(a, buf, reqsize);
		if (n < 0) { r->status = (int)n; keep_err(a, r); break; }
		if (n == 0) break;
		if (r->reclen + (size_t)n > r->reccap) {
			size_t nc = r->reccap ? r->reccap : 65536;
			while (nc < r->reclen + (size_t)n) nc *= 2;
			r->rec = realloc(r->rec, nc);
			r->reccap = nc;
		}
		memcpy(r->rec + r->reclen, buf, (size_t)n);
		r->reclen += (size_t)n;
	}
	free(buf);
	if (r->status == 0) {
		rc = archive_read_next_header(a, &e);
		if (rc != ARCHIVE_EOF)
			r->status = rc == ARCHIVE_OK ? 77 : rc;	/* 77: a second entry appeared */
	}
	r->fb_in = archive_filter_bytes(a, -1);
	r->fb_out = archive_filter_bytes(a, 0);
}

static void o_codes(const int *codes, int n)
{
	int i;
	o_open();
	for (i = 0; i < n; i++) o_int(codes[i]);
	o_close();
}

/* ------------------------------------------------------------------ op 1 */
static void op_uudecode(val *c)
{
	val *in = v_at(c, 1);
	struct archive *a = archive_read_new();
	struct source src;
	struct rres r;
	memset(&src, 0, sizeof(src));
	src.b = in->b; src.len = in->n; src.sizes = v_at(c, 2);
	archive_read_support_filter_uu(a);
	archive_read_support_format_raw(a);
	archive_read_support_format_empty(a);
	read_all(a, &src, 0, &r);
	o_open();
	o_int(r.status);
	o_codes(r.codes, r.status == 0 ? r.ncodes : 0);
	o_bytes(r.rec, r.status == 0 ? r.reclen : 0);
	o_close();
	o_endline();
	archive_read_free(a);
	free(src.cur);
	free(r.rec);
}

/* ------------------------------------------------------------------ op 2 / 3 */
static int code_of_name(const char *n)
{
	if (!strcmp(n, "gzip")) return ARCHIVE_FILTER_GZIP;
	if (!strcmp(n, "bzip2")) return ARCHIVE_FILTER_BZIP2;
	if (!strcmp(n, "compress")) return ARCHIVE_FILTER_COMPRESS;
	if (!strcmp(n, "lzma")) return ARCHIVE_FILTER_LZMA;
	if (!strcmp(n, "xz")) return ARCHIVE_FILTER_XZ;
	if (!strcmp(n, "lzip")) return ARCHIVE_FILTER_LZIP;
	if (!strcmp(n, "uuencode")) return ARCHIVE_FILTER_UU;
	if (!strcmp(n, "b64encode")) return ARCHIVE_FILTER_UU;
	if (!strcmp(n, "lz4")) return ARCHIVE_FILTER_LZ4;
	if (!strcmp(n, "zstd")) return ARCHIVE_FILTER_ZSTD;
	return -1;
}

/* write data through the stack into s; returns worst rc; *optrc = rc of set_options */
static int write_stack(val *filters, val *wopts, const unsigned char *data, size_t len, val *wchunks,
    struct sink *s, int *optrc, int *wcodes, int *nwcodes)
{
	struct archive *a = archive_write_new();
	struct archive_entry *e = archive_entry_new();
	int rc = 0, i;
	size_t k, pos = 0, j = 0;
	for (k = 0; k < v_len(filters); k++) {
		char *n = v_cstr(v_at(filters, k));
		rc = worst(rc, archive_write_add_filter_by_name(a, n));
		free(n);
	}
	rc = worst(rc, archive_write_set_format_raw(a));
	rc = worst(rc, archive_write_set_bytes_per_block(a, 0));
	rc = worst(rc, archive_write_set_bytes_in_last_block(a, 1));
	*optrc = 0;
	if (wopts->kind == 1 && wopts->n > 0) {
		char *o = v_cstr(wopts);
		*optrc = archive_write_set_options(a, o);
		free(o);
	}
	if (*optrc != ARCHIVE_OK || rc != ARCHIVE_OK) {
		*nwcodes = 0;
		archive_entry_free(e);
		archive_write_free(a);
		return rc;
	}
	rc = worst(rc, archive_write_open(a, s, NULL, sink_write, NULL));
	*nwcodes = archive_filter_count(a);
	if (*nwcodes > 32) *nwcodes = 32;
	for (i = 0; i < *nwcodes; i++) wcodes[i] = archive_filter_code(a, i);
	archive_entry_set_pathname(e, "data");
	archive_entry_set_filetype(e, AE_IFREG);
	rc = worst(rc, archive_write_header(a, e));
	while (pos < len && rc >= ARCHIVE_WARN) {
		size_t n = len - pos;
		unsigned char *p;
		la_ssize_t w;
		if (v_len(wchunks) > 0) {
			size_t want = (size_t)v_ull(v_at(wchunks, j % v_len(wchunks)));
			j++;
			if (want < n) n = want;
		}
		/* a zero-length write is legal and must change nothing */
		p = malloc(n ? n : 1);
		if (n) memcpy(p, data + pos, n);
		w = archive_write_data(a, p, n);
		free(p);
		if (w < 0) { rc = worst(rc, (int)w); break; }
		if ((size_t)w != n) { rc = worst(rc, -1); break; }
		pos += n;
	}
	rc = worst(rc, archive_write_close(a));
	archive_entry_free(e);
	archive_write_free(a);
	return rc;
}

static void read_stack(val *filters, int readmode, const unsigned char *arch, size_t alen, val *rblocks,
    size_t reqsize, struct rres *r)
{
	struct archive *a = archive_read_new();
	struct source src;
	size_t k;
	memset(&src, 0, sizeof(src));
	src.b = arch; src.len = alen; src.sizes = rblocks;
	if (readmode == 0)
		archive_read_support_filter_all(a);
	else if (readmode == 1) {
		for (k = 0; k < v_len(filters); k++) {
			char *n = v_cstr(v_at(filters, k));
			archive_read_support_filter_by_code(a, code_of_name(n));
			free(n);
		}
	} else {
		/* the writer's last filter is the outermost one: it is undone first */
		for (k = v_len(filters); k > 0; k--) {
			char *n = v_cstr(v_at(filters, k - 1));
			archive_read_append_filter(a, code_of_name(n));
			free(n);
		}
	}
	archive_read_support_format_raw(a);
	archive_read_support_format_empty(a);
	read_all(a, &src, reqsize, r);
	archive_read_free(a);
	free(src.cur);
}

/* does the reader (all filters) see a compression signature at the start of the payload? */
static int probe_payload(const unsigned char *data, size_t len)
{
	struct archive *a = archive_read_new();
	struct archive_entry *e;
	struct source src;
	int n = -1, rc;
	memset(&src, 0, sizeof(src));
	src.b = data; src.len = len; src.sizes = NULL;
	archive_read_support_filter_all(a);
	archive_read_support_format_raw(a);
	archive_read_support_format_empty(a);
	rc = archive_read_open(a, &src, NULL, source_read, NULL);
	if (rc == ARCHIVE_OK) {
		rc = archive_read_next_header(a, &e);
		if (rc == ARCHIVE_OK || rc == ARCHIVE_EOF)
			n = archive_filter_count(a);
	}
	archive_read_free(a);
	free(src.cur);
	return n;	/* 1 = only the "none" source filter; >1 = a bidder accepted the payload; -1 = error */
}

static int read_is_good(const struct rres *r, const unsigned char *data, size_t len, const int *wcodes, int nw)
{
	return r->status == 0 && r->reclen == len && (len == 0 || memcmp(r->rec, data, len) == 0) &&
	    r->ncodes == nw && (nw == 0 || memcmp(r->codes, wcodes, (size_t)nw * sizeof(int)) == 0);
}

static int retry_one_block(val *filters, int readmode, const unsigned char *arch, size_t alen, size_t reqsize,
    const unsigned char *data, size_t len, const int *wcodes, int nw)
{
	struct rres r2;
	int ok;
	read_stack(filters, readmode, arch, alen, NULL, reqsize, &r2);
	ok = read_is_good(&r2, data, len, wcodes, nw);
	free(r2.rec);
	return ok;
}

static void report(int optrc, int wrc, int *wcodes, int nwcodes, size_t outlen, int probe, struct rres *r,
    const unsigned char *data, size_t len, int retry)
{
	size_t firstdiff = 0, m = r->reclen < len ? r->reclen : len;
	int equal;
	while (firstdiff < m && r->rec[firstdiff] == data[firstdiff]) firstdiff++;
	equal = (r->reclen == len && firstdiff == len);
	o_open();
	o_int(optrc);
	o_int(wrc);
	o_codes(wcodes, nwcodes);
	o_uint(outlen);
	o_int(probe);
	o_int(r->status);
	o_codes(r->codes, r->ncodes);
	o_uint(r->reclen);
	o_int(equal);
	o_uint(firstdiff);
	o_int(r->fb_in);
	o_int(r->fb_out);
	o_uint(fnv(data, len));
	o_uint(fnv(r->rec, r->reclen));
	o_bytes(r->rec, r->reclen < 48 ? r->reclen : 48);
	o_str(r->err);
	o_int(retry);
	o_close();
	o_endline();
}

static void op_roundtrip(val *c)
{
	val *filters = v_at(c, 1);
	size_t len;
	unsigned char *data = make_data(v_at(c, 3), &len);
	struct sink s;
	struct rres r;
	int optrc, wrc, wcodes[32], nw = 0, probe, retry = -1;
	memset(&r, 0, sizeof(r));
	sink_init(&s, 0);
	wrc = write_stack(filters, v_at(c, 2), data, len, v_at(c, 4), &s, &optrc, wcodes, &nw);
	probe = probe_payload(data, len);
	if (optrc == ARCHIVE_OK && wrc >= ARCHIVE_WARN) {
		read_stack(filters, (int)v_ll(v_at(c, 6)), s.b, s.len, v_at(c, 5), (size_t)v_ull(v_at(c, 7)), &r);
		if (!read_is_good(&r, data, len, wcodes, nw) && v_len(v_at(c, 5)) > 0)
			retry = retry_one_block(filters, (int)v_ll(v_at(c, 6)), s.b, s.len,
			    (size_t)v_ull(v_at(c, 7)), data, len, wcodes, nw);
	} else
		r.status = -999;
	report(optrc, wrc, wcodes, nw, s.len, probe, &r, data, len, retry);
	free(r.rec);
	free(data);
	sink_free(&s);
}

static void op_concat(val *c)
{
	val *filters = v_at(c, 1);
	size_t la, lb;
	unsigned char *da = make_data(v_at(c, 4), &la);
	unsigned char *db = make_data(v_at(c, 5), &lb);
	unsigned char *both = malloc(la + lb ? la + lb : 1);
	struct sink s;
	struct rres r;
	int optrc, optrc2, wrc, wcodes[32], nw = 0, probe, retry = -1;
	memset(&r, 0, sizeof(r));
	if (la) memcpy(both, da, la);
	if (lb) memcpy(both + la, db, lb);
	sink_init(&s, 0);
	wrc = write_stack(filters, v_at(c, 2), da, la, v_at(c, 6), &s, &optrc, wcodes, &nw);
	wrc = worst(wrc, write_stack(filters, v_at(c, 3), db, lb, v_at(c, 6), &s, &optrc2, wcodes, &nw));
	optrc = worst(optrc, optrc2);
	probe = probe_payload(both, la + lb);
	if (optrc == ARCHIVE_OK && wrc >= ARCHIVE_WARN) {
		read_stack(filters, (int)v_ll(v_at(c, 8)), s.b, s.len, v_at(c, 7), (size_t)v_ull(v_at(c, 9)), &r);
		if (!read_is_good(&r, both, la + lb, wcodes, nw) && v_len(v_at(c, 7)) > 0)
			retry = retry_one_block(filters, (int)v_ll(v_at(c, 8)), s.b, s.len,
			    (size_t)v_ull(v_at(c, 9)), both, la + lb, wcodes, nw);
	} else
		r.status = -999;
	report(optrc, wrc, wcodes, nw, s.len, probe, &r, both, la + lb, retry);
	free(r.rec);
	free(da); free(db); free(both);
	sink_free(&s);
}

static void run_case(val *c)
{
	switch ((int)v_ll(v_at(c, 0))) {
	case 0: op_encode(c); break;
	case 1: op_uudecode(c); break;
	case 2: op_roundtrip(c); break;
	case 3: op_concat(c); break;
	default: o_open(); o_str("ERR"); o_close(); o_endline(); break;
	}
}

int main(int argc, char **argv)
{
	return v_foreach_line(argc > 1 ? argv[1] : NULL, run_case);
}
