/* Correspondence / oracle harness for C07: executes call programs on REAL handles of the five kinds.
 *
 *   magic <cases-file> <scratch-dir>
 *
 * case line = ( 0 kind ops )            scripted back ends (reader, writer): the statuses the format /
 *                                       client callbacks return are given in the case (same line as the model)
 *           = ( 1 kind variant ops )    real back ends (tar[.gz] over memory, ustar/pax/cpio/zip to memory,
 *                                       a directory tree, extraction into a scratch directory, matcher)
 * result    = ( (status state x...) ... (counters) leak fdleak )
 *     state = archive.state read through archive_private.h after the call (0 once freed)
 *     leak  = heap bytes still allocated after the final free (sanitizer allocator statistics), 0 if none
 * A case that kills the process is reported as (xCRASH <how>) and the run continues with the next one:
 * the cases run in a forked child which is restarted after a crash.
 */
#include "archive_platform.h"
#include <sys/types.h>
#include <sys/stat.h>
#include <sys/mman.h>
#include <sys/wait.h>
#include <dirent.h>
#include <errno.h>
#include <fcntl.h>
#include <ftw.h>
#include <unistd.h>
#include "archive.h"
#include "archive_entry.h"
#include "archive_private.h"
#include "archive_read_private.h"
#include "archive_write_private.h"
#include "val.h"

#if defined(__SANITIZE_ADDRESS__)
extern size_t __sanitizer_get_current_allocated_bytes(void);
#define HEAP_NOW() ((long long)__sanitizer_get_current_allocated_bytes())
#else
#define HEAP_NOW() (0LL)
#endif

static const char *scratch_base;
static char tree_dir[512];

/* ------------------------------------------------------------------ prepared inputs */
static unsigned char *arc[6];
static size_t arc_len[6];

static void build_archive(int gz, unsigned char **out, size_t *outlen)
{
	static char buf[1 << 18];
	size_t used = 0;
	struct archive *w = archive_write_new();
	struct archive_entry *e = archive_entry_new();
	char data[3000];
	memset(data, 'a', sizeof(data));
	archive_write_set_format_ustar(w);
	if (gz) archive_write_add_filter_gzip(w);
	archive_write_open_memory(w, buf, sizeof(buf), &used);
	archive_entry_set_pathname(e, "f1");
	archive_entry_set_mode(e, AE_IFREG | 0644);
	archive_entry_set_size(e, 3000);
	archive_write_header(w, e);
	archive_write_data(w, data, 3000);
	archive_entry_clear(e);
	archive_entry_set_pathname(e, "dir/f2");
	archive_entry_set_mode(e, AE_IFREG | 0600);
	archive_entry_set_size(e, 700);
	archive_write_header(w, e);
	archive_write_data(w, data, 700);
	archive_entry_free(e);
	archive_write_close(w);
	archive_write_free(w);
	*out = malloc(used ? used : 1);
	memcpy(*out, buf, used);
	*outlen = used;
}

static void prepare_inputs(void)
{
	size_t k;
	char p[600];
	FILE *f;
	build_archive(0, &arc[0], &arc_len[0]);		/* valid ustar, 2 entries */
	build_archive(1, &arc[1], &arc_len[1]);		/* the same through gzip */
	arc[2] = malloc(1); arc_len[2] = 0;		/* empty input */
	arc_len[3] = 512 + 1500;			/* ustar cut in the middle of the first body */
	arc[3] = malloc(arc_len[3]); memcpy(arc[3], arc[0], arc_len[3]);
	arc_len[4] = arc_len[1];			/* gzip stream with a damaged middle */
	arc[4] = malloc(arc_len[4]); memcpy(arc[4], arc[1], arc_len[4]);
	for (k = arc_len[4] / 2; k < arc_len[4] / 2 + 16 && k < arc_len[4]; k++) arc[4][k] ^= 0x5a;
	arc_len[5] = arc_len[0];			/* ustar whose second header is garbage */
	arc[5] = malloc(arc_len[5]); memcpy(arc[5], arc[0], arc_len[5]);
	for (k = 512 + 3072; k < 512 + 3072 + 200 && k < arc_len[5]; k++) arc[5][k] = (unsigned char)(k * 7 + 1);

	snprintf(tree_dir, sizeof(tree_dir), "%s/tree", scratch_base);
	mkdir(tree_dir, 0755);
	snprintf(p, sizeof(p), "%s/a.txt", tree_dir); f = fopen(p, "w"); if (f) { fputs("hello world\n", f); fclose(f); }
	snprintf(p, sizeof(p), "%s/sub", tree_dir); mkdir(p, 0755);
	snprintf(p, sizeof(p), "%s/sub/b.bin", tree_dir); f = fopen(p, "w");
	if (f) { for (k = 0; k < 5000; k++) fputc((int)(k & 255), f); fclose(f); }
	snprintf(p, sizeof(p), "%s/empty", tree_dir); f = fopen(p, "w"); if (f) fclose(f);
}

/* ------------------------------------------------------------------ bookkeeping */
static int count_fds(void)
{
	DIR *d = opendir("/proc/self/fd");
	int n = 0;
	if (d == NULL) return -1;
	while (readdir(d) != NULL) n++;
	closedir(d);
	return n;
}

static int rm_cb(const char *p, const struct stat *sb, int flag, struct FTW *ftw)
{
	(void)sb; (void)ftw;
	if (flag == FTW_DP || flag == FTW_D) { chmod(p, 0700); rmdir(p); } else unlink(p);
	return 0;
}
static int chmod_cb(const char *p, const struct stat *sb, int flag, struct FTW *ftw)
{
	(void)sb; (void)ftw;
	if (flag == FTW_D) chmod(p, 0700);
	return 0;
}
static void rm_rf(const char *p) { nftw(p, chmod_cb, 16, FTW_PHYS); nftw(p, rm_cb, 16, FTW_DEPTH | FTW_PHYS); }

static void out_call(long long status, struct archive *a)
{
	o_open(); o_int((vint)status); o_uint(a ? a->state : 0); o_close();
}
static void out_call_x(long long status, struct archive *a, long long x)
{
	o_open(); o_int((vint)status); o_uint(a ? a->state : 0); o_int((vint)x); o_close();
}

static void smoke_accessors(struct archive *a)
{
	/* error inspection: must be harmless in every state */
	volatile int x = archive_errno(a);
	const char *s = archive_error_string(a);
	x += s ? (int)strlen(s) : 0;
	x += archive_format(a);
	s = archive_format_name(a);
	x += s ? (int)strlen(s) : 0;
	x += archive_file_count(a);
	(void)x;
}

/* ================================================================== scripted reader */
struct rctx {
	int opens, closes;
	long long opener_r, close_r, header_r, skip_r, seek_r;
	int first_read_fail, bid;
	val *blocks; size_t bi;
};
static unsigned char fake_bytes[4096];

static int r_open_cb(struct archive *a, void *cd) { struct rctx *c = cd; (void)a; c->opens++; return (int)c->opener_r; }
static int r_close_cb(struct archive *a, void *cd) { struct rctx *c = cd; (void)a; c->closes++; return (int)c->close_r; }
static la_ssize_t r_read_cb(struct archive *a, void *cd, const void **buff)
{
	struct rctx *c = cd;
	if (c->first_read_fail) { archive_set_error(a, EIO, "scripted read failure"); return ARCHIVE_FATAL; }
	*buff = fake_bytes;
	return 1024;
}
static struct rctx *fake_ctx(struct archive_read *a) { return (struct rctx *)a->formats[0].data; }
static int fake_bid(struct archive_read *a, int best) { (void)best; return fake_ctx(a)->bid; }
static int fake_read_header(struct archive_read *a, struct archive_entry *e)
{
	archive_entry_set_pathname(e, "fake");
	archive_entry_set_mode(e, AE_IFREG | 0644);
	return (int)fake_ctx(a)->header_r;
}
static int fake_read_data(struct archive_read *a, const void **b, size_t *s, int64_t *o)
{
	struct rctx *c = fake_ctx(a);
	if (c->blocks != NULL && c->bi < v_len(c->blocks)) {
		val *blk = v_at(c->blocks, c->bi++);
		*b = fake_bytes;
		*s = (size_t)v_ll(v_at(blk, 1));
		*o = v_ll(v_at(blk, 2));
		return (int)v_ll(v_at(blk, 0));
	}
	*b = fake_bytes; *s = 0; *o = a->archive.read_data_offset;
	return ARCHIVE_EOF;
}
static int fake_skip(struct archive_read *a) { return (int)fake_ctx(a)->skip_r; }
static int64_t fake_seek(struct archive_read *a, int64_t o, int w) { (void)o; (void)w; return fake_ctx(a)->seek_r; }
static int fake_cleanup(struct archive_read *a) { (void)a; return ARCHIVE_OK; }

static long long scripted_query(struct archive *a, const char *f, long long r, struct rctx *rc)
{
	if (!strcmp(f, "archive_read_set_open_callback")) return archive_read_set_open_callback(a, r_open_cb);
	if (!strcmp(f, "archive_read_set_callback_data2")) return archive_read_set_callback_data(a, rc);
	if (!strcmp(f, "archive_read_add_passphrase")) return archive_read_add_passphrase(a, r == ARCHIVE_OK ? "pw" : "");
	if (!strcmp(f, "archive_read_header_position")) return archive_read_header_position(a);
	if (!strcmp(f, "_archive_set_options")) return a->magic == ARCHIVE_READ_MAGIC ? archive_read_set_options(a, "") : archive_write_set_options(a, "");
	if (!strcmp(f, "archive_write_set_bytes_per_block")) return archive_write_set_bytes_per_block(a, 10240);
	if (!strcmp(f, "archive_write_get_bytes_per_block")) return archive_write_get_bytes_per_block(a);
	if (!strcmp(f, "archive_write_set_bytes_in_last_block")) return archive_write_set_bytes_in_last_block(a, 512);
	fprintf(stderr, "harness: unknown scripted query %s\n", f);
	return -9990;
}

static void scripted_reader(val *ops)
{
	struct rctx c;
	struct archive *a = archive_read_new();
	static char buf[8192];
	size_t k;
	memset(&c, 0, sizeof(c));
	c.bid = 100;
	archive_read_set_open_callback(a, r_open_cb);
	archive_read_set_close_callback(a, r_close_cb);
	archive_read_set_callback_data(a, &c);
	__archive_read_register_format((struct archive_read *)a, &c, "fake", fake_bid, NULL, fake_read_header,
	    fake_read_data, fake_skip, fake_seek, fake_cleanup, NULL, NULL);
	for (k = 0; k < v_len(ops) && a != NULL; k++) {
		val *op = v_at(ops, k);
		int code = (int)v_ll(v_at(op, 0));
		long long r = -9991;
		struct archive_entry *e;
		switch (code) {
		case 0: { char *f = v_cstr(v_at(op, 1)); r = scripted_query(a, f, v_ll(v_at(op, 3)), &c); free(f); break; }
		case 1: smoke_accessors(a); r = v_ll(v_at(op, 1)); break;
		case 2: r = archive_write_fail(a); break;
		case 3: r = archive_read_set_read_callback(a, r_read_cb); break;
		case 4:
			c.opener_r = v_ll(v_at(op, 1));
			c.first_read_fail = v_ll(v_at(op, 2)) < ARCHIVE_WARN;
			c.bid = v_ll(v_at(op, 3)) ? 100 : 0;
			c.close_r = 0;
			r = archive_read_open1(a);
			break;
		case 6:
			c.skip_r = v_ll(v_at(op, 1)); c.header_r = v_ll(v_at(op, 2));
			r = archive_read_next_header(a, &e);
			break;
		case 7: {
			const void *b; size_t s; la_int64_t o;
			val one; val *items[1]; val blk; val *bi[3]; val i0, i1, i2;
			memset(&one, 0, sizeof(one)); memset(&blk, 0, sizeof(blk));
			memset(&i0, 0, sizeof(i0)); memset(&i1, 0, sizeof(i1)); memset(&i2, 0, sizeof(i2));
			i0.i = v_ll(v_at(op, 1));
			bi[0] = &i0; bi[1] = &i1; bi[2] = &i2; blk.kind = 2; blk.n = 3; blk.items = bi;
			items[0] = &blk; one.kind = 2; one.n = 1; one.items = items;
			c.blocks = &one; c.bi = 0;
			r = archive_read_data_block(a, &b, &s, &o);
			c.blocks = NULL;
			break; }
		case 8:
			c.blocks = v_at(op, 2); c.bi = 0;
			r = archive_read_data(a, buf, (size_t)v_ll(v_at(op, 1)));
			c.blocks = NULL;
			break;
		case 10: c.skip_r = v_ll(v_at(op, 1)); r = archive_read_data_skip(a); break;
		case 11:
			((struct archive_read *)a)->formats[0].seek_data = v_ll(v_at(op, 1)) ? fake_seek : NULL;
			c.seek_r = v_ll(v_at(op, 2));
			r = archive_seek_data(a, 0, SEEK_SET);
			break;
		case 12: c.close_r = v_ll(v_at(op, 1)); r = archive_read_close(a); break;
		case 13: c.close_r = v_ll(v_at(op, 1)); r = archive_read_free(a); a = NULL; break;
		default: fprintf(stderr, "harness: op %d not scripted for the reader\n", code); break;
		}
		out_call(r, a);
	}
	if (a != NULL) archive_read_free(a);
	o_open(); o_int(c.opens); o_int(c.closes); o_int(0); o_int(0); o_int(0); o_int(0); o_close();
}

/* ================================================================== scripted writer */
struct wctx {
	int opens, closes, frees;
	long long opener_r, init_r, fe_r, wh_r, wd_r, fc_r, ff_r;
	int (*real_free)(struct archive_write *);
};
static struct wctx *W;	/* the format callbacks get no user pointer */

static int w_open_cb(struct archive *a, void *cd) { struct wctx *c = cd; (void)a; if (c->opener_r == ARCHIVE_OK) c->opens++; return (int)c->opener_r; }
static la_ssize_t w_write_cb(struct archive *a, void *cd, const void *b, size_t n) { (void)a; (void)cd; (void)b; return (la_ssize_t)n; }
static int w_close_cb(struct archive *a, void *cd) { struct wctx *c = cd; (void)a; c->closes++; return ARCHIVE_OK; }
static int w_free_cb(struct archive *a, void *cd) { struct wctx *c = cd; (void)a; c->frees++; return ARCHIVE_OK; }
static int fk_init(struct archive_write *a) { (void)a; return (int)W->init_r; }
static int fk_header(struct archive_write *a, struct archive_entry *e) { (void)a; (void)e; return (int)W->wh_r; }
static ssize_t fk_data(struct archive_write *a, const void *b, size_t n) { (void)a; (void)b; (void)n; return (ssize_t)W->wd_r; }
static int fk_finish_entry(struct archive_write *a) { (void)a; return (int)W->fe_r; }
static int fk_close(struct archive_write *a) { (void)a; return (int)W->fc_r; }
static int fk_free(struct archive_write *a) { if (W->real_free) (W->real_free)(a); return (int)W->ff_r; }

static void scripted_writer(val *ops)
{
	struct wctx c;
	struct archive *a = archive_write_new();
	struct archive_write *aw = (struct archive_write *)a;
	size_t k;
	memset(&c, 0, sizeof(c));
	W = &c;
	for (k = 0; k < v_len(ops) && a != NULL; k++) {
		val *op = v_at(ops, k);
		int code = (int)v_ll(v_at(op, 0));
		long long r = -9991;
		struct archive_entry *e;
		switch (code) {
		case 0: { char *f = v_cstr(v_at(op, 1)); r = scripted_query(a, f, v_ll(v_at(op, 3)), NULL); free(f); break; }
		case 1: smoke_accessors(a); r = v_ll(v_at(op, 1)); break;
		case 2: r = archive_write_fail(a); break;
		case 14: {
			char *f = v_cstr(v_at(op, 1));
			if (aw->format_free == fk_free) { /* keep the chain: the real set_format calls format_free first */ }
			if (!strcmp(f, "archive_write_set_format_ustar")) r = archive_write_set_format_ustar(a);
			else r = archive_write_set_format_pax_restricted(a);
			free(f);
			if (r == ARCHIVE_OK) {
				c.real_free = aw->format_free;
				aw->format_init = fk_init; aw->format_write_header = fk_header;
				aw->format_write_data = fk_data; aw->format_finish_entry = fk_finish_entry;
				aw->format_close = fk_close; aw->format_free = fk_free;
			}
			break; }
		case 15:
			c.opener_r = v_ll(v_at(op, 1)); c.init_r = v_ll(v_at(op, 2));
			r = archive_write_open2(a, &c, w_open_cb, w_write_cb, w_close_cb, w_free_cb);
			break;
		case 16:
			c.fe_r = v_ll(v_at(op, 1)); c.wh_r = v_ll(v_at(op, 3));
			e = archive_entry_new();
			archive_entry_set_pathname(e, "x"); archive_entry_set_mode(e, AE_IFREG | 0644); archive_entry_set_size(e, 3);
			r = archive_write_header(a, e);
			archive_entry_free(e);
			break;
		case 17: c.wd_r = v_ll(v_at(op, 1)); r = archive_write_data(a, "abc", 3); break;
		case 18: c.fe_r = v_ll(v_at(op, 1)); r = archive_write_finish_entry(a); break;
		case 19: c.fe_r = v_ll(v_at(op, 1)); c.fc_r = v_ll(v_at(op, 2)); r = archive_write_close(a); break;
		case 20:
			c.fe_r = v_ll(v_at(op, 1)); c.fc_r = v_ll(v_at(op, 2)); c.ff_r = v_ll(v_at(op, 4));
			r = archive_write_free(a); a = NULL;
			break;
		default: fprintf(stderr, "harness: op %d not scripted for the writer\n", code); break;
		}
		out_call(r, a);
	}
	if (a != NULL) archive_write_free(a);
	o_open(); o_int(0); o_int(0); o_int(c.opens); o_int(c.closes); o_int(c.frees); o_int(0); o_close();
	W = NULL;
}

/* ================================================================== real back ends */
static int read_data_reaches_block(struct archive *a, size_t s)
{
	int64_t off = a->read_data_offset, out = a->read_data_output_offset;
	size_t rem = a->read_data_remaining;
	if (s == 0) return 0;
	if (a->state != ARCHIVE_STATE_DATA) return 1;	/* a stale block is forgotten first */
	if (off == out && rem == 0) return 1;
	if (off < out) return 0;
	return ((uint64_t)s > (uint64_t)(off - out) + rem);
}

static void real_reader(int variant, val *ops)
{
	struct archive *a = archive_read_new();
	struct archive_entry *own = archive_entry_new(), *e;
	static char buf[1 << 16];
	size_t k;
	if (variant < 0 || variant > 5) variant = 0;
	for (k = 0; k < v_len(ops) && a != NULL; k++) {
		val *op = v_at(ops, k);
		int code = (int)v_ll(v_at(op, 0));
		long long arg = v_ll(v_at(op, 1)), r = -9991, x = 0;
		switch (code) {
		case 0: r = archive_read_support_format_all(a); break;
		case 1: r = archive_read_support_filter_all(a); break;
		case 2: r = archive_read_set_options(a, arg == 0 ? "" : arg == 1 ? "read_concatenated_archives" : "bogus_option=1"); break;
		case 3: r = archive_read_open_memory(a, arc[variant], arc_len[variant]); break;
		case 4: r = archive_read_next_header(a, &e); break;
		case 5: r = archive_read_next_header2(a, own); break;
		case 6: { size_t s = (size_t)arg; if (s > sizeof(buf)) s = sizeof(buf);
			x = read_data_reaches_block(a, s); r = archive_read_data(a, buf, s); break; }
		case 7: { const void *b; size_t s; la_int64_t o; r = archive_read_data_block(a, &b, &s, &o); break; }
		case 8: r = archive_read_data_skip(a); break;
		case 9: r = archive_seek_data(a, 0, SEEK_SET); break;
		case 10: r = archive_read_close(a); break;
		case 11: r = archive_read_free(a); a = NULL; break;
		case 12: smoke_accessors(a); x = archive_filter_count(a); r = 0; break;
		case 13: r = archive_read_header_position(a); break;
		case 14: r = archive_read_add_passphrase(a, "secret"); break;
		case 15: r = archive_read_open1(a); break;
		case 16: r = archive_read_support_format_tar(a); break;
		case 17: r = archive_read_support_filter_gzip(a); break;
		default: fprintf(stderr, "harness: unknown reader op %d\n", code); break;
		}
		out_call_x(r, a, x);
	}
	if (a != NULL) archive_read_free(a);
	archive_entry_free(own);
}

static void real_writer(int variant, val *ops)
{
	struct archive *a = archive_write_new();
	static char mem[1 << 18];
	static char data[4096];
	size_t used = 0, k;
	size_t cap = variant == 1 ? 1500 : sizeof(mem);	/* variant 1: the memory buffer is too small */
	for (k = 0; k < v_len(ops) && a != NULL; k++) {
		val *op = v_at(ops, k);
		int code = (int)v_ll(v_at(op, 0));
		long long arg = v_ll(v_at(op, 1)), r = -9991;
		struct archive_entry *e;
		switch (code) {
		case 0:
			r = arg == 0 ? archive_write_set_format_ustar(a) : arg == 1 ? archive_write_set_format_pax_restricted(a) :
			    arg == 2 ? archive_write_set_format_cpio_newc(a) : archive_write_set_format_zip(a);
			break;
		case 1:
			/* arg 1: a filter that cannot be opened (the client is opened first, then the filter fails);
			 * arg 2: a second kind of compressor in the chain */
			r = arg == 1 ? archive_write_add_filter_program(a, "/nonexistent/verif-no-such-program") :
			    arg == 2 ? archive_write_add_filter_zstd(a) : archive_write_add_filter_gzip(a);
			break;
		case 2: r = archive_write_set_options(a, arg == 0 ? "" : arg == 1 ? "gzip:compression-level=1" : "bogus_option=1"); break;
		case 3: r = archive_write_open_memory(a, mem, cap, &used); break;
		case 4:
			e = archive_entry_new();
			archive_entry_set_pathname(e, arg == 1 ? "d" : arg == 2 ? "empty" : "file");
			archive_entry_set_mode(e, arg == 1 ? (AE_IFDIR | 0755) : (AE_IFREG | 0644));
			archive_entry_set_size(e, arg == 0 ? 100 : 0);
			r = archive_write_header(a, e);
			archive_entry_free(e);
			break;
		case 5: r = archive_write_data(a, data, (size_t)(arg < 0 ? 0 : arg > 4096 ? 4096 : arg)); break;
		case 6: r = archive_write_finish_entry(a); break;
		case 7: r = archive_write_close(a); break;
		case 8: r = archive_write_fail(a); break;
		case 9: r = archive_write_free(a); a = NULL; break;
		case 10: smoke_accessors(a); r = 0; break;
		case 11: r = archive_write_set_bytes_per_block(a, 512); break;
		case 12: r = archive_write_get_bytes_per_block(a); break;
		default: fprintf(stderr, "harness: unknown writer op %d\n", code); break;
		}
		out_call_x(r, a, 0);
	}
	if (a != NULL) archive_write_free(a);
}

static void real_read_disk(int variant, val *ops)
{
	struct archive *a = archive_read_disk_new();
	struct archive_entry *own = archive_entry_new(), *e;
	static char buf[1 << 16];
	char path[600];
	size_t k;
	snprintf(path, sizeof(path), variant == 1 ? "%s/does-not-exist" : variant == 2 ? "%s/empty" : "%s", tree_dir);
	for (k = 0; k < v_len(ops) && a != NULL; k++) {
		val *op = v_at(ops, k);
		int code = (int)v_ll(v_at(op, 0));
		long long arg = v_ll(v_at(op, 1)), r = -9991, x = 0;
		switch (code) {
		case 0: r = archive_read_disk_set_standard_lookup(a); break;
		case 1: r = archive_read_disk_set_behavior(a, arg ? ARCHIVE_READDISK_NO_TRAVERSE_MOUNTS : 0); break;
		case 2: r = archive_read_disk_set_symlink_logical(a); break;
		case 3: r = archive_read_disk_open(a, path); break;
		case 4: r = archive_read_next_header2(a, own); break;
		case 5: { const void *b; size_t s; la_int64_t o; r = archive_read_data_block(a, &b, &s, &o); break; }
		case 6: r = archive_read_disk_descend(a); break;
		case 7: r = archive_read_close(a); break;
		case 8: r = archive_read_free(a); a = NULL; break;
		case 9: smoke_accessors(a); r = 0; break;
		case 10: { size_t s = (size_t)arg; if (s > sizeof(buf)) s = sizeof(buf);
			x = read_data_reaches_block(a, s); r = archive_read_data(a, buf, s); break; }
		case 11: r = archive_read_next_header(a, &e); break;
		default: fprintf(stderr, "harness: unknown disk reader op %d\n", code); break;
		}
		out_call_x(r, a, x);
	}
	if (a != NULL) archive_read_free(a);
	archive_entry_free(own);
}

static void real_write_disk(int variant, val *ops, long caseno)
{
	struct archive *a;
	static char data[4096];
	char dir[600], cwd[600];
	size_t k;
	(void)variant;
	if (getcwd(cwd, sizeof(cwd)) == NULL) strcpy(cwd, "/");
	snprintf(dir, sizeof(dir), "%s/x%ld-%d", scratch_base, caseno, (int)getpid());
	mkdir(dir, 0755);
	if (chdir(dir) != 0) { perror(dir); exit(4); }
	a = archive_write_disk_new();
	for (k = 0; k < v_len(ops) && a != NULL; k++) {
		val *op = v_at(ops, k);
		int code = (int)v_ll(v_at(op, 0));
		long long arg = v_ll(v_at(op, 1)), r = -9991;
		struct archive_entry *e;
		switch (code) {
		case 0: r = archive_write_disk_set_options(a, arg == 0 ? 0 : arg == 1 ? (ARCHIVE_EXTRACT_PERM | ARCHIVE_EXTRACT_TIME) :
			    (ARCHIVE_EXTRACT_PERM | ARCHIVE_EXTRACT_TIME | ARCHIVE_EXTRACT_SECURE_NODOTDOT | ARCHIVE_EXTRACT_SECURE_SYMLINKS)); break;
		case 1: r = archive_write_disk_set_standard_lookup(a); break;
		case 2:
			e = archive_entry_new();
			archive_entry_set_mtime(e, 1000000, 0);
			if (arg == 0) { archive_entry_set_pathname(e, "d"); archive_entry_set_mode(e, AE_IFDIR | 0555); }
			else if (arg == 1) { archive_entry_set_pathname(e, "f"); archive_entry_set_mode(e, AE_IFREG | 0644); archive_entry_set_size(e, 10); }
			else if (arg == 2) { archive_entry_set_pathname(e, "d/g"); archive_entry_set_mode(e, AE_IFREG | 0600); archive_entry_set_size(e, 5000); }
			else if (arg == 3) { archive_entry_set_pathname(e, "../escape"); archive_entry_set_mode(e, AE_IFREG | 0644); archive_entry_set_size(e, 1); }
			else { archive_entry_set_pathname(e, "d2/deep/"); archive_entry_set_mode(e, AE_IFDIR | 0750); }
			r = archive_write_header(a, e);
			archive_entry_free(e);
			break;
		case 3: r = archive_write_data(a, data, (size_t)(arg < 0 ? 0 : arg > 4096 ? 4096 : arg)); break;
		case 4: r = archive_write_data_block(a, data, (size_t)(arg < 0 ? 0 : arg > 4096 ? 4096 : arg), 0); break;
		case 5: r = archive_write_finish_entry(a); break;
		case 6: r = archive_write_close(a); break;
		case 7: r = archive_write_fail(a); break;
		case 8: r = archive_write_free(a); a = NULL; break;
		case 9: smoke_accessors(a); r = 0; break;
		case 10: r = archive_write_disk_set_skip_file(a, 1, 2); break;
		default: fprintf(stderr, "harness: unknown disk writer op %d\n", code); break;
		}
		out_call_x(r, a, 0);
	}
	if (a != NULL) archive_write_free(a);
	if (chdir(cwd) != 0) { perror(cwd); exit(4); }
	rm_rf(dir);
}

static void real_match(int variant, val *ops)
{
	struct archive *a = archive_match_new();
	size_t k;
	(void)variant;
	for (k = 0; k < v_len(ops) && a != NULL; k++) {
		val *op = v_at(ops, k);
		int code = (int)v_ll(v_at(op, 0));
		long long r = -9991;
		struct archive_entry *e;
		switch (code) {
		case 0: r = archive_match_include_pattern(a, "a*"); break;
		case 1: r = archive_match_include_pattern(a, ""); break;
		case 2: r = archive_match_exclude_pattern(a, "b"); break;
		case 3: r = archive_match_include_uid(a, 0); break;
		case 4: case 5:
			e = archive_entry_new();
			archive_entry_set_pathname(e, "abc"); archive_entry_set_mode(e, AE_IFREG | 0644);
			archive_entry_set_mtime(e, 5, 0); archive_entry_set_ctime(e, 5, 0);
			r = code == 4 ? archive_match_excluded(a, e) : archive_match_path_excluded(a, e);
			archive_entry_free(e);
			break;
		case 6: r = archive_match_include_date(a, ARCHIVE_MATCH_MTIME | ARCHIVE_MATCH_NEWER, "not a date at all"); break;
		case 7: r = archive_match_free(a); a = NULL; break;
		case 8: { volatile int x = archive_errno(a); const char *s = archive_error_string(a); x += s ? 1 : 0; (void)x; r = 0; break; }
		case 9: r = archive_match_include_uname(a, "root"); break;
		case 10: r = archive_match_include_time(a, ARCHIVE_MATCH_MTIME | ARCHIVE_MATCH_OLDER, 100, 0); break;
		default: fprintf(stderr, "harness: unknown match op %d\n", code); break;
		}
		out_call_x(r, a, 0);
	}
	if (a != NULL) archive_match_free(a);
}

/* ================================================================== one case */
static void run_body(val *c, long caseno)
{
	int mode = (int)v_ll(v_at(c, 0)), kind = (int)v_ll(v_at(c, 1));
	if (mode == 0) {
		if (kind == 0) scripted_reader(v_at(c, 2)); else scripted_writer(v_at(c, 2));
	} else {
		int variant = (int)v_ll(v_at(c, 2));
		val *ops = v_at(c, 3);
		switch (kind) {
		case 0: real_reader(variant, ops); break;
		case 1: real_writer(variant, ops); break;
		case 2: real_read_disk(variant, ops); break;
		case 3: real_write_disk(variant, ops, caseno); break;
		default: real_match(variant, ops); break;
		}
	}
}

static FILE *devnull;

static void run_case(val *c, long caseno)
{
	long long h0, h1;
	int f0, f1, leak = 0, fdleak = 0;
	h0 = HEAP_NOW(); f0 = count_fds();
	o_open();
	run_body(c, caseno);
	h1 = HEAP_NOW(); f1 = count_fds();
	if (h1 > h0 || f1 > f0) {
		/* one-time (or two-stage) allocations of libc / NSS are not leaks of the call sequence:
		 * a leak is reported only if three further executions all grow as well */
		FILE *keep = o_fp; int sp = o_need_sp, round;
		long long minheap = -1; int minfd = -1;
		o_fp = devnull;
		for (round = 0; round < 3; round++) {
			long long g0 = HEAP_NOW(), g1; int e0 = count_fds(), e1;
			run_body(c, caseno);
			fflush(devnull);
			g1 = HEAP_NOW(); e1 = count_fds();
			if (minheap < 0 || g1 - g0 < minheap) minheap = g1 - g0;
			if (minfd < 0 || e1 - e0 < minfd) minfd = e1 - e0;
			if (minheap <= 0 && minfd <= 0) break;
		}
		o_fp = keep; o_need_sp = sp;
		if (h1 > h0 && minheap > 0) leak = (int)minheap;
		if (f1 > f0 && minfd > 0) fdleak = minfd;
	}
	o_int(leak); o_int(fdleak);
	o_close();
	o_endline();
	fflush(stdout);
}

int main(int argc, char **argv)
{
	static char outbuf[1 << 16];
	char **lines = NULL, *line = NULL;
	size_t nlines = 0, cap = 0, lcap = 0;
	ssize_t n;
	FILE *f;
	volatile long *done;
	if (argc < 3) { fprintf(stderr, "usage: magic <cases> <scratch-dir>\n"); return 2; }
	scratch_base = argv[2];
	mkdir(scratch_base, 0755);
	setvbuf(stdout, outbuf, _IOFBF, sizeof(outbuf));
	devnull = fopen("/dev/null", "w");
	f = fopen(argv[1], "r");
	if (f == NULL) { perror(argv[1]); return 2; }
	while ((n = getline(&line, &lcap, f)) >= 0) {
		if (n == 0 || line[0] == '#' || line[0] == '\n') continue;
		if (nlines == cap) { cap = cap ? 2 * cap : 256; lines = realloc(lines, cap * sizeof(char *)); }
		lines[nlines++] = strdup(line);
	}
	fclose(f);
	prepare_inputs();
	if (argc > 3 && strcmp(argv[3], "direct") == 0) {
		/* replay: no fork, so that a sanitizer report (with stacks, and LeakSanitizer at exit) is about this process */
		size_t k;
		for (k = 0; k < nlines; k++) {
			val *v = v_parse(lines[k]);
			run_case(v, (long)k);
			v_free(v);
		}
		goto out;
	}
	done = mmap(NULL, sizeof(long), PROT_READ | PROT_WRITE, MAP_SHARED | MAP_ANONYMOUS, -1, 0);
	*done = 0;
	while ((size_t)*done < nlines) {
		pid_t pid;
		int st;
		fflush(stdout);
		pid = fork();
		if (pid == 0) {
			long k;
			for (k = *done; (size_t)k < nlines; k++) {
				val *v = v_parse(lines[k]);
				run_case(v, k);
				v_free(v);
				*done = k + 1;
			}
			fflush(stdout);
			_exit(0);
		}
		if (pid < 0) { perror("fork"); return 2; }
		waitpid(pid, &st, 0);
		if ((size_t)*done < nlines) {
			/* the child died inside case *done */
			o_need_sp = 0;
			o_open(); o_str("CRASH");
			if (WIFSIGNALED(st)) { o_str("signal"); o_int(WTERMSIG(st)); } else { o_str("exit"); o_int(WEXITSTATUS(st)); }
			o_close(); o_endline();
			fprintf(stderr, "@@crash case %ld\n", *done);
			fflush(stdout);
			*done = *done + 1;
		}
	}
out:
	rm_rf(tree_dir);
	{ size_t k; for (k = 0; k < nlines; k++) free(lines[k]); for (k = 0; k < 6; k++) free(arc[k]); }
	free(lines); free(line);
	fclose(devnull);
	return 0;
}
