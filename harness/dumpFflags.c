/* dumpFflags: prints the fileflags[] table of libarchive/archive_entry.c as this platform's build sees it
 * (one line per row: name set clear, numbers in hex), then "END <bits of unsigned long>".
 * Used by translators/gen_fflags.py; compiled with the build's config.h. */
#include "archive_platform.h"
#include "archive_entry.c"
#include <stdio.h>
int main(void)
{
	const struct flag *f;
	for (f = fileflags; f->name != NULL; f++) {
		size_t i;
		int same = 1;
		for (i = 0; f->name[i] != 0 || f->wname[i] != 0; i++)
			if ((wchar_t)(unsigned char)f->name[i] != f->wname[i]) { same = 0; break; }
		printf("%s %lx %lx %d\n", f->name, f->set, f->clear, same);
	}
	printf("END %d\n", (int)(8 * sizeof(unsigned long)));
	return 0;
}
