/* C20 harness, reader side: reach the static trad_enc_* functions of the zip READER by including its
 * source; public entry points of the included copy are renamed (see crypto_w.c). */
#define archive_read_support_format_zip            verif_hidden_r_support_zip
#define archive_read_support_format_zip_streamable verif_hidden_r_support_zip_streamable
#define archive_read_support_format_zip_seekable   verif_hidden_r_support_zip_seekable
#include "archive_read_support_format_zip.c"

int verif_r_trad_init(uint32_t keys[3], const char *pw, size_t pw_len, const uint8_t *key, size_t key_len,
    uint8_t *crcchk);
void verif_r_trad_decrypt(uint32_t keys[3], const uint8_t *in, size_t in_len, uint8_t *out, size_t out_len);

int verif_r_trad_init(uint32_t keys[3], const char *pw, size_t pw_len, const uint8_t *key, size_t key_len,
    uint8_t *crcchk)
{
	struct trad_enc_ctx ctx;
	int r;
	memcpy(ctx.keys, keys, sizeof(ctx.keys));
	r = trad_enc_init(&ctx, pw, pw_len, key, key_len, crcchk);
	memcpy(keys, ctx.keys, sizeof(ctx.keys));
	return r;
}

void verif_r_trad_decrypt(uint32_t keys[3], const uint8_t *in, size_t in_len, uint8_t *out, size_t out_len)
{
	struct trad_enc_ctx ctx;
	memcpy(ctx.keys, keys, sizeof(ctx.keys));
	trad_enc_decrypt_update(&ctx, in, in_len, out, out_len);
	memcpy(keys, ctx.keys, sizeof(ctx.keys));
}
