/* Correspondence harness for C16.
 *   case (0 pattern subject) : calls the real __archive_pathmatch and __archive_pathmatch_w for
 *        flags 0..3 with pattern and subject each in an EXACT-SIZE heap block (len+1 elements), so
 *        that ASan sees any read past the terminating NUL.  Prints ((n0 n1 n2 n3) (w0 w1 w2 w3)).
 *   case (1 (op ...))        : drives the public archive_match_* API, one result per op.
 * The cases run in a forked child.  When the child dies (ASan/UBSan report, signal, alarm) the
 * parent prints (xCRASH x<kind> x<function>) for the case that was running and forks a new child
 * for the remaining cases, so every case gets exactly one output line.  After MAX_CRASHES crashes
 * the remaining cases are not run any more and answered with (xSKIPPED). */
#include <archive.h>
#include <archive_entry.h>
#include <wchar.h>
#include <unistd.h>
#include <signal.h>
#include <sys/wait.h>
#include <sys/mman.h>
#include "archive_pathmatch.h"
#include "archive_private.h"
#include "val.h"

static wchar_t *widen(val *v)
{
	size_t n = v_len(v), k;
	wchar_t *w = malloc((n + 1) * sizeof(wchar_t));
	/* the C conversion char -> wchar_t (char is signed here): order-preserving and injective */
	for (k = 0; k < n; k++) w[k] = (wchar_t)(char)v->b[k];
	w[n] = L'\0';
	return w;
}

static void case_pathmatch(val *c)
{
	int fl, rn[4], rw[4];
	for (fl = 0; fl < 4; fl++) {
		/* fresh exact-size blocks for every call */
		char *p = v_cstr(v_at(c, 1)), *s = v_cstr(v_at(c, 2));
		wchar_t *pw = widen(v_at(c, 1)), *sw = widen(v_at(c, 2));
		rn[fl] = __archive_pathmatch(p, s, fl);
		rw[fl] = __archive_pathmatch_w(pw, sw, fl);
		free(p); free(s); free(pw); free(sw);
	}
	o_open();
	o_open(); for (fl = 0; fl < 4; fl++) o_int(rn[fl]); o_close();
	o_open(); for (fl = 0; fl < 4; fl++) o_int(rw[fl]); o_close();
	o_close();
	o_endline();
}

static struct archive_entry *mk_entry(val *path)
{
	struct archive_entry *e = archive_entry_new();
	char *p = v_cstr(path);
	archive_entry_copy_pathname(e, p);
	free(p);
	return e;
}

static void set_names(struct archive_entry *e, val *un, val *gn)
{
	if (v_len(un) == 1) { char *n = v_cstr(v_at(un, 0)); archive_entry_copy_uname(e, n); free(n); }
	if (v_len(gn) == 1) { char *n = v_cstr(v_at(gn, 0)); archive_entry_copy_gname(e, n); free(n); }
}

static void case_match(val *c)
{
	struct archive *a = archive_match_new();
	val *ops = v_at(c, 1);
	size_t k;
	o_open();
	for (k = 0; k < v_len(ops); k++) {
		val *op = v_at(ops, k);
		int kind = (int)v_ll(v_at(op, 0));
		struct archive_entry *e;
		char *str;
		switch (kind) {
		case 0: case 1: {
			int wide = (int)v_ll(v_at(op, 2));
			int r;
			if (wide) {
				wchar_t *w = widen(v_at(op, 1));
				r = kind == 0 ? archive_match_include_pattern_w(a, w) : archive_match_exclude_pattern_w(a, w);
				free(w);
			} else {
				str = v_cstr(v_at(op, 1));
				r = kind == 0 ? archive_match_include_pattern(a, str) : archive_match_exclude_pattern(a, str);
				free(str);
			}
			o_int(r);
			break; }
		case 2:
			e = mk_entry(v_at(op, 1));
			o_int(archive_match_path_excluded(a, e));
			archive_entry_free(e);
			break;
		case 3:
			o_int(archive_match_path_unmatched_inclusions(a));
			break;
		case 4: {
			const char *p = NULL;
			int r = archive_match_path_unmatched_inclusions_next(a, &p);
			o_open(); o_int(r); o_optstr(p); o_close();
			break; }
		case 5:
			o_int(archive_match_set_inclusion_recursion(a, (int)v_ll(v_at(op, 1))));
			break;
		case 6: o_int(archive_match_include_uid(a, v_ll(v_at(op, 1)))); break;
		case 7: o_int(archive_match_include_gid(a, v_ll(v_at(op, 1)))); break;
		case 8: case 9:
			str = v_cstr(v_at(op, 1));
			o_int(kind == 8 ? archive_match_include_uname(a, str) : archive_match_include_gname(a, str));
			free(str);
			break;
		case 10:
			e = archive_entry_new();
			archive_entry_set_uid(e, v_ll(v_at(op, 1)));
			archive_entry_set_gid(e, v_ll(v_at(op, 2)));
			set_names(e, v_at(op, 3), v_at(op, 4));
			o_int(archive_match_owner_excluded(a, e));
			archive_entry_free(e);
			break;
		case 11:
			o_int(archive_match_include_time(a, (int)v_ll(v_at(op, 1)), (time_t)v_ll(v_at(op, 2)),
			    (long)v_ll(v_at(op, 3))));
			break;
		case 12:
			e = mk_entry(v_at(op, 2));
			archive_entry_set_mtime(e, (time_t)v_ll(v_at(op, 3)), (long)v_ll(v_at(op, 4)));
			archive_entry_set_ctime(e, (time_t)v_ll(v_at(op, 5)), (long)v_ll(v_at(op, 6)));
			o_int(archive_match_exclude_entry(a, (int)v_ll(v_at(op, 1)), e));
			archive_entry_free(e);
			break;
		case 13: case 14:
			e = mk_entry(v_at(op, 1));
			archive_entry_set_mtime(e, (time_t)v_ll(v_at(op, 2)), (long)v_ll(v_at(op, 3)));
			if (v_ll(v_at(op, 4)))
				archive_entry_set_ctime(e, (time_t)v_ll(v_at(op, 5)), (long)v_ll(v_at(op, 6)));
			if (kind == 13)
				o_int(archive_match_time_excluded(a, e));
			else {
				archive_entry_set_uid(e, v_ll(v_at(op, 7)));
				archive_entry_set_gid(e, v_ll(v_at(op, 8)));
				set_names(e, v_at(op, 9), v_at(op, 10));
				o_int(archive_match_excluded(a, e));
			}
			archive_entry_free(e);
			break;
		default:
			o_open(); o_bytes("ERR", 3); o_int(1); o_close();
		}
	}
	o_close();
	o_endline();
	/* archive_match_free() does not release the error string that a rejected call (empty pattern,
	 * invalid time flag) left in the handle; that leak is outside C16 and reported separately */
	archive_string_free(&a->error_string);
	archive_match_free(a);
}

static void run_case(val *c)
{
	if (v_ll(v_at(c, 0)) == 0) case_pathmatch(c);
	else case_match(c);
}

/* ---- fork-per-crash driver ---- */
#define MAX_CRASHES 60
static char **lines;
static size_t nlines;

static void read_lines(const char *path)
{
	FILE *f = path ? fopen(path, "r") : stdin;
	char *line = NULL;
	size_t cap = 0, acap = 0;
	ssize_t n;
	if (f == NULL) { perror(path); exit(2); }
	while ((n = getline(&line, &cap, f)) >= 0) {
		if (n == 0 || line[0] == '#' || line[0] == '\n') continue;
		if (nlines == acap) { acap = acap ? 2 * acap : 1024; lines = realloc(lines, acap * sizeof(char *)); }
		lines[nlines++] = strdup(line);
	}
	free(line);
	if (path) fclose(f);
}

/* kind and innermost libarchive function of a sanitizer report */
static void classify(const char *err, int status, char *kind, size_t ksz, char *func, size_t fsz)
{
	const char *m;
	snprintf(func, fsz, "unknown");
	if ((m = strstr(err, "ERROR: AddressSanitizer: ")) != NULL) {
		size_t k = 0;
		m += strlen("ERROR: AddressSanitizer: ");
		while (m[k] && m[k] != ' ' && m[k] != '\n' && k + 1 < ksz) { kind[k] = m[k]; k++; }
		kind[k] = '\0';
	} else if (strstr(err, "runtime error:") != NULL)
		snprintf(kind, ksz, "ubsan");
	else if (strstr(err, "LeakSanitizer") != NULL)
		snprintf(kind, ksz, "leak");
	else if (WIFSIGNALED(status))
		snprintf(kind, ksz, WTERMSIG(status) == SIGALRM ? "timeout" : "signal-%d", WTERMSIG(status));
	else
		snprintf(kind, ksz, "exit-%d", WIFEXITED(status) ? WEXITSTATUS(status) : -1);
	for (m = err; (m = strstr(m, "    #")) != NULL; m++) {
		const char *eol = strchr(m, '\n'), *in, *lib;
		if (eol == NULL) eol = m + strlen(m);
		in = strstr(m, " in ");
		lib = strstr(m, "/libarchive/archive_");
		if (in != NULL && in < eol && lib != NULL && lib < eol) {
			size_t k = 0;
			in += 4;
			while (in[k] && in[k] != ' ' && in[k] != '\n' && k + 1 < fsz) { func[k] = in[k]; k++; }
			func[k] = '\0';
			return;
		}
	}
}

int main(int argc, char **argv)
{
	volatile size_t *done;
	size_t start = 0;
	int shown = 0, rc = 0, crashes = 0;
	read_lines(argc > 1 ? argv[1] : NULL);
	done = mmap(NULL, sizeof(size_t), PROT_READ | PROT_WRITE, MAP_SHARED | MAP_ANONYMOUS, -1, 0);
	if (done == MAP_FAILED) { perror("mmap"); return 2; }
	while (start < nlines) {
		int pfd[2], status = 0;
		pid_t pid;
		char *err = NULL;
		size_t elen = 0, ecap = 0;
		ssize_t r;
		char buf[4096];
		fflush(stdout);
		if (pipe(pfd) != 0) { perror("pipe"); return 2; }
		*done = start;
		pid = fork();
		if (pid < 0) { perror("fork"); return 2; }
		if (pid == 0) {
			size_t k;
			close(pfd[0]);
			dup2(pfd[1], 2);
			close(pfd[1]);
			for (k = start; k < nlines; k++) {
				val *v;
				alarm(60);
				v = v_parse(lines[k]);
				run_case(v);
				v_free(v);
				fflush(stdout);
				*done = k + 1;
			}
			alarm(0);
			exit(0);	/* LeakSanitizer runs here */
		}
		close(pfd[1]);
		while ((r = read(pfd[0], buf, sizeof(buf))) > 0) {
			if (elen + (size_t)r + 1 > ecap) { ecap = 2 * (elen + (size_t)r + 1); err = realloc(err, ecap); }
			memcpy(err + elen, buf, (size_t)r);
			elen += (size_t)r;
		}
		close(pfd[0]);
		if (err) err[elen] = '\0';
		waitpid(pid, &status, 0);
		if (*done >= nlines) {
			/* every case answered; a non-zero status now is a leak report at exit */
			if (!(WIFEXITED(status) && WEXITSTATUS(status) == 0)) {
				if (err) fputs(err, stderr);
				rc = WIFEXITED(status) ? WEXITSTATUS(status) : 97;
			}
			free(err);
			break;
		} else {
			char kind[64], func[96];
			classify(err ? err : "", status, kind, sizeof(kind), func, sizeof(func));
			o_open(); o_bytes("CRASH", 5); o_bytes(kind, strlen(kind)); o_bytes(func, strlen(func)); o_close();
			o_endline();
			if (shown < 3 && err) { fprintf(stderr, "--- case #%zu: %s", (size_t)*done, lines[*done]); fputs(err, stderr); shown++; }
			start = *done + 1;
			free(err);
			if (++crashes >= MAX_CRASHES) {
				for (; start < nlines; start++) { o_open(); o_bytes("SKIPPED", 7); o_close(); o_endline(); }
			}
		}
	}
	fflush(stdout);
	return rc;
}
