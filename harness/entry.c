/* Correspondence harness for C14: interprets an operation program on a REAL archive_entry (and,
 * after a clone operation, on its clone) and prints every getter of both objects after EACH step.
 * Protocol: see coq/Entry/EntryRun.v.  Compiled with the private headers (the _l setter variants
 * and the check that archive_entry_sparse_reset leaves a valid iterator need them). */
#include "archive_platform.h"
#include <locale.h>
#include <wchar.h>
#include <sys/stat.h>
#include "archive.h"
#include "archive_entry.h"
#include "archive_entry_locale.h"
#include "archive_private.h"
#include "archive_entry_private.h"
#include "val.h"

/* ---- UTF-8 <-> wchar_t, done here (not by libc / libarchive) so that the views can be compared */
static wchar_t *utf8_to_w(const char *s)
{
	size_t n = strlen(s), i = 0, k = 0;
	wchar_t *w = malloc((n + 1) * sizeof(wchar_t));
	const unsigned char *p = (const unsigned char *)s;
	while (i < n) {
		unsigned c = p[i];
		int len = c < 0x80 ? 1 : (c >> 5) == 6 ? 2 : (c >> 4) == 14 ? 3 : (c >> 3) == 30 ? 4 : 0;
		unsigned cp;
		int j;
		if (len == 0 || i + (size_t)len > n) { free(w); return NULL; }
		cp = len == 1 ? c : c & (0xff >> (len + 1));
		for (j = 1; j < len; j++) {
			if ((p[i + j] & 0xc0) != 0x80) { free(w); return NULL; }
			cp = (cp << 6) | (p[i + j] & 0x3f);
		}
		if ((len == 2 && cp < 0x80) || (len == 3 && cp < 0x800) || (len == 4 && cp < 0x10000) ||
		    cp > 0x10ffff || (cp >= 0xd800 && cp <= 0xdfff)) { free(w); return NULL; }
		w[k++] = (wchar_t)cp;
		i += (size_t)len;
	}
	w[k] = L'\0';
	return w;
}

static char *w_to_utf8(const wchar_t *w)
{
	size_t n = wcslen(w), k = 0, i;
	char *s = malloc(4 * n + 1);
	for (i = 0; i < n; i++) {
		unsigned cp = (unsigned)w[i];
		if (cp < 0x80) s[k++] = (char)cp;
		else if (cp < 0x800) { s[k++] = (char)(0xc0 | (cp >> 6)); s[k++] = (char)(0x80 | (cp & 0x3f)); }
		else if (cp < 0x10000) { s[k++] = (char)(0xe0 | (cp >> 12)); s[k++] = (char)(0x80 | ((cp >> 6) & 0x3f)); s[k++] = (char)(0x80 | (cp & 0x3f)); }
		else { s[k++] = (char)(0xf0 | (cp >> 18)); s[k++] = (char)(0x80 | ((cp >> 12) & 0x3f)); s[k++] = (char)(0x80 | ((cp >> 6) & 0x3f)); s[k++] = (char)(0x80 | (cp & 0x3f)); }
	}
	s[k] = '\0';
	return s;
}

static int same(const char *a, const char *b)
{
	if (a == NULL || b == NULL) return a == b;
	return strcmp(a, b) == 0;
}

/* ( ( [mbs] ) ( (1 ( [utf8] )) (2 ( [wide, re-encoded] )) ) ) : the second list names the views
 * that do not agree with the multibyte view (have_utf8 / have_w: the getter exists) */
static void out_views(const char *mbs, int have_utf8, const char *utf8, int have_w, const wchar_t *w)
{
	char *wu = (have_w && w != NULL) ? w_to_utf8(w) : NULL;
	o_open();
	o_optstr(mbs);
	o_open();
	if (have_utf8 && !same(mbs, utf8)) { o_open(); o_int(1); o_optstr(utf8); o_close(); }
	if (have_w && !same(mbs, wu)) { o_open(); o_int(2); o_optstr(wu); o_close(); }
	o_close();
	o_close();
	free(wu);
}

static void out_entry(struct archive_entry *e)
{
	const struct stat *st;
	int n, dangling, guard;
	la_int64_t off, len;
	const char *xn;
	const void *xv;
	size_t xs;

	o_open();
	/* times */
	o_open();
	o_open(); o_int((vint)archive_entry_atime(e)); o_int(archive_entry_atime_nsec(e)); o_int(archive_entry_atime_is_set(e)); o_close();
	o_open(); o_int((vint)archive_entry_birthtime(e)); o_int(archive_entry_birthtime_nsec(e)); o_int(archive_entry_birthtime_is_set(e)); o_close();
	o_open(); o_int((vint)archive_entry_ctime(e)); o_int(archive_entry_ctime_nsec(e)); o_int(archive_entry_ctime_is_set(e)); o_close();
	o_open(); o_int((vint)archive_entry_mtime(e)); o_int(archive_entry_mtime_nsec(e)); o_int(archive_entry_mtime_is_set(e)); o_close();
	o_close();
	/* ids */
	o_open();
	o_int(archive_entry_uid(e)); o_int(archive_entry_uid_is_set(e));
	o_int(archive_entry_gid(e)); o_int(archive_entry_gid_is_set(e));
	o_int(archive_entry_ino(e)); o_int(archive_entry_ino64(e)); o_int(archive_entry_ino_is_set(e));
	o_int(archive_entry_size(e)); o_int(archive_entry_size_is_set(e));
	o_uint(archive_entry_nlink(e));
	o_close();
	/* mode */
	o_open();
	o_uint(archive_entry_mode(e)); o_uint(archive_entry_perm(e)); o_int(archive_entry_perm_is_set(e));
	o_uint(archive_entry_filetype(e)); o_int(archive_entry_filetype_is_set(e));
	o_close();
	/* devices */
	o_open();
	o_uint(archive_entry_dev(e)); o_int(archive_entry_dev_is_set(e));
	o_uint(archive_entry_devmajor(e)); o_uint(archive_entry_devminor(e));
	o_uint(archive_entry_rdev(e)); o_int(archive_entry_rdev_is_set(e));
	o_uint(archive_entry_rdevmajor(e)); o_uint(archive_entry_rdevminor(e));
	o_close();
	/* misc */
	o_open();
	o_int(archive_entry_symlink_type(e));
	o_int(archive_entry_is_data_encrypted(e)); o_int(archive_entry_is_metadata_encrypted(e));
	o_int(archive_entry_is_encrypted(e));
	o_close();
	/* link names */
	out_views(archive_entry_hardlink(e), 1, archive_entry_hardlink_utf8(e), 1, archive_entry_hardlink_w(e));
	o_int(archive_entry_hardlink_is_set(e));
	out_views(archive_entry_symlink(e), 1, archive_entry_symlink_utf8(e), 1, archive_entry_symlink_w(e));
	/* plain strings */
	o_open();
	out_views(archive_entry_pathname(e), 1, archive_entry_pathname_utf8(e), 1, archive_entry_pathname_w(e));
	out_views(archive_entry_uname(e), 1, archive_entry_uname_utf8(e), 1, archive_entry_uname_w(e));
	out_views(archive_entry_gname(e), 1, archive_entry_gname_utf8(e), 1, archive_entry_gname_w(e));
	out_views(archive_entry_sourcepath(e), 0, NULL, 1, archive_entry_sourcepath_w(e));
	out_views(archive_entry_fflags_text(e), 0, NULL, 0, NULL);
	o_close();
	/* sparse map: reset, then next until it says there is no more.  A reset that leaves the
	 * iterator on a node that is no longer in the list is reported instead of being followed. */
	n = archive_entry_sparse_reset(e);
	dangling = (e->sparse_p != e->sparse_head);
	o_open();
	o_int(dangling); o_int(n);
	o_open();
	for (guard = 0; !dangling && guard < 100000 &&
	    archive_entry_sparse_next(e, &off, &len) == ARCHIVE_OK; guard++) {
		o_open(); o_int(off); o_int(len); o_close();
	}
	o_close();
	o_close();
	/* xattrs */
	n = archive_entry_xattr_reset(e);
	o_open();
	o_int(n);
	o_open();
	for (guard = 0; guard < 100000 && archive_entry_xattr_next(e, &xn, &xv, &xs) == ARCHIVE_OK; guard++) {
		o_open(); o_str(xn); o_bytes(xv, xs); o_close();
	}
	o_close();
	o_close();
	/* struct stat */
	st = archive_entry_stat(e);
	o_open();
	o_int((vint)st->st_atime); o_int((vint)st->st_ctime); o_int((vint)st->st_mtime);
	o_uint(st->st_dev); o_uint(st->st_gid); o_uint(st->st_uid); o_uint(st->st_ino); o_uint(st->st_nlink);
	o_uint(st->st_rdev); o_int((vint)st->st_size); o_uint(st->st_mode);
	o_int(st->st_atim.tv_nsec); o_int(st->st_ctim.tv_nsec); o_int(st->st_mtim.tv_nsec);
	o_close();
	o_close();
}

/* optional string argument: ( ) = NULL, ( x.. ) = the bytes */
static char *opt_arg(val *v)
{
	if (v_len(v) == 0) return NULL;
	return v_cstr(v_at(v, 0));
}

typedef void (*set_s)(struct archive_entry *, const char *);
typedef void (*set_w)(struct archive_entry *, const wchar_t *);
typedef int (*upd_s)(struct archive_entry *, const char *);
typedef int (*set_l)(struct archive_entry *, const char *, size_t, struct archive_string_conv *);

struct strfam { set_s set, set_utf8, copy; set_w copy_w; upd_s update; set_l copy_l; };

static const struct strfam fam_hard = { archive_entry_set_hardlink, archive_entry_set_hardlink_utf8,
	archive_entry_copy_hardlink, archive_entry_copy_hardlink_w, archive_entry_update_hardlink_utf8,
	_archive_entry_copy_hardlink_l };
static const struct strfam fam_sym = { archive_entry_set_symlink, archive_entry_set_symlink_utf8,
	archive_entry_copy_symlink, archive_entry_copy_symlink_w, archive_entry_update_symlink_utf8,
	_archive_entry_copy_symlink_l };
static const struct strfam fam_link = { archive_entry_set_link, archive_entry_set_link_utf8,
	archive_entry_copy_link, archive_entry_copy_link_w, archive_entry_update_link_utf8,
	_archive_entry_copy_link_l };
static const struct strfam fam_path = { archive_entry_set_pathname, archive_entry_set_pathname_utf8,
	archive_entry_copy_pathname, archive_entry_copy_pathname_w, archive_entry_update_pathname_utf8,
	_archive_entry_copy_pathname_l };
static const struct strfam fam_uname = { archive_entry_set_uname, archive_entry_set_uname_utf8,
	archive_entry_copy_uname, archive_entry_copy_uname_w, archive_entry_update_uname_utf8,
	_archive_entry_copy_uname_l };
static const struct strfam fam_gname = { archive_entry_set_gname, archive_entry_set_gname_utf8,
	archive_entry_copy_gname, archive_entry_copy_gname_w, archive_entry_update_gname_utf8,
	_archive_entry_copy_gname_l };

/* call variant v of a string setter family; returns what the function returns (0 for void) */
static int call_fam(const struct strfam *f, struct archive_entry *e, int v, const char *s)
{
	int r = 0;
	switch (v) {
	case 0: f->set(e, s); break;
	case 1: f->set_utf8(e, s); break;
	case 2: f->copy(e, s); break;
	case 3: {
		wchar_t *w = s ? utf8_to_w(s) : NULL;
		if (s != NULL && w == NULL) f->copy(e, s);	/* not valid UTF-8: no wide form to pass */
		else f->copy_w(e, w);
		free(w);
		break; }
	case 4: r = f->update(e, s); break;
	default: r = f->copy_l(e, s, s ? strlen(s) : 0, NULL); break;
	}
	return r;
}

static void run_case(val *c)
{
	struct archive_entry *e = archive_entry_new(), *cl = NULL;
	size_t k;
	o_open();
	for (k = 0; k < v_len(c); k++) {
		val *op = v_at(c, k);
		int code = (int)v_ll(v_at(op, 0));
		long long a1 = v_ll(v_at(op, 1)), a2 = v_ll(v_at(op, 2)), a3 = v_ll(v_at(op, 3));
		int ret = 0;
		switch (code) {
		case 1:
			switch (a1) {
			case 0: archive_entry_set_atime(e, (time_t)a2, (long)a3); break;
			case 1: archive_entry_set_birthtime(e, (time_t)a2, (long)a3); break;
			case 2: archive_entry_set_ctime(e, (time_t)a2, (long)a3); break;
			default: archive_entry_set_mtime(e, (time_t)a2, (long)a3); break;
			}
			break;
		case 2:
			switch (a1) {
			case 0: archive_entry_unset_atime(e); break;
			case 1: archive_entry_unset_birthtime(e); break;
			case 2: archive_entry_unset_ctime(e); break;
			default: archive_entry_unset_mtime(e); break;
			}
			break;
		case 3:
			switch (a1) {
			case 0: archive_entry_set_uid(e, (la_int64_t)a2); break;
			case 1: archive_entry_set_gid(e, (la_int64_t)a2); break;
			case 2: archive_entry_set_ino(e, (la_int64_t)a2); break;
			case 3: archive_entry_set_ino64(e, (la_int64_t)a2); break;
			case 4: archive_entry_set_size(e, (la_int64_t)a2); break;
			default: archive_entry_set_nlink(e, (unsigned int)v_ull(v_at(op, 2))); break;
			}
			break;
		case 4: archive_entry_unset_size(e); break;
		case 5: archive_entry_set_mode(e, (mode_t)v_ull(v_at(op, 1))); break;
		case 6: archive_entry_set_perm(e, (mode_t)v_ull(v_at(op, 1))); break;
		case 7: archive_entry_set_filetype(e, (unsigned int)v_ull(v_at(op, 1))); break;
		case 8: {
			static const int tags[3] = { ARCHIVE_ENTRY_ACL_USER_OBJ, ARCHIVE_ENTRY_ACL_GROUP_OBJ,
				ARCHIVE_ENTRY_ACL_OTHER };
			ret = archive_entry_acl_add_entry(e, ARCHIVE_ENTRY_ACL_TYPE_ACCESS, (int)(a2 & 7),
			    tags[a1 == 0 ? 0 : a1 == 1 ? 1 : 2], -1, NULL);
			break; }
		case 9: {
			dev_t d = (dev_t)v_ull(v_at(op, 3));
			if (a1 == 0) {
				if (a2 == 0) archive_entry_set_dev(e, d);
				else if (a2 == 1) archive_entry_set_devmajor(e, d);
				else archive_entry_set_devminor(e, d);
			} else {
				if (a2 == 0) archive_entry_set_rdev(e, d);
				else if (a2 == 1) archive_entry_set_rdevmajor(e, d);
				else archive_entry_set_rdevminor(e, d);
			}
			break; }
		case 10: archive_entry_set_symlink_type(e, (int)a1); break;
		case 11: archive_entry_set_is_data_encrypted(e, (char)a1); break;
		case 12: archive_entry_set_is_metadata_encrypted(e, (char)a1); break;
		case 13: {
			char *s = opt_arg(v_at(op, 3));
			ret = call_fam(a1 == 0 ? &fam_hard : a1 == 1 ? &fam_sym : &fam_link, e, (int)a2, s);
			free(s);
			break; }
		case 14:
			if (a1 == 0) archive_entry_set_link_to_hardlink(e);
			else if (a1 == 1) archive_entry_set_link_to_symlink(e);
			break;
		case 15: {
			char *s = opt_arg(v_at(op, 3));
			if (a1 == 0) ret = call_fam(&fam_path, e, (int)a2, s);
			else if (a1 == 1) ret = call_fam(&fam_uname, e, (int)a2, s);
			else if (a1 == 2) ret = call_fam(&fam_gname, e, (int)a2, s);
			else if (a1 == 3) {
				wchar_t *w = (a2 == 3 && s) ? utf8_to_w(s) : NULL;
				if (a2 == 3 && (s == NULL || w != NULL)) archive_entry_copy_sourcepath_w(e, w);
				else archive_entry_copy_sourcepath(e, s);
				free(w);
			} else if (s != NULL) {
				wchar_t *w = (a2 == 3) ? utf8_to_w(s) : NULL;
				if (w != NULL) archive_entry_copy_fflags_text_w(e, w);
				else archive_entry_copy_fflags_text(e, s);
				free(w);
			}
			free(s);
			break; }
		case 16: archive_entry_sparse_add_entry(e, (la_int64_t)a1, (la_int64_t)a2); break;
		case 17: archive_entry_sparse_clear(e); break;
		case 18: {
			char *name = v_cstr(v_at(op, 1));
			val *vv = v_at(op, 2);
			archive_entry_xattr_add_entry(e, name, vv->b, v_len(vv));
			free(name);
			break; }
		case 19: archive_entry_xattr_clear(e); break;
		case 20: {
			struct stat st;
			memset(&st, 0, sizeof(st));
			st.st_atime = (time_t)v_ll(v_at(op, 1)); st.st_atim.tv_nsec = (long)v_ll(v_at(op, 2));
			st.st_ctime = (time_t)v_ll(v_at(op, 3)); st.st_ctim.tv_nsec = (long)v_ll(v_at(op, 4));
			st.st_mtime = (time_t)v_ll(v_at(op, 5)); st.st_mtim.tv_nsec = (long)v_ll(v_at(op, 6));
			st.st_dev = (dev_t)v_ull(v_at(op, 7));
			st.st_gid = (gid_t)v_ull(v_at(op, 8));
			st.st_uid = (uid_t)v_ull(v_at(op, 9));
			st.st_ino = (ino_t)v_ull(v_at(op, 10));
			st.st_nlink = (nlink_t)v_ull(v_at(op, 11));
			st.st_rdev = (dev_t)v_ull(v_at(op, 12));
			st.st_size = (off_t)v_ll(v_at(op, 13));
			st.st_mode = (mode_t)v_ull(v_at(op, 14));
			archive_entry_copy_stat(e, &st);
			break; }
		case 21: archive_entry_clear(e); break;
		case 30:
			archive_entry_free(cl);
			cl = archive_entry_clone(e);
			break;
		default:
			if (cl != NULL) { struct archive_entry *t = e; e = cl; cl = t; }
			break;
		}
		o_open();
		o_int(ret);
		out_entry(e);
		o_open();
		if (cl != NULL) out_entry(cl);
		o_close();
		o_close();
	}
	o_close();
	o_endline();
	archive_entry_free(e);
	archive_entry_free(cl);
}

int main(int argc, char **argv)
{
	/* VERIF_LOCALE=C: the same programs in a locale where non-ASCII strings have no multibyte/wide form
	 * (conversions fail): evaluated by the oracle only */
	const char *loc = getenv("VERIF_LOCALE");
	if (setlocale(LC_ALL, loc && *loc ? loc : "C.UTF-8") == NULL) { fprintf(stderr, "no such locale\n"); return 4; }
	return v_foreach_line(argc > 1 ? argv[1] : NULL, run_case);
}
