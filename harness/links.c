/* Correspondence harness for C17: drives the real archive_entry_linkify /
 * archive_entry_partial_links with the operation sequence of each case line. */
#include <archive.h>
#include <archive_entry.h>
#include "val.h"

static void out_entry(struct archive_entry *e)
{
	o_open();
	/* id travels in the mtime field, which the resolver never looks at */
	o_int((vint)archive_entry_mtime(e));
	o_uint((unsigned long long)archive_entry_dev(e));
	o_uint((unsigned long long)archive_entry_ino64(e));
	o_uint((unsigned long long)archive_entry_nlink(e));
	o_uint((unsigned long long)archive_entry_filetype(e));
	o_open();
	if (archive_entry_size_is_set(e)) o_int((vint)archive_entry_size(e));
	o_close();
	o_optstr(archive_entry_hardlink(e));
	o_str(archive_entry_pathname(e));
	o_close();
}

static void out_opt(struct archive_entry *e)
{
	o_open();
	if (e != NULL) out_entry(e);
	o_close();
}

static void run_case(val *c)
{
	struct archive_entry_linkresolver *res = archive_entry_linkresolver_new();
	int strat = (int)v_ll(v_at(c, 0));
	val *ops = v_at(c, 1);
	size_t k;
	/* strategy codes are private; select them through public format codes */
	static const int fmt_of_strategy[4] = {
		ARCHIVE_FORMAT_TAR, ARCHIVE_FORMAT_MTREE, ARCHIVE_FORMAT_CPIO_POSIX,
		ARCHIVE_FORMAT_CPIO_SVR4_NOCRC };
	archive_entry_linkresolver_set_strategy(res, fmt_of_strategy[strat & 3]);
	o_open();
	for (k = 0; k < v_len(ops); k++) {
		val *op = v_at(ops, k);
		int kind = (int)v_ll(v_at(op, 0));
		if (kind == 0) {
			struct archive_entry *e = archive_entry_new(), *f = NULL;
			char *path = v_cstr(v_at(op, 7));
			archive_entry_set_mtime(e, v_ll(v_at(op, 1)), 0);
			archive_entry_set_dev(e, (dev_t)v_ull(v_at(op, 2)));
			archive_entry_set_ino64(e, (la_int64_t)v_ull(v_at(op, 3)));
			archive_entry_set_nlink(e, (unsigned int)v_ull(v_at(op, 4)));
			archive_entry_set_filetype(e, (unsigned int)v_ull(v_at(op, 5)));
			if (v_len(v_at(op, 6)) == 1)
				archive_entry_set_size(e, v_ll(v_at(v_at(op, 6), 0)));
			archive_entry_copy_pathname(e, path);
			free(path);
			archive_entry_linkify(res, &e, &f);
			o_open(); o_int(0); out_opt(e); out_opt(f); o_close();
			archive_entry_free(e);
			archive_entry_free(f);
		} else if (kind == 1) {
			struct archive_entry *e = NULL, *f = NULL;
			archive_entry_linkify(res, &e, &f);
			o_open(); o_int(1); out_opt(e); o_close();
			archive_entry_free(e);
		} else {
			unsigned int links = 0;
			struct archive_entry *e = archive_entry_partial_links(res, &links);
			o_open(); o_int(2); o_open();
			if (e != NULL) { o_open(); out_entry(e); o_uint(links); o_close(); }
			o_close(); o_close();
			/* ownership of the canonical entry stays with the resolver's spare slot:
			 * le->canonical was set to NULL, so the caller owns e */
			archive_entry_free(e);
		}
	}
	o_close();
	o_endline();
	archive_entry_linkresolver_free(res);
}

int main(int argc, char **argv)
{
	return v_foreach_line(argc > 1 ? argv[1] : NULL, run_case);
}
