/* Correspondence protocol, C side (see coq/Base/Val.v).
 * int = [-]hex, bytes = x<hexpairs>, list = ( v v ... ); one case per line. */
#ifndef VERIF_VAL_H
#define VERIF_VAL_H
#include <stdio.h>
#include <stdlib.h>
#include <string.h>

typedef __int128 vint;
typedef struct val {
	int kind;		/* 0 int, 1 bytes, 2 list */
	vint i;
	unsigned char *b;	/* bytes: exact-size malloc block (n bytes, or 1 byte when n == 0) */
	size_t n;		/* bytes: length; list: number of items */
	struct val **items;
} val;

static int v_hex(int c)
{
	if (c >= '0' && c <= '9') return c - '0';
	if (c >= 'a' && c <= 'f') return c - 'a' + 10;
	if (c >= 'A' && c <= 'F') return c - 'A' + 10;
	return -1;
}

static val *v_parse_at(const char **pp)
{
	const char *p = *pp;
	val *v = calloc(1, sizeof(*v));
	while (*p == ' ' || *p == '\t') p++;
	if (*p == '(') {
		size_t cap = 4;
		v->kind = 2;
		v->items = malloc(cap * sizeof(val *));
		p++;
		for (;;) {
			while (*p == ' ' || *p == '\t') p++;
			if (*p == ')') { p++; break; }
			if (*p == '\0' || *p == '\n') { fprintf(stderr, "unterminated list\n"); exit(3); }
			if (v->n == cap) { cap *= 2; v->items = realloc(v->items, cap * sizeof(val *)); }
			v->items[v->n++] = v_parse_at(&p);
		}
	} else if (*p == 'x') {
		const char *q = ++p;
		size_t k;
		while (v_hex(*q) >= 0) q++;
		v->kind = 1;
		v->n = (size_t)(q - p) / 2;
		v->b = malloc(v->n ? v->n : 1);
		for (k = 0; k < v->n; k++)
			v->b[k] = (unsigned char)(v_hex(p[2 * k]) * 16 + v_hex(p[2 * k + 1]));
		p = q;
	} else {
		int neg = 0;
		vint acc = 0;
		if (*p == '-') { neg = 1; p++; }
		if (v_hex(*p) < 0) { fprintf(stderr, "bad token at '%.10s'\n", p); exit(3); }
		while (v_hex(*p) >= 0) { acc = acc * 16 + v_hex(*p); p++; }
		v->kind = 0;
		v->i = neg ? -acc : acc;
	}
	*pp = p;
	return v;
}

static val *v_parse(const char *line) { const char *p = line; return v_parse_at(&p); }

static void v_free(val *v)
{
	size_t k;
	if (v == NULL) return;
	if (v->kind == 2) { for (k = 0; k < v->n; k++) v_free(v->items[k]); free(v->items); }
	free(v->b);
	free(v);
}

static val *v_at(val *v, size_t i)
{
	static val zero;
	if (v == NULL || v->kind != 2 || i >= v->n) return &zero;
	return v->items[i];
}
static long long v_ll(val *v) { return (v && v->kind == 0) ? (long long)v->i : 0; }
static unsigned long long v_ull(val *v) { return (v && v->kind == 0) ? (unsigned long long)v->i : 0; }
static size_t v_len(val *v) { return (v && v->kind != 0) ? v->n : 0; }
/* NUL-terminated copy of a bytes value in an exact-size heap block (n+1 bytes) */
static char *v_cstr(val *v)
{
	size_t n = (v && v->kind == 1) ? v->n : 0;
	char *s = malloc(n + 1);
	if (n) memcpy(s, v->b, n);
	s[n] = '\0';
	return s;
}

/* ---- output ---- */
static int o_need_sp;
static FILE *o_fp;
#define O_FP (o_fp ? o_fp : stdout)
static void o_sp(void) { if (o_need_sp) fputc(' ', O_FP); }
static void o_open(void) { o_sp(); fputc('(', O_FP); o_need_sp = 0; }
static void o_close(void) { fputc(')', O_FP); o_need_sp = 1; }
static void o_int(vint x)
{
	char buf[40];
	int k = 0;
	unsigned __int128 u;
	o_sp();
	if (x < 0) { fputc('-', O_FP); u = (unsigned __int128)(-x); } else u = (unsigned __int128)x;
	if (u == 0) buf[k++] = '0';
	while (u) { buf[k++] = "0123456789abcdef"[(int)(u & 15)]; u >>= 4; }
	while (k) fputc(buf[--k], O_FP);
	o_need_sp = 1;
}
static void o_uint(unsigned long long x) { o_int((vint)x); }
static void o_bytes(const void *p, size_t n)
{
	size_t k;
	const unsigned char *b = p;
	o_sp();
	fputc('x', O_FP);
	{	/* same text as "%02x" per byte, without a formatted-output call per byte (dumps run to megabytes) */
		static const char hx[] = "0123456789abcdef";
		char tmp[1024];
		size_t j = 0;
		for (k = 0; k < n; k++) {
			tmp[j++] = hx[b[k] >> 4];
			tmp[j++] = hx[b[k] & 15];
			if (j == sizeof(tmp)) { fwrite(tmp, 1, j, O_FP); j = 0; }
		}
		if (j) fwrite(tmp, 1, j, O_FP);
	}
	o_need_sp = 1;
}
static void o_str(const char *s) { if (s) o_bytes(s, strlen(s)); else o_bytes("", 0); }
/* option: () for NULL, (x..) otherwise */
static void o_optstr(const char *s) { o_open(); if (s) o_str(s); o_close(); }
static void o_endline(void) { fputc('\n', O_FP); o_need_sp = 0; }

/* read all lines of a case file and call fn(parsed) for each; '#' lines skipped */
static int v_foreach_line(const char *path, void (*fn)(val *))
{
	FILE *f = path ? fopen(path, "r") : stdin;
	char *line = NULL;
	size_t cap = 0;
	ssize_t n;
	if (f == NULL) { perror(path); return 2; }
	while ((n = getline(&line, &cap, f)) >= 0) {
		val *v;
		if (n == 0 || line[0] == '#' || line[0] == '\n') continue;
		v = v_parse(line);
		fn(v);
		v_free(v);
		fflush(O_FP);
	}
	free(line);
	if (path) fclose(f);
	return 0;
}
#endif
