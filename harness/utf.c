/* C18 harness: drives the REAL UTF-8 / UTF-16 coders of libarchive/archive_string.c.
 * The static functions are reached by including the .c file in this translation unit (the include
 * path points at $VERIF_REPO/libarchive); the rest of the library comes from libarchive.a (the
 * archive member archive_string.o is never pulled in because every symbol it defines is defined
 * here).  Case syntax: see coq/Entry/UtfRun.v.  Compile with private=True. */
#include "archive_string.c"

#include <locale.h>
#include <wchar.h>
#include "archive_entry.h"
#include "val.h"

/* exact-size copy of a bytes value (0 bytes -> malloc(0): any access is an ASan error) */
static char *exact(val *v, size_t *n)
{
	char *p;
	*n = (v && v->kind == 1) ? v->n : 0;
	p = malloc(*n);
	if (*n) memcpy(p, v->b, *n);
	return p;
}

static void op_decode(val *c)
{
	size_t n;
	char *s = exact(v_at(c, 2), &n);
	uint32_t uc = 0;
	int r;
	switch ((int)v_ll(v_at(c, 1))) {
	case 0: r = _utf8_to_unicode(&uc, s, n); break;
	case 1: r = utf8_to_unicode(&uc, s, n); break;
	case 2: r = cesu8_to_unicode(&uc, s, n); break;
	case 3: r = utf16be_to_unicode(&uc, s, n); break;
	default: r = utf16le_to_unicode(&uc, s, n); break;
	}
	o_open(); o_int(r); o_uint(uc); o_close(); o_endline();
	free(s);
}

static void op_encode(val *c)
{
	size_t rem = (size_t)v_ull(v_at(c, 2));
	uint32_t uc = (uint32_t)v_ull(v_at(c, 3));
	char *p = malloc(rem);		/* exactly `remaining` bytes */
	size_t w;
	switch ((int)v_ll(v_at(c, 1))) {
	case 0: w = unicode_to_utf8(p, rem, uc); break;
	case 1: w = unicode_to_utf16be(p, rem, uc); break;
	default: w = unicode_to_utf16le(p, rem, uc); break;
	}
	o_open(); o_uint(w); o_bytes(p, w); o_close(); o_endline();
	free(p);
}

static void out_string(int r, struct archive_string *as, int with_cap)
{
	o_open(); o_int(r); o_bytes(as->s ? as->s : "", as->s ? as->length : 0);
	if (with_cap) o_uint(as->buffer_length);
	o_close(); o_endline();
}

static void set_prefix(struct archive_string *as, val *pv)
{
	archive_string_init(as);
	if (v_len(pv) > 0)
		archive_string_append(as, (const char *)pv->b, pv->n);
}

static void op_append_unicode(val *c)
{
	struct archive_string_conv sc;
	struct archive_string as;
	size_t n;
	char *s = exact(v_at(c, 3), &n);
	int r;
	memset(&sc, 0, sizeof(sc));
	sc.flag = (int)v_ll(v_at(c, 1));
	set_prefix(&as, v_at(c, 2));
	r = archive_string_append_unicode(&as, s, n, &sc);
	out_string(r, &as, 1);
	archive_string_free(&as);
	free(s);
}

static void op_u8u8(val *c)
{
	struct archive_string as;
	size_t n;
	char *s = exact(v_at(c, 2), &n);
	int r;
	if (n && memchr(s, 0, n) != NULL) {
		/* never reached through archive_strncat_l (mbsnbytes cuts at the first NUL); a high
		 * surrogate followed by NUL makes this function loop forever, so it is not called */
		o_open(); o_bytes("NUL", 3); o_close(); o_endline();
		free(s);
		return;
	}
	set_prefix(&as, v_at(c, 1));
	r = strncat_from_utf8_to_utf8(&as, s, n, NULL);
	out_string(r, &as, 1);
	archive_string_free(&as);
	free(s);
}

static void op_strncpy_l(val *c)
{
	static const char *names[] = { "UTF-8", "UTF-16BE", "UTF-16LE" };
	int dir = (int)v_ll(v_at(c, 1));
	int cs = (int)v_ll(v_at(c, 2));
	struct archive_string_conv *sc;
	struct archive_string as;
	size_t n;
	char *s = exact(v_at(c, 3), &n);
	int r;
	if (cs < 0 || cs > 2) cs = 0;
	sc = dir ? archive_string_conversion_from_charset(NULL, names[cs], 1)
		 : archive_string_conversion_to_charset(NULL, names[cs], 1);
	archive_string_init(&as);
	if (sc == NULL) {
		o_open(); o_bytes("NOSC", 4); o_close(); o_endline();
		free(s);
		return;
	}
	r = archive_strncpy_l(&as, s, n, sc);
	out_string(r, &as, 0);
	archive_string_free(&as);
	free_sconv_object(sc);
	free(s);
}

static void op_entry(val *c)
{
	struct archive_entry *e = archive_entry_new();
	char *s = v_cstr(v_at(c, 1));
	const char *u8;
	const wchar_t *w;
	archive_entry_copy_pathname(e, s);
	u8 = archive_entry_pathname_utf8(e);
	w = archive_entry_pathname_w(e);
	o_open();
	o_optstr(u8);
	o_open();
	if (w != NULL) {
		o_open();
		for (; *w; w++) o_uint((unsigned long long)(uint32_t)*w);
		o_close();
	}
	o_close();
	o_close(); o_endline();
	archive_entry_free(e);
	free(s);
}

static void op_sweep(val *c)
{
	int fn = (int)v_ll(v_at(c, 1));
	uint32_t lo = (uint32_t)v_ull(v_at(c, 2)), hi = (uint32_t)v_ull(v_at(c, 3)), uc;
	size_t (*enc)(char *, size_t, uint32_t) =
	    fn == 0 ? unicode_to_utf8 : fn == 1 ? unicode_to_utf16be : unicode_to_utf16le;
	int (*dec)(uint32_t *, const char *, size_t) =
	    fn == 0 ? utf8_to_unicode : fn == 1 ? utf16be_to_unicode : utf16le_to_unicode;
	size_t cap = (size_t)(hi > lo ? hi - lo : 0) * 4, used = 0, nm = 0;
	char *all = malloc(cap ? cap : 1);
	uint32_t *mis = malloc(sizeof(uint32_t) * 2 * (hi > lo ? hi - lo : 1));
	size_t k;
	for (uc = lo; uc < hi; uc++) {
		char *b4 = malloc(4), *bex, *bless;
		size_t w = enc(b4, 4, uc), wex, wless;
		uint32_t u2 = 0;
		int n, code = 0;
		bex = malloc(w);		/* exactly the room needed */
		wex = enc(bex, w, uc);
		if (wex != w || memcmp(bex, b4, w) != 0) code |= 1;
		bless = malloc(w ? w - 1 : 0);	/* one byte less: must refuse */
		wless = enc(bless, w ? w - 1 : 0, uc);
		if (wless != 0) code |= 2;
		n = dec(&u2, bex, w);
		if (n != (int)w || u2 != uc) code |= 4;
		memcpy(all + used, b4, w);
		used += w;
		if (code) { mis[2 * nm] = uc; mis[2 * nm + 1] = (uint32_t)code; nm++; }
		free(b4); free(bex); free(bless);
	}
	o_open(); o_bytes(all, used);
	o_open();
	for (k = 0; k < nm; k++) { o_open(); o_uint(mis[2 * k]); o_uint(mis[2 * k + 1]); o_close(); }
	o_close(); o_close(); o_endline();
	free(all); free(mis);
}

static void one(val *c)
{
	switch ((int)v_ll(v_at(c, 0))) {
	case 0: op_decode(c); break;
	case 1: op_encode(c); break;
	case 2: op_append_unicode(c); break;
	case 3: op_strncpy_l(c); break;
	case 4: op_entry(c); break;
	case 6: op_sweep(c); break;
	default: op_u8u8(c); break;
	}
}

int main(int argc, char **argv)
{
	if (setlocale(LC_ALL, "C.UTF-8") == NULL) {
		fprintf(stderr, "no C.UTF-8 locale\n");
		return 4;
	}
	return v_foreach_line(argc > 1 ? argv[1] : NULL, one);
}
