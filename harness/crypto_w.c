/* C20 harness, writer side: reach the static trad_enc_* functions of the zip WRITER by including its
 * source.  The public entry points of the included copy are renamed so that the end-to-end operations in
 * crypto.c still run the library's own build of this file. */
#define archive_write_zip_set_compression_deflate verif_hidden_w_deflate
#define archive_write_zip_set_compression_bzip2   verif_hidden_w_bzip2
#define archive_write_zip_set_compression_zstd    verif_hidden_w_zstd
#define archive_write_zip_set_compression_lzma    verif_hidden_w_lzma
#define archive_write_zip_set_compression_xz      verif_hidden_w_xz
#define archive_write_zip_set_compression_store   verif_hidden_w_store
#define archive_write_set_format_zip              verif_hidden_w_set_format_zip
#include "archive_write_set_format_zip.c"

void verif_w_trad_init(uint32_t keys[3], const char *pw, size_t pw_len);
unsigned verif_w_trad_encrypt(uint32_t keys[3], const uint8_t *in, size_t in_len, uint8_t *out, size_t out_len);

void verif_w_trad_init(uint32_t keys[3], const char *pw, size_t pw_len)
{
	struct trad_enc_ctx ctx;
	memset(&ctx, 0, sizeof(ctx));
	trad_enc_init(&ctx, pw, pw_len);
	memcpy(keys, ctx.keys, sizeof(ctx.keys));
}

unsigned verif_w_trad_encrypt(uint32_t keys[3], const uint8_t *in, size_t in_len, uint8_t *out, size_t out_len)
{
	struct trad_enc_ctx ctx;
	unsigned n;
	memcpy(ctx.keys, keys, sizeof(ctx.keys));
	n = trad_enc_encrypt_update(&ctx, in, in_len, out, out_len);
	memcpy(keys, ctx.keys, sizeof(ctx.keys));
	return n;
}
