/* C19 - event record shared by harness/safeWrite_preload.c and harness/safeWrite.c */
#ifndef SAFEWRITE_EVENTS_H
#define SAFEWRITE_EVENTS_H
#define SW_PATHLEN 300
#define SW_MAX_EVENTS 4096
enum { SW_OPEN = 1, SW_LSTAT, SW_STAT, SW_FSTAT, SW_MKSTEMP, SW_FCHMOD, SW_CHMOD, SW_FCHOWN,
       SW_LCHOWN, SW_CHOWN, SW_LSEEK, SW_WRITE, SW_PWRITE, SW_FTRUNCATE, SW_FUTIMENS,
       SW_UTIMENSAT, SW_CLOSE, SW_RENAME, SW_UNLINK, SW_LINK, SW_RMDIR, SW_MKDIR, SW_OTHER,
       SW_NKINDS };
struct sw_event {
	int kind;
	char path[SW_PATHLEN];		/* canonical path (descriptor calls: the path it was opened with) */
	char path2[SW_PATHLEN];		/* rename/link: second path */
	long long arg;			/* open: flags; *chmod: mode; lseek: offset; write: count; ftruncate: length */
	long long result;		/* >= 0 value (write: count, lseek: offset, else 0); < 0: -errno */
	long long snap_len;		/* target content BEFORE the call: length (-1 = no such name) */
	unsigned long long snap_hash;	/* FNV-1a 64 of it */
};
#endif
