/* Correspondence / oracle harness for C20 (passphrase-protected entries).
 * Linked together with crypto_w.c and crypto_r.c (copies of the zip writer / reader sources that expose the
 * static trad_enc_* functions).  Case = ( op ... ), see coq/Crypto/CryptoRun.v and props/C20.py:
 *   0 crc  1 trad  2 ctr  3 passphrase list          -> compared with the extracted model
 *   4 write+read end to end  7 read a given archive  -> oracle in props/C20.py
 *   6 raw AES-ECB of counter blocks (OpenSSL EVP directly; supplies E to the model as a table)          */
#include "archive_platform.h"
#include <stdint.h>
#include <zlib.h>
#include <openssl/evp.h>
#include "archive.h"
#include "archive_entry.h"
#include "archive_private.h"
#include "archive_read_private.h"
#include "archive_cryptor_private.h"
#include "val.h"

void verif_w_trad_init(uint32_t keys[3], const char *pw, size_t pw_len);
unsigned verif_w_trad_encrypt(uint32_t keys[3], const uint8_t *in, size_t in_len, uint8_t *out, size_t out_len);
int verif_r_trad_init(uint32_t keys[3], const char *pw, size_t pw_len, const uint8_t *key, size_t key_len,
    uint8_t *crcchk);
void verif_r_trad_decrypt(uint32_t keys[3], const uint8_t *in, size_t in_len, uint8_t *out, size_t out_len);

/* growable byte buffer */
struct buf { unsigned char *p; size_t n, cap; };
static void buf_add(struct buf *b, const void *d, size_t n)
{
	if (b->n + n + 1 > b->cap) {
		b->cap = (b->n + n + 1) * 2;
		b->p = realloc(b->p, b->cap);
	}
	if (n) memcpy(b->p + b->n, d, n);
	b->n += n;
}
/* exact-size heap copy, so that ASan sees any access past the end */
static unsigned char *exact(const unsigned char *p, size_t n)
{
	unsigned char *q = malloc(n ? n : 1);
	if (n) memcpy(q, p, n);
	return q;
}

/* ---------------------------------------------------------------- 0: zlib crc32 */
static void op_crc(val *c)
{
	val *b = v_at(c, 2);
	o_uint((unsigned long long)crc32((uLong)v_ull(v_at(c, 1)), b->b, (uInt)v_len(b)));
	o_endline();
}

/* ---------------------------------------------------------------- 1: traditional PKWARE */
/* run one side over the chunk list; enc != 0: writer's encrypt, else reader's decrypt */
static void trad_chunks(int enc, uint32_t keys[3], val *parts, const unsigned char *body, size_t len, struct buf *out)
{
	size_t off = 0, k;
	for (k = 0; k <= v_len(parts); k++) {
		size_t il, ol;
		unsigned char *in, *o;
		if (k < v_len(parts)) {
			il = (size_t)v_ull(v_at(v_at(parts, k), 0));
			ol = (size_t)v_ull(v_at(v_at(parts, k), 1));
			if (il > len - off) il = len - off;
		} else {
			if (off >= len) break;
			il = ol = len - off;
		}
		in = exact(body + off, il);
		o = malloc(ol ? ol : 1);
		if (enc) {
			unsigned n = verif_w_trad_encrypt(keys, in, il, o, ol);
			buf_add(out, o, n);
		} else {
			verif_r_trad_decrypt(keys, in, il, o, ol);
			buf_add(out, o, il < ol ? il : ol);
		}
		free(in); free(o);
		off += il;
	}
}

static void out_keys(uint32_t k[3])
{
	o_open(); o_uint(k[0]); o_uint(k[1]); o_uint(k[2]); o_close();
}

static void op_trad(val *c)
{
	val *pww = v_at(c, 1), *pwr = v_at(c, 2), *rnd = v_at(c, 3), *body = v_at(c, 5);
	unsigned char hdr_plain[12], hdr_enc[12], crcchk = 0;
	uint32_t kw[3], kr[3] = {0, 0, 0};
	struct buf cipher = {0}, plain = {0};
	unsigned char *p;
	int r;

	memset(hdr_plain, 0, sizeof(hdr_plain));
	memcpy(hdr_plain, rnd->b, v_len(rnd) < 11 ? v_len(rnd) : 11);
	hdr_plain[11] = (unsigned char)v_ull(v_at(c, 4));
	p = exact(pww->b, v_len(pww));
	verif_w_trad_init(kw, (const char *)p, v_len(pww));
	free(p);
	verif_w_trad_encrypt(kw, hdr_plain, 12, hdr_enc, 12);
	trad_chunks(1, kw, v_at(c, 6), body->b, v_len(body), &cipher);

	p = exact(pwr->b, v_len(pwr));
	r = verif_r_trad_init(kr, (const char *)p, v_len(pwr), hdr_enc, 12, &crcchk);
	free(p);
	trad_chunks(0, kr, v_at(c, 7), cipher.p, cipher.n, &plain);

	o_open();
	o_bytes(hdr_enc, 12); o_bytes(cipher.p, cipher.n); out_keys(kw);
	o_int(r); o_uint(crcchk); o_bytes(plain.p, plain.n); out_keys(kr);
	o_close(); o_endline();
	free(cipher.p); free(plain.p);
}

/* ---------------------------------------------------------------- 2: aes_ctr_* of archive_cryptor.c */
static void op_ctr(val *c)
{
	val *key = v_at(c, 1), *body = v_at(c, 2), *parts = v_at(c, 3);
	archive_crypto_ctx ctx;
	struct buf out = {0}, lens = {0};
	unsigned char *kp = exact(key->b, v_len(key));
	size_t off = 0, k, len = v_len(body);
	int r, bad = 0;

	memset(&ctx, 0, sizeof(ctx));
	r = archive_encrypto_aes_ctr_init(&ctx, kp, v_len(key));
	free(kp);
	if (r != 0) {
		/* aes_ctr_init leaves the EVP context allocated when it refuses the key length */
		if (ctx.ctx != NULL) EVP_CIPHER_CTX_free(ctx.ctx);
		o_open(); o_int(-1); o_close(); o_endline();
		return;
	}
	for (k = 0; k <= v_len(parts) && !bad; k++) {
		size_t il, ol, olen;
		unsigned char *in, *o;
		if (k < v_len(parts)) {
			il = (size_t)v_ull(v_at(v_at(parts, k), 0));
			ol = (size_t)v_ull(v_at(v_at(parts, k), 1));
			if (il > len - off) il = len - off;
		} else {
			if (off >= len) break;
			il = ol = len - off;
		}
		in = exact(body->b + off, il);
		o = malloc(ol ? ol : 1);
		olen = ol;
		/* the writer uses the encrypto_ entry, the reader the decrypto_ entry: alternate */
		if (k & 1) r = archive_decrypto_aes_ctr_update(&ctx, in, il, o, &olen);
		else r = archive_encrypto_aes_ctr_update(&ctx, in, il, o, &olen);
		if (r != 0) bad = 1;
		else { uint64_t l64 = olen; buf_add(&out, o, olen); buf_add(&lens, &l64, sizeof(l64)); }
		free(in); free(o);
		off += il;
	}
	o_open();
	if (bad) o_int(-2);
	else {
		o_int(0); o_bytes(out.p, out.n);
		o_open();
		for (k = 0; k < lens.n / sizeof(uint64_t); k++) { uint64_t l64; memcpy(&l64, lens.p + k * sizeof(l64), sizeof(l64)); o_uint(l64); }
		o_close();
		o_bytes(ctx.nonce, sizeof(ctx.nonce)); o_uint(ctx.encr_pos);
	}
	o_close(); o_endline();
	archive_encrypto_aes_ctr_release(&ctx);
	free(out.p); free(lens.p);
}

/* ---------------------------------------------------------------- 6: raw AES-ECB of counter blocks 0..n */
static void op_ecb(val *c)
{
	val *key = v_at(c, 1);
	unsigned long long n = v_ull(v_at(c, 2)), k;
	const EVP_CIPHER *type = v_len(key) == 16 ? EVP_aes_128_ecb() : v_len(key) == 24 ? EVP_aes_192_ecb() :
	    v_len(key) == 32 ? EVP_aes_256_ecb() : NULL;
	EVP_CIPHER_CTX *e = EVP_CIPHER_CTX_new();
	o_open();
	if (type != NULL && e != NULL && EVP_EncryptInit_ex(e, type, NULL, key->b, NULL) == 1) {
		EVP_CIPHER_CTX_set_padding(e, 0);
		for (k = 0; k <= n; k++) {
			unsigned char blk[16], enc[32];
			int j, outl = 0;
			memset(blk, 0, sizeof(blk));
			for (j = 0; j < 8; j++) blk[j] = (unsigned char)(k >> (8 * j));
			if (EVP_EncryptUpdate(e, enc, &outl, blk, 16) != 1 || outl != 16) break;
			o_open(); o_bytes(blk, 16); o_bytes(enc, 16); o_close();
		}
	}
	o_close(); o_endline();
	EVP_CIPHER_CTX_free(e);
}

/* ---------------------------------------------------------------- passphrase callback with scripted answers */
struct cbstate { val *script; size_t next; char *keep[64]; size_t nkeep; unsigned calls; };
static const char *pp_cb(struct archive *a, void *data)
{
	struct cbstate *s = data;
	val *ans;
	(void)a;
	s->calls++;
	if (s->next >= v_len(s->script)) return NULL;
	ans = v_at(s->script, s->next++);
	if (v_len(ans) != 1 || s->nkeep >= 64) return NULL;
	s->keep[s->nkeep] = v_cstr(v_at(ans, 0));
	return s->keep[s->nkeep++];
}
static void cb_free(struct cbstate *s) { size_t k; for (k = 0; k < s->nkeep; k++) free(s->keep[k]); }

static void out_pp_state(struct archive_read *ar)
{
	struct archive_read_passphrase *p;
	o_open();
	for (p = ar->passphrases.first; p != NULL; p = p->next) o_str(p->passphrase);
	o_close();
	o_int(ar->passphrases.candidate);
}

/* ---------------------------------------------------------------- 3: passphrase list operations */
static void op_pp(val *c)
{
	struct archive *a = archive_read_new();
	struct archive_read *ar = (struct archive_read *)a;
	struct cbstate cbs;
	val *ops = v_at(c, 3);
	size_t k;

	memset(&cbs, 0, sizeof(cbs));
	cbs.script = v_at(c, 2);
	if (v_ll(v_at(c, 1))) archive_read_set_passphrase_callback(a, &cbs, pp_cb);
	o_open();
	for (k = 0; k < v_len(ops); k++) {
		val *op = v_at(ops, k);
		int kind = (int)v_ll(v_at(op, 0));
		o_open();
		if (kind == 0) {
			const char *r = __archive_read_next_passphrase(ar);
			o_int(0); o_optstr(r);
		} else if (kind == 1) {
			__archive_read_reset_passphrase(ar);
			o_int(1); o_open(); o_close();
		} else {
			char *pw = v_cstr(v_at(op, 1));
			int st = archive_read_add_passphrase(a, pw);
			free(pw);
			o_int(2); o_open(); o_int(st); o_close();
		}
		out_pp_state(ar);
		o_close();
	}
	o_close(); o_endline();
	archive_read_free(a);
	cb_free(&cbs);
}

/* ---------------------------------------------------------------- reading an archive */
struct stream { const unsigned char *p; size_t len, off, bs; unsigned char *cur; };
static la_ssize_t stream_read(struct archive *a, void *data, const void **buff)
{
	struct stream *s = data;
	size_t n = s->len - s->off;
	(void)a;
	if (n > s->bs) n = s->bs;
	free(s->cur);
	s->cur = exact(s->p + s->off, n);
	s->off += n;
	*buff = s->cur;
	return (la_ssize_t)n;
}

static int err_class(const char *m)
{
	if (m == NULL) return 0;
	if (strstr(m, "Passphrase required")) return 1;
	if (strstr(m, "Incorrect passphrase")) return 2;
	if (strstr(m, "Too many incorrect")) return 3;
	if (strstr(m, "bad Authentication code")) return 4;
	if (strstr(m, "bad CRC")) return 5;
	if (strstr(m, "Corrupted ZIP")) return 6;
	return 9;
}

/* cfg = (items has_cb script readmode blocksize readchunk datalimit) */
static void read_archive(const unsigned char *arc, size_t arclen, val *cfg)
{
	val *items = v_at(cfg, 0);
	int has_cb = (int)v_ll(v_at(cfg, 1)), readmode = (int)v_ll(v_at(cfg, 3));
	size_t bs = (size_t)v_ull(v_at(cfg, 4)), chunk = (size_t)v_ull(v_at(cfg, 5)), limit = (size_t)v_ull(v_at(cfg, 6));
	struct archive *a = archive_read_new();
	struct archive_read *ar = (struct archive_read *)a;
	struct archive_entry *ae;
	struct cbstate cbs;
	struct stream st;
	unsigned char *copy = exact(arc, arclen), *rbuf;
	size_t k;
	int r, nent = 0;

	if (bs == 0) bs = 1;
	if (chunk == 0) chunk = 1;
	rbuf = malloc(chunk);
	memset(&cbs, 0, sizeof(cbs));
	memset(&st, 0, sizeof(st));
	cbs.script = v_at(cfg, 2);
	archive_read_support_format_zip(a);
	o_open();
	o_open();
	for (k = 0; k < v_len(items); k++) {
		char *pw = v_cstr(v_at(items, k));
		o_int(archive_read_add_passphrase(a, pw));
		free(pw);
	}
	o_close();
	if (has_cb) archive_read_set_passphrase_callback(a, &cbs, pp_cb);
	o_int(archive_read_has_encrypted_entries(a));
	if (readmode == 0)
		r = archive_read_open_memory2(a, copy, arclen, bs);
	else {
		st.p = copy; st.len = arclen; st.bs = bs;
		r = archive_read_open(a, &st, NULL, stream_read, NULL);
	}
	o_int(r);
	o_open();
	while (r >= ARCHIVE_WARN && nent < 16) {
		struct buf data = {0};
		long long n = 0;
		unsigned okcalls = 0;
		int hr = archive_read_next_header(a, &ae);
		if (hr == ARCHIVE_EOF) break;
		nent++;
		o_open();
		o_int(hr);
		if (hr < ARCHIVE_WARN) {
			o_int(err_class(archive_error_string(a))); o_str(archive_error_string(a));
			o_close();
			break;		/* a header that cannot be delivered ends the walk */
		}
		o_str(archive_entry_pathname(ae));
		o_open(); if (archive_entry_size_is_set(ae)) o_int(archive_entry_size(ae)); o_close();
		o_int(archive_entry_is_data_encrypted(ae));
		o_int(archive_entry_is_metadata_encrypted(ae));
		o_int(archive_read_has_encrypted_entries(a));
		for (;;) {
			n = archive_read_data(a, rbuf, chunk);
			if (n <= 0) break;
			okcalls++;
			buf_add(&data, rbuf, (size_t)n);
		}
		/* final status (0 = clean end of entry), number of successful calls, error class and text */
		o_int(n); o_uint(okcalls);
		o_int(n < 0 ? err_class(archive_error_string(a)) : 0);
		o_str(n < 0 ? archive_error_string(a) : "");
		o_uint(data.n);
		o_uint((unsigned long long)crc32(0, data.p, (uInt)data.n));
		o_open(); if (data.n <= limit) o_bytes(data.p, data.n); o_close();
		o_int(archive_read_has_encrypted_entries(a));
		o_close();
		free(data.p);
		if (n == ARCHIVE_FATAL) break;
	}
	o_close();
	out_pp_state(ar);
	o_uint(cbs.calls);
	o_int(archive_read_close(a));
	o_close();
	archive_read_free(a);
	cb_free(&cbs);
	free(st.cur); free(copy); free(rbuf);
}

/* ---------------------------------------------------------------- 4: write with a passphrase, read back */
static const char *wr_cb(struct archive *a, void *data) { (void)a; return (const char *)data; }

/* (4 enc comp xPASS wmode sizemode mtime wchunk (xBODY ...) (cfg ...) archivelimit) */
static void op_e2e(val *c)
{
	static const char *encs[] = { NULL, "zip:encryption=zipcrypt", "zip:encryption=aes128", "zip:encryption=aes256" };
	int enc = (int)v_ll(v_at(c, 1)), comp = (int)v_ll(v_at(c, 2)), wmode = (int)v_ll(v_at(c, 4));
	int sizemode = (int)v_ll(v_at(c, 5));
	long long mtime = v_ll(v_at(c, 6));
	size_t wchunk = (size_t)v_ull(v_at(c, 7)), alimit = (size_t)v_ull(v_at(c, 10));
	val *bodies = v_at(c, 8), *cfgs = v_at(c, 9);
	char *pass = v_cstr(v_at(c, 3));
	struct archive *a = archive_write_new();
	size_t total = 0, used = 0, cap, k;
	unsigned char *arc;

	for (k = 0; k < v_len(bodies); k++) total += v_len(v_at(bodies, k));
	cap = total + total / 8 + 65536;
	arc = malloc(cap);
	if (wchunk == 0) wchunk = 1;

	o_open();
	o_open();
	o_int(archive_write_set_format_zip(a));
	o_int(enc >= 1 && enc <= 3 ? archive_write_set_options(a, encs[enc]) : 0);
	o_int(archive_write_set_options(a, comp == 8 ? "zip:compression=deflate" : "zip:compression=store"));
	if (wmode == 0) o_int(archive_write_set_passphrase(a, pass));
	else if (wmode == 1) o_int(archive_write_set_passphrase_callback(a, pass, wr_cb));
	else o_int(0);		/* no passphrase at all */
	o_int(archive_write_open_memory(a, arc, cap, &used));
	o_close();
	o_open();
	for (k = 0; k < v_len(bodies); k++) {
		val *b = v_at(bodies, k);
		struct archive_entry *e = archive_entry_new();
		char name[32];
		size_t off = 0;
		long long worst = 0, wr = 0;
		int hr;
		snprintf(name, sizeof(name), "f%u.bin", (unsigned)k);
		archive_entry_copy_pathname(e, name);
		archive_entry_set_filetype(e, AE_IFREG);
		archive_entry_set_perm(e, 0644);
		archive_entry_set_mtime(e, (time_t)mtime, 0);
		if (sizemode) archive_entry_set_size(e, (la_int64_t)v_len(b));
		hr = archive_write_header(a, e);
		while (hr >= ARCHIVE_WARN && off < v_len(b)) {
			size_t n = v_len(b) - off;
			unsigned char *piece;
			la_ssize_t w;
			if (n > wchunk) n = wchunk;
			piece = exact(b->b + off, n);
			w = archive_write_data(a, piece, n);
			free(piece);
			if (w < 0) { worst = w; break; }
			if (w == 0) break;
			wr += w; off += (size_t)w;
		}
		o_open(); o_int(hr); o_int(worst); o_int(wr); o_int(archive_write_finish_entry(a));
		o_str(worst < 0 || hr < 0 ? archive_error_string(a) : "");
		o_close();
		archive_entry_free(e);
	}
	o_close();
	o_int(archive_write_close(a));
	archive_write_free(a);
	o_uint(used);
	o_open(); if (used <= alimit) o_bytes(arc, used); o_close();
	o_open();
	for (k = 0; k < v_len(cfgs); k++) read_archive(arc, used, v_at(cfgs, k));
	o_close();
	o_close(); o_endline();
	free(arc); free(pass);
}

/* (7 xARCHIVE (cfg ...)) */
static void op_read(val *c)
{
	val *arc = v_at(c, 1), *cfgs = v_at(c, 2);
	size_t k;
	o_open();
	for (k = 0; k < v_len(cfgs); k++) read_archive(arc->b, v_len(arc), v_at(cfgs, k));
	o_close(); o_endline();
}

static void run_case(val *c)
{
	switch ((int)v_ll(v_at(c, 0))) {
	case 0: op_crc(c); break;
	case 1: op_trad(c); break;
	case 2: op_ctr(c); break;
	case 3: op_pp(c); break;
	case 4: op_e2e(c); break;
	case 6: op_ecb(c); break;
	case 7: op_read(c); break;
	default: o_open(); o_str("ERR"); o_int(9); o_close(); o_endline(); break;
	}
}

int main(int argc, char **argv)
{
	return v_foreach_line(argc > 1 ? argv[1] : NULL, run_case);
}
